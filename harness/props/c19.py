"""C19 — Symmetry rules are abelian groups and legs hold canonical charges.

Tie to the source: (a) translator gen_sym.py regenerates YModel/SymGen.lean from yastn/sym/*.py and
the theorems of YProofs/Props/C19*.lean are re-checked about *those* rules; (b) box correspondence
between the real `fuse` / `add_charges` / `Leg` and the Lean model's executable definitions (this also
cross-checks the translator); (c) eager oracle: the group axioms evaluated directly on the real code.
"""
import itertools

import numpy as np

LEAN_TARGETS = ["YProofs.Props.C19", "YProofs.Props.C19Leg"]
LEVEL = "proof"
TRANSLATORS = ["gen_sym"]
DRIVER = "drv_c19"

EXPECTED = {"dense": [], "Z2": [2], "Z3": [3], "U1": [0], "U1xU1": [0, 0], "Z2xU1": [2, 0], "U1xU1xZ2": [0, 0, 2]}


def real_syms():
    import importlib
    import pkgutil
    import yastn.sym as ys
    out = {}
    for m in pkgutil.iter_modules(ys.__path__):
        if not m.name.startswith("sym_") or m.name == "sym_abelian":
            continue
        mod = importlib.import_module(f"yastn.sym.{m.name}")
        for v in vars(mod).values():
            if isinstance(v, type) and hasattr(v, "SYM_ID") and v.__module__ == mod.__name__:
                out[v.SYM_ID] = v
    return out


def comp_range(m, B, outside=0):
    if m == 0:
        return list(range(-B - outside, B + outside + 1))
    return list(range(-outside, m + outside))


def charge_box(ms, B, outside=0):
    return [list(c) for c in itertools.product(*[comp_range(m, B, outside) for m in ms])]


def real_fuse_rows(sym, rows, ss, sn):
    """rows: list of lists of charges (k × m × nsym)."""
    k, m = len(rows), len(ss)
    arr = np.array(rows, dtype=np.int64).reshape(k, m, sym.NSYM)
    res = sym.fuse(arr, np.array(ss, dtype=np.int64), sn)
    return np.asarray(res).reshape(k, sym.NSYM).tolist()


def canon_ok(ms, t):
    return len(t) == len(ms) and all(m == 0 or 0 <= x < m for m, x in zip(ms, t))


def run(ctx):
    rng = ctx.rng
    quick = ctx.quick
    B = 3 if quick else 6
    syms = real_syms()
    ctx.rule = ("box correspondence real fuse/add_charges/Leg vs Lean model (complete for finite factors, |t|<=B for U(1), "
                "1..4 charges, all signature vectors, both new signatures; Leg arguments in and just outside the valid "
                "domain) + group axioms evaluated on the real fuse; a case is non-trivial if it has >=2 charges or is a Leg "
                "construction; distinct by (sym, charges, signatures)")
    info = ctx.drv.call({"op": "sym_info"}) if ctx.drv else {"syms": []}
    model_syms = {d["id"]: d for d in info.get("syms", [])}
    # translator cross-check: the set of symmetries and NSYM must coincide
    for sid, cls in syms.items():
        if sid not in model_syms:
            ctx.fail("translator", f"c19:missing-sym:{sid}", f"symmetry {sid} exists in yastn.sym but not in generated SymGen.lean")
        elif model_syms[sid]["nsym"] != cls.NSYM:
            ctx.fail("translator", f"c19:nsym:{sid}", f"NSYM mismatch for {sid}")
    for sid in EXPECTED:
        if sid not in syms:
            ctx.fail("correspondence", f"c19:shipped-sym-missing:{sid}", f"shipped symmetry {sid} not found in yastn.sym")

    for sid, sym in sorted(syms.items()):
        ms = EXPECTED.get(sid)
        if ms is None:
            ctx.notes.append(f"symmetry {sid} has no specification (not one of the shipped seven); only model correspondence")
            ms = (model_syms.get(sid, {}).get("moduli")) or [0] * sym.NSYM
        box = charge_box(ms, B)
        wide = charge_box(ms, B if quick else B, outside=2)  # also non-canonical inputs
        # ---------------- fuse: model vs real --------------------------------------------
        for m in (1, 2, 3, 4):
            sigs = list(itertools.product((1, -1), repeat=m))
            total = len(wide) ** m
            limit = (600 if quick else 20000)
            if total <= limit:
                rows = [list(r) for r in itertools.product(wide, repeat=m)]
                ctx.count(f"{sid}:m{m}:exhaustive")
            else:
                rows = [[rng.choice(wide) for _ in range(m)] for _ in range(limit)]
                ctx.count(f"{sid}:m{m}:sampled")
            for ss in sigs:
                for sn in (1, -1):
                    real = real_fuse_rows(sym, rows, ss, sn)
                    ctx.count("fuse_rows", len(rows))
                    if ctx.drv:
                        mod = ctx.drv.call({"op": "fuse_batch", "sym": sid,
                                            "cases": [[r, list(ss), sn] for r in rows]})
                        if not mod.get("ok"):
                            ctx.fail("correspondence", f"c19:model-error:{sid}", f"model error {mod}")
                            break
                        for r, a, b in zip(rows, real, mod["res"]):
                            if a != b:
                                ctx.fail("correspondence", f"c19:fuse:{sid}",
                                         f"fuse disagrees for {sid}: charges={r} signatures={ss} new_signature={sn}: real={a} model={b}",
                                         case={"sym": sid, "charges": r, "signatures": list(ss), "new_signature": sn, "real": a, "model": b})
                                break
                    # oracle: canonical range of every result on the real code
                    for r, a in zip(rows, real):
                        if not canon_ok(ms, a):
                            ctx.fail("oracle", f"c19:range:{sid}",
                                     f"{sid}.fuse returns a charge outside the canonical range: charges={r} signatures={ss} new_signature={sn} -> {a}",
                                     case={"sym": sid, "charges": r, "signatures": list(ss), "new_signature": sn, "result": a},
                                     concrete=True)
                            break
            for r in rows[:: max(1, len(rows) // 50)]:
                ctx.case({"sym": sid, "charges": r}, nontrivial=(m >= 2), sample_every=997)
            ctx.evaluations += len(rows) * len(sigs) * 2 - len(rows[:: max(1, len(rows) // 50)])
        # ---------------- group axioms on the real code (oracle, eager) ------------------------
        if sym.NSYM > 0:
            pts = box if len(box) <= (40 if quick else 200) else rng.sample(box, 40 if quick else 200)
            zero = list(sym.zero())
            add = lambda a, b: list(sym.add_charges(tuple(a), tuple(b)))
            for a in pts:
                if add(a, zero) != a:
                    ctx.fail("oracle", f"c19:identity:{sid}", f"{sid}: a+0 != a for a={a}", case={"sym": sid, "a": a}, concrete=True)
                for s in (1, -1):
                    inv = list(sym.add_charges(tuple(a), signatures=(s,), new_signature=-s))
                    if add(a, inv) != zero:
                        ctx.fail("oracle", f"c19:inverse:{sid}", f"{sid}: a + flip(a) != 0 for a={a}, s={s}", case={"sym": sid, "a": a, "s": s}, concrete=True)
                    if list(sym.add_charges(tuple(a), signatures=(s,), new_signature=s)) != a:
                        ctx.fail("oracle", f"c19:idem:{sid}", f"{sid}: canonical charge {a} not a fixed point of fuse([a],[s],s)", case={"sym": sid, "a": a, "s": s}, concrete=True)
                for b in pts[:: max(1, len(pts) // 12)]:
                    if add(a, b) != add(b, a):
                        ctx.fail("oracle", f"c19:comm:{sid}", f"{sid}: a+b != b+a for {a},{b}", case={"sym": sid, "a": a, "b": b}, concrete=True)
                    for c in pts[:: max(1, len(pts) // 6)]:
                        if add(add(a, b), c) != add(a, add(b, c)):
                            ctx.fail("oracle", f"c19:assoc:{sid}", f"{sid}: (a+b)+c != a+(b+c) for {a},{b},{c}", case={"sym": sid, "a": a, "b": b, "c": c}, concrete=True)
                        ctx.count("axiom_evals")
            # grouping law on the real code + model
            ngroup = 150 if quick else 3000
            greqs, gcases = [], []
            for _ in range(ngroup):
                m = rng.randint(2, 6)
                cs = [rng.choice(wide) for _ in range(m)]
                ss = [rng.choice((1, -1)) for _ in range(m)]
                sn = rng.choice((1, -1))
                cuts = sorted(rng.sample(range(1, m), rng.randint(0, m - 1)))
                bounds = [0] + cuts + [m]
                groups = [(cs[i:j], ss[i:j], rng.choice((1, -1))) for i, j in zip(bounds, bounds[1:])]
                inner = [list(sym.add_charges(*map(tuple, g[0]), signatures=tuple(g[1]), new_signature=g[2])) for g in groups]
                lhs = list(sym.add_charges(*map(tuple, inner), signatures=tuple(g[2] for g in groups), new_signature=sn))
                rhs = list(sym.add_charges(*map(tuple, cs), signatures=tuple(ss), new_signature=sn))
                case = {"sym": sid, "charges": cs, "signatures": ss, "new_signature": sn, "cuts": cuts,
                        "group_signatures": [g[2] for g in groups]}
                ctx.case(case)
                ctx.count("grouping")
                if lhs != rhs:
                    ctx.fail("oracle", f"c19:grouping:{sid}", f"{sid}: grouped fusion {lhs} != flat fusion {rhs}", case=case, concrete=True)
                greqs.append([cs, ss, sn])
                gcases.append(rhs)
            if ctx.drv:
                mod = ctx.drv.call({"op": "add_charges_batch", "sym": sid, "cases": greqs})
                for rq, a, b in zip(greqs, gcases, mod.get("res", [])):
                    if a != b:
                        ctx.fail("correspondence", f"c19:add_charges:{sid}", f"add_charges disagrees {rq}: real={a} model={b}", case={"sym": sid, "req": rq})
                        break
        # add_charges with default signatures / no arguments
        if ctx.drv:
            reqs = [[[], None, 1]] + [[[rng.choice(wide) for _ in range(rng.randint(1, 4))], None, rng.choice((1, -1))] for _ in range(30)]
            mod = ctx.drv.call({"op": "add_charges_batch", "sym": sid, "cases": reqs})
            for rq, b in zip(reqs, mod.get("res", [])):
                a = list(sym.add_charges(*map(tuple, rq[0]), new_signature=rq[2]))
                ctx.count("add_charges_default")
                if a != b:
                    ctx.fail("correspondence", f"c19:add_charges_default:{sid}", f"add_charges disagrees {rq}: real={a} model={b}", case={"sym": sid, "req": rq})
        # add_charges with explicit signatures and the new_signature left at its documented default (1)
        if sym.NSYM > 0:
            dreqs = []
            for _ in range(40 if quick else 400):
                m = rng.randint(1, 4)
                dreqs.append([[rng.choice(wide) for _ in range(m)], [rng.choice((1, -1)) for _ in range(m)], 1])
            mod = ctx.drv.call({"op": "add_charges_batch", "sym": sid, "cases": dreqs}).get("res", []) if ctx.drv else [None] * len(dreqs)
            for rq, b in zip(dreqs, mod):
                a = list(sym.add_charges(*map(tuple, rq[0]), signatures=tuple(rq[1])))
                ref = list(sym.add_charges(*map(tuple, rq[0]), signatures=tuple(rq[1]), new_signature=1))
                ctx.count("add_charges_default_new_signature")
                case = {"sym": sid, "charges": rq[0], "signatures": rq[1], "new_signature": "default"}
                if a != ref:
                    ctx.fail("oracle", f"c19:add_charges-default-new-signature:{sid}", f"{sid}: add_charges{tuple(map(tuple, rq[0]))} with signatures={rq[1]} and "
                             f"new_signature left at its default gives {a}, with new_signature=1 (the documented default) {ref}", case=case, concrete=True)
                elif b is not None and a != b:
                    ctx.fail("correspondence", f"c19:add_charges_default:{sid}", f"add_charges disagrees {rq}: real={a} model={b}", case=case)
        # ---------------- Leg ---------------------------------------------------------------
        run_legs(ctx, sid, sym, ms, B)
        run_legs_noninteger(ctx, sid, sym, ms, B)
        run_fused_legs(ctx, sid, sym, ms, B)


def leg_args(rng, ms, B, nsym):
    """structured, mostly valid Leg arguments plus arguments just outside the valid domain."""
    ns = rng.randint(0, 4) if nsym > 0 else rng.randint(0, 2)
    kind = rng.random()
    s = rng.choice((1, -1))
    t = []
    for _ in range(ns):
        t.append([rng.choice(comp_range(m, B)) for m in ms])
    D = [rng.randint(1, 4) for _ in range(ns)]
    if kind < 0.45:
        # valid: make charges unique
        uniq = []
        for c in t:
            if c not in uniq:
                uniq.append(c)
        t, D = uniq, D[:len(uniq)]
        tag = "valid"
    elif kind < 0.55:
        s = rng.choice((0, 2, -2, 3)); tag = "bad-signature"
    elif kind < 0.65 and ns > 0:
        D[rng.randrange(ns)] = rng.choice((0, -1)); tag = "bad-dim"
    elif kind < 0.75 and ns > 0 and nsym > 0:
        i = rng.randrange(ns); j = rng.randrange(nsym)
        m = ms[j]
        t[i][j] = rng.choice((-1, m, m + 1, -2)) if m > 0 else t[i][j]
        tag = "out-of-range" if m > 0 else "valid?"
    elif kind < 0.85 and ns > 0:
        t.append(list(t[rng.randrange(ns)])); D.append(rng.randint(1, 3)); tag = "repeated"
    elif kind < 0.95:
        if rng.random() < 0.5 and D:
            D = D[:-1]
        else:
            D = D + [rng.randint(1, 3)]
        tag = "count"
    else:
        tag = "random"
    flat = [x for c in t for x in c]
    return s, flat, D, tag


def run_legs(ctx, sid, sym, ms, B):
    import yastn
    rng = ctx.rng
    n = 250 if ctx.quick else 4000
    cases, tags = [], []
    for _ in range(n):
        s, t, D, tag = leg_args(rng, ms, B, sym.NSYM)
        cases.append([s, t, D]); tags.append(tag)
    mod = ctx.drv.call({"op": "leg_batch", "sym": sid, "cases": cases}) if ctx.drv else None
    for idx, (c, tag) in enumerate(zip(cases, tags)):
        s, t, D = c
        nsym = sym.NSYM
        tt = [tuple(t[i:i + nsym]) for i in range(0, len(t), nsym)] if nsym > 0 else ()
        if nsym > 0 and len(t) % nsym != 0:
            tt = tuple(t)  # flattened anyway by Leg
        try:
            leg = yastn.Leg(sym, s=s, t=tt if nsym > 0 else (), D=tuple(D))
            real = {"s": leg.s, "t": [list(x) for x in leg.t], "D": list(leg.D)}
            cj = leg.conj()
            realc = {"s": cj.s, "t": [list(x) for x in cj.t], "D": list(cj.D), "hf_s": list(cj.hf.s)}
            cc = cj.conj()
            err = None
        except Exception as e:  # any rejection
            real, err = None, f"{type(e).__name__}: {e}"
        case = {"sym": sid, "s": s, "t": t, "D": D, "stratum": tag}
        ctx.case(case)
        ctx.count(f"leg:{tag}:{'accepted' if real else 'rejected'}")
        # ---- oracle on the real code: accepts exactly …
        charges = [t[i * nsym:(i + 1) * nsym] for i in range(len(D))] if nsym > 0 else [[] for _ in D]
        should = (s in (1, -1) and all(d > 0 for d in D) and len(D) * nsym == len(t) and not (nsym == 0 and len(D) > 1)
                  and all(canon_ok(ms, ch) for ch in charges) and len({tuple(ch) for ch in charges}) == len(charges))
        if should != (real is not None):
            ctx.fail("oracle", f"c19:leg-accept:{sid}",
                     f"Leg({sid}, s={s}, t={t}, D={D}) {'accepted' if real else 'rejected (' + str(err) + ')'} but should be {'accepted' if should else 'rejected'}",
                     case=case, concrete=True)
        if real is not None:
            pairs = sorted(zip([tuple(ch) for ch in charges], D))
            if [list(p[0]) for p in pairs] != real["t"] or [p[1] for p in pairs] != real["D"]:
                ctx.fail("oracle", f"c19:leg-sorted:{sid}", f"Leg stores t={real['t']} D={real['D']} for input t={t} D={D}", case=case, concrete=True)
            if not (realc["s"] == -real["s"] and realc["t"] == real["t"] and realc["D"] == real["D"] and cc == leg and cc.hf == leg.hf):
                ctx.fail("oracle", f"c19:leg-conj:{sid}", f"conj is not an involution onto the dual for Leg t={t} D={D}", case=case, concrete=True)
        # ---- correspondence with the model
        if mod is not None and mod.get("ok"):
            r = mod["res"][idx]
            if ("ok" in r) != (real is not None):
                ctx.fail("correspondence", f"c19:leg:{sid}", f"Leg acceptance differs: real={'ok' if real else err} model={r}", case=case)
            elif real is not None:
                if r["ok"]["t"] != real["t"] or r["ok"]["D"] != real["D"] or r["ok"]["s"] != real["s"] \
                        or r["conj"]["s"] != realc["s"] or r["conj"]["hf_s"] != realc["hf_s"]:
                    ctx.fail("correspondence", f"c19:leg-data:{sid}", f"Leg data differs: real={real} model={r}", case=case)
            else:
                kind = ("signature" if "Signature" in err else "dims" if "positive" in err else "count" if "do not match" in err
                        else "range" if "outside" in err else "repeated" if "Repeated" in err else "other")
                ctx.count(f"leg-errkind:{'agree' if kind == r.get('err') else 'differ'}")


def run_legs_noninteger(ctx, sid, sym, ms, B):
    """Leg arguments that are numbers but not the integers of the domain (oracle only; the model's domain is the integers):
    a signature, a charge component (at ANY position of the flattened charges) or a dimension with a fractional part must be rejected;
    the same values given as integral floats (1.0) denote the integer and give the same Leg."""
    import yastn
    rng = ctx.rng
    nsym = sym.NSYM
    for _ in range(60 if ctx.quick else 1000):
        ns = rng.randint(1, 4) if nsym > 0 else 1
        t = []
        while len(t) < ns:
            c = [rng.choice(comp_range(m, B)) for m in ms]
            if c not in t:
                t.append(c)
            elif nsym == 0 or rng.random() < 0.2:
                break
        ns = len(t) if nsym > 0 else 1
        D = [rng.randint(1, 4) for _ in range(ns)]
        s0 = rng.choice((1, -1))
        base = dict(s=s0, t=[tuple(c) for c in t] if nsym > 0 else (), D=tuple(D))
        try:
            ref = yastn.Leg(sym, **base)
        except Exception:  # noqa: BLE001   (not a valid base leg: nothing to perturb)
            continue
        # the same acceptance rule when the fusion record is handed over explicitly (hf=...): out-of-range / repeated charges rejected
        if nsym > 0 and rng.random() < 0.35:
            bad_t = [list(c) for c in t]
            kind_hf = rng.choice(["range", "repeat", "valid"])
            if kind_hf == "range":
                cand = [(i, j) for i in range(ns) for j in range(nsym) if ms[j] > 0]
                if not cand:
                    kind_hf = "repeat"
                else:
                    i, j = rng.choice(cand)
                    bad_t[i][j] = rng.choice((ms[j], ms[j] + 1, -1, -2))
            if kind_hf == "repeat":
                bad_t.append(list(bad_t[rng.randrange(ns)]))
            Dh = D + ([rng.randint(1, 3)] if kind_hf == "repeat" else [])
            try:
                lg = yastn.Leg(sym, s=s0, t=[tuple(c) for c in bad_t], D=tuple(Dh), hf=ref.hf)
                errh = None
            except Exception as e:  # noqa: BLE001
                lg, errh = None, f"{type(e).__name__}: {e}"
            caseh = {"sym": sid, "stratum": f"explicit-hf:{kind_hf}", "s": s0, "t": bad_t, "D": Dh}
            ctx.case(caseh)
            ctx.count(f"leg-explicit-hf:{kind_hf}:{'accepted' if lg is not None else 'rejected'}")
            if (kind_hf == "valid") != (lg is not None):
                ctx.fail("oracle", f"c19:leg-accept:{sid}", f"Leg({sid}, s={s0}, t={bad_t}, D={Dh}, hf=<record of an elementary leg>) "
                         f"{'accepted as ' + str(lg) if lg is not None else 'rejected (' + str(errh) + ')'} but should be {'accepted' if kind_hf == 'valid' else 'rejected'} "
                         f"(charges {'outside the natural range' if kind_hf == 'range' else 'repeated' if kind_hf == 'repeat' else 'valid'})", case=caseh, concrete=True)
            elif lg is not None and not (lg.t == ref.t and lg.D == ref.D and lg.s == ref.s):
                ctx.fail("oracle", f"c19:leg-sorted:{sid}", f"Leg built with an explicit hf differs from the Leg built without: {lg} vs {ref}", case=caseh, concrete=True)
        what = rng.choice(["s-frac", "s-float", "D-frac", "D-float"] + (["t-frac", "t-frac", "t-float"] if nsym > 0 else []))
        args = dict(base)
        frac = rng.choice((0.5, 0.2, 0.9, -0.5))
        if what == "s-frac":
            args["s"] = s0 * rng.choice((1.5, 1.2, 1.9, 0.5, 0.999))
        elif what == "s-float":
            args["s"] = float(s0)
        elif what in ("D-frac", "D-float"):
            i = rng.randrange(ns)
            args["D"] = tuple(d + abs(frac) if (j == i and what == "D-frac") else float(d) if j == i else d for j, d in enumerate(D))
        else:
            i, j = rng.randrange(ns), rng.randrange(nsym)
            args["t"] = [tuple((x + frac if what == "t-frac" else float(x)) if (a == i and b == j) else x for b, x in enumerate(c)) for a, c in enumerate(t)]
            ctx.count(f"leg-nonint:t-position:{'first-len(D)' if i * nsym + j < ns else 'beyond-len(D)'}")
        should = what.endswith("float")
        try:
            leg = yastn.Leg(sym, **args)
            err = None
        except Exception as e:  # noqa: BLE001
            leg, err = None, f"{type(e).__name__}: {e}"
        case = {"sym": sid, "stratum": what, "s": args["s"], "t": [list(c) for c in args["t"]] if nsym > 0 else [], "D": list(args["D"])}
        ctx.case(case)
        ctx.count(f"leg-nonint:{what}:{'accepted' if leg is not None else 'rejected'}")
        if should != (leg is not None):
            ctx.fail("oracle", f"c19:leg-accept:{sid}", f"Leg({sid}, s={args['s']}, t={args['t']}, D={args['D']}) "
                     f"{'accepted as ' + str(leg) if leg is not None else 'rejected (' + str(err) + ')'} but should be {'accepted' if should else 'rejected'} "
                     f"({what}: signature, charges and dimensions are integers)", case=case, concrete=True)
        elif leg is not None and not (leg == ref and leg.s == ref.s and leg.t == ref.t and leg.D == ref.D):
            ctx.fail("oracle", f"c19:leg-sorted:{sid}", f"Leg built from integral floats ({what}) differs from the Leg built from the integers: {leg} vs {ref}",
                     case=case, concrete=True)


def run_fused_legs(ctx, sid, sym, ms, B):
    """legs reported for fused tensors (hard fusion history, LegMeta of meta fusion, nested): conj maps onto the dual space and is an
    involution, agrees with the legs of the conjugate tensor, charges canonical and sorted, and a tensor initialised on the reported
    legs reports the same legs"""
    import yastn
    from harness import tgen
    rng = ctx.rng
    name = next((n for n in tgen.SYM_NAMES if tgen.sym_class(n).SYM_ID == sid), None)
    if name is None:
        return
    cfg = tgen.make_cfg(name)
    for _ in range(25 if ctx.quick else 300):
        nd = rng.randint(2, 4)
        legs = [tgen.rand_leg(rng, cfg, name, max_sectors=3, max_dim=2) for _ in range(nd)]
        a = tgen.rand_tensor(rng, cfg, name, legs, drop=0.2, allow_empty=False)
        if a.size == 0:
            continue
        recipe = []
        for _d in range(rng.randint(1, 2)):
            if a.ndim < 2:
                break
            order = list(range(a.ndim)); rng.shuffle(order)
            k = rng.randint(2, a.ndim)
            axes = (tuple(order[:k]),) + tuple(order[k:])
            mode = rng.choice(["meta", "hard", "meta"])
            a = a.fuse_legs(axes=axes, mode=mode); recipe.append([mode, [list(axes[0])] + list(axes[1:])])
        ac = a.conj()
        case = {"sym": sid, "recipe": recipe, "s": list(a.struct.s)}
        ctx.case({"part": "fused-legs", "sym": sid, "recipe": [r[0] for r in recipe]})
        for ax in range(a.ndim):
            l = a.get_legs(ax)
            kind = "meta" if hasattr(l, "legs") else "hard" if l.is_fused() else "plain"
            ctx.count(f"fused-leg:{kind}")
            try:
                c = l.conj()
                bad = []
                if c.s != -l.s:
                    bad.append(f"conj().s = {c.s} for s = {l.s}")
                if c.conj() != l:
                    bad.append("conj is not an involution")
                if c != ac.get_legs(ax):
                    bad.append("conj() of the leg differs from the leg of the conjugate tensor")
                if tuple(c.t) != tuple(l.t) or tuple(c.D) != tuple(l.D):
                    bad.append("conj changes charges or dimensions")
                # (a LegMeta lists tuples of the charges of its native legs; canonical range is a statement about the native legs)
                natives = list(l.legs) if kind == "meta" else [l]
                if len(set(l.t)) != len(l.t) or not all(d > 0 for d in l.D):
                    bad.append(f"repeated sectors or non-positive dimensions: t={l.t} D={l.D}")
                for nl in natives:
                    if list(nl.t) != sorted(nl.t) or len(set(nl.t)) != len(nl.t) or not all(canon_ok(ms, list(t)) for t in nl.t) or not all(d > 0 for d in nl.D):
                        bad.append(f"charges not canonical / sorted / unique or dimensions not positive: t={nl.t} D={nl.D}")
            except Exception as e:  # noqa: BLE001
                bad = [f"{type(e).__name__}: {e}"]
            if bad:
                ctx.fail("oracle", f"c19:fused-leg:{kind}:{sid}", f"{kind} leg {ax} of a tensor fused by {recipe}: {'; '.join(bad)}", case=dict(case, axis=ax), concrete=True)
        try:
            z = yastn.zeros(cfg, legs=a.get_legs(), n=a.n)
            if z.get_legs() != a.get_legs() and len(z.struct.t) == len(a.struct.t):
                ctx.fail("oracle", f"c19:fused-leg:reinit:{sid}", f"a tensor initialised on the legs reported for a fused tensor reports different legs ({recipe})", case=case, concrete=True)
        except Exception as e:  # noqa: BLE001
            ctx.fail("oracle", f"c19:fused-leg:reinit:{sid}", f"zeros(legs=a.get_legs()) raised {type(e).__name__}: {e} ({recipe})", case=case, concrete=True)


def search(ctx, broken, budget):
    """The eager oracles in run() already evaluated the axioms on the real code over the whole box."""
    ctx.notes.append("failing-input search = the eager oracle pass over the box (group axioms, range, Leg acceptance) on the real code")


def replay(ctx, obj):
    run(ctx)
