"""C10 — TDVP conserves what it must and is exact on the full manifold.

Tie to the source
  (0)  translator gen_consts.py regenerates YModel/Consts.lean (literal s2, 2nd/4th-order coefficient tables, shape of the
       step-count formula) from yastn/tn/mps/_tdvp.py; the theorems of YProofs/Props/C10.lean are re-checked about them.
  (i)  event-trace correspondence: REAL `tdvp_` runs under the run-time monitor of harness/props/c09.py (`Monitor`);
       per environment lifetime the trace (environment events with keys read/written/dropped, in-place MPS events, local
       update markers with the sign of the exponent, `enlarge_bond` outcomes) is diffed exactly against the Lean model
       `YModel.Sched.tdvpTrace` and stamp-checked; the local updates of every real sweep are checked to be two mirrored
       overlap chains; sweep lengths / mid-times / number of steps / reported times are compared with the model's exact
       rational time grid.
  (ii) eager oracles on the real results against dense references (scipy.linalg.expm, solve_ivp).

Exploration: generator MPOs carry scalar prefactors (MpsMpoOBC.factor != 1, by multiplication or by canonisation with
normalize=False); the option combinations method x subtract_E x precompute are dealt from a balanced deck (all 'exact' cases,
every second 'trace' case inside the regime of the conservation clause) instead of independent coin flips, so that every
pair of options meets inside every kind of local update on every seed.  The 'exact' cases additionally deal normalize and
the kind of u (real / imaginary / complex time) from the deck (exact_deck: method x subtract_E x normalize x u) and draw the
charge among the sectors where the exactness clause applies: the dense comparison sees the NORM of the state only with
normalize=False, a non-unitary evolution and no subtract_E, and that corner must be met by every method on every seed
(counters exact_sees:*).  A deterministic work guard (WorkGuard) abandons runs
whose Krylov solver does not finish; such a run is dropped like a timeout, but the solver's preconditions on the local
generator (linearity, Hermiticity) are examined first and a violated one is reported as a broken contract, which makes
`search` look for a concrete failing input next to the abandoned one.

Time-dependent generators (a callable H whose value really changes between sweeps; a callable that returns the same MPO every
time cannot tell a generator evaluated once from one evaluated before every sweep) meet every method on every seed in two ways:
(a) the 'order' cases H(t) = Ha + cos(w t) Hb (non-commuting, 4 and 8 time steps, judged by the convergence order against a
solve_ivp reference) take method x precompute from a balanced deck (order_deck) instead of a free draw of the method;
(b) two strata of every (method, subtract_E) group of the exact deck get H(t) = g(t) H0 (commuting family, closed-form exact
evolution), judged by `tdep_exactness` for every u, order, normalize / subtract_E flag, time grid and number of snapshots.
"""
import math
import time
from fractions import Fraction

import numpy as np

from . import c09 as base
from .c09 import (Monitor, make_ops, gen_terms, build_mpo, split_terms, dense_mpo, dense_mps, basis_charges,
                  admissible_charges, random_state, FAMILIES)

LEAN_TARGETS = ["YProofs.Props.C10", "YProofs.Props.C10Unitary"]
LEVEL = "proof"
TRANSLATORS = ["gen_consts"]
DRIVER = "drv_c10"

OPTS_EXPMV = {"hermitian": True, "ncv": 5, "tol": 1e-12}


def ulp(x):
    return math.ulp(abs(x)) if x != 0 else math.ulp(1.0)


# ==========================================================================================================
# case generation
# ==========================================================================================================

def gen_times(rng, quick):
    """(times, dt, dyadic?) : grids with dt dividing / not dividing the intervals"""
    kind = rng.choice(["dyadic-div", "dyadic-nondiv", "decimal-div", "decimal-nondiv"])
    nsnap = rng.choice([1, 1, 2])
    if kind.startswith("dyadic"):
        t0 = rng.choice([0.0, 0.0, 0.25, -0.5, 1.0])
        dt = rng.choice([1 / 16, 1 / 8, 3 / 32, 1 / 32 * 5])
        ts = [t0]
        for _ in range(nsnap):
            k = rng.choice([1, 2, 3])
            inc = k * dt if kind == "dyadic-div" else k * dt + rng.choice([-1, 1]) * rng.choice([1 / 64, 1 / 128, 3 / 256])
            ts.append(ts[-1] + inc)
    else:
        t0 = rng.choice([0.0, 0.0, 0.1, -0.3])
        dt = rng.choice([0.1, 0.05, 0.07, 0.03])
        ts = [t0]
        for _ in range(nsnap):
            k = rng.choice([1, 2, 3])
            inc = k * dt if kind == "decimal-div" else round(k * dt + rng.choice([-1, 1]) * rng.choice([0.01, 0.013, 0.004]), 6)
            ts.append(ts[-1] + inc)
    return ts, dt, kind


METHODS = ["1site", "2site", "12site"]
HFACS = [-2.0, -0.6, 0.4, 0.75, 1.6, 2.5]


def gen_hfac(rng, ngroups):
    """how each MPO of the generator gets its scalar prefactor (MpsMpoOBC.factor): untouched (factor 1, what generate_mpo
    gives), multiplied by a real number (kept in `factor`, the sign goes to the first tensor), or canonised with
    normalize=False (the Frobenius norm of the operator moves to `factor`); the operator stays Hermitian in all of them"""
    mode = rng.choice(["none", "mul", "mul", "canon"])
    out = []
    for _ in range(ngroups):
        if mode == "none":
            out.append(["none", 1])
        elif mode == "mul":
            out.append(["mul", rng.choice(HFACS)])
        else:
            out.append(["canon", rng.choice(["first", "last"])] if rng.random() < 0.7 else ["mul", rng.choice(HFACS)])
    return out


def option_deck(rng, n):
    """balanced covering of method x subtract_E x precompute: every combination appears floor(n/12) or ceil(n/12) times"""
    combos = [{"method": m, "subtract_E": s, "precompute": p} for m in METHODS for s in (False, True) for p in (False, True)]
    out = []
    while len(out) < n:
        rng.shuffle(combos)
        out += combos
    return out[:n]


U_KINDS = ["real", "imag", "complex"]   # real time (u = 1j), imaginary time (u = 1), complex u


def exact_deck(rng, n):
    """strata of the 'exact' cases: balanced covering of method x subtract_E x normalize x u_kind (36 combinations, each
    floor(n/36) or ceil(n/36) times), with precompute dealt evenly inside every (method, subtract_E) group so that
    method x subtract_E x precompute stays balanced as in option_deck.  Independent coin flips for normalize and u left
    the only region where the NORM of the state is compared with the dense reference -- normalize=False together with a
    non-unitary evolution and without subtract_E (which leaves the state defined up to a scalar only) -- to chance:
    less than one case per method and run."""
    out = []
    while len(out) < n:
        block = []
        for m in METHODS:
            for s in (False, True):
                grp = [{"method": m, "subtract_E": s, "normalize": nz, "u_kind": uk} for nz in (False, True) for uk in U_KINDS]
                rng.shuffle(grp)
                first = rng.random() < 0.5
                j = rng.randrange(len(grp) - 1)
                for i, g in enumerate(grp):
                    g["precompute"] = (i % 2 == 0) == first
                    # two strata of every (method, subtract_E) group, one with either precompute flag, get a generator that
                    # really depends on time (H(t) = g(t) H0, see gen_case): 4 per method in every block of 36
                    g["tdep"] = i in (j, j + 1)
                if m == "12site":
                    # half of the '12site' strata start from bond dimension 1 on N = 2 (see gen_case): for either normalize flag
                    # one of the two non-unitary kinds of u and, by a coin, the real-time stratum of one of the flags
                    coin = rng.random() < 0.5
                    for nz in (False, True):
                        pick = rng.choice(["imag", "complex"])
                        for g in grp:
                            if g["normalize"] == nz:
                                g["grow"] = g["u_kind"] == pick or (g["u_kind"] == "real" and coin == nz)
                block += grp
        rng.shuffle(block)
        out += block
    return out[:n]


def complete_charges(family, sym, N):
    """admissible total charges whose sector has, at every bond, the whole left or the whole right space as its maximal bond
    space (full_dims(...)['side_complete'], decision (a) in run()); only there the exactness clause is evaluated"""
    ops = make_ops(family, sym)
    adm = admissible_charges(family, sym, N)
    return [n for n in adm if full_dims(ops, N, sym, 0 if n is None else n)["side_complete"]] or adm


def gen_case(rng, quick, kind, st=None):
    """kind: 'trace' (any D, all options) | 'exact' (maximal bond dimension, dense comparison)
    st: optional stratum {"method", "subtract_E", "precompute", "normalize", "u_kind", "conserve", "N"} fixing the option
    combination (option_deck / exact_deck);
    "conserve" selects the regime of the conservation clause: real time and, for 2-site updates, a truncation that cannot bind"""
    st = st or {}
    family, sym = rng.choice(FAMILIES)
    N = rng.choice([2, 3, 4, 5] if quick else [2, 3, 4, 5, 6])
    if kind == "exact":
        N = rng.choice([2, 3, 4] if quick else [2, 3, 4, 5])
    N = st.get("N") or N
    cplx = rng.random() < 0.3
    times, dt, tk = gen_times(rng, quick)
    method = st.get("method") or rng.choice(METHODS)
    # at maximal bond dimension '12site' never enlarges a bond, so its 2-site branch would never meet the exactness clause.  On
    # N = 2 the 2-site local problem IS the global one: from bond dimension 1, with a truncation that cannot bind, the first
    # update takes the state to the maximal bond dimension and the result is exp(-u t H) psi0 exactly as well
    grow = kind == "exact" and method == "12site" and bool(st.get("grow"))
    if grow:
        N = 2
    u = "real" if st.get("conserve") else (st.get("u_kind") or rng.choice(["real", "real", "imag", "complex"]))
    # D = 1 only with '1site': expmv is pathologically slow on 2-site problems of (nearly) product symmetric states (see notes)
    D = rng.choice([1, 2, 3, 4] if method == "1site" else [2, 3, 4]) if kind == "trace" else (1 if grow else 2 ** N)
    nsplit = rng.choice([1, 1, 2])
    terms = gen_terms(rng, family, sym, N, cplx=cplx, long_range=rng.random() < 0.4)
    if kind != "trace":
        opts_svd = {"D_total": 2 ** N, "tol": 1e-14}
    elif st.get("conserve"):
        opts_svd = {"D_total": max(D, 2 ** (N // 2)) * rng.choice([1, 2]), "tol": 1e-14}
    else:
        opts_svd = {"D_total": max(2, rng.choice([D, 2 * D, 4 * D])), "tol": rng.choice([1e-14, 1e-6])}
    case = {
        "kind": kind, "family": family, "sym": sym, "N": N,
        "terms": terms, "nsplit": nsplit, "hfac": gen_hfac(rng, len(split_terms(terms, nsplit))),
        # 'exact': charges of sectors in which the exactness clause applies (every admissible charge in 'trace' cases)
        "n": rng.choice(complete_charges(family, sym, N) if kind == "exact" else admissible_charges(family, sym, N)),
        "D_total": D, "psi_seed": rng.randrange(1 << 30), "nsum": 1 if kind == "trace" or grow else 3,
        "times": times, "dt": dt, "grid": tk, "method": method, "order": rng.choice(["2nd", "4th"]),
        "u": {"real": [0.0, 1.0], "imag": [1.0, 0.0], "complex": [0.6, 0.8]}[u], "u_kind": u,
        "normalize": st["normalize"] if "normalize" in st else rng.random() < 0.6,
        "subtract_E": st["subtract_E"] if "subtract_E" in st else rng.random() < 0.3,
        "precompute": st["precompute"] if "precompute" in st else rng.random() < 0.4,
        "opts_svd": opts_svd,
        "callable_H": rng.random() < 0.35,
        "yield_initial": rng.random() < 0.2,
        "tdep": None,
        "stratum": "conserve" if st.get("conserve") else ("deck-grow" if grow else "deck" if st else "free"),
    }
    if kind == "exact" and st.get("tdep"):
        # time-dependent generator inside the exactness clause: H(t) = g(t) H0 with g(t) = 1 + a sin(w t).  All H(t) commute, so
        # the exact time-ordered evolution is exp(-u G H0) psi0 with G = int g dt in closed form, and on the full manifold every
        # sweep is itself exact for the generator it was handed: the result is judged against the exact evolution up to the
        # quadrature error of a scheme of (at least) 2nd order in dt (oracles(), 'c10:exactness-tdep')
        case["callable_H"] = True
        case["tdep"] = {"a": rng.choice([0.5, -0.7, 0.9]), "w": rng.choice([2.0, 3.0, 5.0])}
    return case


def tdep_g(td):
    a, w = td["a"], td["w"]
    return lambda t: 1.0 + a * math.sin(w * t)


def tdep_G(td, t0, t1):
    """closed form of int_{t0}^{t1} (1 + a sin(w t)) dt"""
    a, w = td["a"], td["w"]
    return (t1 - t0) - (a / w) * (math.cos(w * t1) - math.cos(w * t0))


def hfac_kind(case):
    kinds = {m for m, _ in case.get("hfac") or [["none", 1]]}
    return kinds.pop() if len(kinds) == 1 else "mixed"


def apply_hfac(Hg, spec):
    """MPO with the requested scalar prefactor; the represented operator is the old one times the returned number"""
    mode, val = spec
    if mode == "mul":
        return val * Hg
    if mode == "canon":
        Hg = Hg.shallow_copy()
        Hg.canonize_(to=val, normalize=False)
    return Hg


def u_of(case):
    a, b = case["u"]
    return complex(a, b) if b != 0 else float(a)


# ==========================================================================================================
# real run
# ==========================================================================================================

def full_dims(ops, N, sym, n_tot):
    """maximal sector dimensions of every bond for a state of total charge n_tot: {bond m: {charge: dim}}"""
    sp = ops.space()
    loc = [t[0] for t, D in zip(sp.t, sp.D) for _ in range(D)] if sym != "dense" else [0] * sum(sp.D)
    red = (lambda q: q % 2) if sym == "Z2" else (lambda q: q)
    from collections import Counter
    left = [Counter({0: 1})]
    for _ in range(N):
        c = Counter()
        for q, k in left[-1].items():
            for l in loc:
                c[red(q + l)] += k
        left.append(c)
    out = {}
    complete = True
    for m in range(N + 1):
        d = {}
        le = ge = True
        for q, k in left[m].items():
            rq = red(n_tot - q) if sym != "dense" else 0
            kr = left[N - m].get(rq, 0)
            if min(k, kr) > 0:
                d[q] = min(k, kr)
                le = le and k <= kr
                ge = ge and k >= kr
        out[m] = d
        complete = complete and (le or ge)
    out["side_complete"] = complete
    return out


def is_full(psi, ops, sym, v0):
    """does the (canonical) MPS have the maximal bond dimension in every charge sector of every bond?"""
    N = psi.N
    tot = basis_charges(ops, N, sym)
    n_tot = 0 if tot is None else int(tot[np.argmax(np.abs(v0))])
    fd = full_dims(ops, N, sym, n_tot)
    # "maximal bond dimension" (interpretive decision, see notes in run()): at every bond the bond space is the WHOLE left or the
    # WHOLE right space of the sector.  In U(1) sectors away from half filling the sector-wise maximum min(L_q, R_{n-q}) mixes
    # both (e.g. spinless fermions N=4, n=1 or 3); there '1site' TDVP has a genuine O(dt^p) error (measured: 9e-7 at dt=1/8,
    # 3e-9 at dt=1/32, 4th order) although no larger bond dimension exists — inherent to the algorithm, '2site' stays exact.
    if not fd["side_complete"]:
        return False
    red = (lambda q: q % 2) if sym == "Z2" else (lambda q: q)
    maps = [lambda q: q, lambda q: n_tot - q, lambda q: -q, lambda q: q - n_tot]
    for m in range(1, N):
        leg = psi[m].get_legs(axes=0)
        have = {(t[0] if len(t) else 0): D for t, D in zip(leg.t, leg.D)}
        # the charge carried by the virtual leg is the left or the right partial charge up to a sign convention: accept the
        # convention under which the sector dimensions fit
        if not any(all(have.get(red(f(q)) if sym != "dense" else 0, 0) >= d for q, d in fd[m].items()) for f in maps):
            return False
    return True


def run_tdvp(case, monitor=True, dt=None, order=None):
    import yastn.tn.mps as mps
    ops = make_ops(case["family"], case["sym"])
    N = case["N"]
    Hs, I = [], None
    hfac = case.get("hfac") or []
    for i, g in enumerate(split_terms(case["terms"], case["nsplit"])):
        I, Hg = build_mpo(ops, N, g)
        Hs.append(apply_hfac(Hg, hfac[i]) if i < len(hfac) else Hg)
    Hstat = Hs[0] if len(Hs) == 1 else Hs
    dtype = "complex128"
    psi = random_state(ops, I, case["psi_seed"], case["n"], case["D_total"], dtype)
    for k in range(1, case.get("nsum", 1)):
        psi = psi + random_state(ops, I, case["psi_seed"] + k, case["n"], case["D_total"], dtype)
    psi.canonize_(to="last", normalize=False)
    psi.canonize_(to="first", normalize=False)
    if case["normalize"]:
        psi.factor = 1
    else:
        psi.factor = 1.5   # a norm different from one must be carried along
    v0 = dense_mps(psi, ops)
    tcalls = []
    td = case.get("tdep")
    if td:
        g = tdep_g(td)

        def H(t):
            tcalls.append(float(t))
            return g(float(t)) * Hs[0] if len(Hs) == 1 else [g(float(t)) * h for h in Hs]
    elif case["callable_H"]:
        def H(t):
            tcalls.append(float(t))
            return Hstat
    else:
        H = Hstat
    u = u_of(case)
    kw = dict(times=tuple(case["times"]), dt=case["dt"] if dt is None else dt, u=u, method=case["method"],
              order=case["order"] if order is None else order, opts_expmv=dict(OPTS_EXPMV), opts_svd=dict(case["opts_svd"]),
              normalize=case["normalize"], subtract_E=case["subtract_E"], precompute=case["precompute"],
              yield_initial=case["yield_initial"])
    outs, vecs, canon = [], [], []
    mon = Monitor(psi) if monitor else None
    err = None
    try:
        if mon:
            mon.__enter__()
        try:
            for out in mps.tdvp_(psi, H, **kw):
                outs.append(out)
                if mon:
                    mon.active = False
                vecs.append(dense_mps(psi, ops))
                tail = psi.pC is None and all(psi.is_canonical(to="first", n=n, tol=1e-9) for n in range(1, N))
                canon.append((tail and psi.is_canonical(to="first", n=0, tol=1e-9), tail))
                if mon:
                    mon.active = True
        except Exception as e:
            err = f"{type(e).__name__}: {e}"
    finally:
        if mon:
            mon.__exit__(None, None, None)
    return {"ops": ops, "Hs": Hs, "psi": psi, "v0": v0, "outs": outs, "vecs": vecs, "canon": canon, "mon": mon, "err": err,
            "tcalls": tcalls, "u": u}


# ==========================================================================================================
# (i) correspondence
# ==========================================================================================================

def frac(x):
    return Fraction(x)


def check_time_grid(ctx, case, res):
    """steps / ds / sweep lengths / mid-times / reported times against the exact rational model"""
    cj = case
    mon, outs = res["mon"], res["outs"]
    if ctx.drv is None or res["err"] or mon is None:
        return
    times, dt = case["times"], case["dt"]
    snaps = list(zip(times[:-1], times[1:]))
    reqs = []
    for t0, t1 in snaps:
        T = frac(t1 - t0)   # the code computes t1 - t0 in floating point first
        d = frac(dt)
        reqs.append([T.numerator, T.denominator, d.numerator, d.denominator])
    mod = ctx.drv.call({"op": "time_grid", "cases": reqs})
    if not mod.get("ok"):
        ctx.fail("correspondence", "c10:model-error", f"model error {mod}", case=cj)
        return
    real_outs = outs[1:] if case["yield_initial"] else outs
    if case["yield_initial"] and outs:
        o = outs[0]
        if not (o.ti == times[0] and o.tf == times[0] and o.steps == 0):
            ctx.fail("oracle", "c10:yield-initial", f"initial snapshot reports {o}", case=cj, concrete=True)
    if len(real_outs) != len(snaps):
        ctx.fail("oracle", "c10:snapshots", f"{len(real_outs)} snapshots yielded for {len(snaps)} intervals", case=cj, concrete=True)
        return
    sweeps = list(mon.sweeps)
    tcalls = list(res["tcalls"])
    per = 1 if case["order"] == "2nd" else 5
    pos = 0
    for (t0, t1), o, m in zip(snaps, real_outs, mod["res"]):
        # independent reference for the ORACLES (never the model): least k >= 1 with k*dt > T - 1e-12, ds = T/k
        Tq, dq = frac(t1 - t0), frac(dt)
        steps_ref = max(1, math.floor((Tq - Fraction(1, 10 ** 12)) / dq) + 1)
        if m["steps"] != steps_ref or Fraction(m["ds"][0], m["ds"][1]) != Tq / steps_ref:
            ctx.fail("correspondence", "c10:model-steps", f"model steps/ds {m['steps']}, {m['ds']} differ from the reference "
                     f"{steps_ref}, {Tq / steps_ref} (T={t1 - t0!r}, dt={dt!r})", case=cj)
        steps = steps_ref
        ds = Tq / steps_ref
        # float arithmetic is exact when every quantity is a dyadic rational of moderate size (ds = T/steps included)
        dyadic = case["grid"].startswith("dyadic") and (ds.denominator & (ds.denominator - 1)) == 0
        ctx.count("time_grid_intervals")
        ctx.count("time_grid_exact" if dyadic else "time_grid_ulps")
        # -- the property's own observable: reported times
        # exactness of the accumulated float time depends on the step the code REALLY took
        ds_real = Tq / o.steps if o.steps >= 1 else Fraction(1, 3)
        exact_t = case["grid"].startswith("dyadic") and (ds_real.denominator & (ds_real.denominator - 1)) == 0
        tol_t = 0.0 if exact_t else 4 * max(o.steps, 1) * ulp(max(abs(t0), abs(t1)))
        if o.ti != t0 or abs(o.tf - t1) > tol_t:
            ctx.fail("oracle", "c10:reported-time", f"snapshot ({t0},{t1}): TDVP_out.ti={o.ti!r} tf={o.tf!r} (|tf - t1|={abs(o.tf - t1):.3e}, "
                     f"allowed {tol_t:.3e}), steps={o.steps}", case=cj, concrete=True)
        if o.steps != steps:
            ctx.fail("correspondence", "c10:steps", f"snapshot ({t0},{t1}) dt={dt}: real steps={o.steps} model={m['steps']}", case=cj)
            if o.steps < 1 or o.dt > dt * (1 + 1e-9):
                ctx.fail("oracle", "c10:ds-larger-than-dt", f"snapshot ({t0},{t1}) dt={dt!r}: {o.steps} steps of size {o.dt!r}: the step "
                         f"was not adjusted DOWN to an integer number of steps ({steps} steps of {float(ds)!r} expected)", case=cj, concrete=True)
            return
        if (dyadic and frac(o.dt) != ds) or abs(o.dt - float(ds)) > 2 * ulp(float(ds)):
            ctx.fail("correspondence", "c10:ds", f"real ds={o.dt!r} model={ds}", case=cj)
        if o.dt > dt * (1 + 1e-9):
            ctx.fail("oracle", "c10:ds-larger-than-dt", f"time step {o.dt!r} larger than requested dt={dt!r}", case=cj, concrete=True)
        sub = m["sub2"] if case["order"] == "2nd" else m["sub4"]
        t = t0
        for s in range(steps):
            for (mid, ln) in sub:
                if pos >= len(sweeps):
                    ctx.fail("correspondence", "c10:sweep-count", f"fewer sweeps ({len(sweeps)}) than the model predicts", case=cj)
                    return
                ln_f = float(Fraction(ln[0], ln[1]))
                got = sweeps[pos][2]
                if abs(got - ln_f) > 16 * ulp(ln_f) or (dyadic and case["order"] == "2nd" and frac(got) != Fraction(ln[0], ln[1])):
                    ctx.fail("correspondence", "c10:sweep-length", f"sweep {pos}: real length {got!r} model {ln_f!r}", case=cj)
                if case["callable_H"]:
                    want = float(frac(t) + Fraction(mid[0], mid[1]))
                    if pos >= len(tcalls) or abs(tcalls[pos] - want) > 8 * (steps + 1) * ulp(max(abs(t1), abs(t0), 1e-3)):
                        ctx.fail("correspondence", "c10:mid-time", f"sweep {pos}: H evaluated at {tcalls[pos] if pos < len(tcalls) else None!r}, "
                                 f"model mid-time {want!r}", case=cj)
                pos += 1
            t = t + float(ds) if not dyadic else float(frac(t) + ds)
    if pos != len(sweeps):
        ctx.fail("correspondence", "c10:sweep-count", f"{len(sweeps)} real sweeps, model predicts {pos}", case=cj)


def check_traces(ctx, case, res):
    mon = res["mon"]
    if mon is None or ctx.drv is None or res["err"]:
        return
    N = case["N"]
    cj = case
    # sweeps and enlarge_bond outcomes per epoch
    per_epoch = {}
    for (ep, method, dt0, u) in mon.sweeps:
        per_epoch.setdefault(ep, {"sweeps": 0, "oracle": []})["sweeps"] += 1
    for (ep, idx, ev) in mon.log:
        if ev[0] == "enl":
            per_epoch[ep]["oracle"].append(ev[1][2])
    for idx, (env, ep, cname) in enumerate(mon.envs):
        tr = [e for e in mon.env_trace(idx) if not e[0].startswith("raw-w")]
        pre = cname == "Env_mps_mpo_mps_precompute"
        info = per_epoch.get(ep, {"sweeps": 0, "oracle": []})
        mod = ctx.drv.call({"op": "tdvp_trace", "N": N, "method": case["method"], "sweeps": info["sweeps"],
                            "oracle": info["oracle"], "pre": pre})
        ctx.count("traces_compared")
        ctx.count("trace_events", len(tr))
        if not mod.get("ok"):
            ctx.fail("correspondence", "c10:model-error", f"model error {mod}", case=cj)
            return
        if mod["viol"]:
            ctx.fail("correspondence", "c10:model-viol", f"the model trace itself reads a stale/missing key: {mod['viol'][:3]}", case=cj)
        if not all(mod["chains"]):
            ctx.fail("correspondence", "c10:model-chain", "the model sweep is not an overlap chain", case=cj)
        if mod["events"] != tr:
            k = next((i for i, (a, b) in enumerate(zip(mod["events"], tr)) if a != b), min(len(tr), len(mod["events"])))
            ctx.fail("correspondence", "c10:trace",
                     f"event trace of {cname} differs from the model at event {k}: real={tr[k] if k < len(tr) else None} "
                     f"model={mod['events'][k] if k < len(mod['events']) else None} (lengths {len(tr)}/{len(mod['events'])})", case=cj)
        chk = ctx.drv.call({"op": "check_trace", "N": N, "canon": True, "events": tr})
        if not chk.get("ok"):
            ctx.fail("correspondence", "c10:check-error", f"trace checker rejected the real trace: {chk}", case=cj)
        elif chk["viol"]:
            i0, msg = chk["viol"][0]
            ctx.fail("contract", "c10:stale-read",
                     f"real run reads a missing/stale environment: event {i0} {tr[i0] if i0 < len(tr) else ''}: {msg}", case=cj)
        elif chk["exit"]["pC"] is not None or not chk["exit"]["fresh_edge"]:
            ctx.fail("contract", "c10:exit-state", f"exit state of the real trace: {chk['exit']}", case=cj)
    # overlap chain of every real sweep (global events only) + Krylov-memory keys
    cur, sweeps_u = None, []
    for (ep, idx, ev) in mon.log:
        if ev[0] == "sweep":
            cur = []
            sweeps_u.append(cur)
        elif cur is not None and idx is None:
            if ev[0] == "A":
                cur.append(["A", ev[1][0], ev[1][1]])
            elif ev[0] == "AA":
                cur.append(["AA", ev[1][0], ev[1][1], ev[1][2]])
            elif ev[0] == "C" and not ev[1][3]:
                cur.append(["C", ev[1][0], ev[1][1], ev[1][2]])
    for k, us in enumerate(sweeps_u):
        if any(x[-1] == 0 for x in us):
            ctx.fail("contract", "c10:coefficient", f"sweep {k}: a local update uses an exponent different from -/+ u*dt/2: {us}", case=cj)
            continue
        r = ctx.drv.call({"op": "chain", "N": N, "upds": us})
        ctx.count("chains_checked")
        if not r.get("ok"):
            ctx.fail("correspondence", "c10:check-error", f"chain checker: {r}", case=cj)
        elif not (r["ok"] and r.get("ncv_ok", True)) or not r["ok"]:
            ctx.fail("contract", "c10:overlap-chain", f"sweep {k}: the local updates are not two mirrored overlap chains: {us}", case=cj)
    # each read of the Krylov-size memory returns what the previous update of the SAME local problem stored
    owner = {}
    for (ident, acc) in mon.ncv_log:
        for what, key in acc:
            ctx.count("ncv_accesses")
            if key in owner and owner[key] != ident:
                ctx.fail("contract", "c10:ncv-collision",
                         f"local problem {ident} {'reads' if what == 'r' else 'overwrites'} the Krylov size stored by {owner[key]} under key {key}",
                         case=cj)
            if what == "w":
                owner[key] = ident


# ==========================================================================================================
# (ii) oracles
# ==========================================================================================================

def oracles(ctx, case, res):
    import scipy.linalg as sla
    cj = case
    fail = lambda key, what: ctx.fail("oracle", key, what, case=cj, concrete=True)
    if res["err"]:
        fail("c10:exception", f"tdvp_ raised on a valid input: {res['err']}")
        return
    ops, N, outs, vecs = res["ops"], case["N"], res["outs"], res["vecs"]
    Hd = sum(dense_mpo(h, ops) for h in res["Hs"])
    if np.linalg.norm(Hd - Hd.conj().T) > 1e-12:
        ctx.fail("contract", "c10:generator-not-hermitian", "generated H is not Hermitian", case=cj)
        return
    scale = max(1.0, np.abs(np.linalg.eigvalsh(Hd)).max())
    v0 = res["v0"]
    n0 = np.linalg.norm(v0)
    tot = basis_charges(ops, N, case["sym"])
    mask = np.ones(len(v0), dtype=bool)
    if tot is not None:
        sect = set(tot[np.abs(v0) > 0].tolist())
        if len(sect) != 1:
            ctx.fail("contract", "c10:initial-sector", f"initial state not in one sector {sect}", case=cj)
            return
        mask = tot == sect.pop()
    E0 = (v0.conj() @ Hd @ v0).real / n0 ** 2
    u = res["u"]
    real_time = case["u_kind"] == "real"
    nonbinding = case["method"] == "1site" or (case["opts_svd"]["D_total"] >= 2 ** (N // 2) and case["opts_svd"]["tol"] <= 1e-13)
    full = is_full(res["psi"], ops, case["sym"], v0) if case["kind"] == "exact" else False
    if case["kind"] == "exact":
        ctx.count("exact:full" if full else "exact:skipped_not_full")
    times = case["times"]
    snaps = times[1:]
    td = case.get("tdep")   # generator that really depends on time: the clauses stated for time-independent generators are not applied
    real_vecs = vecs[1:] if case["yield_initial"] else vecs
    if case["yield_initial"] and vecs and np.linalg.norm(vecs[0] - v0) > 1e-12 * n0:
        fail("c10:yield-initial", "state changed before the initial snapshot")
    for k, (t1, w) in enumerate(zip(snaps, real_vecs)):
        nw = np.linalg.norm(w)
        # sector and canonical form
        if np.abs(w[~mask]).max(initial=0.0) != 0.0:
            fail("c10:sector", f"snapshot {k}: amplitude outside the charge sector of the initial state")
        c_full, c_tail = res["canon"][k + (1 if case["yield_initial"] else 0)]
        # the first tensor carries the norm when it is not conserved / not tracked in `factor` (2-site updates): the full test
        # applies to norm-conserving runs, sites 1..N-1 and the absence of a central block always
        if not c_tail or (real_time and nonbinding and not td and not c_full):
            fail("c10:canonical", f"snapshot {k}: state is not canonical towards 'first' (sites>=1 ok: {c_tail}, site 0 ok: {c_full})")
        # conservation laws (real time, Hermitian, time-independent)
        if real_time and nonbinding and not td:
            ctx.count("conservation_checked")
            if abs(nw - n0) > 1e-8 * n0:
                fail("c10:norm", f"snapshot {k}: norm {n0!r} -> {nw!r} in real-time evolution ({case['method']})")
            Ew = (w.conj() @ Hd @ w).real / nw ** 2
            if abs(Ew - E0) > 1e-8 * scale:
                fail("c10:energy", f"snapshot {k}: energy {E0!r} -> {Ew!r} in real-time evolution ({case['method']})")
        elif case["normalize"] and abs(nw - n0) > 1e-8 * n0:
            fail("c10:norm", f"snapshot {k}: normalize=True but the norm changed {n0!r} -> {nw!r}")
        # exactness on the full manifold
        if full and nonbinding and k == 0:
            # what the comparison can see: the ray only (subtract_E), the ray and a conserved / restored norm, or a norm
            # that must FOLLOW |exp(-u t H) psi0| (normalize=False in a non-unitary evolution)
            sees = "ray_only" if case["subtract_E"] else ("norm_followed" if not (case["normalize"] or real_time) else "norm_kept")
            ctx.count(f"exact_sees:{sees}:{case['method']}")
        if full and nonbinding and td:
            tdep_exactness(ctx, case, res, k, t1, w, Hd, fail)
        elif full and nonbinding:
            ref = sla.expm(-u * (t1 - times[0]) * Hd) @ v0
            if case["normalize"]:
                ref = ref / np.linalg.norm(ref) * n0
            if case["subtract_E"]:
                # H - E0(t) is exponentiated in every local problem: the result is defined up to a scalar (global phase,
                # and norm when u is not purely imaginary); compare the rays
                ref = ref * (np.vdot(ref, w) / np.vdot(ref, ref))
                err = np.linalg.norm(w - ref) / nw
            else:
                err = np.linalg.norm(w - ref) / n0
            ctx.count("exactness_checked")
            if err > 1e-8:
                fail("c10:exactness", f"snapshot {k} (t={t1}): |psi - expm(-u t H) psi0| = {err!r} at maximal bond dimension "
                     f"({case['method']}, {case['order']}, u={u})")


TDEP_MARGIN = 4.0


def tdep_exactness(ctx, case, res, k, t1, w, Hd, fail):
    """H(t) = g(t) H0 at maximal bond dimension (H0 = Hd, the time-independent part).  The generators commute, hence the exact
    time-ordered evolution is exp(-u G H0) psi0 with G = int_{t0}^{t1} g.  On the full manifold a sweep of (signed) length l that was
    handed H(tm) applies exp(-u l g(tm) H0) exactly, so the real result is exp(-u G' H0) psi0 with G' = sum l_j g(tm_j), a quadrature
    of G.  'Converges at the stated order': for midpoint evaluation on consecutive sub-intervals |G' - G| <= sum |l_j|^3 max|g''| / 24
    <= T dt^2 |a| w^2 / 24 (2nd order: l = ds <= dt; 4th order: sum |l_j|^3 = 0.57 ds^3 per step).  The state must therefore lie,
    to 1e-8, on the curve {exp(-u x H0) psi0 : |x - G| <= TDEP_MARGIN * that bound}: the distance to the curve is minimised over x.
    Only the inputs (times, dt, a, w) enter the bound, not the steps the code reports.  A generator frozen at an earlier time misses G
    by O(a w T^2), far outside."""
    from scipy.optimize import minimize_scalar
    td, u, v0, times = case["tdep"], res["u"], res["v0"], case["times"]
    n0, nw = np.linalg.norm(v0), np.linalg.norm(w)
    lam, V = np.linalg.eigh(Hd)
    c0 = V.conj().T @ v0
    G = tdep_G(td, times[0], t1)
    delta = TDEP_MARGIN * abs(t1 - times[0]) * case["dt"] ** 2 * abs(td["a"]) * td["w"] ** 2 / 24 + 1e-13

    def dist(x):
        ref = V @ (np.exp(-u * x * lam) * c0)
        if case["normalize"]:
            ref = ref / np.linalg.norm(ref) * n0
        if case["subtract_E"]:
            ref = ref * (np.vdot(ref, w) / np.vdot(ref, ref))
            return float(np.linalg.norm(w - ref) / nw)
        return float(np.linalg.norm(w - ref) / n0)

    # minimise over y = x - G in [-delta, delta]: Brent's bounded search locates y to ~1.5e-8 |y| + xatol only, a few parabola steps
    # on dist^2 (quadratic around its minimum) bring y to round-off; every candidate is clipped to the interval, the best one counts
    f2 = lambda y: dist(G + y) ** 2
    opt = minimize_scalar(f2, bounds=(-delta, delta), method="bounded", options={"xatol": 1e-15, "maxiter": 500})
    ys = [-delta, delta, 0.0, float(opt.x)]
    y = float(opt.x)
    for h in (1e-5, 1e-6, 1e-7):
        h = min(h, delta / 4)
        fm, f0, fp = f2(y - h), f2(y), f2(y + h)
        curv = fp - 2 * f0 + fm
        if not curv > 0:
            break
        y = min(delta, max(-delta, y - h * (fp - fm) / (2 * curv)))
        ys.append(y)
    err, y = min((dist(G + y), y) for y in ys)
    x = G + y
    ctx.count("exactness_checked")
    ctx.count("exactness_tdep_checked")
    if k == 0:
        ctx.count(f"exact_tdep:{case['method']}")
        nsw = sum(o.steps for o in res["outs"]) * (1 if case["order"] == "2nd" else 5)
        ctx.count(f"exact_tdep:{case['method']}:{'several_sweeps' if nsw >= 2 else 'one_sweep'}")
    if err > 1e-8:
        fail("c10:exactness-tdep", f"snapshot {k} (t={t1}): time-dependent generator g(t) H0, g = 1 + {td['a']} sin({td['w']} t), at maximal "
             f"bond dimension ({case['method']}, {case['order']}, u={u}): distance {err!r} to exp(-u x H0) psi0 for every x within {delta:.3e} "
             f"of G = int g dt = {G!r} (best x = {x!r}; the plain exact evolution x = G is at distance {dist(G)!r})")


# ---- time-dependent generator: convergence at the stated order -----------------------------------------------

def order_deck(rng, n):
    """strata of the time-dependent ('order') cases: balanced covering of method x precompute.  Every block of three cases holds
    every method once (so every run, whatever its seed, judges a genuinely time-dependent generator over several sweeps with
    '1site', '2site' AND '12site'); in the first block of a pair precompute alternates from a random start, in the second block
    every method gets the other flag: six cases meet all six combinations.  A free draw of the method left a method out of the
    three quick-tier cases on most seeds."""
    out = []
    while len(out) < n:
        block = list(METHODS)
        rng.shuffle(block)
        start = rng.random() < 0.5
        flags = {m: (i % 2 == 0) == start for i, m in enumerate(block)}
        out += [{"method": m, "precompute": flags[m]} for m in block]
        block = list(METHODS)
        rng.shuffle(block)
        out += [{"method": m, "precompute": not flags[m]} for m in block]
    return out[:n]


ORDER_T0 = [0.0, 0.0, 0.25, -0.5]


def order_case(ctx, rng, quick, st=None):
    """H(t) = Ha + cos(w t) Hb at maximal bond dimension over [t0, t0 + T]; error vs solve_ivp reference for dt and dt/2
    (4 resp. 8 time steps, i.e. always many sweeps after the first evaluation of H).  st: optional stratum {"method",
    "precompute"} (order_deck).  Returns True when the convergence order was judged, False when the case was dropped."""
    import yastn.tn.mps as mps
    from scipy.integrate import solve_ivp
    st = st or {}
    family, sym = rng.choice([("Spin12", "dense"), ("Spin12", "Z2"), ("SpinlessFermions", "Z2")])
    N = 3
    case = {"kind": "order", "family": family, "sym": sym, "N": N,
            "terms_a": gen_terms(rng, family, sym, N, cplx=False), "terms_b": gen_terms(rng, family, sym, N, cplx=False),
            "w": rng.choice([2.0, 3.0, 4.0]), "psi_seed": rng.randrange(1 << 30), "n": rng.choice(complete_charges(family, sym, N)),
            "T": 0.5, "t0": rng.choice(ORDER_T0), "method": st.get("method") or rng.choice(METHODS),
            "precompute": st["precompute"] if "precompute" in st else rng.random() < 0.5, "hfac": gen_hfac(rng, 1)}
    guard = 2 * GUARD_S[0 if ctx.quick else 1]   # four tdvp_ runs + one solve_ivp reference, regularly 1 - 4 s together
    try:
        with base.time_limit(guard), WorkGuard():
            res = run_order_case(case)
    except CaseWork as e:
        work_abort(ctx, case, e)
        return False
    except base.CaseTimeout:
        ctx.count("case_timeouts")
        ctx.extra["c10_lost_s"] = ctx.extra.get("c10_lost_s", 0) + guard
        return False
    ctx.case(case)
    ctx.count("kind:order")
    ctx.count(f"order_precompute:{case['precompute']}")
    if res.get("skip"):
        ctx.count("order_skipped_not_full")
        return False
    ctx.count(f"order_judged:{case['method']}")
    ctx.count(f"order_judged:{case['method']}:precompute={case['precompute']}")
    judge_order(ctx, case, res)
    return True


def judge_order(ctx, case, res):
    """convergence at the stated order (shared by run and replay)"""
    if res.get("err"):
        ctx.fail("oracle", "c10:exception", res["err"], case=case, concrete=True)
        return
    for order, errs in res["errs"].items():
        e1, e2 = errs
        ctx.count(f"order_checked:{order}")
        want = 4.0 if order == "2nd" else 16.0
        # loose: at least 60 % of the asymptotic gain per halving unless already at round-off level
        if e2 > 1e-10 and e1 / e2 < 0.6 * want:
            ctx.fail("oracle", f"c10:order-{order}", f"time-dependent generator ({case['method']}): error {e1!r} (dt={res['dt']}) -> {e2!r} "
                     f"(dt/2): ratio {e1 / e2:.2f}, expected about {want} for the {order}-order scheme", case=case, concrete=True)
        elif order == "4th" and e1 > res["errs"]["2nd"][0] / 20:
            ctx.fail("oracle", "c10:order-4th", f"time-dependent generator ({case['method']}): 4th-order error {e1!r} at dt={res['dt']} is "
                     f"not far below the 2nd-order error {res['errs']['2nd'][0]!r} (observed ratio on the unchanged code: 300-500)",
                     case=case, concrete=True)


def run_order_case(case):
    import yastn.tn.mps as mps
    from scipy.integrate import solve_ivp
    ops = make_ops(case["family"], case["sym"])
    N = case["N"]
    I, Ha = build_mpo(ops, N, case["terms_a"])
    _, Hb = build_mpo(ops, N, case["terms_b"])
    Ha = apply_hfac(Ha, (case.get("hfac") or [["none", 1]])[0])   # f(t) * Hb below carries the prefactor |f(t)| != 1
    Had, Hbd = dense_mpo(Ha, ops), dense_mpo(Hb, ops)
    w = case["w"]
    f = lambda t: math.cos(w * t)
    T, t0 = case["T"], case.get("t0", 0.0)
    out = {"errs": {}, "err": None, "dt": T / 4}
    refs = []   # (v0, reference): the four runs start from the same state, the exact time-ordered evolution is integrated once
    for order in ("2nd", "4th"):
        errs = []
        for dt in (T / 4, T / 8):
            psi = random_state(ops, I, case["psi_seed"], case["n"], 2 ** N, "complex128")
            for k in (1, 2):
                psi = psi + random_state(ops, I, case["psi_seed"] + k, case["n"], 2 ** N, "complex128")
            psi.canonize_(to="last").canonize_(to="first")
            v0 = dense_mps(psi, ops)
            if not is_full(psi, ops, case["sym"], v0):
                return {"skip": True}
            try:
                for _ in mps.tdvp_(psi, lambda t: [Ha, f(t) * Hb], times=(t0, t0 + T), dt=dt, u=1j, method=case["method"], order=order,
                                   opts_expmv=dict(OPTS_EXPMV), opts_svd={"D_total": 2 ** N, "tol": 1e-14},
                                   precompute=case.get("precompute", False)):
                    pass
            except Exception as e:
                out["err"] = f"tdvp_ raised with a time-dependent generator: {type(e).__name__}: {e}"
                errs.append(float("nan"))
                continue
            v = dense_mps(psi, ops)
            ref = next((r for (x, r) in refs if np.array_equal(x, v0)), None)
            if ref is None:
                sol = solve_ivp(lambda t, y: -1j * ((Had + f(t) * Hbd) @ y), (t0, t0 + T), v0.astype(complex), method="DOP853",
                                rtol=1e-12, atol=1e-13)
                ref = sol.y[:, -1]
                ref = ref / np.linalg.norm(ref)
                refs.append((v0, ref))
            errs.append(float(np.linalg.norm(v - ref)))
        out["errs"][order] = errs
    return out


# ==========================================================================================================

GUARD_S = (20, 90)          # wall-clock guard per case (quick, thorough); regular cases take 0.05 - 4 s
REFUND_CAP_S = (40, 270)    # at most this much time lost in guarded cases is handed back to the budget
WORK_BOUND = 500            # applications of the local generator / iterations of the step-size loop inside ONE expmv call
                            # (observed on regular cases: <= 11 applications, a handful of iterations)


class CaseWork(BaseException):
    """deterministic work guard of one real run (BaseException for the same reason as CaseTimeout)"""

    def __init__(self, probe):
        super().__init__("work bound")
        self.probe = probe


class WorkGuard:
    """While active, `expmv` as seen by yastn/tn/mps/_tdvp.py (module global) and `Tensor.expand_krylov_space` are wrapped
    (no source edit) to count, per expmv call, the applications of the local generator and the iterations of expmv's
    step-size loop (one expand_krylov_space call each); the run is abandoned at WORK_BOUND of either.  A local update that
    needs hundreds of times the regular work would otherwise only be stopped by the wall-clock guard, 20 s later.  Like a
    timeout this is never a verdict by itself; the offending local problem (f, v, options) is kept for
    `local_generator_contract`."""

    def __init__(self, bound=WORK_BOUND):
        self.bound = bound
        self.cur = None

    def __enter__(self):
        from yastn.tn.mps import _tdvp
        from yastn.tensor import Tensor
        self._mod, self._orig = _tdvp, _tdvp.expmv
        self._cls, self._oexp = Tensor, Tensor.__dict__["expand_krylov_space"]
        guard = self

        def expmv(f, v, t=1., **kw):
            cur = {"f": f, "v": v, "t": t, "hermitian": bool(kw.get("hermitian", False)), "ncv": kw.get("ncv"),
                   "applications": 0, "iterations": 0}

            def g(x):
                cur["applications"] += 1
                if cur["applications"] > guard.bound:
                    raise CaseWork(cur)
                return f(x)
            prev, guard.cur = guard.cur, cur
            try:
                return guard._orig(g, v, t, **kw)
            finally:
                guard.cur = prev

        def expand(self_, *a, **k):
            cur = guard.cur
            if cur is not None:
                cur["iterations"] += 1
                if cur["iterations"] > guard.bound:
                    raise CaseWork(cur)
            return guard._oexp(self_, *a, **k)
        _tdvp.expmv = expmv
        Tensor.expand_krylov_space = expand
        return self

    def __exit__(self, *exc):
        self._mod.expmv = self._orig
        self._cls.expand_krylov_space = self._oexp
        return False


def local_generator_contract(probe):
    """preconditions of the Krylov solver on the local problem it could not finish: the generator handed to expmv must be a
    LINEAR map (dA/dt = -u Heff A; subtract_E only shifts it by a multiple of the identity) and, as declared to the solver
    through opts_expmv['hermitian'], Hermitian.  Returns a list of violated preconditions (relative defects, round-off is
    ~1e-15; reported above 1e-8)."""
    from yastn import vdot
    f, x = probe["f"], probe["v"]
    nx = float(x.norm())
    if not nx > 0:
        return []
    x = x / nx
    fx = f(x)
    y = fx - vdot(x, fx) * x            # second Krylov vector: same space, generically independent of x
    ny = float(y.norm())
    if not ny > 1e-12:
        return []                       # x is an eigenvector: no second direction at hand, nothing to examine
    y = y / ny
    fy = f(y)
    a, b = 0.7, -1.3
    bad = []
    scale = max(float(fx.norm()), float(fy.norm()), 1e-300)
    lin = float((f(a * x + b * y) - (a * fx + b * fy)).norm()) / scale
    if lin > 1e-8:
        bad.append(f"not linear: |f(a x + b y) - a f(x) - b f(y)| / max|f| = {lin:.3e} (a={a}, b={b})")
    hom = float((f(2.0 * y) - 2.0 * fy).norm()) / scale
    if hom > 1e-8:
        bad.append(f"not homogeneous: |f(2 y) - 2 f(y)| / max|f| = {hom:.3e}")
    if probe["hermitian"]:
        her = abs(complex(vdot(x, fy)) - complex(vdot(y, fx)).conjugate()) / scale
        if her > 1e-8:
            bad.append(f"not Hermitian although declared so: |<x,f(y)> - conj<y,f(x)>| / max|f| = {her:.3e}")
    return bad


def elapsed(ctx, t0):
    return time.time() - t0 - min(ctx.extra.get("c10_lost_s", 0), REFUND_CAP_S[0 if ctx.quick else 1])


def work_abort(ctx, case, e):
    """a run abandoned by the work guard: dropped like a timeout, after the solver's preconditions were examined"""
    import json
    ctx.count("case_workbound")
    short = {k: v for k, v in case.items() if k not in ("terms", "terms_a", "terms_b")}
    try:
        with base.time_limit(10):
            bad = local_generator_contract(e.probe)
    except base.CaseTimeout:
        bad = []
    except Exception as ex:
        ctx.notes.append(f"work guard: the local problem could not be examined ({type(ex).__name__}: {ex})")
        bad = []
    p = e.probe
    if bad:
        ctx.fail("contract", "c10:local-generator", f"one expmv call of a local update was abandoned after {p['applications']} applications "
                 f"of its generator / {p['iterations']} iterations of the step-size loop (regular: <= 11 / a handful) and the generator "
                 f"handed to expmv is " + "; ".join(bad), case=case)
    else:
        spin = p["applications"] <= WORK_BOUND
        known = ("; the loop spins without a further application of the generator: the livelock of the known finding "
                 "c18:expmv:livelock-ncv-above-ncvmax (initial ncv above the number of stored elements), reached through tdvp_"
                 if spin and p["ncv"] is not None and p["ncv"] > p["v"].size else "")
        ctx.notes.append(f"case dropped by the work guard: one expmv call (vector of {p['v'].size} stored elements, ncv={p['ncv']}, "
                         f"t={p['t']!r}) did not finish within {WORK_BOUND} {'iterations' if spin else 'applications'} "
                         f"({p['applications']} applications of a linear, Hermitian local generator, {p['iterations']} iterations of the "
                         f"step-size loop{known}): {json.dumps(short)}")


def run_case(ctx, case):
    import json
    guard = GUARD_S[0 if ctx.quick else 1]
    try:
        with base.time_limit(guard), WorkGuard():
            res = run_tdvp(case)
    except CaseWork as e:
        work_abort(ctx, case, e)
        return None
    except base.CaseTimeout:
        # observed on the unchanged code: expmv caps the Krylov dimension by the number of STORED elements of a block-sparse
        # vector (ncv_max = min(30, v.size)); on nearly-product symmetric states a 2-site problem then needs ~1e5 tiny steps.
        # A timing is never an observable of the property: the case is dropped, but the time it burnt is handed back to the
        # exploration budget (elapsed()) so that a few slow cases cannot starve the remaining strata
        ctx.count("case_timeouts")
        ctx.extra["c10_lost_s"] = ctx.extra.get("c10_lost_s", 0) + guard
        ctx.notes.append(f"case skipped by the wall-clock guard: {json.dumps({k: v for k, v in case.items() if k != 'terms'})}")
        return None
    ctx.case(case, nontrivial=True)
    for k in ("kind", "method", "order", "u_kind", "grid", "N", "precompute", "callable_H", "normalize", "subtract_E", "nsplit"):
        ctx.count(f"{k}:{case[k]}")
    ctx.count(f"sym:{case['family']}:{case['sym']}")
    ctx.count(f"hfac:{hfac_kind(case)}")
    ctx.count(f"stratum:{case.get('stratum', 'free')}")
    ctx.count(f"generator:{'time_dependent' if case.get('tdep') else 'callable_constant' if case['callable_H'] else 'static'}")
    two = case["method"] == "2site"
    if case["method"] == "12site" and res["mon"] is not None:
        two = any(ev[0] == "enl" and ev[1][2] for (_, _, ev) in res["mon"].log)
        ctx.count("12site:enlarges_a_bond" if two else "12site:1site_updates_only")
    if two:   # coverage of the option pairs that meet only inside the 2-site local problem
        for k in ("subtract_E", "precompute"):
            if case[k]:
                ctx.count(f"2site_updates&{k}")
        if case["precompute"] and hfac_kind(case) != "none":
            ctx.count("2site_updates&precompute&hfac")
    check_traces(ctx, case, res)
    check_time_grid(ctx, case, res)
    oracles(ctx, case, res)
    return res


def noncanonical_note(ctx):
    """docstring: 'It is first canonized to the first site, if not provided in such a form' — not done by the code"""
    import yastn.tn.mps as mps
    ops = make_ops("Spin12", "dense")
    I, H = build_mpo(ops, 4, [[1.0, 0.0, [i, i + 1], ["x", "x"]] for i in range(3)] + [[0.7, 0.0, [i], ["z"]] for i in range(4)])
    ops.random_seed(seed=1)
    psi = mps.random_mps(I, D_total=2, dtype="complex128")
    Hd = dense_mpo(H, ops)
    v0 = dense_mps(psi, ops)
    for _ in mps.tdvp_(psi, H, times=(0, 0.2), dt=0.05, u=1j, method="1site", normalize=False, opts_expmv=dict(OPTS_EXPMV)):
        pass
    v1 = dense_mps(psi, ops)
    e = lambda v: (v.conj() @ Hd @ v).real / np.linalg.norm(v) ** 2
    if abs(e(v1) - e(v0)) > 1e-6:
        ctx.notes.append("candidate defect (input outside the property's wording, not flagged): tdvp_ does not canonise a non-canonical "
                         f"initial state although its docstring says so; '1site' real-time energy drifts {e(v0):.6f} -> {e(v1):.6f}, "
                         f"norm {np.linalg.norm(v0):.6f} -> {np.linalg.norm(v1):.6f} (Spin12 dense N=4, random_mps D_total=2, seed 1)")
        ctx.count("noncanonical_input_drift_observed")


def run(ctx):
    rng, quick = ctx.rng, ctx.quick
    ctx.rule = ("random Hermitian MPOs as in C09 (single or sum, optionally wrapped in a callable; each MPO with prefactor 1, multiplied "
                "by a real number or canonised with normalize=False so that MpsMpoOBC.factor != 1), random canonical initial MPS of "
                "every admissible charge (norm 1 or 1.5), N=2..6 (quick 2..5), methods 1site/2site/12site, orders 2nd/4th, u real/"
                "imaginary/complex, time grids dyadic or decimal with dt dividing or not dividing the intervals, 1-2 snapshots, "
                "normalize/subtract_E/precompute/yield_initial flags; 'exact' cases at maximal bond dimension (sum of 3 random MPS) "
                "in sectors where the exactness clause applies, with method x subtract_E x normalize x u (real/imaginary/complex) "
                "dealt from a balanced deck of 36 combinations and precompute balanced inside every method x subtract_E group (half of "
                "the '12site' strata instead start from bond dimension 1 on N=2, where the 2-site update is the global evolution), every "
                "second 'trace' case dealt from the method x subtract_E x precompute deck inside the regime of the conservation clause (real time, truncation that cannot bind; '12site' starts below the "
                "maximal bond dimension and enlarges bonds), 'order' cases with a time-dependent generator Ha + cos(w t) Hb (method x precompute "
                "from a balanced deck: every method on every seed; start time 0 or not; prefactors); two strata of every (method, subtract_E) "
                "group of the exact deck use the time-dependent commuting generator (1 + a sin(w t)) H0. Non-trivial = every case "
                "(distinct by full input).")
    ctx.notes.append("interpretive decisions: (a) 'bond dimensions are maximal' = at every bond the bond space is the whole left or the "
                     "whole right space of the charge sector (in U(1) sectors with mixed sector-wise maxima 1site TDVP is not exact: "
                     "inherent O(dt^p) error, observed 9e-7 -> 3e-9 for dt=1/8 -> 1/32, 4th order, spinless fermions N=4 n=3); "
                     "(b) with subtract_E the result is compared as a ray (global scalar is changed by construction); "
                     "(c) 'canonical form' includes the norm of the first tensor only for norm-conserving runs; "
                     "(d) reported times: exact when T/steps is dyadic, else 4*steps ulps of max(|t0|,|t1|).")
    ctx.assumptions += ["Lubich-Oseledets exactness / conservation of the projector-splitting integrator is observed on the real code, not proved",
                        "yastn.expmv (tol=1e-12) and scipy.linalg.expm / solve_ivp are numerical references"]
    if ctx.drv is not None:
        c = ctx.drv.call({"op": "consts"})
        ctx.extra["consts"] = c
    budget = 60 if quick else 600
    t0 = time.time()
    plan = [("trace", 22 if quick else 250), ("exact", 36 if quick else 216)]
    for kind, n in plan:
        # 'exact': every case takes its option combination (method x subtract_E x normalize x u, precompute) from a balanced
        # deck; 'trace': every second case is free, the others are dealt from the deck inside the regime where the conservation
        # clause applies
        deck = exact_deck(rng, n) if kind == "exact" else option_deck(rng, n)
        for i in range(n):
            if elapsed(ctx, t0) > budget * (0.5 if kind == "trace" else 0.8):
                ctx.count(f"{kind}_cases_cut_by_budget")
                break
            st = deck[i] if kind == "exact" else (dict(deck[i], conserve=True) if i % 2 else None)
            run_case(ctx, gen_case(rng, quick, kind, st))
    # time-dependent generator: method x precompute dealt from a balanced deck (every method on every seed); a stratum whose case
    # was dropped (work / wall-clock guard, sector without a maximal bond dimension) is dealt once more with fresh inputs
    n_order = 6 if quick else 24
    for st in order_deck(rng, n_order):
        if elapsed(ctx, t0) > budget:
            ctx.count("order_cases_cut_by_budget")
            break
        if not order_case(ctx, rng, quick, st):
            ctx.count("order_stratum_redealt")
            order_case(ctx, rng, quick, st)
    noncanonical_note(ctx)


def search(ctx, broken, budget_s):
    t0 = time.time()
    rng = ctx.rng
    drv = ctx.drv
    try:   # core closes the model driver before it calls search(): the oracles do not need it
        if drv is not None and (drv.p.poll() is not None or drv.p.stdin.closed):
            ctx.drv = None
    except Exception:
        ctx.drv = None
    # option combinations of the inputs on which something broke (e.g. runs abandoned by the work guard whose local generator
    # violates the solver's preconditions): explored first, on the larger chains, where the local problems are big enough for
    # the run to finish and the dense oracles to apply
    hints = [{k: f.case[k] for k in ("method", "subtract_E", "precompute")} for f in broken
             if isinstance(f.case, dict) and f.case.get("kind") in ("trace", "exact")]
    i = 0
    while time.time() - t0 < budget_s and not any(f.concrete for f in ctx.findings):
        i += 1
        if i % 4 == 0 and not (hints and i % 8):
            order_case(ctx, rng, True)
        else:
            kind = rng.choice(["trace", "exact", "exact"])
            st = exact_deck(rng, 1)[0] if kind == "exact" else option_deck(rng, 1)[0]
            if hints and i % 4:
                st = dict(rng.choice(hints), N=rng.choice([3, 4, 4] if kind == "exact" else [4, 5]))
            if kind == "trace":
                st = dict(st, conserve=True) if (hints or i % 3 == 0) else None
            case = gen_case(rng, True, kind, st)
            if i % 3 == 0:
                case["callable_H"] = False
            run_case(ctx, case)
    ctx.drv = drv
    ctx.notes.append(f"search: {time.time() - t0:.0f}s of additional random cases")


def replay(ctx, obj):
    f = obj.get("finding") or {}
    case = f.get("case")
    if not case:
        return run(ctx)
    if case.get("kind") == "order":
        res = run_order_case(case)
        if not res.get("skip"):
            judge_order(ctx, case, res)
        return
    run_case(ctx, case)
