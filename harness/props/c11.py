"""C11 — PEPS gates and their application act exactly as the dense operators.

Tie to the source:
 (i)   every predefined gate of yastn/tn/fpeps/gates.py, for every symmetry variant of the operator classes, before the
       SVD splitting (captured at `decompose_nn_gate`) and after recombining G0,G1, at random real / imaginary / complex
       parameters: ORACLE  scipy.linalg.expm(-step*H) of an independent NumPy Jordan-Wigner Hamiltonian (1e-10 relative);
       CORRESPONDENCE with the Lean closed forms (`YModel.Gates`, evaluated in Float by drv_c11; 1e-12 relative) and
       exact equality of the integer structure matrices; CONTRACTS of the theorems' hypotheses on the real operators
       (K^3=K, K^2=nh+hn, (XX)^2=1, X^2=1, n^2=n, Coulomb projectors orthogonal; eigh: H=U D U^+, U unitary; SVD split).
 (ii)  real `apply_gate_` on finite PEPS (obc 1x2 … 3x2, cylinders up to 3x2) built by shallow random circuits of local /
       nearest-neighbour / path / MPO gates, pure product states (auxiliary charge leg), purifications (ancilla leg) and
       random bond-dimension-2 PEPS without ancilla: dense `to_tensor()` after each gate vs an independent dense
       fermionic reference (reorder-with-signs, apply the k-site JW matrix, reorder back) started from the initial
       dense state (1e-9 relative).  MPO gates reach apply_gate_ in random PRESENTATIONS of the MpsMpoOBC object: rescaled
       (z*O, O*z, O/z, -O: modulus in O.factor), canonised / compressed with the norm dropped or accumulated in O.factor,
       sums and products of MPOs (direct-sum / fused virtual legs); the dense operator is tracked independently in NumPy.
       Besides exponentials the circuits hold BARE operators without identity term (hopping term, n_a n_b, Sp_a Sm_b, local
       projectors; MPOs without the identity term): their operator legs hold only some charge sectors of the local space.
       They arrive as decompose_nn_gate of the fkron sum, as a two-site MPO (also along a longer path), as its two tensors,
       or as a product with a trivial connecting leg; a gate whose dense operator annihilates the state must give the zero PEPS.
 (iii) `DoublePepsTensor.tensordot` vs tensordot of `fuse_layers()` (four corner pairings, both argument orders, all
       allowed transpositions, operator and charge swaps, bra != ket) and `fuse_layers()` vs NumPy einsum for dense tensors;
       then the SAME object lives on through a random order of set_operator_ (reset / composed), del_operator_,
       add_charge_swaps_, del_charge_swaps_ and repetitions: after every step lazy tensordot == tensordot of fuse_layers()
       == fuse_layers() of a new object built from the independently tracked operator and swaps (no state of earlier calls).
 (iv)  `fpeps.add` / `+` of PEPS vs the sum of the dense states.
All oracle references are plain NumPy/SciPy; nothing of yastn's swap-gate logic is used in them.
"""
import itertools
import struct
import time

import numpy as np

from ..core import CaseTimeout

LEAN_TARGETS = ["YProofs.Props.C11"]
LEVEL = "proof"
TRANSLATORS = []
DRIVER = "drv_c11"

TOL_ORACLE = 1e-10       # gates vs expm
TOL_MODEL = 1e-12        # gates vs Lean closed forms
TOL_APPLY = 1e-9         # to_tensor after apply_gate_ vs dense reference
TOL_DOUBLE = 1e-10       # DoublePepsTensor

CLASSES = {
    "spinless": ["Z2", "U1"],
    "spinful": ["Z2", "U1", "U1xU1", "U1xU1xZ2"],
    "tJ": ["Z2", "U1", "U1xU1", "U1xU1xZ2"],
    "spin12": ["dense", "Z2", "U1"],
}


# ----------------------------------------------------------------------------------------------
# independent local algebra (NumPy): local matrices in the dense basis order documented by the
# operator classes, parity vectors of the basis states, Jordan-Wigner embeddings
# ----------------------------------------------------------------------------------------------

_a = np.array([[0., 1.], [0., 0.]])
_Z = np.diag([1., -1.])
_I2 = np.eye(2)


def local_algebra(cls, sym):
    if cls == "spinless":
        return dict(d=2, par=[(0,), (1,)], ops={"I": _I2, "c": _a, "cp": _a.T, "n": _a.T @ _a})
    if cls in ("spinful", "tJ"):
        if sym == "U1xU1":   # distinguishable species: up and down commute
            cu, cd = np.kron(_a, _I2), np.kron(_I2, _a)
        else:                # |nu nd> = cu+^nu cd+^nd |0>, all fermions anticommute
            cu, cd = np.kron(_a, _I2), np.kron(_Z, _a)
        occ = [(0, 0), (0, 1), (1, 0), (1, 1)]
        if cls == "spinful":
            order = {"Z2": [(0, 0), (1, 1), (1, 0), (0, 1)], "U1": [(0, 0), (1, 0), (0, 1), (1, 1)],
                     "U1xU1": occ, "U1xU1xZ2": occ}[sym]
        else:
            order = {"Z2": [(0, 0), (1, 0), (0, 1)], "U1": [(0, 0), (1, 0), (0, 1)],
                     "U1xU1": [(0, 0), (0, 1), (1, 0)], "U1xU1xZ2": [(0, 0), (0, 1), (1, 0)]}[sym]
        P = np.eye(4)[[occ.index(o) for o in order]]
        f = lambda M: P @ M @ P.T
        par = [((nu % 2, nd % 2) if sym == "U1xU1" else ((nu + nd) % 2,)) for nu, nd in order]
        ops = {"I": f(np.eye(4)), "cu": f(cu), "cd": f(cd), "cpu": f(cu.T), "cpd": f(cd.T)}
        ops["nu"] = ops["cpu"] @ ops["cu"]
        ops["nd"] = ops["cpd"] @ ops["cd"]
        ops["Sp"] = ops["cpu"] @ ops["cd"]
        ops["Sm"] = ops["cpd"] @ ops["cu"]
        ops["Sz"] = 0.5 * (ops["nu"] - ops["nd"])
        return dict(d=len(order), par=par, ops=ops, order=order)
    if cls == "spin12":
        sp = np.array([[0, 1.], [0, 0]])
        X = np.array([[0, 1.], [1, 0]])
        Zp = np.diag([1., -1.])
        Y = np.array([[0, -1j], [1j, 0]])
        fl = (lambda M: M[::-1, ::-1]) if sym == "U1" else (lambda M: M)   # U1: basis (down, up)
        ops = {"I": _I2, "x": fl(X), "y": fl(Y), "z": fl(Zp), "sp": fl(sp), "sm": fl(sp.T), "sz": fl(Zp) / 2,
               "Sp": fl(sp), "Sm": fl(sp.T), "Sz": fl(Zp) / 2}
        return dict(d=2, par=[(), ()], ops=ops)
    raise ValueError(cls)


def string_op(alg, p):
    return np.diag([(-1.) ** sum(x * y for x, y in zip(p, q)) for q in alg["par"]])


def op_parity(alg, M):
    ps = {tuple((x + y) % 2 for x, y in zip(alg["par"][k], alg["par"][b]))
          for k in range(alg["d"]) for b in range(alg["d"]) if abs(M[k, b]) > 0}
    if len(ps) > 1:
        raise ValueError("local operator without definite parity")
    return ps.pop() if ps else tuple(0 for _ in alg["par"][0])


def emb(alg, k, site, M):
    """Jordan-Wigner embedding of the local matrix M at `site` of a k-site chain (site 0 first)."""
    d = alg["d"]
    S = string_op(alg, op_parity(alg, M))
    out = np.eye(1)
    for j in range(k):
        out = np.kron(out, S if j < site else (M if j == site else np.eye(d)))
    return out


def chain_op(alg, k, amp_terms):
    """sum of amp * prod_j emb(pos_j, op_j) on a k-chain; amp_terms = [(amp, [(name, pos), …]), …]"""
    D = alg["d"] ** k
    out = np.zeros((D, D), dtype=complex)
    for amp, word in amp_terms:
        X = np.eye(D, dtype=complex)
        for name, pos in word:
            X = X @ emb(alg, k, pos, alg["ops"][name])
        out = out + amp * X
    return out


def sign_tensor(alg, N, order):
    """sign acquired by rewriting |i_0 … i_{N-1}> in the site order `order` (fermionic reordering)."""
    d = alg["d"]
    pos = {s: k for k, s in enumerate(order)}
    S2 = np.array([[(-1.) ** sum(x * y for x, y in zip(p, q)) for q in alg["par"]] for p in alg["par"]])
    sig = np.ones((d,) * N)
    for a_ in range(N):
        for b_ in range(a_ + 1, N):
            if pos[b_] < pos[a_]:
                shp = [1] * N
                shp[a_] = d
                shp[b_] = d
                sig = sig * S2.reshape(shp)
    return sig


def apply_dense(alg, psi, M, path):
    """psi: ndarray (d,)*N + (A,) in the PEPS fermionic order (ancillas after all system sites);
    M: JW matrix on the k-chain whose j-th site is lattice position path[j]."""
    N = psi.ndim - 1
    d = alg["d"]
    k = len(path)
    rest = [s for s in range(N) if s not in path]
    sig = sign_tensor(alg, N, list(path) + rest)[..., None]
    x = psi * sig
    x = np.moveaxis(x, list(path), list(range(k)))
    shp = x.shape
    x = (M @ x.reshape(d ** k, -1)).reshape(shp)
    x = np.moveaxis(x, list(range(k)), list(path))
    return x * sig


# ----------------------------------------------------------------------------------------------
# real library helpers
# ----------------------------------------------------------------------------------------------

_OPS_CACHE = {}


def yops(cls, sym):
    import yastn
    key = (cls, sym)
    if key not in _OPS_CACHE:
        c = {"spinless": yastn.operators.SpinlessFermions, "spinful": yastn.operators.SpinfulFermions,
             "tJ": yastn.operators.SpinfulFermions_tJ, "spin12": yastn.operators.Spin12}[cls]
        _OPS_CACHE[key] = c(sym=sym)
    return _OPS_CACHE[key]


def yop(ops, cls, name):
    """real local operator by the names used in `local_algebra`."""
    if name == "I":
        return ops.I()
    if cls == "spinless":
        return {"c": ops.c, "cp": ops.cp, "n": ops.n}[name]()
    if cls in ("spinful", "tJ"):
        if name in ("Sp", "Sm", "Sz"):
            return getattr(ops, name)()
        f = {"c": ops.c, "cp": ops.cp, "n": ops.n}[name[:-1]]
        return f(spin=name[-1])
    if cls == "spin12":
        return {"x": ops.x, "y": ops.y, "z": ops.z, "sp": ops.sp, "sm": ops.sm, "sz": ops.sz,
                "Sp": ops.sp, "Sm": ops.sm, "Sz": ops.sz}[name]()
    raise ValueError(name)


def dense1(ops, T):
    leg = ops.space()
    return np.asarray(T.to_numpy(legs={0: leg, 1: leg.conj()}))


def dense2(ops, T):
    """4-leg operator (k0 b0 k1 b1) -> matrix on |i0 i1>, as tests/peps/test_gates.py fuses it."""
    leg = ops.space()
    A = np.asarray(T.to_numpy(legs={0: leg, 1: leg.conj(), 2: leg, 3: leg.conj()}))
    d = A.shape[0]
    return A.transpose(0, 2, 1, 3).reshape(d * d, d * d)


def gate2_dense(ops, gate):
    import yastn
    O = yastn.ncon(gate.G, [(-0, -1, 1), (-2, -3, 1)])
    return dense2(ops, O)


class capture_decompose:
    """records the two-site operator handed to gates.decompose_nn_gate (the gate before the SVD splitting)."""

    def __enter__(self):
        from yastn.tn.fpeps import gates as G
        self.G = G
        self.orig = G.decompose_nn_gate
        self.captured = []

        def wrapper(Gnn, bond=None):
            self.captured.append(Gnn)
            return self.orig(Gnn, bond)
        G.decompose_nn_gate = wrapper
        return self

    def __exit__(self, *a):
        self.G.decompose_nn_gate = self.orig
        return False


def cplx(p):
    """[re, im] -> float if real else complex (keeps real dtype on the real code when possible)."""
    return float(p[0]) if p[1] == 0 else complex(p[0], p[1])


def relerr(a, b):
    a = np.asarray(a)
    b = np.asarray(b)
    if a.shape != b.shape:
        return float("inf")
    return float(np.abs(a - b).max() / max(1.0, np.abs(b).max()))


def rand_param(rng, mode, scale=1.2):
    x = round(rng.uniform(-scale, scale), 6)
    y = round(rng.uniform(-scale, scale), 6)
    if mode == "real":
        return [x, 0.0]
    if mode == "imag":
        return [0.0, y]
    if mode == "zero":
        return [0.0, 0.0]
    return [x, y]


def bits(x):
    return struct.unpack("<Q", struct.pack("<d", float(x)))[0]


def unbits(n):
    return struct.unpack("<d", struct.pack("<Q", int(n)))[0]


def cbits(p):
    return [bits(p[0]), bits(p[1])]


def cunbits(p):
    return complex(unbits(p[0]), unbits(p[1]))


# ----------------------------------------------------------------------------------------------
# part 0: the Lean list algebra and the named integer matrices vs NumPy
# ----------------------------------------------------------------------------------------------

def part_model(ctx):
    if not ctx.drv:
        return {}
    rng = ctx.rng
    r = ctx.drv.call({"op": "matrices"})
    if not r.get("ok"):
        ctx.fail("correspondence", "c11:model:matrices", f"driver error {r}")
        return {}
    m = {k: np.array(v, dtype=np.int64) for k, v in r["mats"].items()}
    dv = {k: np.array(v, dtype=np.int64) for k, v in r["derived"].items()}
    a, ad, Z, I2 = _a.astype(np.int64), _a.T.astype(np.int64), _Z.astype(np.int64), np.eye(2, dtype=np.int64)
    c1, c2 = np.kron(a, I2), np.kron(Z, a)
    n1, n2, h1, h2 = c1.T @ c1, c2.T @ c2, c1 @ c1.T, c2 @ c2.T
    X = np.array([[0, 1], [1, 0]])
    nu, nd = np.kron(ad @ a, I2), np.kron(I2, ad @ a)
    expect = {"a": a, "adag": ad, "Z": Z, "I2": I2, "X": X, "n": ad @ a, "h": a @ ad, "I4": np.eye(4, dtype=np.int64),
              "c1": c1, "c2": c2, "c1dag": c1.T, "c2dag": c2.T, "K": c1.T @ c2 + c2.T @ c1, "NH": n1 @ h2 + h1 @ n2,
              "XX": np.kron(X, X), "nUp": nu, "nDn": nd, "nUpDn": nu @ nd, "Pdn": nd - nu @ nd, "Pup": nu - nu @ nd,
              "Pud": nu @ nd, "P00": np.eye(4, dtype=np.int64) - nu - nd + nu @ nd}
    for k, v in expect.items():
        ctx.count("model:named-matrix")
        if k not in m or m[k].shape != v.shape or not np.array_equal(m[k], v):
            ctx.fail("correspondence", f"c11:model:matrix:{k}", f"Lean matrix {k} = {m.get(k)} differs from the NumPy JW construction {v}")
    K = expect["K"]
    expd = {"K_jw": K, "NH_jw": expect["NH"], "K2": K @ K, "K3": K @ K @ K, "XX_kron": expect["XX"],
            "XX2": expect["XX"] @ expect["XX"], "X2": X @ X, "n2": expect["n"] @ expect["n"],
            "Pdn_def": expect["Pdn"], "Pup_def": expect["Pup"], "Psum": np.eye(4, dtype=np.int64)}
    for k, v in expd.items():
        if k not in dv or not np.array_equal(dv[k], v):
            ctx.fail("correspondence", f"c11:model:derived:{k}", f"Lean derived matrix {k} = {dv.get(k)} differs from NumPy {v}")
    # list-based product vs NumPy on random integer matrices
    cases, refs = [], []
    for _ in range(40 if ctx.quick else 400):
        n, k, mm = rng.randint(1, 5), rng.randint(1, 5), rng.randint(1, 5)
        A = [[rng.randint(-4, 4) for _ in range(k)] for _ in range(n)]
        B = [[rng.randint(-4, 4) for _ in range(mm)] for _ in range(k)]
        cases.append([A, B])
        refs.append((np.array(A) @ np.array(B)).tolist())
    r = ctx.drv.call({"op": "mmul_batch", "cases": cases})
    for cse, ref, got in zip(cases, refs, r.get("res", [])):
        ctx.count("model:mmul")
        if got != ref:
            ctx.fail("correspondence", "c11:model:mmul", f"Lean mmul {cse} = {got}, NumPy {ref}", case={"part": "mmul", "A": cse[0], "B": cse[1]})
            break
    fr = ctx.drv.call({"op": "forms"})
    return {f["name"]: f for f in fr.get("forms", [])}


# ----------------------------------------------------------------------------------------------
# part (i): gate matrices
# ----------------------------------------------------------------------------------------------

def gate_variants():
    """(kind, cls, sym, extra) for every predefined gate and every symmetry variant of the operator classes."""
    out = []
    for cls in ("spinless", "spinful", "tJ"):
        for sym in CLASSES[cls]:
            for sp in ([""] if cls == "spinless" else ["u", "d"]):
                out.append(("hopping", cls, sym, sp))
                out.append(("occupation", cls, sym, sp))
    for sym in CLASSES["spin12"]:
        for X in (["z"] if sym == "U1" else ["x", "y", "z"]):
            out.append(("ising", "spin12", sym, X))
            if sym == "dense" or X == "z":   # cosh*I + sinh*X needs X to carry the charge of I
                out.append(("field", "spin12", sym, X))
        out.append(("heisenberg", "spin12", sym, ""))
    for cls in ("spinful", "tJ"):
        for sym in CLASSES[cls]:
            out.append(("heisenberg", cls, sym, ""))
            out.append(("tJ", cls, sym, ""))
    for sym in CLASSES["spinful"]:
        out.append(("coulomb", "spinful", sym, ""))
    for cls in CLASSES:
        for sym in CLASSES[cls]:
            out.append(("nn_exp", cls, sym, ""))
            out.append(("local_exp", cls, sym, ""))
    return out


NPARAMS = {"hopping": ["t", "step"], "occupation": ["mu", "step"], "ising": ["J", "step"], "field": ["h", "step"],
           "heisenberg": ["J", "step"], "tJ": ["J", "tu", "td", "muu0", "muu1", "mud0", "mud1", "step"],
           "coulomb": ["mu_up", "mu_dn", "U", "step"], "nn_exp": ["step"], "local_exp": ["step"]}


def generic_terms(rng, cls, sym, nsites):
    """Hermitian Hamiltonian as explicit term list [(amp[re,im], [(name, site), …]), …] (h.c. partners included)."""
    terms = []
    def amp(real=False):
        z = rand_param(rng, "real" if real else rng.choice(["real", "complex"]), 1.0)
        return z
    def add(a, word, herm_partner=None):
        terms.append([a, [list(w) for w in word]])
        if herm_partner is not None:
            terms.append([[a[0], -a[1]], [list(w) for w in herm_partner]])
    if cls == "spinless":
        if nsites == 2:
            add(amp(), [("cp", 0), ("c", 1)], [("cp", 1), ("c", 0)])
            add(amp(True), [("n", 0)])
            add(amp(True), [("n", 1)])
            add(amp(True), [("n", 0), ("n", 1)])
        else:
            add(amp(True), [("n", 0)])
    elif cls in ("spinful", "tJ"):
        if nsites == 2:
            add(amp(), [("cpu", 0), ("cu", 1)], [("cpu", 1), ("cu", 0)])
            add(amp(), [("cpd", 0), ("cd", 1)], [("cpd", 1), ("cd", 0)])
            add(amp(True), [("nu", 0)])
            add(amp(True), [("nd", 1)])
            add(amp(True), [("nu", 0), ("nd", 1)])
            add(amp(True), [("Sz", 0), ("Sz", 1)])
            add(amp(), [("Sp", 0), ("Sm", 1)], [("Sm", 0), ("Sp", 1)])
        else:
            add(amp(True), [("nu", 0)])
            add(amp(True), [("nd", 0)])
            if cls == "spinful":
                add(amp(True), [("nu", 0), ("nd", 0)])
            if sym in ("Z2", "U1"):   # Sp, Sm carry no charge there
                add(amp(), [("Sp", 0)], [("Sm", 0)])
    else:
        if nsites == 2:
            add(amp(), [("sp", 0), ("sm", 1)], [("sm", 0), ("sp", 1)])
            add(amp(True), [("z", 0)])
            add(amp(True), [("z", 1)])
            add(amp(True), [("z", 0), ("z", 1)])
            if sym != "U1":
                add(amp(True), [("x", 0), ("x", 1)])
        else:
            add(amp(True), [("z", 0)])
            if sym == "dense":
                add(amp(True), [("x", 0)])
                add(amp(True), [("y", 0)])
    return terms


def real_hamiltonian(ops, cls, terms, nsites):
    """the same term list through the real fkron / local operators."""
    import yastn
    H = None
    for a, word in terms:
        if nsites == 1:
            T = None
            for name, _ in word:
                o = yop(ops, cls, name)
                T = o if T is None else T @ o
        else:
            per = {0: [], 1: []}
            for name, s in word:
                per[s].append(name)
            if per[0] and per[1]:
                # operator product in the listed order: words here are (site-a op)(site-b op) with one operator per site
                (n0, s0), (n1, s1) = word
                T = yastn.fkron(yop(ops, cls, n0), yop(ops, cls, n1), sites=(s0, s1))
            elif per[0]:
                T = yastn.fkron(yop(ops, cls, per[0][0]), ops.I(), sites=(0, 1))
            else:
                T = yastn.fkron(ops.I(), yop(ops, cls, per[1][0]), sites=(0, 1))
        T = cplx(a) * T
        H = T if H is None else H + T
    return H


def gate_case(rng, kind, cls, sym, extra, mode):
    """replayable description of one gate evaluation."""
    names = NPARAMS[kind]
    modes = {n: "real" for n in names}
    if mode == "zero":
        modes[rng.choice(names)] = "zero"
        modes["step"] = rng.choice(["real", "complex"]) if modes["step"] != "zero" else "zero"
    else:
        modes["step"] = mode
        if kind in ("hopping", "occupation", "ising", "field", "coulomb") and rng.random() < 0.3:
            modes[names[0]] = rng.choice(["complex", "imag"])   # closed forms hold for complex couplings too
    params = {n: rand_param(rng, modes[n]) for n in names}
    case = {"part": "gate", "kind": kind, "cls": cls, "sym": sym, "extra": extra, "params": params}
    if kind in ("nn_exp", "local_exp"):
        case["terms"] = generic_terms(rng, cls, sym, 2 if kind == "nn_exp" else 1)
    return case


def reference_hamiltonian(alg, case):
    """independent NumPy JW Hamiltonian H with gate = exp(-step H); returns (H, nsites)."""
    kind, cls, extra = case["kind"], case["cls"], case["extra"]
    p = {k: complex(*v) for k, v in case["params"].items()}
    o = alg["ops"]
    if kind == "hopping":
        c, cp = ("c", "cp") if cls == "spinless" else ("c" + extra, "cp" + extra)
        return -p["t"] * chain_op(alg, 2, [(1, [(cp, 0), (c, 1)]), (1, [(cp, 1), (c, 0)])]), 2
    if kind == "occupation":
        return -p["mu"] * o["n" if cls == "spinless" else "n" + extra].astype(complex), 1
    two = lambda a, b: chain_op(alg, 2, [(1, [(a, 0), (b, 1)])])   # JW product (a at site 0)(b at site 1)
    if kind == "ising":
        return p["J"] * two(extra, extra), 2
    if kind == "field":
        return -p["h"] * o[extra].astype(complex), 1
    SS = lambda: two("Sz", "Sz") + 0.5 * two("Sp", "Sm") + 0.5 * two("Sm", "Sp")
    if kind == "heisenberg":
        return p["J"] * SS(), 2
    if kind == "tJ":
        nn = two("nu", "nu") + two("nu", "nd") + two("nd", "nu") + two("nd", "nd")
        H = -p["tu"] * (two("cpu", "cu") + chain_op(alg, 2, [(1, [("cpu", 1), ("cu", 0)])]))
        H = H - p["td"] * (two("cpd", "cd") + chain_op(alg, 2, [(1, [("cpd", 1), ("cd", 0)])]))
        H = H + p["J"] * (SS() - 0.25 * nn)
        H = H - p["muu0"] * two("nu", "I") - p["muu1"] * two("I", "nu")
        H = H - p["mud0"] * two("nd", "I") - p["mud1"] * two("I", "nd")
        return H, 2
    if kind == "coulomb":
        I = np.eye(4)
        H = p["U"] * (o["nu"] - I / 2) @ (o["nd"] - I / 2) - p["mu_up"] * o["nu"] - p["mu_dn"] * o["nd"] - (p["U"] / 4) * I
        return H.astype(complex), 1
    if kind in ("nn_exp", "local_exp"):
        k = 2 if kind == "nn_exp" else 1
        return chain_op(alg, k, [(complex(*a), [tuple(w) for w in word]) for a, word in case["terms"]]), k
    raise ValueError(kind)


def real_gate(ops, case):
    """the gate through the public constructors of gates.py; returns (Gate, captured pre-decomposition tensor|None)."""
    from yastn.tn.fpeps import gates as G
    kind, cls, extra = case["kind"], case["cls"], case["extra"]
    p = {k: cplx(v) for k, v in case["params"].items()}
    I = ops.I()
    with capture_decompose() as cap:
        if kind == "hopping":
            c, cp = (ops.c(), ops.cp()) if cls == "spinless" else (ops.c(extra), ops.cp(extra))
            g = G.gate_nn_hopping(p["t"], p["step"], I, c, cp)
        elif kind == "occupation":
            g = G.gate_local_occupation(p["mu"], p["step"], I, ops.n() if cls == "spinless" else ops.n(extra))
        elif kind == "ising":
            g = G.gate_nn_Ising(p["J"], p["step"], I, yop(ops, cls, extra))
        elif kind == "field":
            g = G.gate_local_field(p["h"], p["step"], I, yop(ops, cls, extra))
        elif kind == "heisenberg":
            g = G.gate_nn_Heisenberg(p["J"], p["step"], I, yop(ops, cls, "Sz"), yop(ops, cls, "Sp"), yop(ops, cls, "Sm"))
        elif kind == "tJ":
            g = G.gate_nn_tJ(p["J"], p["tu"], p["td"], p["muu0"], p["muu1"], p["mud0"], p["mud1"], p["step"], I,
                             ops.c("u"), ops.cp("u"), ops.c("d"), ops.cp("d"))
        elif kind == "coulomb":
            g = G.gate_local_Coulomb(p["mu_up"], p["mu_dn"], p["U"], p["step"], I, ops.n("u"), ops.n("d"))
        elif kind == "nn_exp":
            g = G.gate_nn_exp(p["step"], I, real_hamiltonian(ops, cls, case["terms"], 2))
        elif kind == "local_exp":
            g = G.gate_local_exp(p["step"], I, real_hamiltonian(ops, cls, case["terms"], 1))
        else:
            raise ValueError(kind)
    return g, (cap.captured[0] if cap.captured else None)


def structure_matrices(ops, case):
    """dense integer structure matrices of the closed form, built from the REAL operators exactly as gates.py builds them
    (in the order of the Lean model's terms), or None for gates without closed form."""
    import yastn
    kind, cls, extra = case["kind"], case["cls"], case["extra"]
    I = ops.I()
    if kind == "hopping":
        c, cp = (ops.c(), ops.cp()) if cls == "spinless" else (ops.c(extra), ops.cp(extra))
        n, h = cp @ c, c @ cp
        II = yastn.fkron(I, I, sites=(0, 1))
        nh = yastn.fkron(n, h, sites=(0, 1)) + yastn.fkron(h, n, sites=(0, 1))
        cc = yastn.fkron(cp, c, sites=(0, 1)) + yastn.fkron(cp, c, sites=(1, 0))
        return [dense2(ops, II), dense2(ops, nh), dense2(ops, cc)]
    if kind == "ising":
        X = yop(ops, cls, extra)
        return [dense2(ops, yastn.fkron(I, I, sites=(0, 1))), dense2(ops, yastn.fkron(X, X, sites=(0, 1)))]
    if kind == "field":
        return [dense1(ops, I), dense1(ops, yop(ops, cls, extra))]
    if kind == "occupation":
        return [dense1(ops, I), dense1(ops, ops.n() if cls == "spinless" else ops.n(extra))]
    if kind == "coulomb":
        nu, nd = ops.n("u"), ops.n("d")
        nn = nu @ nd
        return [dense1(ops, I), dense1(ops, nd - nn), dense1(ops, nu - nn), dense1(ops, nn)]
    return None


def check_hypotheses(ctx, case, S):
    """the algebraic hypotheses under which the closed-form theorems apply, on the real structure matrices (exact)."""
    kind = case["kind"]
    tag = f"{kind}:{case['cls']}:{case['sym']}:{case['extra']}"
    ok = True
    eq = lambda A, B: np.array_equal(np.asarray(A), np.asarray(B))
    if kind == "hopping":
        II, NH, K = S
        ok = eq(II, np.eye(len(II))) and eq(K @ K @ K, K) and eq(K @ K, NH)
    elif kind == "ising":
        II, XX = S
        ok = eq(II, np.eye(len(II))) and np.allclose(XX @ XX, II, atol=0)
    elif kind == "field":
        I, X = S
        ok = eq(I, np.eye(len(I))) and np.allclose(X @ X, I, atol=0)
    elif kind == "occupation":
        I, n = S
        ok = eq(I, np.eye(len(I))) and eq(n @ n, n)
    elif kind == "coulomb":
        I, Pd, Pu, Pud = S
        Ps = [Pd, Pu, Pud]
        ok = eq(I, np.eye(len(I))) and all(eq(P @ P, P) for P in Ps) and \
            all(eq(P @ Q, np.zeros_like(P)) for P in Ps for Q in Ps if P is not Q)
    ctx.count("gate:hypotheses-checked")
    if not ok:
        ctx.fail("contract", f"c11:gate-hypothesis:{kind}",
                 f"algebraic hypothesis of the closed-form theorem fails on the real operators for {tag}", case=case)


def model_perm(case, alg):
    """permutation P with dense_real = P model P^T if the Lean model has concrete matrices for this variant."""
    kind, cls, sym, extra = case["kind"], case["cls"], case["sym"], case["extra"]
    if kind in ("hopping", "occupation") and cls == "spinless":
        return np.eye(4 if kind == "hopping" else 2)
    if kind in ("ising", "field") and cls == "spin12" and extra == "x":
        return np.eye(4 if kind == "ising" else 2)
    if kind == "coulomb":
        occ = [(0, 0), (0, 1), (1, 0), (1, 1)]
        return np.eye(4)[[occ.index(o) for o in alg["order"]]]
    return None


def eval_gate_case(ctx, case, forms, model_res=None):
    """all checks of part (i) for one case; model_res = driver answer for this case (or None)."""
    import scipy.linalg as sla
    kind, cls, sym = case["kind"], case["cls"], case["sym"]
    ops = yops(cls, sym)
    alg = local_algebra(cls, sym)
    tag = f"{kind}:{cls}:{sym}:{case['extra']}"
    H, nsites = reference_hamiltonian(alg, case)
    step = complex(*case["params"]["step"])
    ref = sla.expm(-step * H)
    try:
        gate, pre = real_gate(ops, case)
    except (CaseTimeout, MemoryError):
        raise
    except Exception as e:  # every variant generated here is a valid input of a public constructor
        ctx.fail("oracle", f"c11:gate-raises:{kind}", f"{tag}: constructor raised {type(e).__name__}: {e}", case=case, concrete=True)
        return
    mats = {}
    if nsites == 2:
        if pre is not None:
            mats["before-decomposition"] = dense2(ops, pre)
        mats["recombined"] = gate2_dense(ops, gate)
    else:
        mats["local"] = dense1(ops, gate.G[0])
    for which, got in mats.items():
        err = relerr(got, ref)
        ctx.count(f"gate:{kind}:{which}")
        ctx.extra["max_err_gate"] = max(ctx.extra.get("max_err_gate", 0.0), err if np.isfinite(err) else 1e300)
        if not err <= TOL_ORACLE:
            ctx.fail("oracle", f"c11:gate:{kind}",
                     f"{tag} ({which}): dense gate differs from expm(-step*H) of the NumPy JW Hamiltonian, rel err {err:.3e}; params={case['params']}",
                     case=dict(case, which=which), concrete=True)
            return
    got = mats.get("before-decomposition", mats.get("recombined", mats.get("local")))
    S = structure_matrices(ops, case)
    if S is not None:
        check_hypotheses(ctx, case, S)
    if model_res is not None and S is not None:
        coefs = [cunbits(c) for c in model_res["coefs"]]
        # (a) model coefficients on the real structure matrices
        val = sum(c * s for c, s in zip(coefs, S))
        err = relerr(got, val)
        ctx.count("gate:model-coefficients")
        if not err <= TOL_MODEL:
            ctx.fail("correspondence", f"c11:model-coefs:{kind}", f"{tag}: real gate != sum_k coef_k(model) * structure_k(real), rel err {err:.3e}", case=case)
        P = model_perm(case, alg)
        if P is not None:
            dense = np.array([[cunbits(x) for x in row] for row in model_res["dense"]])
            ham = np.array([[cunbits(x) for x in row] for row in model_res["ham"]])
            err = relerr(got, P @ dense @ P.T)
            ctx.count("gate:model-dense")
            ctx.extra["max_err_model"] = max(ctx.extra.get("max_err_model", 0.0), err)
            if not err <= TOL_MODEL:
                ctx.fail("correspondence", f"c11:model-dense:{kind}", f"{tag}: real gate != Lean closed form, rel err {err:.3e}", case=case)
            errh = relerr(P @ ham @ P.T, H)
            if not errh <= TOL_MODEL:
                ctx.fail("correspondence", f"c11:model-ham:{kind}", f"{tag}: Hamiltonian of the Lean statement != NumPy JW Hamiltonian, rel err {errh:.3e}", case=case)
            form = forms.get(kind)
            if form:
                for t, s in zip(form["terms"], S):
                    if not np.array_equal(P @ np.array(t["mat"]) @ P.T, s):
                        ctx.fail("correspondence", f"c11:model-structure:{kind}", f"{tag}: structure matrix of coefficient {t['fn']} differs: model {t['mat']} real {np.asarray(s).tolist()}", case=case)
    # eigh / SVD contracts of the generic theorems
    if kind in ("heisenberg", "tJ", "nn_exp", "local_exp"):
        check_eigh_contract(ctx, ops, case, H, nsites)
    if nsites == 2:
        check_svd_contract(ctx, ops, case, pre, gate)


def check_eigh_contract(ctx, ops, case, H, nsites):
    """contract of `gate_exp_via_eigh`: the real eigh returns U unitary, D real diagonal with H = U D U^+ (dense check)."""
    import yastn
    try:
        if nsites == 2:
            if case["kind"] in ("heisenberg", "tJ"):
                return  # Hamiltonian is internal to the constructor; the oracle above covers the result
            Hy = real_hamiltonian(ops, case["cls"], case["terms"], 2)
            Hy = Hy + 0 * yastn.fkron(ops.I(), ops.I())
            Hy = Hy.fuse_legs(axes=((0, 2), (1, 3)))
        else:
            Hy = real_hamiltonian(ops, case["cls"], case["terms"], 1) + 0 * ops.I()
        D, U = yastn.eigh(Hy, axes=(0, 1))
        rec = U @ D @ U.conj().transpose(axes=(1, 0))
        e1 = float((rec - Hy).norm())
        Ud = U.to_numpy()
        e2 = float(np.abs(Ud.conj().T @ Ud - np.eye(Ud.shape[1])).max())
        Dd = D.to_numpy()
        e3 = float(np.abs(np.imag(Dd)).max()) if np.iscomplexobj(Dd) else 0.0
        ctx.count("contract:eigh")
        if not (e1 <= 1e-10 and e2 <= 1e-10 and e3 <= 1e-12):
            ctx.fail("contract", "c11:eigh-contract", f"eigh contract fails: |U D U^+ - H|={e1:.2e}, |U^+U-1|={e2:.2e}, |Im D|={e3:.2e}", case=case)
    except (CaseTimeout, MemoryError):
        raise
    except Exception as e:
        ctx.fail("contract", "c11:eigh-contract", f"eigh contract could not be evaluated: {type(e).__name__}: {e}", case=case)


def check_svd_contract(ctx, ops, case, pre, gate):
    """contract of `decompose_reconstructs`: G = U S V on the real backend; then (U sqrt S)(sqrt S V) = G is the theorem."""
    if pre is None:
        return
    try:
        U, S, V = pre.svd_with_truncation(axes=((0, 1), (2, 3)), sU=-1, tol=1e-14, Vaxis=2)
        import yastn
        rec = yastn.ncon([U, S, V], [(-0, -1, 1), (1, 2), (-2, -3, 2)])
        e = float((rec - pre).norm()) / max(1.0, float(pre.norm()))
        ctx.count("contract:svd")
        if not e <= 1e-10:
            ctx.fail("contract", "c11:svd-contract", f"SVD contract G = U S V fails with relative error {e:.2e}", case=case)
    except (CaseTimeout, MemoryError):
        raise
    except Exception as e:
        ctx.fail("contract", "c11:svd-contract", f"SVD contract could not be evaluated: {type(e).__name__}: {e}", case=case)


def part_gates(ctx, forms):
    from ..core import time_limit
    rng = ctx.rng
    variants = gate_variants()
    modes = ["real", "imag", "complex", "zero"]
    reps = 1 if ctx.quick else 4
    cases = []
    for (kind, cls, sym, extra) in variants:
        for mode in modes:
            if ctx.quick and mode == "zero" and rng.random() < 0.6:
                continue
            for _ in range(reps):
                cases.append(gate_case(rng, kind, cls, sym, extra, mode))
    # model answers in one batch
    model_res = {}
    if ctx.drv:
        idx = [i for i, c in enumerate(cases) if c["kind"] in forms]
        req = [[cases[i]["kind"], [cbits(cases[i]["params"][n]) for n in forms[cases[i]["kind"]]["params"]]] for i in idx]
        r = ctx.drv.call({"op": "eval_batch", "cases": req})
        if not r.get("ok"):
            ctx.fail("correspondence", "c11:model:eval", f"driver error {r}")
        else:
            model_res = dict(zip(idx, r["res"]))
    for i, case in enumerate(cases):
        ctx.case(case, nontrivial=True)
        ctx.count(f"gate-variant:{case['kind']}:{case['cls']}:{case['sym']}")
        try:
            with time_limit(20):
                eval_gate_case(ctx, case, forms, model_res.get(i))
        except (CaseTimeout, MemoryError) as e:
            ctx.count(f"infrastructure:{type(e).__name__}")


# ----------------------------------------------------------------------------------------------
# part (ii): circuits on finite PEPS
# ----------------------------------------------------------------------------------------------

LATTICES_QUICK = [((1, 2), "obc"), ((2, 1), "obc"), ((2, 2), "obc"), ((2, 3), "obc"), ((3, 2), "obc"),
                  ((2, 1), "cylinder"), ((3, 1), "cylinder"), ((2, 2), "cylinder"), ((3, 2), "cylinder")]
LATTICES_MORE = [((1, 3), "obc"), ((3, 1), "obc"), ((1, 4), "obc"), ((2, 3), "cylinder")]


def lattice_paths(geo, k):
    """all self-avoiding nearest-neighbour paths of k sites (through the periodic boundary of a cylinder as well)."""
    out = []

    def nbrs(s):
        r = []
        for d in "tlbr":
            n = geo.nn_site(s, d)
            if n is not None:
                n = geo.site2index(n)
                if n not in r:
                    r.append(n)
        return r

    def rec(p):
        if len(p) == k:
            out.append(tuple(p))
            return
        for n in nbrs(p[-1]):
            if n not in p:
                rec(p + [n])
    for s in geo.sites():
        rec([tuple(s)])
    return out


def species(cls):
    return [""] if cls == "spinless" else ["u", "d"]


def mpo_terms(rng, cls, sym, k):
    """terms of a k-site MPO: [(amp[re,im], [(name,pos),…])]; every on-site product is non-vanishing and every term
    carries zero total charge."""
    terms = []
    nt = rng.randint(1, 3)
    for _ in range(nt):
        a = rand_param(rng, rng.choice(["real", "real", "complex"]), 1.0)
        if cls == "spin12":
            kind = rng.choice(["flip", "z", "zz"] + (["xx"] if sym != "U1" else []))
            i, j = rng.sample(range(k), 2)
            if kind == "flip":
                word = [("sp", i), ("sm", j)]
            elif kind == "z":
                word = [("z", i)]
            elif kind == "zz":
                word = [("z", i), ("z", j)]
            else:
                word = [("x", i), ("x", j)]
        else:
            sp = rng.choice(species(cls))
            sp2 = rng.choice(species(cls))
            kinds = ["hop", "hop", "dens", "dd"] + (["hopn"] if k >= 3 else []) + (["pair"] if k >= 4 else [])
            kind = rng.choice(kinds)
            pos = rng.sample(range(k), min(k, 4))
            if kind == "hop":
                word = [("cp" + sp, pos[0]), ("c" + sp, pos[1])]
            elif kind == "dens":
                word = [("n" + sp, pos[0])]
            elif kind == "dd":
                word = [("n" + sp, pos[0]), ("n" + sp2, pos[1])]
            elif kind == "hopn":
                word = [("cp" + sp, pos[0]), ("n" + sp2, pos[2]), ("c" + sp, pos[1])]
            else:
                word = [("cp" + sp, pos[0]), ("cp" + sp2, pos[1]), ("c" + sp2, pos[2]), ("c" + sp, pos[3])]
        terms.append([a, [list(w) for w in word]])
    return terms


def gen_circuit(rng, cls, sym, dims, boundary, mode, depth):
    import yastn.tn.fpeps as fpeps
    geo = fpeps.SquareLattice(dims=dims, boundary=boundary)
    sites = [tuple(s) for s in geo.sites()]
    alg = local_algebra(cls, sym)
    prog = {"part": "apply", "cls": cls, "sym": sym, "dims": list(dims), "boundary": boundary, "mode": mode,
            "seed": rng.randrange(1 << 30), "complex": rng.random() < 0.4}
    if mode == "aux":
        prog["init"] = [rng.randrange(alg["d"]) for _ in sites]
    bonds = [(tuple(b[0]), tuple(b[1])) for b in geo.bonds()]
    pm = lambda real=False: rand_param(rng, "real" if (real or not prog["complex"]) else rng.choice(["real", "imag", "complex"]), 0.9)
    gates = []
    for _ in range(depth):
        r = rng.random()
        if len(sites) == 1:
            r = 0.0    # a single site: local gates only
        if r < 0.2:    # local gate
            s = rng.choice(sites)
            if cls == "spin12":
                g = {"g": "field", "h": pm(), "step": pm(), "X": rng.choice(["x", "z", "y"] if sym == "dense" else ["z"]), "sites": [s]}
            elif cls == "spinful" and rng.random() < 0.5:
                g = {"g": "coulomb", "mu_up": pm(), "mu_dn": pm(), "U": pm(), "step": pm(), "sites": [s]}
            else:
                g = {"g": "occupation", "mu": pm(), "step": pm(), "sp": rng.choice(species(cls)), "sites": [s]}
        elif r < 0.6 and bonds:  # nearest-neighbour gate on a bond, both orientations
            b = rng.choice(bonds)
            if rng.random() < 0.5:
                b = (b[1], b[0])
            g = nn_gate_desc(rng, cls, sym, pm)
            g["sites"] = [list(b[0]), list(b[1])]
        elif r < 0.72:  # two-element gate along a longer path (identities filled in)
            k = rng.randint(3, min(4, len(sites))) if len(sites) >= 3 else 2
            paths = lattice_paths(geo, k)
            if not paths:
                continue
            g = nn_gate_desc(rng, cls, sym, pm)
            g["sites"] = [list(s) for s in rng.choice(paths)]
        elif r < 0.84:  # bare operator (no exponential, no identity term): local, or two elements on a bond / along a path
            k = min(rng.choice([1, 2, 2, 3, 3, 4]), len(sites))
            paths = lattice_paths(geo, k)
            if not paths:
                continue
            g = {"g": "bare", "terms": bare_terms(rng, cls, sym, min(k, 2), prog["complex"]),
                 "form": rng.choice(["svd", "mpo", "list", "product"]), "sites": [list(s) for s in rng.choice(paths)]}
        else:  # MPO gate on a path
            k = rng.randint(2, min(4, len(sites)))
            paths = lattice_paths(geo, k)
            if not paths:
                continue
            g = {"g": "mpo", "terms": mpo_terms(rng, cls, sym, k), "form": rng.choice(["mpo", "mpo", "list"]),
                 "sites": [list(s) for s in rng.choice(paths)],
                 "present": mpo_presentation(rng, cls, sym, k, prog["complex"]),
                 "noid": rng.random() < (0.15 if mode == "aux" else 0.3)}   # the operator without the identity term
        gates.append(g)
    prog["gates"] = gates
    return prog


def nn_gate_desc(rng, cls, sym, pm):
    if cls == "spin12":
        kind = rng.choice(["heisenberg", "nn_exp"] + (["ising"] if True else []))
        if kind == "ising":
            return {"g": "ising", "J": pm(), "step": pm(), "X": rng.choice(["z"] if sym == "U1" else ["x", "z", "y"])}
        if kind == "heisenberg":
            return {"g": "heisenberg", "J": pm(True), "step": pm()}
        return {"g": "nn_exp", "step": pm(), "terms": generic_terms(rng, cls, sym, 2)}
    kind = rng.choice(["hopping", "hopping", "nn_exp"] + (["tJ"] if cls in ("tJ", "spinful") else []))
    if kind == "hopping":
        return {"g": "hopping", "t": pm(), "step": pm(), "sp": rng.choice(species(cls))}
    if kind == "tJ":
        return {"g": "tJ", "params": {n: pm(n != "step") for n in NPARAMS["tJ"]}}
    return {"g": "nn_exp", "step": pm(), "terms": generic_terms(rng, cls, sym, 2)}


def bare_terms(rng, cls, sym, nsites, cplx_ok):
    """terms [(amp[re,im], [(name,pos),…])] of an operator that is NOT an exponential and has no identity term: one or
    two products of local operators (hopping term, density-density, spin flip, projector-like densities, …) of zero
    total charge.  The operator legs of the tensors of such a gate typically hold only some charge sectors of the
    local space."""
    def amp():
        z = [0.0, 0.0]
        while abs(complex(*z)) < 0.2:
            z = rand_param(rng, rng.choice(["real", "real", "complex", "imag"]) if cplx_ok else "real", 1.5)
        return z
    terms = []
    for _ in range(rng.choice([1, 1, 1, 2])):
        i, j = rng.sample([0, 1], 2)
        sp, sp2 = rng.choice(species(cls)), rng.choice(species(cls))
        if nsites == 1:
            if cls == "spin12":
                word = rng.choice([[("sp", 0), ("sm", 0)], [("sm", 0), ("sp", 0)], [("z", 0)]] + ([[("x", 0)]] if sym == "dense" else []))
            elif cls == "spinless":
                word = rng.choice([[("n", 0)], [("c", 0), ("cp", 0)]])
            else:
                word = rng.choice([[("n" + sp, 0)], [("Sz", 0)], [("c" + sp, 0), ("cp" + sp, 0)]]
                                  + ([[("nu", 0), ("nd", 0)]] if cls == "spinful" else [])
                                  + ([[("Sp", 0)]] if sym in ("Z2", "U1") else []))   # Sp carries no charge there
        elif cls == "spin12":
            word = rng.choice([[("sp", i), ("sm", j)], [("sp", i), ("sm", j)], [("z", i), ("z", j)], [("z", i)]]
                              + ([[("x", i), ("x", j)]] if sym != "U1" else []))
        else:
            word = rng.choice([[("cp" + sp, i), ("c" + sp, j)], [("cp" + sp, i), ("c" + sp, j)],
                               [("n" + sp, i), ("n" + sp2, j)], [("n" + sp, i)]]
                              + ([[("Sp", i), ("Sm", j)], [("Sz", i), ("Sz", j)]] if cls != "spinless" else []))
        terms.append([amp(), [list(w) for w in word]])
    return terms


def desc_to_gatecase(cls, sym, g):
    """gate descriptor of a circuit -> case of part (i) (shared constructors / references)."""
    k = g["g"]
    if k == "hopping":
        return {"kind": "hopping", "cls": cls, "sym": sym, "extra": g["sp"], "params": {"t": g["t"], "step": g["step"]}}
    if k == "occupation":
        return {"kind": "occupation", "cls": cls, "sym": sym, "extra": g["sp"], "params": {"mu": g["mu"], "step": g["step"]}}
    if k == "field":
        return {"kind": "field", "cls": cls, "sym": sym, "extra": g["X"], "params": {"h": g["h"], "step": g["step"]}}
    if k == "ising":
        return {"kind": "ising", "cls": cls, "sym": sym, "extra": g["X"], "params": {"J": g["J"], "step": g["step"]}}
    if k == "heisenberg":
        return {"kind": "heisenberg", "cls": cls, "sym": sym, "extra": "", "params": {"J": g["J"], "step": g["step"]}}
    if k == "tJ":
        return {"kind": "tJ", "cls": cls, "sym": sym, "extra": "", "params": g["params"]}
    if k == "coulomb":
        return {"kind": "coulomb", "cls": cls, "sym": sym, "extra": "", "params": {n: g[n] for n in NPARAMS["coulomb"]}}
    if k == "nn_exp":
        return {"kind": "nn_exp", "cls": cls, "sym": sym, "extra": "", "params": {"step": g["step"]}, "terms": g["terms"]}
    raise ValueError(k)


def mpo_presentation(rng, cls, sym, k, cplx_ok):
    """random history of the MPO object that is handed to Gate.G: the same kind of operator can reach apply_gate_ as a
    rescaled MPO (z*O, O*z, O/z, -O: modulus kept in O.factor, phase in the first tensor), in a canonical form or
    compressed (norm dropped or accumulated in O.factor), or as a sum / product of MPOs (block / fused virtual legs)."""
    steps = []
    n = rng.choice([0, 1, 1, 2, 2, 3])
    grown = False
    for _ in range(n):
        r = rng.random()
        if r < 0.35:
            how = rng.choice(["rmul", "rmul", "mul", "div", "neg"])
            mode = rng.choice(["real", "real", "complex", "imag"]) if cplx_ok else "real"
            z = [0.0, 0.0]
            while abs(complex(*z)) < 0.25:
                z = rand_param(rng, mode, 3.0)
            steps.append({"op": "scale", "how": how, "z": z})
        elif r < 0.55:
            steps.append({"op": "canon", "to": rng.choice(["first", "last"]), "normalize": rng.random() < 0.35})
        elif r < 0.8:
            steps.append({"op": "trunc", "to": rng.choice(["first", "last"]), "normalize": rng.random() < 0.35})
        elif not grown:
            grown = True
            terms = mpo_terms(rng, cls, sym, k)[:2]
            if rng.random() < 0.5:
                steps.append({"op": "matmul", "side": rng.choice(["left", "right"]), "terms": terms[:1]})
            else:
                how = rng.choice(["add", "plus", "minus"])
                amps = [rand_param(rng, rng.choice(["real", "complex"]) if cplx_ok else "real", 2.0) for _ in range(2)] if how == "add" else None
                steps.append({"op": "add", "how": how, "amps": amps, "terms": terms})
    return steps


def mpo_from_terms(ops, alg, cls, k, terms, identity=True):
    """[identity +] sum of terms on a k-chain: (real MPO from generate_mpo, independent NumPy JW matrix)."""
    import yastn.tn.mps as mps
    words = [(complex(*a), [tuple(w) for w in word]) for a, word in terms]
    M = (np.eye(alg["d"] ** k, dtype=complex) if identity else 0) + chain_op(alg, k, words)
    I = ops.I()
    hterms = [mps.Hterm(1, [0], [I])] if identity else []
    for a, word in terms:
        hterms.append(mps.Hterm(cplx(a), [p for _, p in word], [yop(ops, cls, n) for n, _ in word]))
    return mps.generate_mpo(mps.product_mpo(I, k), hterms), M


def present_mpo(ops, alg, cls, k, O, M, steps):
    """applies the presentation history to the real MPO (public mps API) and, independently, to the dense matrix.
    Returns (None, None) if a step is not applicable (operator of vanishing norm)."""
    import yastn.tn.mps as mps
    for st in steps:
        op = st["op"]
        if op == "scale":
            z, zc = cplx(st["z"]), complex(*st["z"])
            if st["how"] == "rmul":
                O, M = z * O, zc * M
            elif st["how"] == "mul":
                O, M = O * z, zc * M
            elif st["how"] == "div":
                O, M = O / z, M / zc
            else:
                O, M = -O, -M
        elif op in ("canon", "trunc"):
            nrm = float(np.linalg.norm(M))
            if st["normalize"] and not nrm > 1e-6:
                return None, None
            O = O.shallow_copy()
            if op == "canon":
                O.canonize_(to=st["to"], normalize=st["normalize"])
            else:
                O.canonize_(to=("last" if st["to"] == "first" else "first"), normalize=st["normalize"])
                O.truncate_(to=st["to"], opts_svd={"tol": 1e-13}, normalize=st["normalize"])
            if st["normalize"]:   # documented: the norm is set to 1 (and not kept in .factor)
                M = M / nrm
        elif op == "matmul":
            O2, M2 = mpo_from_terms(ops, alg, cls, k, st["terms"])
            O, M = (O2 @ O, M2 @ M) if st["side"] == "left" else (O @ O2, M @ M2)
        elif op == "add":
            O2, M2 = mpo_from_terms(ops, alg, cls, k, st["terms"])
            if st["how"] == "add":
                a, b = st["amps"]
                O, M = mps.add(O, O2, amplitudes=[cplx(a), cplx(b)]), complex(*a) * M + complex(*b) * M2
            elif st["how"] == "plus":
                O, M = O + O2, M + M2
            else:
                O, M = O - O2, M - M2
        else:
            raise ValueError(op)
    return O, M


def build_gate(ops, alg, cls, sym, g):
    """descriptor -> (real Gate, independent dense matrix M on the chain of the acting sites, acting sites)."""
    import scipy.linalg as sla
    import yastn.tn.fpeps as fpeps
    import yastn.tn.mps as mps
    sites = [tuple(s) for s in g["sites"]]
    if g["g"] == "bare":
        return build_bare_gate(ops, alg, cls, g, sites)
    if g["g"] == "mpo":
        k = len(sites)
        O, M = mpo_from_terms(ops, alg, cls, k, g["terms"], identity=not g.get("noid", False))
        # the operator is handed over in an arbitrary PRESENTATION of the MPO object (overall scalar kept in .factor,
        # canonical forms, compressed, sums / products of MPOs); the dense operator it represents is tracked in NumPy
        O, M = present_mpo(ops, alg, cls, k, O, M, g.get("present", []))
        if O is None:
            return None, None, None
        # the MPO module is not under test here (C07): use the gate only if the MPO is the intended operator
        leg = ops.space()
        L = {}
        for j in range(k):
            L[2 * j] = leg
            L[2 * j + 1] = leg.conj()
        T = np.asarray(O.to_tensor().to_numpy(legs=L))
        T = T.transpose(list(range(0, 2 * k, 2)) + list(range(1, 2 * k, 2))).reshape(alg["d"] ** k, alg["d"] ** k)
        mscale = float(np.abs(M).max())
        if T.shape != M.shape or not (1e-6 < mscale < 1e6) or not float(np.abs(T - M).max()) <= 1e-10 * mscale:
            return None, None, None
        if g["form"] == "list":
            from yastn.tn.fpeps._gates_auxiliary import gate_from_mpo
            return fpeps.Gate(G=tuple(gate_from_mpo(O)), sites=tuple(sites)), M, sites
        return fpeps.Gate(G=O, sites=tuple(sites)), M, sites
    case = desc_to_gatecase(cls, sym, g)
    H, nsites = reference_hamiltonian(alg, case)
    M = sla.expm(-complex(*case["params"]["step"]) * H)
    gate, _ = real_gate(ops, case)
    gate = gate._replace(sites=tuple(sites))
    acting = sites if nsites == 1 else [sites[0], sites[-1]]
    return gate, M, acting


class GateSplitMismatch(Exception):
    pass


def build_bare_gate(ops, alg, cls, g, sites):
    """bare operator sum_k amp_k A_k B_k (no identity term) as a Gate, in one of the forms a user has at hand:
    'svd'     decompose_nn_gate of the sum of fkron products,
    'mpo'     two-site MPO from generate_mpo handed over as Gate.G (also along a longer path),
    'list'    the two tensors of that MPO (gate_from_mpo),
    'product' a single product A_0 B_1 with a trivial connecting leg, as EnvCTM.measure_nn builds it
              (add_leg + swap_gate of the bra leg of A with the connecting leg).
    The gate is used only if its two tensors, contracted over the connecting leg, are the intended dense operator."""
    import yastn
    import yastn.tn.fpeps as fpeps
    import yastn.tn.mps as mps
    from yastn.tn.fpeps._gates_auxiliary import gate_from_mpo
    terms = g["terms"]
    words = [(complex(*a), [tuple(w) for w in word]) for a, word in terms]
    if len(sites) == 1:
        M = chain_op(alg, 1, words)
        T = None
        for a, word in terms:
            X = None
            for name, _ in word:
                X = yop(ops, cls, name) if X is None else X @ yop(ops, cls, name)
            T = cplx(a) * X if T is None else T + cplx(a) * X
        if not (1e-6 < float(np.abs(M).max()) and relerr(dense1(ops, T), M) <= 1e-12):
            return None, None, None
        return fpeps.Gate(G=(T,), sites=tuple(sites)), M, sites
    M = chain_op(alg, 2, words)
    acting = [sites[0], sites[-1]]
    form = g["form"]
    if form == "product" and not (len(terms) == 1 and len(terms[0][1]) == 2):
        form = "svd"
    I = ops.I()
    if form == "svd":
        O = None
        for a, word in terms:
            if len(word) == 2:
                (n0, s0), (n1, s1) = word
                X = yastn.fkron(yop(ops, cls, n0), yop(ops, cls, n1), sites=(s0, s1))
            else:
                (n0, s0), = word
                X = yastn.fkron(yop(ops, cls, n0), I, sites=(s0, 1 - s0))
            O = cplx(a) * X if O is None else O + cplx(a) * X
        if not relerr(dense2(ops, O), M) <= 1e-12:   # fkron is not under test here
            return None, None, None
        gate = fpeps.gates.decompose_nn_gate(O)
        G = gate.G
        if not relerr(gate2_dense(ops, gate), dense2(ops, O)) <= TOL_ORACLE:
            raise GateSplitMismatch(f"decompose_nn_gate: the two tensors do not recombine to the two-site operator, rel err {relerr(gate2_dense(ops, gate), dense2(ops, O)):.2e}")
    elif form == "product":
        (a, word), = terms
        (n0, s0), (n1, s1) = word
        A, B = yop(ops, cls, n0), yop(ops, cls, n1)
        sign = 1
        if s0 == 1:   # (A at site 1)(B at site 0) = +-(B at site 0)(A at site 1)
            pa, pb = op_parity(alg, alg["ops"][n0]), op_parity(alg, alg["ops"][n1])
            sign = (-1) ** sum(x * y for x, y in zip(pa, pb))
            A, B = B, A
        G = ((sign * cplx(a)) * A.add_leg(s=1, axis=2).swap_gate(axes=(1, 2)), B.add_leg(s=-1, axis=2))
    else:
        hterms = [mps.Hterm(cplx(a), [p_ for _, p_ in word], [yop(ops, cls, n_) for n_, _ in word]) for a, word in terms]
        O = mps.generate_mpo(mps.product_mpo(I, 2), hterms)
        G = tuple(gate_from_mpo(O))
    gate = fpeps.Gate(G=tuple(G), sites=tuple(sites))
    mscale = float(np.abs(M).max())
    if not (1e-6 < mscale and relerr(gate2_dense(ops, gate) / mscale, M / mscale) <= 1e-10):
        return None, None, None
    if form == "mpo":
        gate = fpeps.Gate(G=O, sites=tuple(sites))
    return gate, M, acting


def initial_peps(prog, ops, alg):
    """the initial PEPS of a circuit and the expected |amplitudes| of its dense form."""
    import yastn
    import yastn.tn.fpeps as fpeps
    cls, sym, mode = prog["cls"], prog["sym"], prog["mode"]
    geo = fpeps.SquareLattice(dims=tuple(prog["dims"]), boundary=prog["boundary"])
    sites = [tuple(s) for s in geo.sites()]
    d = alg["d"]
    if mode == "purif":
        return fpeps.product_peps(geo, ops.I()), geo
    if mode == "aux":
        leg = ops.space()
        vecs = {}
        for s, i in zip(sites, prog["init"]):
            # basis vector number i of the local space, in the dense basis order
            v = np.zeros(d)
            v[i] = 1
            t = None
            off = 0
            for tt, D in zip(leg.t, leg.D):
                if off <= i < off + D:
                    t, loc = tt, i - off
                off += D
            vec = yastn.Tensor(config=ops.config, s=(1,), n=t)
            blk = np.zeros(dict(zip(leg.t, leg.D))[t])
            blk[loc] = 1
            vec.set_block(ts=(t,), Ds=(len(blk),), val=blk)
            vecs[s] = vec
        return fpeps.product_peps(geo, vecs), geo
    # mode == "plain": random PEPS with bond dimension 2 and NO auxiliary / ancilla leg
    cfg = ops.config
    np_rng = np.random.default_rng(prog["seed"])
    cfg.backend.random_seed(prog["seed"] % (1 << 31))
    phys = ops.space()
    one = yastn.Leg(cfg, s=1, t=(cfg.sym.zero(),), D=(1,))
    nsym = cfg.sym.NSYM
    if nsym == 0:
        virt = yastn.Leg(cfg, s=1, D=(2,))
    else:
        # virtual charges: zero and one "particle-like" charge taken from the physical leg
        ts = sorted(set([tuple(cfg.sym.zero())] + [tuple(t) for t in phys.t][:2]))
        virt = yastn.Leg(cfg, s=1, t=ts, D=(1,) * len(ts))
    psi = fpeps.Peps(geo)
    dtype = "complex128" if prog["complex"] else "float64"
    for s in sites:
        has = {dd: geo.nn_site(s, dd) is not None for dd in "tlbr"}
        lt = (virt if has["t"] else one).conj()
        ll = (virt if has["l"] else one)
        lb = (virt if has["b"] else one)
        lr = (virt if has["r"] else one).conj()
        A = yastn.rand(cfg, legs=[lt, ll, lb, lr, phys], n=cfg.sym.zero(), dtype=dtype)
        psi[s] = A
    return psi, geo


def peps_dense(psi, ops):
    """to_tensor() -> ndarray (d,)*N + (A,), system legs in fermionic order, then all ancilla legs."""
    T = psi.to_tensor()
    sites = psi.sites()
    N = len(sites)
    if T.ndim == N:
        A = np.asarray(T.to_numpy(legs={i: ops.space() for i in range(N)}))
        return A.reshape(A.shape + (1,))
    legs = {}
    for i, s in enumerate(sites):
        _, la = psi[s].get_legs(axes=4).unfuse_leg()
        legs[2 * i] = ops.space()
        legs[2 * i + 1] = la
    A = np.asarray(T.to_numpy(legs=legs))
    A = A.transpose(list(range(0, 2 * N, 2)) + list(range(1, 2 * N, 2)))
    d = A.shape[0]
    return A.reshape((d,) * N + (-1,))


def growth_ok(psi, geo, gate, d):
    """resource guard (not an observable): predicted tensor sizes after the gate, and the largest intermediate of
    to_tensor's column-by-column contraction, stay small enough."""
    from yastn.tn.mps import MpsMpoOBC
    path = [tuple(s) for s in gate.sites]
    if len(path) == 1:
        return True
    nb = len(path) - 1
    if isinstance(gate.G, MpsMpoOBC) and gate.G.N == 2:
        rs = [gate.G[0].get_shape(axes=2)] * nb
    elif isinstance(gate.G, MpsMpoOBC):
        rs = [gate.G[n].get_shape(axes=2) for n in range(nb)]
    elif len(gate.G) == 2:
        rs = [gate.G[0].get_shape(axes=2)] * nb
    else:
        rs = [gate.G[j].get_shape(axes=gate.G[j].ndim - 1) for j in range(nb)]
    shp = {tuple(s): list(psi[s].get_shape()) for s in geo.sites()}
    legs = {"lr": (3, 1), "rl": (1, 3), "tb": (2, 0), "bt": (0, 2)}
    for (a, b), r in zip(zip(path, path[1:]), rs):
        la, lb = legs[geo.nn_bond_dirn(a, b)]
        shp[a][la] *= r
        shp[b][lb] *= r
    if max(int(np.prod(v)) for v in shp.values()) > 1e6:
        return False
    Nx, Ny = geo.Nx, geo.Ny
    cost, P = 0, 1
    for y in range(Ny):
        for x in range(Nx):
            P *= shp[(x, y)][4]
            right_new = int(np.prod([shp[(xx, y)][3] for xx in range(x + 1)]))
            left_old = int(np.prod([shp[(xx, y)][1] for xx in range(x + 1, Nx)]))
            vert = shp[(0, y)][0] * shp[(x, y)][2]
            cost = max(cost, P * right_new * left_old * vert)
    return cost <= 3e6


# Finding on the UNCHANGED library made by the exploration of MPO presentations (sums of MPOs): yastn.tensordot over two
# hard-fused legs whose fusion trees contain a direct-sum node ('s', from yastn.block / mps.add / fpeps.add) raises when that
# node lost a charge sector on one side only (yastn/tensor/_merging.py:_masks_hfs_intersection, branch op == 's', ignores the
# charges recorded for the node itself, unlike the branch op == 'p').  Minimal input without PEPS:
#   cfg=make_config(sym='U1'); lv=Leg(cfg,s=1,t=(-1,0),D=(1,1)); lw=Leg(cfg,s=1,t=(0,),D=(1,)); lq=Leg(cfg,s=-1,t=(-1,0),D=(1,1))
#   l0=Leg(cfg,s=1,t=(0,),D=(1,)); lp=Leg(cfg,s=1,t=(0,1),D=(1,1))
#   Y=block({(0,):ones(cfg,legs=[lv,lq]),(1,):ones(cfg,legs=[lw,lq])},common_legs=(1,)); Yp=tensordot(Y,ones(cfg,legs=[l0,l0.conj()]),axes=(1,0))
#   X=ones(cfg,legs=[lp,lp.conj()]); Bf=tensordot(X,Y,axes=((),())); Bp=tensordot(X,Yp,axes=((),()))
#   tensordot(Bp.fuse_legs(axes=((0,2),1,3)), Bf.fuse_legs(axes=((0,2),1,3)), axes=(0,0), conj=(0,1))   -> YastnError
# "report": False = pending confirmation by the lead (visible in notes and counters, no violation); True = reported with the
# stable key below through ctx.fail (then listed in known_findings.json it prints as KNOWN-FINDING).
SUM_LEG_FINDING = {
    "key": "c11:mpo-sum:hard-fusion-intersection",
    "report": True,   # confirmed and repaired in /repo (68677ec, known_findings.json: fixed): an alarm again if it returns
    "what": ("to_tensor() raises YastnError('Bond dimensions do not match.') after apply_gate_ of a Gate whose MPO is a sum of MPOs "
             "(mps.add, +, -): the virtual legs of the gate are direct sums (history 's'); once fused into the PEPS bonds, tensordot's "
             "hard-fusion intersection (_merging._masks_hfs_intersection, op == 's') cannot match the two sides of a bond when the "
             "direct-sum leg lost a charge sector on one side only"),
}


def sum_leg_fusion_signature(psi, geo, exc):
    """True iff `exc` is the failure described in SUM_LEG_FINDING: the two tensors of some lattice bond cannot be contracted
    over that bond although their fused bond legs have the same fusion tree, and an inner direct-sum node of the tree holds
    fewer charges than its summands, differently on the two sides."""
    import yastn
    if type(exc).__name__ != "YastnError" or "Bond dimensions do not match" not in str(exc):
        return False
    axes = {"lr": (3, 1), "rl": (1, 3), "tb": (2, 0), "bt": (0, 2)}
    for bond in geo.bonds():
        s0, s1 = tuple(bond[0]), tuple(bond[1])
        a0, a1 = axes[geo.nn_bond_dirn(s0, s1)]
        try:
            yastn.tensordot(psi[s0], psi[s1], axes=(a0, a1))
            continue
        except Exception as e:
            if type(e).__name__ != "YastnError" or "Bond dimensions do not match" not in str(e):
                continue
        h0, h1 = psi[s0].get_legs(axes=a0).hf, psi[s1].get_legs(axes=a1).hf
        if h0.tree != h1.tree or h0.op != h1.op:
            continue
        tree = h0.tree

        def end(i):   # index behind the subtree rooted at node i
            j, leaves = i + 1, (0 if tree[i] > 1 else 1)
            while leaves < tree[i]:
                leaves += tree[j] == 1
                j += 1
            return j
        for i in range(1, len(tree)):
            if h0.op[i] != "s":
                continue
            kids, j = [], i + 1
            while j < end(i):
                kids.append(j)
                j = end(j)
            n0, n1 = set(h0.t[i - 1]), set(h1.t[i - 1])
            lost = any(set(h.t[i - 1]) != set().union(*[set(h.t[k - 1]) for k in kids]) for h in (h0, h1))
            if lost and n0 != n1:   # a direct-sum node without some charge of its summands, on one side only
                return True
    return False


def operator_leg_coverage(ops, gate):
    """'partial' if the ket leg of some tensor of the gate holds fewer charge sectors than the local space, else 'full'."""
    from yastn.tn.mps import MpsMpoOBC
    full = len(ops.space().t)
    if isinstance(gate.G, MpsMpoOBC):
        ns = [len(gate.G[n].get_legs(axes=1).t) for n in range(gate.G.N)]
    else:
        ns = [len(t.get_legs(axes=0).t) for t in gate.G]
    return "partial" if min(ns) < full else "full"


def drop_gate_history(gate):
    """the same gate with tensors that forget how their legs were built (direct sums / fusions)."""
    from yastn.tn.mps import MpsMpoOBC
    if isinstance(gate.G, MpsMpoOBC):
        O = gate.G.shallow_copy()
        for n in range(O.N):
            O[n] = O[n].drop_leg_history()
        return gate._replace(G=O)
    return gate._replace(G=tuple(t.drop_leg_history() for t in gate.G))


def exec_circuit(ctx, prog, want_state=False):
    """runs a circuit on the real code and on the dense reference; reports the first failing gate."""
    cls, sym = prog["cls"], prog["sym"]
    ops = yops(cls, sym)
    alg = local_algebra(cls, sym)
    psi, geo = initial_peps(prog, ops, alg)
    sites = [tuple(s) for s in geo.sites()]
    s2i = {s: i for i, s in enumerate(sites)}
    N, d = len(sites), alg["d"]
    tag = f"{cls}:{sym}:{prog['dims'][0]}x{prog['dims'][1]}:{prog['boundary']}:{prog['mode']}"
    try:
        v = peps_dense(psi, ops)
    except (CaseTimeout, MemoryError):
        raise
    except Exception as e:
        ctx.fail("oracle", "c11:to_tensor-raises", f"{tag}: to_tensor of the initial state raised {type(e).__name__}: {e}", case=prog, concrete=True)
        return None
    # the initial state itself (up to signs): basis vector / identity
    if prog["mode"] == "aux":
        exp = np.zeros((d,) * N + (1,))
        exp[tuple(prog["init"]) + (0,)] = 1
        if not np.allclose(np.abs(v), exp, atol=1e-12):
            ctx.fail("oracle", "c11:initial-state", f"{tag}: to_tensor of a product of basis vectors is not that basis vector (up to sign)", case=dict(prog, gates=[]), concrete=True)
            return None
    elif prog["mode"] == "purif":
        if not np.allclose(np.abs(v).reshape(d ** N, -1) @ np.abs(v).reshape(d ** N, -1).T, np.eye(d ** N), atol=1e-12):
            ctx.fail("oracle", "c11:initial-state", f"{tag}: to_tensor of the identity purification is not a signed permutation", case=dict(prog, gates=[]), concrete=True)
            return None
    ref = v.astype(complex)
    sum_legs = False   # some PEPS bond carries a direct-sum leg of an earlier gate (sum of MPOs)
    for gi, g in enumerate(prog["gates"]):
        try:
            gate, M, acting = build_gate(ops, alg, cls, sym, g)
        except (CaseTimeout, MemoryError):
            raise
        except GateSplitMismatch as e:   # the SVD splitting of part (i), here on an operator that is not an exponential
            ctx.fail("oracle", "c11:gate:decompose", f"{tag}: gate {gi} ({g['g']}, terms {g.get('terms')}): {e}", case=dict(prog, gates=prog["gates"][:gi + 1]), concrete=True)
            return None
        except Exception as e:
            # building a predefined gate is part (i); MPO generation is C07. Skip, but leave a trace.
            ctx.count(f"apply:gate-build-skipped:{g['g']}:{type(e).__name__}")
            continue
        if gate is None:
            ctx.count("apply:mpo-generator-mismatch-skipped")
            continue
        path = [tuple(s) for s in g["sites"]]
        sub = dict(prog, gates=prog["gates"][:gi + 1])
        if not growth_ok(psi, geo, gate, d):
            ctx.count("apply:circuit-stopped-bond-dimension")
            break
        for s0, s1 in zip(path, path[1:]):
            ctx.count(f"apply:bond:{geo.nn_bond_dirn(s0, s1)}:{'f-ordered' if geo.f_ordered(s0, s1) else 'f-reversed'}")
        ctx.count(f"apply:gate:{g['g']}:{len(path)}-site")
        if g["g"] in ("mpo", "bare"):
            ctx.count(f"apply:operator-legs:{g['g']}:{operator_leg_coverage(ops, gate)}")
        if g["g"] == "bare" and len(path) > 1:
            ctx.count(f"apply:bare-form:{g['form']}")
        if g["g"] == "mpo":
            ctx.count("apply:mpo-identity-term:" + ("no" if g.get("noid") else "yes"))
            for st in g.get("present", []):
                ctx.count(f"apply:mpo-present:{st['op']}" + (":normalize" if st.get("normalize") else ""))
            if g["form"] == "mpo":
                ctx.count("apply:mpo-object:factor" + ("=1" if abs(float(gate.G.factor) - 1) < 1e-12 else "!=1"))
        summed = g["g"] == "mpo" and any(st["op"] == "add" for st in g.get("present", []))
        backup = psi.copy() if (summed and not sum_legs) else None
        may_annihilate = g["g"] == "bare" or bool(g.get("noid"))
        before = (psi.copy(), ref) if may_annihilate else None
        try:
            try:
                psi.apply_gate_(gate)
                w = peps_dense(psi, ops)
                sum_legs = sum_legs or summed
            except (CaseTimeout, MemoryError):
                raise
            except Exception as e:
                if not ((summed or sum_legs) and sum_leg_fusion_signature(psi, geo, e)):
                    raise
                # core defect of yastn (see SUM_LEG_FINDING), not of the gate application: report it (never silently) ...
                ctx.count("apply:" + SUM_LEG_FINDING["key"])
                if SUM_LEG_FINDING["report"]:
                    ctx.fail("oracle", SUM_LEG_FINDING["key"], f"{tag}: {SUM_LEG_FINDING['what']}; here: to_tensor() after apply_gate_ of gate {gi} "
                             f"({g['g']} on {path}) raised {type(e).__name__}: {e}", case=sub, concrete=True)
                elif not any(SUM_LEG_FINDING["key"] in n for n in ctx.notes):
                    ctx.notes.append(f"PENDING FINDING {SUM_LEG_FINDING['key']} (awaiting confirmation, not counted as violation): {SUM_LEG_FINDING['what']}; "
                                     f"first seen in {tag} at gate {gi}: {type(e).__name__}: {e}; case={sub}")
                if backup is None:   # the direct-sum legs stem from an earlier gate of this circuit
                    ctx.count("apply:circuit-stopped-by-sum-leg-finding")
                    return None
                # ... and go on with the same operator whose tensors forget the history of their direct-sum legs
                psi = backup
                psi.apply_gate_(drop_gate_history(gate))
                w = peps_dense(psi, ops)
        except (CaseTimeout, MemoryError):
            raise
        except Exception as e:
            ctx.fail("oracle", "c11:apply-raises", f"{tag}: apply_gate_/to_tensor raised {type(e).__name__}: {e} at gate {gi} {g['g']} on {path}", case=sub, concrete=True)
            return None
        floor = 1e-4 * np.abs(ref).max() * np.abs(M).max()   # below: the operator (e.g. a difference of MPOs) annihilates the state up to round-off
        ref = apply_dense(alg, ref, M, [s2i[s] for s in acting])
        scale = np.abs(ref).max()
        if not np.isfinite(scale) or scale < 1e-200 or not scale > floor:
            # the dense operator annihilates the dense state (up to round-off): so must the gate (the relative comparison
            # below has no scale here; a PEPS without any block is the zero state)
            ctx.count("apply:degenerate-norm")
            wmax = float(np.abs(w).max()) if w.size else 0.0
            if np.isfinite(floor) and not wmax <= floor:
                ctx.fail("oracle", f"c11:apply:{g['g']}", f"{tag}: the dense gate {gi} ({g['g']} on {path}) annihilates the dense state (max |amplitude| "
                         f"{scale:.2e}) but to_tensor() after apply_gate_ has max |amplitude| {wmax:.3e}", case=sub, concrete=True)
                return None
            if before is None:
                return None
            psi, ref = before   # an operator without identity term may annihilate the state: the circuit goes on without this gate
            continue
        err = float(np.abs(w - ref).max() / scale) if w.shape == ref.shape else float("inf")
        ctx.extra["max_err_apply"] = max(ctx.extra.get("max_err_apply", 0.0), err if np.isfinite(err) else 1e300)
        ctx.evaluations += 1
        if not err <= TOL_APPLY:
            dirns = [geo.nn_bond_dirn(a, b) + ("" if geo.f_ordered(a, b) else "*") for a, b in zip(path, path[1:])]
            ctx.fail("oracle", f"c11:apply:{g['g']}",
                     f"{tag}: to_tensor() after apply_gate_ of gate {gi} ({g['g']} on {path}, bond directions {dirns}) differs from the dense gate "
                     f"applied to the dense state: rel err {err:.3e}", case=sub, concrete=True)
            return None
        # keep numbers in range: renormalise both consistently
        if scale > 1e6 or scale < 1e-6:
            s0 = sites[0]
            psi[s0] = psi[s0] / scale
            ref = ref / scale
    return (psi, ref, ops, alg) if want_state else True


def circuit_plan(ctx):
    """(cls, sym, lattice, mode, depth) combinations of this run."""
    rng = ctx.rng
    plan = []
    lats = LATTICES_QUICK + ([] if ctx.quick else LATTICES_MORE)
    combos = [("spinless", "Z2"), ("spinless", "U1"), ("spin12", "Z2"), ("spin12", "dense"), ("spin12", "U1"),
              ("spinful", "Z2"), ("spinful", "U1"), ("spinful", "U1xU1"), ("spinful", "U1xU1xZ2"),
              ("tJ", "U1"), ("tJ", "U1xU1xZ2"), ("tJ", "Z2"), ("tJ", "U1xU1")]
    for (dims, boundary) in lats:
        nsite = dims[0] * dims[1]
        for (cls, sym) in combos:
            d = local_algebra(cls, sym)["d"]
            if d ** nsite > (4096 if not ctx.quick else 300):
                continue
            if d > 2 and ctx.quick and rng.random() < 0.5:
                continue
            for mode in ("aux", "purif", "plain"):
                if mode == "purif" and d ** (2 * nsite) > (1 << 14 if ctx.quick else 1 << 16):
                    continue
                if ctx.quick and cls in ("spin12",) and rng.random() < 0.5:
                    continue
                reps = 1 if ctx.quick else 3
                if cls == "spinless":
                    reps += 1
                for _ in range(reps):
                    plan.append((cls, sym, dims, boundary, mode, rng.randint(3, 5 if ctx.quick else 7)))
    return plan


def part_apply(ctx, budget):
    from ..core import time_limit
    rng = ctx.rng
    t0 = time.time()
    plan = circuit_plan(ctx)
    rng.shuffle(plan)
    done = 0
    for (cls, sym, dims, boundary, mode, depth) in plan:
        if time.time() - t0 > budget:
            ctx.notes.append(f"part (ii): wall-clock budget reached after {done}/{len(plan)} circuits")
            break
        prog = gen_circuit(rng, cls, sym, dims, boundary, mode, depth)
        ctx.case(prog, nontrivial=len(prog["gates"]) > 0)
        ctx.count(f"apply:circuit:{cls}:{sym}:{mode}")
        ctx.count(f"apply:lattice:{dims[0]}x{dims[1]}:{boundary}")
        try:
            with time_limit(30):
                exec_circuit(ctx, prog)
        except (CaseTimeout, MemoryError) as e:
            ctx.count(f"infrastructure:{type(e).__name__}")
        done += 1
    ctx.count("apply:circuits", done)


# ----------------------------------------------------------------------------------------------
# part (iii): DoublePepsTensor
# ----------------------------------------------------------------------------------------------

ALLOWED_TRANSPOSE = ((0, 1, 2, 3), (1, 2, 3, 0), (2, 3, 0, 1), (3, 0, 1, 2),
                     (0, 3, 2, 1), (1, 0, 3, 2), (2, 1, 0, 3), (3, 2, 1, 0))

DOUBLE_CONFIGS = [("U1", True), ("Z2", True), ("U1", False), ("dense", False), ("U1xU1xZ2", (False, False, True))]


def double_case(rng, quick):
    sym, fer = rng.choice(DOUBLE_CONFIGS)
    case = {"part": "double", "sym": sym, "fermionic": list(fer) if isinstance(fer, tuple) else fer,
            "seed": rng.randrange(1 << 30), "dtype": rng.choice(["float64", "complex128"]),
            "same_bra": rng.random() < 0.25, "op": rng.choice([None, "c", "n"]),
            "swaps": rng.choice([[], [["k1"]], [["b4", "k1", "k2"]], [["b0", "k3"], ["k4"]]]),
            "trans": list(rng.choice(ALLOWED_TRANSPOSE)), "nvec": rng.choice([0, 1])}
    case["life"] = double_life(rng, sym != "dense", rng.randint(2, 4), case["op"] is not None, bool(case["swaps"]) and sym != "dense")
    return case


SWAP_AXES = ["b0", "b1", "b2", "b3", "b4", "k0", "k1", "k2", "k3", "k4"]


def double_life(rng, has_sym, nsteps, has_op, has_swaps):
    """further life of the ONE DoublePepsTensor object of a case, after its first contractions: a random sequence of the
    public mutators (set_operator_ with reset / composition, del_operator_, add_charge_swaps_, del_charge_swaps_) and of
    plain repetitions; the object is contracted (lazily and fused) after every step.  Deleting is preferred when there is
    something to delete, so that the orders set -> contract -> delete -> contract are frequent."""
    steps = []
    for _ in range(nsteps):
        menu = ["set_op", "set_op", "set_op", "again"] + (["del_op"] * 4 if has_op else ["del_op"])
        if has_sym:
            menu += ["add_swaps", "add_swaps"] + (["del_swaps"] * 4 if has_swaps else ["del_swaps"])
        do = rng.choice(menu)
        st = {"do": do, "trans": list(rng.choice(ALLOWED_TRANSPOSE)), "corner": rng.randrange(6),
              "order": rng.choice(["self-b", "b-self", "method"])}
        if do == "set_op":
            st.update(op=rng.choice(["n", "c", "cp"]), reset=rng.random() < (0.3 if has_op else 0.6))
            has_op = True
        elif do == "del_op":
            has_op = False
        elif do == "add_swaps":
            st.update(axes=sorted(rng.sample(SWAP_AXES, rng.randint(1, 3))), neg=rng.random() < 0.4)
            has_swaps = True   # (may cancel to zero: then del_swaps acts on an empty record, also a valid order)
        elif do == "del_swaps":
            has_swaps = False
        steps.append(st)
    return steps


def eval_double_case(ctx, case):
    import yastn
    import yastn.tn.fpeps as fpeps
    sym = case["sym"]
    fer = tuple(case["fermionic"]) if isinstance(case["fermionic"], list) else case["fermionic"]
    cfg = yastn.make_config(sym=sym, fermionic=fer)
    cfg.backend.random_seed(case["seed"] % (1 << 31))
    rs = np.random.RandomState(case["seed"] % (1 << 31))
    nsym = cfg.sym.NSYM

    def L(s, charges, D):
        if nsym == 0:
            return yastn.Leg(cfg, s=s, D=(sum(D),))
        return yastn.Leg(cfg, s=s, t=charges, D=D)
    if sym == "U1":
        ch = lambda: [(-1,), (0,), (1,)]
        pch, unit, mods = [(0,), (1,)], (1,), (0,)
    elif sym == "Z2":
        ch = lambda: [(0,), (1,)]
        pch, unit, mods = [(0,), (1,)], (1,), (2,)
    elif sym == "U1xU1xZ2":
        ch = lambda: [(0, 0, 0), (1, 0, 1), (0, 1, 1)]
        pch, unit, mods = [(0, 0, 0), (1, 0, 1), (0, 1, 1), (1, 1, 0)], (1, 0, 1), (0, 0, 2)
    else:
        ch = lambda: [()]
        pch, unit, mods = [()], (), ()
    cadd = lambda x, y: tuple((a + b) % m if m else a + b for a, b, m in zip(x, y, mods))   # own charge arithmetic
    cneg = lambda x: tuple((-a) % m if m else -a for a, m in zip(x, mods))
    zero = tuple(0 for _ in mods)
    rd = lambda n: tuple(int(rs.randint(1, 3)) for _ in range(n))
    legs = []
    for s in (-1, 1, 1, -1):
        c = ch()
        legs.append(L(s, c, rd(len(c))))
    pl = L(1, pch, (1,) * len(pch)) if nsym else yastn.Leg(cfg, s=1, D=(2,))
    legs.append(pl)
    A = yastn.rand(cfg, legs=legs, dtype=case["dtype"])
    B = A if case["same_bra"] else yastn.rand(cfg, legs=legs, dtype=case["dtype"])
    T0 = fpeps.DoublePepsTensor(bra=B, ket=A)
    tag = f"{sym}:fermionic={fer}:op={case['op']}:swaps={case['swaps']}:trans={case['trans']}"

    def rand_op(kind):
        """random operator on the physical leg: charge-neutral ('n'), lowering ('c') or raising ('cp') by one unit."""
        if nsym == 0 or kind == "n":
            return yastn.rand(cfg, legs=[pl, pl.conj()], n=cfg.sym.zero(), dtype=case["dtype"])
        return yastn.rand(cfg, legs=[pl, pl.conj()], n=(cneg(unit) if kind == "c" else unit), dtype=case["dtype"])
    # what the object is expected to hold, tracked independently of the object: operator, its charge in units, swaps
    op_exp, q_exp, swaps_exp = None, 0, {}
    if case["op"] is not None:
        op_exp = rand_op(case["op"])
        q_exp = 0 if (nsym == 0 or case["op"] == "n") else -1
        T0.set_operator_(op_exp)
    if nsym:
        for axes in case["swaps"]:
            T0.add_charge_swaps_(unit, axes)
            for ax in axes:
                swaps_exp[ax] = cadd(swaps_exp.get(ax, zero), unit)
    f0 = T0.fuse_layers()

    def dense_reference(op):
        Ak, Ab = A.to_numpy(), B.to_numpy()
        if op is not None:
            Ak = np.einsum("abcds,ts->abcdt", Ak, op.to_numpy())  # tensordot(Ak, op, axes=(phys, 1))
        refd = np.einsum("abcds,ABCDs->aAbBcCdD", Ak, Ab.conj())
        sh = refd.shape
        return refd.reshape(sh[0] * sh[1], sh[2] * sh[3], sh[4] * sh[5], sh[6] * sh[7])
    # independent reference for fuse_layers on dense (non-fermionic, no symmetry) tensors
    if sym == "dense":
        err = relerr(f0.to_numpy(), dense_reference(T0.op))
        ctx.count("double:fuse_layers-dense-oracle")
        if not err <= TOL_DOUBLE:
            ctx.fail("oracle", "c11:double:fuse_layers-dense", f"{tag}: fuse_layers() differs from the NumPy einsum of ket and conj(bra), rel err {err:.2e}", case=case, concrete=True)
            return
    T1 = T0.transpose(axes=tuple(case["trans"]))
    r1 = f0.transpose(axes=tuple(case["trans"]))
    f1 = T1.fuse_layers()
    if T1.get_legs() != f1.get_legs() or relerr(f1.to_numpy(), r1.to_numpy()) > TOL_DOUBLE:
        ctx.fail("oracle", "c11:double:transpose", f"{tag}: fuse_layers of the transposed tensor != transposed fuse_layers", case=case, concrete=True)
        return
    n_vec = cfg.sym.zero() if (case["nvec"] == 0 or nsym == 0) else unit
    ex = lambda s: (L(s, ch(), rd(len(ch()))))
    l0, l3 = ex(1), ex(-1)
    mk = lambda lg: yastn.rand(cfg, legs=lg, n=n_vec, dtype=case["dtype"])

    def corners(Tv, rv, which, orders, stage):
        """lazy contraction of the view Tv vs the contraction of the explicitly fused tensor rv; four corner pairings
        (pairs of neighbouring legs of Tv), each in both argument orders.  False after a reported failure."""
        lfs = Tv.get_legs()
        pairs = [((0, 1), [l0, lfs[0].conj(), lfs[1].conj(), l3], (1, 2)),
                 ((1, 2), [lfs[1].conj(), lfs[2].conj(), l3], (0, 1)),
                 ((3, 2), [l0, lfs[3].conj(), lfs[2].conj()], (1, 2)),
                 ((3, 0), [l0, lfs[3].conj(), lfs[0].conj(), l3, l3], (1, 2)),
                 ((1, 0), [l0, lfs[0].conj(), lfs[1].conj(), l3], (2, 1)),
                 ((2, 3), [l0, lfs[3].conj(), lfs[2].conj()], (2, 1))]
        for axa, lg, axb in [pairs[i] for i in which]:
            t = mk(lg)
            if t.size == 0:
                continue
            for order in orders:
                try:
                    if order == "self-b":
                        got = yastn.tensordot(Tv, t, axes=(axa, axb))
                        ref = yastn.tensordot(rv, t, axes=(axa, axb))
                    elif order == "b-self":
                        got = yastn.tensordot(t, Tv, axes=(axb, axa))
                        ref = yastn.tensordot(t, rv, axes=(axb, axa))
                    else:
                        got = Tv.tensordot(t, axes=(axa, axb))
                        ref = rv.tensordot(t, axes=(axa, axb))
                except (CaseTimeout, MemoryError):
                    raise
                except Exception as e:
                    ctx.fail("oracle", "c11:double:raises", f"{tag}{stage}: tensordot {order} axes {axa},{axb} raised {type(e).__name__}: {e}", case=case, concrete=True)
                    return False
                ctx.count(f"double:corner:{tuple(sorted(Tv.trans[a] for a in axa))}:{order}")
                nr = max(1.0, float(ref.norm()))
                try:
                    err = float((got - ref).norm()) / nr
                except (CaseTimeout, MemoryError):
                    raise
                except Exception:
                    err = float("inf")
                ctx.extra["max_err_double"] = max(ctx.extra.get("max_err_double", 0.0), err if np.isfinite(err) else 1e300)
                if not err <= TOL_DOUBLE:
                    ctx.fail("oracle", "c11:double:tensordot",
                             f"{tag}{stage}: DoublePepsTensor.tensordot ({order}, axes {axa},{axb}) differs from tensordot of fuse_layers(): rel err {err:.2e}",
                             case=case, concrete=True)
                    return False
        return True
    if not corners(T1, r1, range(6), ("self-b", "b-self", "method"), ""):
        return
    # the same object lives on: mutators in random order; after every step the lazy contraction, the fused form of the
    # object, and the fused form of a NEW object built from what the object should now hold, must all agree
    done = []
    for st in case.get("life", []):
        do = st["do"]
        if do == "set_op":
            kind = st["op"] if nsym else "n"
            dq = {"n": 0, "c": -1, "cp": 1}[kind]
            reset = st["reset"] or op_exp is None or abs(q_exp + dq) > 1   # composed operators keep a non-empty charge sector
            new = rand_op(kind)
            T0.set_operator_(new, reset=reset)
            op_exp, q_exp = (new, dq) if reset else (new @ op_exp, q_exp + dq)   # documented: applied after the previous one
            do = "set_op" if reset else "set_op:compose"
        elif do == "del_op":
            do += ":present" if op_exp is not None else ":absent"
            T0.del_operator_()
            op_exp, q_exp = None, 0
        elif do == "add_swaps":
            if not nsym:
                continue
            chg = cneg(unit) if st["neg"] else unit
            T0.add_charge_swaps_(chg, st["axes"][0] if len(st["axes"]) == 1 else st["axes"])
            for ax in st["axes"]:
                swaps_exp[ax] = cadd(swaps_exp.get(ax, zero), chg)
                if swaps_exp[ax] == zero:
                    del swaps_exp[ax]
        elif do == "del_swaps":
            do += ":present" if swaps_exp else ":absent"
            T0.del_charge_swaps_()
            swaps_exp = {}
        done.append(do)
        stage = f": after life {done}"
        ctx.count(f"double:life:{do}")
        try:
            fz = T0.fuse_layers()
            fresh = fpeps.DoublePepsTensor(bra=B, ket=A, op=op_exp, swaps=swaps_exp).fuse_layers()
            err = float((fz - fresh).norm()) / max(1.0, float(fresh.norm()))
        except (CaseTimeout, MemoryError):
            raise
        except Exception as e:
            ctx.fail("oracle", "c11:double:raises", f"{tag}{stage}: fuse_layers raised {type(e).__name__}: {e}", case=case, concrete=True)
            return
        if not err <= TOL_DOUBLE:
            ctx.fail("oracle", "c11:double:life-fused",
                     f"{tag}{stage}: fuse_layers() of the object differs from fuse_layers() of a new DoublePepsTensor holding the same "
                     f"bra, ket, operator ({'set' if op_exp is not None else 'none'}) and charge swaps {swaps_exp}: rel err {err:.2e}", case=case, concrete=True)
            return
        # views returned by value carry everything the object holds (operator, pending charge swaps, transposition):
        # conjugating / copying the two-layer object and fusing afterwards == fusing first
        for vname, view, refv in (("conj", lambda: T0.conj().fuse_layers(), lambda: fz.conj()),
                                  ("copy", lambda: T0.copy().fuse_layers(), lambda: fz),
                                  ("clone", lambda: T0.clone().fuse_layers(), lambda: fz)):
            try:
                gv, rv_ = view(), refv()
                err = float((gv - rv_).norm()) / max(1.0, float(rv_.norm()))
            except (CaseTimeout, MemoryError):
                raise
            except Exception as e:
                ctx.fail("oracle", "c11:double:raises", f"{tag}{stage}: {vname}().fuse_layers() raised {type(e).__name__}: {e}", case=case, concrete=True)
                return
            ctx.count(f"double:life-view:{vname}")
            if not err <= TOL_DOUBLE:
                ctx.fail("oracle", f"c11:double:life-{vname}",
                         f"{tag}{stage}: {vname}() of the object, fused, differs from the fused object{' conjugated' if vname == 'conj' else ''} "
                         f"(operator {'set' if op_exp is not None else 'none'}, charge swaps {swaps_exp}): rel err {err:.2e}", case=case, concrete=True)
                return
        if sym == "dense":
            err = relerr(fz.to_numpy(), dense_reference(op_exp))
            ctx.count("double:fuse_layers-dense-oracle")
            if not err <= TOL_DOUBLE:
                ctx.fail("oracle", "c11:double:fuse_layers-dense", f"{tag}{stage}: fuse_layers() differs from the NumPy einsum of ket, operator and conj(bra), rel err {err:.2e}", case=case, concrete=True)
                return
        Tv = T0.transpose(axes=tuple(st["trans"]))
        if not corners(Tv, fz.transpose(axes=tuple(st["trans"])), [st["corner"]], [st["order"]], stage):
            return


def part_double(ctx):
    from ..core import time_limit
    rng = ctx.rng
    n = 30 if ctx.quick else 400
    for _ in range(n):
        case = double_case(rng, ctx.quick)
        ctx.case(case)
        try:
            with time_limit(20):
                eval_double_case(ctx, case)
        except (CaseTimeout, MemoryError) as e:
            ctx.count(f"infrastructure:{type(e).__name__}")


# ----------------------------------------------------------------------------------------------
# part (iv): sums of PEPS
# ----------------------------------------------------------------------------------------------

def eval_add_case(ctx, case):
    import yastn.tn.fpeps as fpeps
    progs = case["progs"]
    amps = [cplx(a) for a in case["amps"]] if case["amps"] is not None else None
    states = []
    for prog in progs:
        r = exec_circuit(ctx, prog, want_state=True)
        if r is None:
            return
        states.append(r)
    ops = states[0][2]
    tag = f"{progs[0]['cls']}:{progs[0]['sym']}:{progs[0]['dims']}:{progs[0]['boundary']}:{progs[0]['mode']}"
    dens = [peps_dense(s[0], ops) for s in states]
    try:
        if amps is None and len(states) == 2 and case["use_plus"]:
            tot = states[0][0] + states[1][0]
        else:
            tot = fpeps.add(*[s[0] for s in states], amplitudes=amps)
        got = peps_dense(tot, ops)
    except (CaseTimeout, MemoryError):
        raise
    except Exception as e:
        ctx.fail("oracle", "c11:add-raises", f"{tag}: add/to_tensor raised {type(e).__name__}: {e}", case=case, concrete=True)
        return
    ref = sum((a if amps is not None else 1) * dd for a, dd in zip(amps or [1] * len(dens), dens))
    scale = max(np.abs(dd).max() for dd in dens)
    err = float(np.abs(got - ref).max() / max(scale, 1e-300)) if got.shape == ref.shape else float("inf")
    ctx.count(f"add:{len(states)}-states:{progs[0]['mode']}")
    ctx.extra["max_err_add"] = max(ctx.extra.get("max_err_add", 0.0), err if np.isfinite(err) else 1e300)
    if not err <= TOL_APPLY:
        ctx.fail("oracle", "c11:add", f"{tag}: to_tensor of the sum of {len(states)} PEPS differs from the sum of the dense states, rel err {err:.2e}", case=case, concrete=True)


def part_add(ctx):
    from ..core import time_limit
    rng = ctx.rng
    n = 14 if ctx.quick else 120
    combos = [("spinless", "Z2"), ("spinless", "U1"), ("spin12", "Z2"), ("spin12", "dense"), ("spinful", "U1xU1xZ2"), ("tJ", "U1")]
    lats = [((1, 1), "obc"), ((1, 2), "obc"), ((2, 2), "obc"), ((2, 3), "obc"), ((3, 2), "obc"), ((3, 1), "cylinder"), ((2, 2), "cylinder")]
    for _ in range(n):
        cls, sym = rng.choice(combos)
        dims, boundary = rng.choice(lats)
        d = local_algebra(cls, sym)["d"]
        if d ** (dims[0] * dims[1]) > 300:
            dims, boundary = (2, 2), "obc"
        mode = rng.choice(["aux", "purif", "plain"])
        if mode == "purif" and d ** (2 * dims[0] * dims[1]) > (1 << 14):
            mode = "aux"
        k = rng.choice([2, 2, 3])
        base = gen_circuit(rng, cls, sym, dims, boundary, mode, 0)
        progs = []
        for _ in range(k):
            p = gen_circuit(rng, cls, sym, dims, boundary, mode, rng.randint(1, 3))
            # summands share the initial state (same ancilla / auxiliary legs), as to_tensor's docstring requires
            p["seed"], p["complex"] = base["seed"], base["complex"]
            if "init" in base:
                p["init"] = base["init"]
            progs.append(p)
        amps = None if rng.random() < 0.3 else [rand_param(rng, rng.choice(["real", "complex"]) if base["complex"] else "real", 2.0) for _ in range(k)]
        case = {"part": "add", "progs": progs, "amps": amps, "use_plus": rng.random() < 0.5}
        ctx.case(case)
        try:
            with time_limit(40):
                eval_add_case(ctx, case)
        except (CaseTimeout, MemoryError) as e:
            ctx.count(f"infrastructure:{type(e).__name__}")


# ----------------------------------------------------------------------------------------------
# entry points
# ----------------------------------------------------------------------------------------------

def run(ctx):
    import yastn
    ctx.notes.append(f"yastn imported from {yastn.__file__}")
    ctx.rule = ("(i) every gate constructor x every symmetry variant x {real, imaginary, complex, zero} parameters vs expm of a NumPy JW "
                "Hamiltonian and vs the Lean closed forms; (ii) random shallow circuits (local / nn both orientations / path / MPO "
                "gates; MPO objects rescaled, canonised, compressed with/without normalisation, summed, multiplied, with/without identity term; "
                "bare operators without identity term - local, on bonds and along paths - as SVD-split pair, two-site MPO, its two tensors or product form) "
                "on obc lattices up to 6 sites and cylinders, product states with auxiliary charge legs, purifications and "
                "random D=2 PEPS without ancilla, dense comparison after every gate; (iii) random DoublePepsTensor contractions "
                "vs fuse_layers, continued on the same object through random orders of set/compose/delete operator, add/delete charge swaps "
                "with lazy == fused == fused form of a new object after every step; (iv) sums of circuits' PEPS. A case is non-trivial if it contains at least one gate / contraction; "
                "distinct by full JSON description")
    ctx.assumptions += [
        "LAPACK eigh/svd satisfy their contracts (H = U D U^+ with U unitary, G = U S V): validated per case as 'contract', assumed by gate_exp_via_eigh / decompose_reconstructs",
        "apply_gate_onsite's fuse/swap choreography, to_tensor's swap schedule and the corner contractions are compared against the dense specification on lattices up to 6 sites, not proved",
        "closed-form theorems are proved for any algebra element with the stated relation (K^3=K, X^2=1, P^2=P, orthogonal projectors) and instantiated on the Lean JW matrices; for the 16x16 / 9x9 spinful variants the relation is checked exactly on the real operators on every run",
    ]
    forms = part_model(ctx)
    t0 = time.time()
    part_gates(ctx, forms)
    ctx.extra["t_gates"] = round(time.time() - t0, 1)
    t0 = time.time()
    part_double(ctx)
    ctx.extra["t_double"] = round(time.time() - t0, 1)
    t0 = time.time()
    part_add(ctx)
    ctx.extra["t_add"] = round(time.time() - t0, 1)
    t0 = time.time()
    part_apply(ctx, budget=(28 if ctx.quick else 420))
    ctx.extra["t_apply"] = round(time.time() - t0, 1)


def search(ctx, broken, budget):
    """The oracles of run() are eager (they evaluate the property on the real code); on a broken proof or correspondence
    spend the budget on more circuits and gate evaluations."""
    t0 = time.time()
    forms = {}
    if ctx.drv:
        try:
            forms = {f["name"]: f for f in ctx.drv.call({"op": "forms"}).get("forms", [])}
        except Exception:
            forms = {}
    while time.time() - t0 < budget * 0.4 and not any(f.concrete for f in ctx.findings):
        part_gates(ctx, forms)
    if not any(f.concrete for f in ctx.findings):
        part_apply(ctx, budget=budget * 0.5)
    ctx.notes.append("failing-input search = further eager oracle passes (gates vs expm, circuits vs dense reference) on the real code")


def replay(ctx, obj):
    f = obj.get("finding") or {}
    case = f.get("case") or obj.get("case")
    if not case:
        return run(ctx)
    ctx.rule = "replay of one stored case"
    part = case.get("part")
    ctx.case(case)
    if part == "gate":
        forms = {}
        eval_gate_case(ctx, case, forms, None)
    elif part == "apply":
        exec_circuit(ctx, case)
    elif part == "double":
        eval_double_case(ctx, case)
    elif part == "add":
        eval_add_case(ctx, case)
    else:
        return run(ctx)
    print(f"replay {part}: findings={[(x.key, x.what[:200]) for x in ctx.findings]}")
