"""C14 — Results do not depend on contraction policy, fusion mode or lazy state.

Every generated program is executed in LOCKSTEP under several configurations of the real code:
the primary one, the two other tensordot policies, a run that materialises every pending
transposition after each step (consume_transpose), a run that copies every result, and a run with
the other default fusion mode.  After every step the observables (total charge, legs, dense values)
of all runs are compared with each other (oracle on the real code: a difference IS the failing
input) and the primary run is compared with the Lean model (whose results by construction do not
depend on policy/laziness: `consumeTranspose`/`copy` are the identity on the logical view).
`contract_with_unroll` is compared with the plain contraction for every slicing/unroll spec.
"""
import numpy as np

from .. import tgen, tprog
from . import c01

LEAN_TARGETS = ["YProofs.Props.C14"]
LEVEL = "proof"
TRANSLATORS = ["gen_sym"]
DRIVER = "drv_c01"

OPS = ["tensordot", "tensordot", "tensordot", "matmul", "add", "sub", "transpose", "transpose", "trace", "conj", "smul",
       "ncon", "einsum", "fuse", "fuse", "svd", "qr", "vdot", "moveaxis", "addmany", "broadcast", "apply_mask", "diag",
       "add_leg", "remove_leg", "copy", "consume_transpose"]


def unfuse_all(a):
    """remove every fusion (meta and hard) so that results obtained with different fusion modes are comparable"""
    for _ in range(8):
        axes = tuple(k for k in range(a.ndim) if a.mfs[k] != (1,) or a.get_legs(k).is_fused())
        if not axes:
            return a
        a = a.unfuse_legs(axes=axes)
    return a


def union_legs(la, lb):
    import yastn
    out = {}
    for k, (x, y) in enumerate(zip(la, lb)):
        d = dict(zip(x.t, x.D))
        for t, D in zip(y.t, y.D):
            if d.setdefault(t, D) != D:
                return None, f"leg {k}: sector {t} has dimension {d[t]} in one run and {D} in the other"
        if x.s != y.s:
            return None, f"leg {k}: signatures differ"
        ts = sorted(d)
        out[k] = yastn.Leg(x.sym, s=x.s, t=ts, D=[d[t] for t in ts]) if x.sym.NSYM > 0 else (x if x.D else y)
    return out, None


def compare(yastn, v, w, fusion_differs):
    """compare two results of the same step under two configurations; returns (None | description, zero_sector_diff)"""
    if isinstance(v, yastn.Tensor) != isinstance(w, yastn.Tensor):
        return f"types differ: {type(v).__name__} vs {type(w).__name__}", False
    if not isinstance(v, yastn.Tensor):
        try:
            cv, cw = complex(v), complex(w)
        except Exception:  # noqa: BLE001
            return None, False
        if cv == cw or abs(cv - cw) <= 1e-9 * max(1.0, abs(cv)):
            return None, False
        return f"numbers differ: {cv} vs {cw}", False
    if tuple(v.n) != tuple(w.n):
        return f"total charge {v.n} vs {w.n}", False
    if v.isdiag != w.isdiag:
        return "one result is diagonal, the other is not", False
    a, b = v, w
    fused = any(mf != (1,) for mf in a.mfs + b.mfs) or any(hf.tree != (1,) for hf in a.hfs + b.hfs)
    if fused and fusion_differs:
        a, b = unfuse_all(a), unfuse_all(b)
    la, lb = a.get_legs(native=True), b.get_legs(native=True)
    if len(la) != len(lb):
        return f"rank {len(la)} vs {len(lb)}", False
    zero_diff = False
    if la != lb:
        if any(x.is_fused() or y.is_fused() for x, y in zip(la, lb)):
            # fused legs with different sector content (zero blocks): compare through the library's union
            try:
                L = {k: yastn.legs_union(x, y) for k, (x, y) in enumerate(zip(la, lb))}
            except Exception as e:  # noqa: BLE001
                return f"legs are incompatible: {type(e).__name__}: {e}", False
        else:
            L, why = union_legs(la, lb)
            if L is None:
                return why, False
        zero_diff = True
    else:
        L = None
    try:
        da = a.to_numpy(legs=L, native=True) if L else a.to_numpy(native=True)
        db = b.to_numpy(legs=L, native=True) if L else b.to_numpy(native=True)
    except Exception as e:  # noqa: BLE001
        return f"dense comparison not possible: {type(e).__name__}: {e}", zero_diff
    if da.shape != db.shape:
        return f"dense shapes {da.shape} vs {db.shape}", zero_diff
    if np.array_equal(da, db):
        return None, zero_diff
    if (not tprog._is_int_valued(da) or not tprog._is_int_valued(db)) and np.allclose(da, db, rtol=1e-9, atol=1e-9 * max(1.0, float(np.max(np.abs(da))) if da.size else 1.0)):
        return None, zero_diff
    return "dense values differ", zero_diff


def run(ctx):
    import yastn
    rng = ctx.rng
    nprog, (dmin, dmax) = (700, (3, 9)) if ctx.quick else (8000, (3, 13))
    ctx.rule = ("random type-directed programs over tensordot/@/ncon/einsum/fuse/unfuse/transpose/add/trace/svd/qr (+ diag, broadcast, mask, legs) "
                "executed in lockstep under: primary config, the 2 other tensordot policies, materialise-after-each-step, copy-after-each-step, other "
                "default fusion mode; after EVERY step all runs are compared pairwise with the primary (charge, legs, dense values; exact for integer data) "
                "and the primary with the Lean model; contract_with_unroll vs plain contraction; non-trivial = some result with >=2 blocks; plus ill-defined contractions/traces (must be rejected under every policy), unrolled output indices in product symmetries, and view relations R1-R4, R7 (pending vs consumed operand, same arguments)")
    budget = 55 if ctx.quick else 700
    for it in range(nprog):
        if ctx.elapsed() > budget:
            ctx.count("stopped-by-time-budget")
            break
        sym = rng.choice(tgen.SYM_NAMES)
        pol = rng.choice(tgen.POLICIES)
        fus = rng.choice(["hard", "meta"])
        cplx = rng.random() < 0.3
        dtype = "complex128" if cplx else "float64"
        kw = dict(symname=sym, policy=pol, fusion=fus, cplx=cplx, ops=OPS, max_rank=5, malformed_rate=0.05)

        def add_shadows(g):
            ident = lambda r: r
            for p2 in tgen.POLICIES:
                if p2 != pol:
                    g.shadows.append({"name": f"policy:{p2}", "cfg": tgen.make_cfg(sym, p2, fus, dtype=dtype), "vals": [], "excs": [], "post": ident, "fusion_differs": False})
            g.shadows.append({"name": "materialise", "cfg": g.cfg, "vals": [], "excs": [],
                              "post": (lambda r: r.consume_transpose() if isinstance(r, yastn.Tensor) else r), "fusion_differs": False})
            g.shadows.append({"name": "copy", "cfg": g.cfg, "vals": [], "excs": [],
                              "post": (lambda r: r.copy() if isinstance(r, yastn.Tensor) else r), "fusion_differs": False})
            other = "meta" if fus == "hard" else "hard"
            g.shadows.append({"name": f"fusion:{other}", "cfg": tgen.make_cfg(sym, pol, other, dtype=dtype), "vals": [], "excs": [], "post": ident, "fusion_differs": True})
        def setup(g):
            g.no_fused_partner = True   # fresh operands are never built on fused legs (they would not exist under the other fusion mode)
            add_shadows(g)
        kw["setup"] = setup
        ctx.count(f"sym:{sym}"); ctx.count(f"primary:{pol}/{fus}")
        g = c01.run_one(ctx, kw, rng.randint(dmin, dmax), check_access=False, tag="c14")
        progdesc = {"sym": sym, "policy": pol, "fusion": fus, "cplx": cplx, "steps": [s.model0 or s.model for s in g.steps],
                    "ops": [s.opname for s in g.steps]}
        dead = set()
        for k, st in enumerate(g.steps):
            if k in g.exclude:
                continue  # gauge-dependent factors of svd/qr
            for sh in g.shadows:
                if sh["name"] in dead:
                    continue
                w, ew = sh["vals"][k], sh["excs"][k]
                ctx.count("compared")
                if (st.exc is None) != (ew is None):
                    ctx.fail("oracle", f"c14:accept:{sh['name'].split(':')[0]}:{st.opname.split('_')[0]}",
                             f"step {k} ({st.opname}): {'computed' if st.exc is None else 'rejected (' + str(st.exc)[:80] + ')'} under {pol}/{fus} but "
                             f"{'computed' if ew is None else 'rejected (' + str(ew)[:80] + ')'} under {sh['name']}",
                             case={"program": progdesc, "step": k, "other": sh["name"]}, concrete=True)
                    dead.add(sh["name"])   # later steps of this run depend on the diverged value
                    continue
                if st.exc is not None:
                    continue
                why, zd = compare(yastn, st.real, w, sh["fusion_differs"])
                if zd:
                    ctx.count(f"legs-differ-by-zero-sectors:{sh['name'].split(':')[0]}")
                if why:
                    dead.add(sh["name"])
                    ctx.fail("oracle", f"c14:{sh['name'].split(':')[0]}:{st.opname.split('_')[0]}",
                             f"step {k} ({st.opname}): result under {pol}/{fus} differs from the result under {sh['name']}: {why}",
                             case={"program": progdesc, "step": k, "other": sh["name"]}, concrete=True)
    run_unroll(ctx)
    run_slicing(ctx)
    # operations do not depend on how an operand is held (pending transposition, meta / hard fused legs)
    from .. import views
    views.run(ctx, 400 if ctx.quick else 6000, 25 if ctx.quick else 300, which=("R1", "R1", "R1", "R2", "R3", "R4", "R7"))


def run_slicing(ctx):
    """slice_leg_uniform vs the Lean model (whose partition properties are theorems) + direct partition oracle"""
    import yastn
    from yastn.tensor.oe_blocksparse import slice_leg_uniform
    rng = ctx.rng
    cases, reals = [], []
    cfg = tgen.make_cfg("U1")
    for _ in range(150 if ctx.quick else 3000):
        ns = rng.randint(1, 5)
        Ds = [rng.randint(1, 7) for _ in range(ns)]
        size = rng.randint(1, 9)
        leg = yastn.Leg(cfg, s=rng.choice([1, -1]), t=list(range(ns)), D=Ds)
        try:
            sl = slice_leg_uniform(leg, size)
        except Exception as e:  # noqa: BLE001
            ctx.fail("oracle", "c14:slice:raises", f"slice_leg_uniform(D={Ds}, size={size}) raises {type(e).__name__}: {e}", case={"Ds": Ds, "size": size}, concrete=True)
            continue
        real = []
        for s_ in sl:
            piece = []
            for t, D in zip(s_.t, s_.D):
                r = s_.slices.get(t, slice(None))
                start = 0 if r.start is None else r.start
                stop = leg[t] if r.stop is None else r.stop
                piece.append([t[0], start, stop])
                if stop - start != D:
                    ctx.fail("oracle", "c14:slice:dim", f"slice of sector {t} has D={D} but range [{start},{stop})", case={"Ds": Ds, "size": size}, concrete=True)
            real.append(piece)
        # direct oracle: the pieces cover every position of every sector exactly once, sizes <= size, all but the last == size
        cover = {}
        for piece in real:
            tot = sum(e - b for _, b, e in piece)
            if tot == 0 or tot > size:
                ctx.fail("oracle", "c14:slice:size", f"a slice holds {tot} positions (size={size}, D={Ds})", case={"Ds": Ds, "size": size}, concrete=True)
            for t, b, e in piece:
                for q in range(b, e):
                    cover[(t, q)] = cover.get((t, q), 0) + 1
        want = {(t, q) for t, D in enumerate(Ds) for q in range(D)}
        if set(cover) != want or any(v != 1 for v in cover.values()):
            ctx.fail("oracle", "c14:slice:partition", f"slice_leg_uniform(D={Ds}, size={size}) is not a partition of the leg", case={"Ds": Ds, "size": size}, concrete=True)
        if any(sum(e - b for _, b, e in piece) != size for piece in real[:-1]):
            ctx.fail("oracle", "c14:slice:full", f"a slice other than the last is not full (D={Ds}, size={size})", case={"Ds": Ds, "size": size}, concrete=True)
        cases.append([Ds, size]); reals.append(real)
        ctx.case({"kind": "slice_leg_uniform", "Ds": Ds, "size": size}, nontrivial=len(Ds) >= 2)
        ctx.count("slice-compared")
    if ctx.drv is not None and cases:
        mod = ctx.drv.call({"op": "slice_uniform", "cases": cases})
        if not mod.get("ok"):
            ctx.fail("correspondence", "c14:slice:model-error", f"model error {mod.get('err')}")
            return
        for c, r, m in zip(cases, reals, mod["res"]):
            if r != m:
                ctx.fail("correspondence", "c14:slice:model", f"slice_leg_uniform(D={c[0]}, size={c[1]}): real {r} != model {m}", case={"Ds": c[0], "size": c[1]})
                break


def run_unroll(ctx):
    """contract_with_unroll gives the same tensor for every admissible path / unrolling / slicing."""
    import yastn
    rng = ctx.rng
    n = 160 if ctx.quick else 1600
    t0 = ctx.elapsed()
    for it in range(n):
        if ctx.elapsed() - t0 > (25 if ctx.quick else 300):
            break
        sym = rng.choice(["U1", "Z2", "Z3", "dense", "Z2xU1", "U1xU1", "U1xU1xZ2", "Z2xU1"])
        cfg = tgen.make_cfg(sym, rng.choice(tgen.POLICIES), "hard")
        nt = rng.randint(2, 4)
        legs = [tgen.rand_leg(rng, cfg, sym, s=1, max_sectors=3, max_dim=4) for _ in range(nt + 1)]
        extra = tgen.rand_leg(rng, cfg, sym, s=1, max_sectors=2, max_dim=2)
        ts, labels = [], []
        for k in range(nt):
            lg = [legs[k], legs[k + 1].conj()]
            lab = [f"v{k}", f"v{k + 1}"]
            if rng.random() < 0.4:
                lg.append(extra if rng.random() < 0.5 else extra.conj()); lab.append(f"p{k}")
            order = list(range(len(lg))); rng.shuffle(order)
            t = tgen.rand_tensor(rng, cfg, sym, [lg[o] for o in order], drop=0.25, allow_empty=False)
            if rng.random() < 0.3 and t.ndim > 1:
                pp = list(range(t.ndim)); rng.shuffle(pp)
                t = t.transpose(tuple(pp))           # pending (lazy) permutation
                order = [order[q] for q in pp]
            ts.append(t); labels.append(tuple(lab[o] for o in order))
        out = [f"v0", f"v{nt}"] + [l for lab in labels for l in lab if l.startswith("p")]
        rng.shuffle(out)
        args = []
        for t, lab in zip(ts, labels):
            args += [t, lab]
        args.append(tuple(out))
        inds = []
        for lab in labels:
            inds.append([-(out.index(l) ) if l in out else int(l[1:]) for l in lab])
        # reference: plain ncon of the same network (labels v1..v{nt-1} contracted)
        try:
            ref = yastn.ncon(ts, [[(-out.index(l)) if l in out else int(l[1:]) for l in lab] for lab in labels])
        except Exception:  # noqa: BLE001
            ctx.count("unroll-reference-not-built")
            continue
        all_labels = sorted({l for lab in labels for l in lab})
        which = rng.sample(all_labels, rng.randint(1, min(2, len(all_labels))))
        if rng.random() < 0.5 and not any(l in out for l in which):   # unrolled OUTPUT indices (partial results are embedded)
            which[0] = rng.choice(out)
        ctx.count(f"unroll:output-index-unrolled:{any(l in out for l in which)}")
        unroll, desc = {}, {}
        for l in which:
            # slice the FULL leg space of the label (a valid partition has to cover every sector any operand holds)
            leg = legs[int(l[1:])] if l.startswith("v") else extra
            mode = rng.choice(["sectors", "uniform", "int"])
            if mode == "sectors":
                unroll[l] = yastn.make_sliced_legs(leg)
            elif mode == "uniform":
                from yastn.tensor.oe_blocksparse import slice_leg_uniform
                size = rng.randint(1, 3)
                unroll[l] = slice_leg_uniform(leg, size); mode = f"uniform{size}"
            else:
                k = rng.randint(1, 4)
                unroll[l] = k; mode = f"int{k}"
            desc[l] = mode
        case = {"sym": sym, "labels": [list(l) for l in labels], "out": out, "unroll": desc, "tensors": [tgen.to_model(t.consume_transpose()) for t in ts]}
        optimizers = ["auto"] if ctx.quick else ["auto", "greedy", "optimal"]
        for opt in optimizers:
            try:
                path, _ = yastn.get_contraction_path(*args, optimize=opt) if opt != "auto" else yastn.get_contraction_path(*args)
            except TypeError:
                path, _ = yastn.get_contraction_path(*args)
            except Exception as e:  # noqa: BLE001
                ctx.count("unroll-path-not-built")
                continue
            for use_unroll in (False, True):
                try:
                    res = yastn.contract_with_unroll(*args, optimize=path, **({"unroll": unroll} if use_unroll else {}))
                except Exception as e:  # noqa: BLE001
                    ctx.fail("oracle", "c14:unroll:raises", f"contract_with_unroll(labels={labels}, out={out}, unroll={desc if use_unroll else None}) raises "
                             f"{type(e).__name__}: {e} although ncon computes the network", case=case, concrete=True)
                    continue
                ctx.count("unroll-compared" if use_unroll else "path-compared")
                ctx.count(f"unroll-mode:{','.join(sorted(desc.values()))}" if use_unroll else "no-unroll")
                ctx.case({"sym": sym, "labels": [list(l) for l in labels], "unroll": desc if use_unroll else None, "opt": opt}, nontrivial=len(ref.struct.t) >= 2)
                why, _ = compare(yastn, ref, res, False)
                if why:
                    ctx.fail("oracle", "c14:unroll:value", f"contract_with_unroll(labels={labels}, out={out}, unroll={desc if use_unroll else None}, optimizer={opt}) "
                             f"differs from ncon: {why}", case=case, concrete=True)


def search(ctx, broken, budget):
    ctx.notes.append("pairwise comparison of the real runs already executed eagerly for every step")


def replay(ctx, obj):
    run(ctx)
