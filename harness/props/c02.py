"""C02 — Every produced tensor is well-formed and conserves charge.

Same program stream as C01 (plus svd/qr/fuse/unfuse results), but judged on STRUCTURE after every step:
model correspondence (signature, charge, keys, shapes; the model's own `wf` flag, proved sound for `WF`),
`is_consistent()` of the real result, and independent oracles on the real code: selection rule re-derived
from get_legs / block charges with plain modular arithmetic, uniqueness/order of blocks, shapes vs legs,
storage size, symmetry-forbidden dense elements are zero, and the algebraic total-charge table.
"""
import itertools

import numpy as np

from .. import tgen, tprog
from . import c01

LEAN_TARGETS = ["YProofs.Props.C02", "YProofs.Props.C02Legs", "YProofs.Props.C02Prog", "YProofs.Props.C01Broadcast", "YProofs.Props.C01Mask", "YProofs.Props.C01Diag", "YProofs.Props.C02Fuse"]
LEVEL = "proof"
TRANSLATORS = ["gen_sym"]
DRIVER = "drv_c01"

MODULI = {"dense": [], "Z2": [2], "Z3": [3], "U1": [0], "U1xU1": [0, 0], "Z2xU1": [2, 0], "U1xU1xZ2": [0, 0, 2]}

OPS = c01.OPS + ["svd", "qr", "fuse", "fuse"]


def gsum(ms, terms):
    """Σ s·t componentwise with the group's moduli (independent of yastn.sym)"""
    out = []
    for j, m in enumerate(ms):
        v = sum(s * t[j] for s, t in terms)
        out.append(v % m if m else v)
    return tuple(out)


def wf_oracle(a, ms):
    """independent re-derivation of well-formedness of a real tensor; returns None or (key, description)"""
    nsym = len(ms)
    st = a.struct
    s = tuple(st.s)
    if any(x not in (1, -1) for x in s):
        return ("signature", f"signature {s}")
    if len(st.n) != nsym or any(m and not 0 <= x < m for m, x in zip(ms, st.n)):
        return ("charge-range", f"total charge {st.n} is not canonical")
    if list(st.t) != sorted(set(st.t)):
        return ("blocks-order", "block charges are not strictly ascending / unique")
    if len(st.t) != len(st.D) or len(a.slices) != len(st.t):
        return ("struct-lengths", "t, D, slices have different lengths")
    nd = len(s)
    legD = [dict() for _ in range(nd)]
    pos = 0
    for t, D, sl in zip(st.t, st.D, a.slices):
        if len(t) != nd * nsym or len(D) != nd:
            return ("block-rank", f"block {t} / shape {D} do not match rank {nd}")
        ch = [tuple(t[i * nsym:(i + 1) * nsym]) for i in range(nd)]
        if any(m and not 0 <= x < m for c in ch for m, x in zip(ms, c)):
            return ("block-charge-range", f"block {t} holds a non-canonical charge")
        if a.isdiag:
            if nd != 2 or ch[0] != ch[1] or D[0] != D[1]:
                return ("diag-block", f"diagonal tensor with block {t} shape {D}")
        if gsum(ms, list(zip(s, ch))) != tuple(st.n):
            return ("selection-rule", f"block {t} with signature {s} does not combine to the total charge {st.n}")
        if any(d <= 0 for d in D):
            return ("dims-positive", f"block {t} has shape {D}")
        for i in range(nd):
            if legD[i].setdefault(ch[i], D[i]) != D[i]:
                return ("dims-consistent", f"leg {i} charge {ch[i]} has two dimensions")
        size = D[0] if a.isdiag else int(np.prod(D, dtype=np.int64)) if D else 1
        if sl.Dp != size or tuple(sl.D) != tuple(D) or sl.slcs[0] != (pos, pos + size):
            return ("slices", f"slice {sl} of block {t} inconsistent with shape {D} at offset {pos}")
        pos += size
    if st.size != pos or a._data.size != pos:
        return ("size", f"struct.size={st.size}, data size={a._data.size}, blocks need {pos}")
    if len(a.hfs) != nd or sum(mf[0] for mf in a.mfs) != nd or sorted(a.trans) != list(range(nd)):
        return ("fusion-meta", "hfs/mfs/trans do not match the native rank")
    for i, hf in enumerate(a.hfs):
        if hf.s[0] != s[i]:
            return ("hfs-signature", f"fusion history of leg {i} has signature {hf.s[0]} but the leg has {s[i]}")
    return None


def forbidden_zero_oracle(a, ms):
    """every dense element outside the symmetry-allowed sectors is exactly zero"""
    if a.isdiag or a.ndim_n > 5 or any(hf.tree != (1,) for hf in a.hfs):
        return None
    legs = a.get_legs(native=True)
    dense = a.to_numpy(native=True)
    if dense.size > 20000 or dense.size == 0:
        return None
    s = a.get_signature(native=True)
    allowed = np.zeros(dense.shape, dtype=bool)
    offs = []
    for l in legs:
        o, lst = 0, []
        for t, D in zip(l.t, l.D):
            lst.append((t, o, o + D)); o += D
        offs.append(lst)
    for combo in itertools.product(*offs):
        if gsum(ms, [(si, c[0]) for si, c in zip(s, combo)]) == tuple(a.n):
            allowed[tuple(slice(c[1], c[2]) for c in combo)] = True
    if np.any(dense[~allowed]):
        return ("forbidden-nonzero", "a dense element outside the symmetry-allowed sectors is non-zero")
    return None


def charge_table(g, st, ms):
    """the total charge algebra dictates for this step (None = not covered)"""
    v = g.vals
    op = st.opname
    a = st.args
    n = lambda i: tuple(v[i].n)
    try:
        if op in ("tensordot", "matmul"):
            m0 = st.model0 or {}
            cj = m0.get("conj", [0, 0]) if m0.get("f") == "tensordot" else [0, 0]
            return gsum(ms, [(-1 if cj[0] else 1, n(a[0])), (-1 if cj[1] else 1, n(a[1]))])
        if op in ("conj",):
            return gsum(ms, [(-1, n(a[0]))])
        if op in ("flip_signature",):
            return gsum(ms, [(-1, n(a[0]))])
        if op in ("add", "sub", "addmany", "smul", "neg", "conj_blocks", "transpose_lazy", "transpose_mat", "moveaxis", "copy",
                  "clone", "shallow_copy", "consume_transpose", "trace", "remove_zero_blocks", "unfuse", "fuse_hard", "fuse_meta",
                  "fuse_None", "broadcast", "apply_mask", "diag_to_diag", "diag_to_full"):
            return n(a[-1]) if op in ("broadcast", "apply_mask") else n(a[0])
        if op in ("add_leg", "add_leg_default"):
            m0 = st.model0 or {}
            return gsum(ms, [(1, n(a[0])), (m0["s"], tuple(m0["t"]))]) if m0.get("f") == "add_leg" else None
        if op == "tensordot_diag":
            return n(a[0]) if not v[a[0]].isdiag else n(a[1])
        if op in ("ncon", "einsum"):
            return None
    except Exception:  # noqa: BLE001
        return None
    return None


def run(ctx):
    rng = ctx.rng
    nprog, (dmin, dmax) = (1800, (3, 9)) if ctx.quick else (12000, (3, 14))
    ctx.rule = ("random type-directed programs as in C01 plus svd/qr/fuse/unfuse; after EVERY step: structure == Lean model (whose `wf` flag is proved "
                "sound for WF), is_consistent(), independent selection-rule / ordering / shape / size / fusion-meta oracle, forbidden dense elements zero, "
                "total-charge table; non-trivial = some result with >=2 blocks; distinct by (sym, policy, op sequence); plus initialisers (rand/zeros/ones/eye, diagonal legs that must be rejected) and view relations R1/R3/R7 with is_consistent() on every result")
    budget = 50 if ctx.quick else 800
    for it in range(nprog):
        if ctx.elapsed() > budget:
            ctx.count("stopped-by-time-budget")
            break
        sym = rng.choice(tgen.SYM_NAMES)
        ms = MODULI[sym]
        kw = dict(symname=sym, policy=rng.choice(tgen.POLICIES), fusion=rng.choice(["hard", "meta"]), cplx=rng.random() < 0.3, ops=OPS,
                  max_rank=6)
        ctx.count(f"sym:{sym}")
        g = c01.run_one(ctx, kw, rng.randint(dmin, dmax), check_access=False, tag="c02")
        yastn = g.yastn
        for k, st in enumerate(g.steps):
            r = st.real
            if not isinstance(r, yastn.Tensor):
                continue
            case = {"program": {"sym": sym, "policy": kw["policy"], "fusion": kw["fusion"], "cplx": kw["cplx"],
                                "steps": [s.model for s in g.steps]}, "step": k, "op": st.opname}
            ctx.count(f"rank:{r.ndim_n}")
            ctx.count("diag" if r.isdiag else "nondiag")
            if r.n != r.config.sym.zero():
                ctx.count("nonzero-charge")
            try:
                ok = r.is_consistent()
            except Exception as e:  # noqa: BLE001
                ok = False
                ctx.fail("oracle", f"c02:is_consistent:{st.opname.split('_')[0]}", f"step {k} ({st.opname}): is_consistent() raises {type(e).__name__}: {e}", case=case, concrete=True)
            w = wf_oracle(r, ms)
            if w:
                ctx.fail("oracle", f"c02:wf:{w[0]}:{st.opname.split('_')[0]}", f"step {k} ({st.opname}): result not well-formed: {w[1]}", case=case, concrete=True)
                continue
            w = forbidden_zero_oracle(r, ms)
            if w:
                ctx.fail("oracle", f"c02:{w[0]}:{st.opname.split('_')[0]}", f"step {k} ({st.opname}): {w[1]}", case=case, concrete=True)
            exp = charge_table(g, st, ms)
            if exp is not None:
                ctx.count("charge-table-checked")
                if tuple(r.n) != tuple(exp):
                    ctx.fail("oracle", f"c02:charge:{st.opname.split('_')[0]}", f"step {k} ({st.opname}): total charge {r.n}, algebra dictates {exp}", case=case, concrete=True)
            if st.oracle and st.oracle[0] == "charge-split":
                _, which, part, src, kwf = st.oracle
                n_src = tuple(g.vals[src].n)
                zero = tuple(r.config.sym.zero())
                if which == "svd":
                    want = {"U": n_src if kwf["nU"] else zero, "S": zero, "V": zero if kwf["nU"] else n_src}[part]
                else:
                    want = {"Q": n_src, "R": zero}[part]
                ctx.count("factor-charge-checked")
                if tuple(r.n) != want:
                    ctx.fail("oracle", f"c02:charge:{which}", f"{which} factor {part} carries charge {r.n}, expected {want} ({kwf})", case=case, concrete=True)
    part_constructors(ctx)
    # results on lazily held / fused operands are consistent too (is_consistent + exact relations)
    from .. import views
    views.run(ctx, 250 if ctx.quick else 4000, 15 if ctx.quick else 200, which=("R1", "R3", "R3", "R7"))


def part_constructors(ctx):
    """initialisers produce well-formed tensors on valid legs and reject legs on which no well-formed tensor exists (diagonal tensors
    need the same dimension in EVERY sector of their two legs)"""
    import yastn
    rng = ctx.rng
    t0 = ctx.elapsed()
    for it in range(120 if ctx.quick else 2000):
        if ctx.elapsed() - t0 > (6 if ctx.quick else 90):
            break
        sym = rng.choice(tgen.SYM_NAMES)
        ms = MODULI[sym]
        cfg = tgen.make_cfg(sym)
        fname = rng.choice(["rand", "zeros", "ones", "eye"])
        fn = getattr(yastn, fname)
        diag = rng.random() < 0.6
        l = tgen.rand_leg(rng, cfg, sym, max_sectors=3, max_dim=4)
        case = {"sym": sym, "f": fname, "isdiag": diag, "leg": [list(map(list, l.t)), list(l.D)], "s": l.s}
        if diag:
            kind = rng.choice(["valid", "valid", "dims-permuted", "dims-changed"])
            l2 = l.conj()
            if kind != "valid" and len(l.t) >= 1:
                D2 = list(l.D)
                if kind == "dims-permuted" and len(set(D2)) >= 2:
                    for _ in range(10):
                        rng.shuffle(D2)
                        if tuple(D2) != tuple(l.D):
                            break
                else:
                    q = rng.randrange(len(D2)); D2[q] += rng.choice([1, 2])
                if tuple(D2) == tuple(l.D):
                    kind = "valid"
                else:
                    l2 = yastn.Leg(cfg, s=-l.s, t=l.t, D=D2) if sym != "dense" else yastn.Leg(cfg, s=-l.s, D=D2)
            case.update({"kind": kind, "D2": list(l2.D)})
            ctx.count(f"constructors:diag:{kind}")
            ctx.case({"part": "constructors", "sym": sym, "f": fname, "kind": kind}, nontrivial=len(l.t) >= 2)
            try:
                a = fn(cfg, legs=[l, l2], isdiag=True)
            except yastn.YastnError:
                if kind == "valid":
                    ctx.fail("oracle", "c02:constructor:rejects-valid", f"{fname}(isdiag=True) rejected a leg and its conjugate", case=case, concrete=True)
                continue
            except Exception as e:  # noqa: BLE001
                ctx.fail("oracle", "c02:constructor:exception", f"{fname}(isdiag=True) raised {type(e).__name__}: {e}", case=case, concrete=True)
                continue
            if kind != "valid":
                ctx.fail("oracle", "c02:constructor:accepts-nonsquare-diagonal", f"{fname}(isdiag=True) accepted legs whose sectors have different dimensions "
                         f"({tuple(l.D)} against {tuple(l2.D)}): a diagonal tensor with non-square blocks {a.struct.D}", case=case, concrete=True)
                continue
        else:
            legs = [l] + [tgen.rand_leg(rng, cfg, sym, max_sectors=3, max_dim=3) for _ in range(rng.randint(0, 3))]
            if fname == "eye":
                legs = [l, l.conj()]
            ctx.count("constructors:plain")
            ctx.case({"part": "constructors", "sym": sym, "f": fname, "kind": "plain", "nd": len(legs)}, nontrivial=len(l.t) >= 2)
            try:
                a = fn(cfg, legs=legs, isdiag=False) if fname == "eye" else fn(cfg, legs=legs)
            except Exception as e:  # noqa: BLE001
                ctx.fail("oracle", "c02:constructor:exception", f"{fname} on valid legs raised {type(e).__name__}: {e}", case=case, concrete=True)
                continue
        w = wf_oracle(a, ms)
        if w:
            ctx.fail("oracle", f"c02:constructor:{w[0]}", f"{fname}(isdiag={diag}) returned an ill-formed tensor: {w[1]}", case=case, concrete=True)
        try:
            a.is_consistent()
            if a.isdiag:
                a.diag().is_consistent()
        except Exception as e:  # noqa: BLE001
            ctx.fail("oracle", "c02:constructor:is_consistent", f"{fname}(isdiag={diag}): {type(e).__name__}: {e}", case=case, concrete=True)
        # set_block, the documented in-place initialiser: a block whose charges violate the selection rule must be rejected and leave
        # the tensor untouched (plain and DIAGONAL tensors, one-charge and explicit pair form); an admissible block keeps it well-formed
        if sym != "dense" and rng.random() < 0.6:
            nsym = cfg.sym.NSYM
            dg = rng.random() < 0.5
            b = yastn.Tensor(config=cfg, s=(l.s, -l.s), isdiag=dg)
            t1 = tuple(rng.choice(l.t))
            others = [tuple(x) for x in l.t if tuple(x) != t1] or [tuple(cfg.sym.add_charges(t1, t1)) if tuple(cfg.sym.add_charges(t1, t1)) != t1 else None]
            t2 = rng.choice(others)
            form = rng.choice(["pair-equal", "pair-different", "single"] if dg else ["pair-equal", "pair-different"])
            if form == "pair-different" and t2 is None:
                form = "pair-equal"
            D = rng.randint(1, 3)
            ts = (t1, t1) if form == "pair-equal" else (t1, t2) if form == "pair-different" else t1
            Ds = (D, D) if form != "single" else D
            scase = {"sym": sym, "part": "set_block", "isdiag": dg, "form": form, "ts": [list(t1), list(t2 or ())], "D": D, "s": l.s}
            ctx.count(f"constructors:set_block:{'diag' if dg else 'plain'}:{form}")
            before = (b.struct, b.slices, bytes(b._data.tobytes()))
            try:
                b.set_block(ts=ts, Ds=Ds, val="ones")
                err = None
            except yastn.YastnError as e:
                err = str(e)
            except Exception as e:  # noqa: BLE001
                ctx.fail("oracle", "c02:constructor:exception", f"set_block(ts={ts}) raised {type(e).__name__}: {e}", case=scase, concrete=True)
                continue
            if form == "pair-different":
                if err is None:
                    ctx.fail("oracle", "c02:set_block:accepts-forbidden-block", f"set_block(ts={ts}) on a {'diagonal' if dg else 'rank-2'} tensor of charge 0 and "
                             f"signature {(l.s, -l.s)} was accepted although the charges do not combine to the tensor charge", case=scase, concrete=True)
                elif (b.struct, b.slices, bytes(b._data.tobytes())) != before:
                    ctx.fail("oracle", "c02:set_block:rejected-but-modified", f"set_block(ts={ts}) was rejected but changed the tensor", case=scase, concrete=True)
            elif err is not None:
                ctx.fail("oracle", "c02:constructor:rejects-valid", f"set_block(ts={ts}, Ds={Ds}) rejected an admissible block: {err}", case=scase, concrete=True)
            else:
                w = wf_oracle(b, ms)
                if w:
                    ctx.fail("oracle", f"c02:constructor:{w[0]}", f"set_block(ts={ts}) left an ill-formed tensor: {w[1]}", case=scase, concrete=True)


def search(ctx, broken, budget):
    ctx.notes.append("the structural oracles already ran eagerly on every step of every program")


def replay(ctx, obj):
    run(ctx)
