"""C13 — Truncation keeps exactly the largest weights and reports the true error.

Tie to the source:
 (a) correspondence: the real `yastn.linalg.truncation_mask` vs the Lean model `YModel.Trunc.truncate` on exact
     (dyadic-rational) spectra; tie-free spectra: masks bit for bit, spectra with ties: same multiset of kept values
     (theorem `valid_unique_count`) and the Lean specification `Valid` (`judge`) evaluated on the REAL mask;
 (b) eager oracles (NumPy / exact integers, independent of the Lean model) on the real mask: the four limits,
     maximality inside a sector and among block survivors, exact count, non-binding ⇒ all kept;
 (c) `svd_with_truncation` / `eigh_with_truncation` on random symmetric tensors: structure, limits, maximality and
     the error identity ‖a − U S V‖ = ‖S_discarded‖ (contract of theorem `truncated_error` + oracle).  svd_with_truncation is
     run under every solver policy of the NumPy backend (fullrank, lowrank, block_arnoldi, block_propack; the partial ones with
     D_block / k_block as integer or per-sector dictionary, sectors wide enough for scipy's iterative solvers included), with
     fix_signs and non-default Uaxis/Vaxis; the reference spectrum always comes from the full-rank solver.
Values in (a)/(b) are integers k scaled by 2^-shift, tolerances dyadic p/2^a, so every product `tol*max` and every
comparison the real code performs in float64 is exact.
"""
import itertools
import math
import time
from collections import Counter
from fractions import Fraction

import numpy as np

LEAN_TARGETS = ["YProofs.Props.C13", "YProofs.Props.C13Error"]
LEVEL = "proof"
TRANSLATORS = []
DRIVER = "drv_c13"

INF = float("inf")
SYM_IDS = ["dense", "U1", "Z2", "Z3", "Z2xU1", "U1xU1"]


# ----------------------------------------------------------------------------------------------
# helpers around the real library
# ----------------------------------------------------------------------------------------------

def _config(sid):
    import yastn
    if sid == "Z2xU1":
        from yastn.sym import sym_Z2xU1
        return yastn.make_config(sym=sym_Z2xU1)
    return yastn.make_config(sym=sid)


def charge_pool(sid):
    if sid == "dense":
        return [()]
    if sid == "Z2":
        return [(0,), (1,)]
    if sid == "Z3":
        return [(0,), (1,), (2,)]
    if sid == "U1":
        return [(k,) for k in range(-3, 4)]
    if sid == "Z2xU1":
        return [(a, b) for a in (0, 1) for b in (-1, 0, 1, 2)]
    if sid == "U1xU1":
        return [(a, b) for a in (-1, 0, 1) for b in (-1, 0, 1)]
    raise ValueError(sid)


def diag_blocks(S):
    """{charge: 1-d array} of a diagonal tensor, in storage order."""
    nsym = S.config.sym.NSYM
    return {tuple(t[:nsym]): np.array(S._data[slice(*sl.slcs[0])]) for t, sl in zip(S.struct.t, S.slices)}


def lim_to_real(lim):
    """JSON limits -> keyword arguments of the real functions."""
    def D(x):
        return INF if x is None else int(x)
    kw = {"tol": float(Fraction(*lim["tol"])), "D_total": D(lim["Dt"])}
    tb = lim["tolb"]
    kw["tol_block"] = {tuple(t): float(Fraction(*x)) for t, x in tb["dict"]} if isinstance(tb, dict) else float(Fraction(*tb))
    db = lim["Db"]
    kw["D_block"] = {tuple(t): D(x) for t, x in db["dict"]} if isinstance(db, dict) else D(db)
    if "kb" in lim:   # factorizations with a partial-SVD policy only
        kb = lim["kb"]
        kw["k_block"] = {tuple(t): D(x) for t, x in kb["dict"]} if isinstance(kb, dict) else D(kb)
    return kw


def lim_tolb(lim, t):
    tb = lim["tolb"]
    if isinstance(tb, dict):
        for tt, x in tb["dict"]:
            if tuple(tt) == tuple(t):
                return Fraction(*x)
        return Fraction(0)
    return Fraction(*tb)


def lim_db(lim, t):
    db = lim["Db"]
    if isinstance(db, dict):
        for tt, x in db["dict"]:
            if tuple(tt) == tuple(t):
                return INF if x is None else x
        return 0
    return INF if db is None else db


# ----------------------------------------------------------------------------------------------
# part A: exact spectra
# ----------------------------------------------------------------------------------------------

def is_dyadic(fr):
    d = fr.denominator
    return d & (d - 1) == 0


def gen_spectrum(rng):
    sid = rng.choice(SYM_IDS)
    pool = charge_pool(sid)
    ns = min(len(pool), rng.randint(1, 5))
    charges = sorted(rng.sample(pool, ns))
    style = rng.choice(["generic", "generic", "degenerate", "allequal", "zeros", "zerosector", "pow2max", "geometric", "signed", "single"])
    shift = rng.randint(0, 5)
    vals = []
    for _ in charges:
        n = 1 if style == "single" else rng.randint(1, 6)
        if style == "generic" or style == "pow2max" or style == "single":
            vs = [rng.randint(1, 96) for _ in range(n)]
        elif style == "degenerate":
            base = [rng.randint(1, 8) for _ in range(2)]
            vs = [rng.choice(base) for _ in range(n)]
        elif style == "allequal":
            vs = [8] * n
        elif style == "zeros":
            vs = [rng.choice([0, 0, rng.randint(1, 20)]) for _ in range(n)]
        elif style == "zerosector":
            vs = [0] * n if rng.random() < 0.5 else [rng.randint(0, 12) for _ in range(n)]
        elif style == "geometric":
            vs = [2 ** rng.randint(0, 6) for _ in range(n)]
        else:  # signed (eigenvalue-like)
            vs = [rng.randint(-20, 20) for _ in range(n)]
        if style == "pow2max":
            i = max(range(n), key=lambda k: vs[k])
            vs[i] = 128 if rng.random() < 0.5 else 64 * rng.choice([1, 2])
        if rng.random() < 0.5:
            vs.sort(reverse=True)  # what svd delivers
        vals.append(vs)
    return sid, charges, vals, shift, style


def gen_tol(rng, vals, which):
    """dyadic tolerance as [num, den]; 'which' = block|global picks the reference max."""
    r = rng.random()
    if r < 0.35:
        return [0, 1], "zero"
    flat = [v for vs in vals for v in vs]
    ref = rng.choice(vals) if which == "block" else flat
    mx = max(abs(v) for v in ref)
    pos = [v for v in ref if v > 0]
    if r < 0.72 and mx > 0 and pos:
        v = rng.choice(sorted(pos)[:max(1, (2 * len(pos)) // 3)])
        fr = Fraction(v, mx)
        if is_dyadic(fr) and fr.denominator <= 4096:
            k = rng.random()
            if k < 0.5:
                return [fr.numerator, fr.denominator], "on-value"
            delta = Fraction(1, 4096)
            fr2 = fr + delta if k < 0.75 else fr - delta
            if fr2 >= 0:
                return [fr2.numerator, fr2.denominator], "beside-value"
        # nearest dyadic just below / above the value
        a = 10
        num = (v * 2 ** a) // mx + rng.choice([0, 1])
        fr = Fraction(num, 2 ** a)
        return [fr.numerator, fr.denominator], "near-value"
    if r < 0.95:
        a = rng.randint(1, 6)
        fr = Fraction(rng.randint(0, 2 ** (a - 1)), 2 ** a)
        return [fr.numerator, fr.denominator], "dyadic"
    fr = rng.choice([Fraction(1), Fraction(3, 2), Fraction(1, 2), Fraction(1, 1024)])
    return [fr.numerator, fr.denominator], "special"


def gen_limits(rng, sid, charges, vals):
    n = sum(len(v) for v in vals)
    lim = {}
    lim["Dt"] = rng.choice([None, None, None, None, 0, 1, 2, 3, max(n // 2, 1), max(n // 2, 1), max(n - 1, 1), n, n + 1])
    r = rng.random()
    tags = []
    if r < 0.3:
        lim["Db"] = None; tags.append("Db:inf")
    elif r < 0.6:
        lim["Db"] = rng.choice([0, 1, 1, 2, 2, 3, 4, 6]); tags.append("Db:const")
    else:
        present = [t for t in charges if rng.random() < 0.8]
        extra = [t for t in charge_pool(sid) if t not in charges]
        keys = present + ([rng.choice(extra)] if extra and rng.random() < 0.4 else [])
        lim["Db"] = {"dict": [[list(t), rng.choice([None, 0, 1, 1, 2, 2, 3, 6])] for t in keys]}
        tags.append("Db:dict" + (":missing-sector" if len(present) < len(charges) else ""))
    lim["tol"], k1 = gen_tol(rng, vals, "global")
    tags.append("tol:" + k1)
    if rng.random() < 0.12:
        keys = [t for t in charges if rng.random() < 0.6]
        lim["tolb"] = {"dict": [[list(t), gen_tol(rng, vals, "block")[0]] for t in keys]}
        tags.append("tolb:dict")
    else:
        lim["tolb"], k2 = gen_tol(rng, vals, "block")
        tags.append("tolb:" + k2)
    return lim, tags


def real_mask(sid, charges, vals, shift, lim):
    """build the diagonal tensor, call the real truncation_mask; returns list of list of bool (storage order)."""
    import yastn
    cfg = _config(sid)
    S = yastn.Tensor(cfg, s=(1, -1), isdiag=True)
    sc = 2.0 ** (-shift)
    for t, vs in zip(charges, vals):
        S.set_block(ts=tuple(t), Ds=len(vs), val=[v * sc for v in vs])
    before = S._data.copy()
    m = yastn.linalg.truncation_mask(S, **lim_to_real(lim))
    blocks = diag_blocks(m)
    info = {"dtype_bool": m._data.dtype == np.bool_, "isdiag": bool(m.isdiag), "same_struct": m.struct.t == S.struct.t and m.struct.D == S.struct.D,
            "input_untouched": bool(np.array_equal(before, S._data))}
    order = [tuple(t[:cfg.sym.NSYM]) for t in S.struct.t]
    return [[bool(x) for x in blocks[tuple(t)]] for t in charges], info, order


def mask_oracle(charges, vals, lim, mask):
    """exact (integer) evaluation of the property's observable on a mask.  Returns [(key, message)]."""
    out = []
    tn, td = lim["tol"]
    Dtot = INF if lim["Dt"] is None else lim["Dt"]
    if len(mask) != len(vals) or any(len(a) != len(b) for a, b in zip(mask, vals)):
        return [("shape", "mask does not have the shape of the spectrum")]
    W, disc_surv, kept_all = [], [], []
    for t, vs, m in zip(charges, vals, mask):
        mx = max(abs(v) for v in vs)
        tb = lim_tolb(lim, t)
        bn, bd = tb.numerator, tb.denominator
        Dt_ = lim_db(lim, t)
        n_above = sum(1 for v in vs if v * bd > bn * mx)
        k = min(Dt_, n_above)
        kept = [v for v, b in zip(vs, m) if b]
        disc = [v for v, b in zip(vs, m) if not b]
        if len(kept) > Dt_:
            out.append(("D_block", f"sector {t}: {len(kept)} values kept, D_block allows {Dt_}"))
        bad = [v for v in kept if not v * bd > bn * mx]
        if bad:
            out.append(("tol_block", f"sector {t}: kept value(s) {bad} not > tol_block*max = {tb}*{mx}"))
        if kept and disc and max(disc) > min(kept):
            out.append(("max-block", f"sector {t}: discarded value {max(disc)} exceeds kept value {min(kept)}"))
        Wt = sorted(vs, reverse=True)[:k]
        if Counter(kept) - Counter(Wt):
            out.append(("block-survivor", f"sector {t}: kept values {sorted(kept)} are not among the {k} block survivors {Wt}"))
        W += Wt
        disc_surv += list((Counter(Wt) - Counter(kept)).elements())
        kept_all += kept
    mxg = max((abs(w) for w in W), default=0)
    K = min(Dtot, sum(1 for w in W if w * td > tn * mxg))
    if len(kept_all) > Dtot:
        out.append(("D_total", f"{len(kept_all)} values kept, D_total = {Dtot}"))
    bad = [v for v in kept_all if not v * td > tn * mxg]
    if bad:
        out.append(("tol", f"kept value(s) {bad} not > tol*max = {Fraction(tn, td)}*{mxg}"))
    if kept_all and disc_surv and max(disc_surv) > min(kept_all):
        out.append(("max-global", f"block survivor {max(disc_surv)} was discarded although kept value {min(kept_all)} is smaller"))
    if len(kept_all) < K:
        n = sum(len(v) for v in vals)
        nonbinding = (Dtot >= n and all(lim_db(lim, t) >= len(vs) for t, vs in zip(charges, vals)) and K == n)
        out.append(("nonbinding" if nonbinding else "under-kept",
                    f"{len(kept_all)} values kept although the limits admit {K}" + (" (no limit binds)" if nonbinding else "")))
    return out


def mask_case_json(sid, charges, vals, shift, lim, style=None, tags=None):
    return {"kind": "mask", "sym": sid, "charges": [list(t) for t in charges], "vals": vals, "shift": shift, "lim": lim,
            "style": style, "tags": tags}


def eval_mask_case(ctx, case, collect=None):
    """real call + eager oracle for one exact spectrum; returns the real mask (or None)."""
    sid, charges, vals, shift, lim = case["sym"], [tuple(t) for t in case["charges"]], case["vals"], case["shift"], case["lim"]
    try:
        real, info, order = real_mask(sid, charges, vals, shift, lim)
    except Exception as e:
        ctx.fail("oracle", "c13:mask:exception", f"truncation_mask raised {type(e).__name__}: {e} on a valid spectrum", case=case, concrete=True)
        return None
    if order != charges:
        ctx.fail("correspondence", "c13:mask:sector-order", f"sector order of the tensor {order} differs from the generator's {charges}", case=case)
    if not all(info.values()):
        ctx.fail("oracle", "c13:mask:structure", f"mask tensor malformed / input modified: {info}", case=case, concrete=True)
    for key, msg in mask_oracle(charges, vals, lim, real):
        c = dict(case); c["real_mask"] = real
        ctx.fail("oracle", f"c13:mask:{key}", f"truncation_mask violates the property ({key}): {msg}; values={vals} (x2^-{shift}) limits={lim} mask={real}",
                 case=c, concrete=True)
    return real


def tie_free(vals):
    pos = [v for vs in vals for v in vs if v > 0]
    return len(set(pos)) == len(pos)


def run_masks(ctx, n_cases, deadline):
    rng = ctx.rng
    cases, reals = [], []
    for _ in range(n_cases):
        if time.time() > deadline:
            ctx.notes.append("mask loop stopped by wall-clock guard")
            break
        sid, charges, vals, shift, style = gen_spectrum(rng)
        lim, tags = gen_limits(rng, sid, charges, vals)
        case = mask_case_json(sid, charges, vals, shift, lim, style, tags)
        real = eval_mask_case(ctx, case)
        n = sum(len(v) for v in vals)
        ctx.case({k: case[k] for k in ("sym", "charges", "vals", "shift", "lim")}, nontrivial=(n >= 2))
        ctx.count(f"mask:sym:{sid}"); ctx.count(f"mask:style:{style}"); ctx.count(f"mask:sectors:{len(charges)}")
        for tg in tags:
            ctx.count(f"mask:{tg}")
        ctx.count("mask:Dt:" + ("inf" if lim["Dt"] is None else "0" if lim["Dt"] == 0 else "binding" if lim["Dt"] < n else "nonbinding"))
        if real is not None:
            k = sum(sum(m) for m in real)
            ctx.count("mask:kept:" + ("none" if k == 0 else "all" if k == n else "some"))
            cases.append(case); reals.append(real)
    # ---- correspondence with the Lean model (batched) ------------------------------------------
    if ctx.drv is None:
        return
    CH = 100
    for i in range(0, len(cases), CH):
        chunk = cases[i:i + CH]
        req = {"op": "trunc_batch", "cases": [{"S": [[c["charges"][j], c["vals"][j]] for j in range(len(c["vals"]))],
                                                 "tol": c["lim"]["tol"], "tolb": c["lim"]["tolb"], "Db": c["lim"]["Db"],
                                                 "Dt": c["lim"]["Dt"], "mask": r} for c, r in zip(chunk, reals[i:i + CH])]}
        ans = ctx.drv.call(req)
        if not ans.get("ok"):
            ctx.fail("correspondence", "c13:model-error", f"model driver error: {ans}")
            return
        for c, r, a in zip(chunk, reals[i:i + CH], ans["res"]):
            cc = dict(c); cc["real_mask"] = r; cc["model_mask"] = a["mask"]
            if not (a["model_valid"] and a["judge_model"] and a["values_ok"]):
                ctx.fail("correspondence", "c13:model-invalid", f"the model's own mask fails the Lean specification: {a}", case=cc)
            if tie_free(c["vals"]):
                ctx.count("corr:tie-free")
                if a["mask"] != r:
                    ctx.fail("correspondence", "c13:mask-differs", f"tie-free spectrum: real mask {r} != model mask {a['mask']}", case=cc)
            else:
                same = a["mask"] == r
                ctx.count("corr:ties:" + ("identical" if same else "tie-broken-differently"))
                kr = sorted(v for vs, m in zip(c["vals"], r) for v, b in zip(vs, m) if b)
                km = sorted(v for vs, m in zip(c["vals"], a["mask"]) for v, b in zip(vs, m) if b)
                if kr != km:
                    ctx.fail("correspondence", "c13:kept-multiset", f"kept multisets differ: real {kr} model {km}", case=cc)
            if not a.get("judge_real", False):
                ctx.fail("correspondence", "c13:lean-valid-on-real", f"Lean `Valid` rejects the real mask {r}", case=cc)
            ctx.count("corr:judged-real")


# ----------------------------------------------------------------------------------------------
# part B: factorizations with truncation
# ----------------------------------------------------------------------------------------------

def gen_leg(rng, sid, s, kmin=1, kmax=3):
    pool = charge_pool(sid)
    k = min(len(pool), rng.randint(kmin, kmax))
    ts = sorted(rng.sample(pool, k))
    return {"s": s, "t": [list(t) for t in ts], "D": [rng.randint(1, 4) for _ in ts]}


def make_tensor(rec):
    """deterministically rebuild the tensor of a factorization case."""
    import yastn
    cfg = _config(rec["sym"])
    legs = [yastn.Leg(cfg, s=l["s"], t=[tuple(t) for t in l["t"]], D=l["D"]) for l in rec["legs"]]
    g = np.random.default_rng(rec["seed"])
    if rec["kind"] == "eigh":
        half = legs
        alllegs = half + [l.conj() for l in half]
        c = yastn.ones(cfg, legs=alllegs, n=cfg.sym.zero())
        c._data[:] = _data(g, c._data.size, rec["intdata"])
        nh = len(half)
        ct = c.transpose(axes=tuple(range(nh, 2 * nh)) + tuple(range(nh))).conj()
        a = c + ct
        if rec.get("psd"):
            a = yastn.tensordot(c, c.conj(), axes=(tuple(range(nh, 2 * nh)), tuple(range(nh, 2 * nh))))
        return _meta_view(rec, a)
    a = yastn.ones(cfg, legs=legs, n=tuple(rec["n"]))
    a._data[:] = _data(g, a._data.size, rec["intdata"])
    return _meta_view(rec, a)


def _meta_view(rec, a):
    """rec['meta']: groups of native legs meta-fused into the logical legs that rec['axes'] / Uaxis / Vaxis refer to"""
    if rec.get("meta"):
        a = a.fuse_legs(axes=tuple(tuple(g_) if len(g_) > 1 else g_[0] for g_ in rec["meta"]), mode="meta")
    return a


def _data(g, size, intdata):
    if intdata:
        return g.integers(-4, 5, size=size).astype(np.float64)
    return g.uniform(-1, 1, size=size)


PARTIAL = ("lowrank", "block_arnoldi", "block_propack")   # block-wise partial-SVD policies available on the NumPy backend


def gen_fact_case(rng, kind):
    sid = rng.choice(["dense", "U1", "U1", "Z2", "Z3", "Z2xU1"])
    rec = {"kind": kind, "sym": sid, "seed": rng.randrange(2 ** 31), "intdata": rng.random() < 0.4}
    if kind == "svd":
        rec["policy"] = rng.choice(["fullrank"] * 5 + ["lowrank"] * 3 + ["block_arnoldi", "block_propack"])
        nd = rng.randint(2, 4)
        if rec["policy"] == "fullrank":
            rec["legs"] = [gen_leg(rng, sid, rng.choice((1, -1))) for _ in range(nd)]
        else:   # more charge sectors, so that per-sector dictionaries have something to tell apart
            rec["legs"] = [gen_leg(rng, sid, rng.choice((1, -1)), 2, 4) for _ in range(nd)]
        # sectors large enough for the iterative solvers behind the partial policies (scipy svds):
        # block_*: min(D)*0.1 > k ; lowrank: k < min(D)-1 and D0*D1 > 5000
        r = rng.random()
        if rec["policy"] != "fullrank" and r < 0.25:
            big = rec["policy"] == "lowrank" or r < 0.04
            rec["legs"] = [gen_leg(rng, sid, rng.choice((1, -1))) for _ in range(2)]
            for l in rec["legs"]:
                l["t"] = l["t"][:2]
                l["D"] = [rng.randint(71, 80) if big else rng.randint(11, 24) for _ in l["t"]]
            nd = 2
            rec["size"] = "big" if big else "medium"
        pool = charge_pool(sid)
        rec["n"] = list(rng.choice(pool)) if rng.random() < 0.6 else list(pool[0] if sid in ("dense",) else [0] * len(pool[0]))
        perm = list(range(nd)); rng.shuffle(perm)
        cut = rng.randint(1, nd - 1)
        rec["axes"] = [perm[:cut], perm[cut:]]
        rec["sU"] = rng.choice((1, -1)); rec["nU"] = rng.random() < 0.5
        rec["fix_signs"] = rng.random() < 0.2
        if rec["policy"] == "fullrank" and nd >= 3 and rng.random() < 0.25:
            # the operand is handed over with two native legs META-fused into one logical leg; axes and Uaxis/Vaxis count logical legs
            order = list(range(nd)); rng.shuffle(order)
            groups = [order[:2]] + [[x] for x in order[2:]]
            rng.shuffle(groups)
            rec["meta"] = groups
            nd = nd - 1
            perm = list(range(nd)); rng.shuffle(perm)
            cut = rng.randint(1, nd - 1)
            rec["axes"] = [perm[:cut], perm[cut:]]
        if rng.random() < (0.7 if rec.get("meta") else 0.3):   # position of the new leg in U and V
            rec["Uaxis"] = rng.randint(-(cut + 1), cut)
            rec["Vaxis"] = rng.randint(-(nd - cut + 1), nd - cut)
    else:
        nh = rng.randint(1, 2)
        rec["legs"] = [gen_leg(rng, sid, rng.choice((1, -1))) for _ in range(nh)]
        rec["axes"] = [list(range(nh)), list(range(nh, 2 * nh))]
        rec["sU"] = rng.choice((1, -1))
        rec["which"] = rng.choice(["LM", "LR"])
        rec["psd"] = rng.random() < 0.3
        if nh == 2 and rng.random() < 0.3:   # rows and columns META-fused alike: a logical matrix
            rec["meta"] = [[0, 1], [2, 3]]
            rec["axes"] = [[0], [1]]
            nh = 1
        if rng.random() < (0.7 if rec.get("meta") else 0.3):
            rec["Uaxis"] = rng.randint(-(nh + 1), nh)
    return rec


def gen_fact_limits(rng, full, nonbinding=False, sid=None, partial=False, wide=False):
    """float limits for a factorization given the full spectrum {t: weights}.

    partial=True (block-wise partial-SVD policy): the number of triples to solve for per sector must be given, either through
    D_block (int / per-sector dictionary) or through the separate argument k_block ("kb": int / dictionary over ALL sectors):
      * kb without D_block: the per-sector limit is kb;
      * kb together with D_block: kb >= D_block in every sector (kb is then no limit under either reading of the docstring).
    """
    n = sum(len(v) for v in full.values())
    foreign = [t for t in charge_pool(sid) if t not in full] if sid else []
    sizes = [len(v) for v in full.values()]

    def with_foreign(items, vals):
        if foreign and rng.random() < 0.4:
            items.append([list(rng.choice(foreign)), rng.choice(vals)])
        rng.shuffle(items)
        return {"dict": items}

    if nonbinding:
        lim = {"tol": [0, 1], "tolb": [0, 1], "Dt": rng.choice([None, n, n + 3])}
        r = rng.random()
        if partial and r < 0.5:      # per-sector dictionary exactly admitting (or exceeding) every sector
            lim["Db"] = with_foreign([[list(t), len(v) + rng.choice([0, 0, 1, 3])] for t, v in full.items()], [0, 1, 5])
        elif partial and r < 0.7:    # only k_block
            lim["Db"] = None
            lim["kb"] = max(sizes) + rng.choice([0, 2]) if r < 0.6 else \
                with_foreign([[list(t), len(v) + rng.choice([0, 1])] for t, v in full.items()], [0, 1, 5])
        elif partial:
            lim["Db"] = max(sizes) + rng.choice([0, 1])
        else:
            lim["Db"] = rng.choice([None, max(sizes)])
        return lim
    tols = [[0, 1], [0, 1], [1, 10 ** 12], [1, 100], [1, 10], [3, 10], [1, 2], [7, 10]]
    lim = {"tol": rng.choice(tols), "tolb": rng.choice(tols), "Dt": rng.choice([None, None, 0, 1, 2, 3, max(n // 2, 1), max(n - 1, 0), n])}
    if partial and rng.random() < 0.5:
        lim["tol"] = lim["tolb"] = [0, 1]
        lim["Dt"] = rng.choice([None, None, lim["Dt"]])
    dvals = [None, 0, 1, 2, 3] + ([max(sizes), max(sizes) + 2] if partial else [])
    if wide:    # wide sectors: few triples requested, which is when the library switches to the iterative solvers
        dvals = [None, 0, 1, 1, 1, 2, 2, 3, 5]
    r = rng.random()
    if r < (0.15 if partial else 0.35):
        lim["Db"] = None
    elif r < (0.4 if partial else 0.7):
        lim["Db"] = rng.choice([0, 1, 1, 2, 2, 3] if wide else [0, 1, 2, 3])
    else:
        keys = [t for t in full if rng.random() < (0.85 if partial else 0.7)]
        items = [[list(t), rng.choice(dvals)] for t in keys]
        lim["Db"] = with_foreign(items, dvals) if sid else {"dict": items}
        if partial and not lim["Db"]["dict"]:     # see assumptions: an empty dictionary is outside the partial policies' domain
            lim["Db"]["dict"].append([list(rng.choice(list(full))), rng.choice(dvals)])
    if partial and (lim["Db"] is None or rng.random() < 0.25):
        def atleast(t):
            d = lim_db(lim, t)
            return (len(full[t]) if d == INF else d) + rng.choice([0, 0, 1, 4])
        if lim["Db"] is None:
            lim["kb"] = rng.choice([0, 1, 2, 3, max(sizes)]) if rng.random() < 0.35 else \
                with_foreign([[list(t), rng.choice([0, 1, 2, 3, len(full[t]), len(full[t]) + 2])] for t in full], [0, 1, 5])
        elif rng.random() < 0.4:
            lim["kb"] = max(atleast(t) for t in full)
        else:
            lim["kb"] = with_foreign([[list(t), atleast(t)] for t in full], [0, 1, 5])
    return lim


def neg_charge(sid, t):
    """charge of the conjugate sector (independent of yastn.sym)."""
    t = tuple(t)
    if sid in ("dense", "Z2"):
        return t
    if sid == "Z3":
        return ((-t[0]) % 3,)
    if sid == "U1":
        return (-t[0],)
    if sid == "Z2xU1":
        return (t[0] % 2, -t[1])
    if sid == "U1xU1":
        return (-t[0], -t[1])
    raise ValueError(sid)


def stage_dict(lim):
    """what the partial-SVD stage receives as k_block: the explicit k_block if given, else D_block. None = no restriction."""
    kb = lim.get("kb", lim["Db"])
    if isinstance(kb, dict):
        return {tuple(t): (INF if x is None else x) for t, x in kb["dict"]}
    return INF if kb is None else kb


def effective_limits(lim, full, policy, lookup=None):
    """limits seen by the oracle: for a partial policy sector t is first cut to the number of triples solved for
    (k_block[t]; sectors absent from a k_block dictionary get the smallest entry - and are absent from D_block too whenever the
    dictionary is D_block itself), then D_block applies.  lookup(t): key used to read the dictionary (identity = documented)."""
    if policy == "fullrank":
        return lim
    kb = stage_dict(lim)
    lookup = lookup or (lambda t: t)
    items = []
    for t in full:
        k = kb.get(lookup(t), min(kb.values())) if isinstance(kb, dict) else kb
        d = min(k, lim_db(lim, t))
        items.append([list(t), None if d == INF else d])
    out = dict(lim)
    out["Db"] = {"dict": items}
    return out


def fact_oracle(full, kept, lim, eps=1e-9):
    """float evaluation (with margins) of limits + maximality. full/kept: {t: weights}. Returns ([(key,msg)], discarded-norm or None)."""
    out = []
    g = max((float(np.max(np.abs(v))) for v in full.values() if len(v)), default=0.0)
    atol = eps * max(g, 1e-300)
    tol = float(Fraction(*lim["tol"]))
    Dtot = INF if lim["Dt"] is None else lim["Dt"]
    for t in kept:
        if t not in full:
            return [("structure", f"kept sector {t} does not exist in the full spectrum")], None
    Wmin, Wmax, disc_surv, kept_all, disc2 = [], [], [], [], 0.0
    top_ok = True
    for t, f in full.items():
        f = np.sort(np.asarray(f, dtype=float))[::-1]
        k = np.sort(np.asarray(kept.get(t, []), dtype=float))[::-1]
        nt = len(k)
        if nt > len(f):
            return [("structure", f"sector {t}: more values kept ({nt}) than exist ({len(f)})")], None
        if nt and np.max(np.abs(k - f[:nt])) > atol:
            out.append(("max-block", f"sector {t}: kept weights {k.tolist()} are not the {nt} largest of {f.tolist()}"))
            top_ok = False
        Dt_ = lim_db(lim, t)
        if nt > Dt_:
            out.append(("D_block", f"sector {t}: {nt} values kept, D_block allows {Dt_}"))
        thr = float(lim_tolb(lim, t)) * (float(np.max(np.abs(f))) if len(f) else 0.0)
        if nt and k[-1] < thr - atol:
            out.append(("tol_block", f"sector {t}: kept weight {k[-1]} not > tol_block*max = {thr}"))
        kmin = int(min(Dt_, np.sum(f > thr + atol)))
        kmax = int(min(Dt_, np.sum(f > thr - atol)))
        Wmin += f[:kmin].tolist(); Wmax += f[:kmax].tolist()
        disc_surv += f[nt:kmin].tolist()
        kept_all += k.tolist()
        disc2 += float(np.sum(f[nt:] ** 2))
    mxa = max((abs(w) for w in Wmin), default=0.0)
    mxb = max((abs(w) for w in Wmax), default=0.0)
    ntot = len(kept_all)
    if ntot > Dtot:
        out.append(("D_total", f"{ntot} values kept, D_total = {Dtot}"))
    if abs(mxa - mxb) <= atol:
        thr = tol * mxa
        kmin_all = min(kept_all, default=INF)
        if kmin_all < thr - atol:
            out.append(("tol", f"kept weight {kmin_all} not > tol*max = {thr}"))
        if disc_surv and max(disc_surv) > kmin_all + atol:
            out.append(("max-global", f"block survivor {max(disc_surv)} discarded although kept weight {kmin_all} is smaller"))
        Klo = min(Dtot, sum(1 for w in Wmin if w > thr + atol))
        if ntot < Klo:
            out.append(("under-kept", f"{ntot} values kept although the limits admit at least {Klo}"))
    return out, (math.sqrt(disc2) if top_ok else None)


def eval_fact_case(ctx, rec, lim, label="binding"):
    """run one factorization with truncation on the real code and evaluate oracles."""
    import yastn
    case = dict(rec); case["lim"] = lim; case["label"] = label
    kw = lim_to_real(lim)
    a = make_tensor(rec)
    na = float(yastn.norm(a))
    axes = (tuple(rec["axes"][0]), tuple(rec["axes"][1]))
    scale = max(na, 1e-300)
    policy = rec.get("policy", "fullrank")
    Uaxis, Vaxis = rec.get("Uaxis", -1), rec.get("Vaxis", 0)
    try:
        if rec["kind"] == "svd":
            # reference: the complete spectrum from the default full-rank solver, whatever policy the case uses
            U0, S0, V0 = yastn.linalg.svd(a, axes=axes, sU=rec["sU"], nU=rec["nU"])
            ref = a.transpose(axes=axes[0] + axes[1])
            if float(yastn.norm(ref - U0 @ S0 @ V0)) > 1e-11 * scale:
                ctx.fail("contract", "c13:contract:svd", "full svd does not reconstruct the tensor to 1e-11", case=case)
            full = diag_blocks(S0)
            try:
                U, S, V = yastn.linalg.svd_with_truncation(a, axes=axes, sU=rec["sU"], nU=rec["nU"], policy=policy,
                                                           fix_signs=rec.get("fix_signs", False), Uaxis=Uaxis, Vaxis=Vaxis, **kw)
            except np.linalg.LinAlgError as e:
                if policy in PARTIAL and "did not converge" in str(e):
                    # scipy's iterative solver gave up (seen for PROPACK with yastn's maxiter=20*k): an honest error, no wrong result
                    ctx.count(f"svd:{policy}:solver-did-not-converge")
                    return
                raise
            U = U.moveaxis(source=Uaxis, destination=-1)
            V = V.moveaxis(source=Vaxis, destination=0)
            kept = diag_blocks(S)
            err = float(yastn.norm(ref - U @ S @ V)) if S.size > 0 else na
            shapes_ok = (U.ndim == len(axes[0]) + 1 and V.ndim == len(axes[1]) + 1
                         and U.get_legs(-1) == S.get_legs(0).conj() and V.get_legs(0) == S.get_legs(1).conj()
                         and S.get_legs(1).s == rec["sU"])
        else:
            which = rec["which"]
            S0, U0 = yastn.linalg.eigh(a, axes=axes, sU=rec["sU"], which=which)
            nh = len(axes[0])
            rec0 = yastn.tensordot(U0 @ S0, U0.conj(), axes=(nh, nh))
            if float(yastn.norm(a - rec0)) > 1e-11 * scale:
                ctx.fail("contract", "c13:contract:eigh", "full eigh does not reconstruct the tensor to 1e-11", case=case)
            wf = (lambda x: np.abs(x)) if which == "LM" else (lambda x: x)
            full = {t: wf(v) for t, v in diag_blocks(S0).items()}
            S, U = yastn.linalg.eigh_with_truncation(a, axes=axes, sU=rec["sU"], which=which, Uaxis=Uaxis, **kw)
            U = U.moveaxis(source=Uaxis, destination=-1)
            kept = {t: wf(v) for t, v in diag_blocks(S).items()}
            if S.size > 0:
                err = float(yastn.norm(a - yastn.tensordot(U @ S, U.conj(), axes=(nh, nh))))
            else:
                err = na
            shapes_ok = True
    except Exception as e:
        ctx.fail("oracle", f"c13:{rec['kind']}:exception", f"{rec['kind']}_with_truncation raised {type(e).__name__}: {e}", case=case, concrete=True)
        return
    kind = rec["kind"]
    if not shapes_ok or not S.isdiag or any(len(v) == 0 for v in kept.values()):
        ctx.fail("oracle", f"c13:{kind}:structure", "S is not diagonal, keeps an empty sector, or U/V do not connect to S", case=case, concrete=True)
    lim_eff = effective_limits(lim, full, policy)
    res, dn = fact_oracle(full, kept, lim_eff)
    n = sum(len(v) for v in full.values())
    nk = sum(len(v) for v in kept.values())
    if label == "nonbinding":
        g = max((float(np.max(np.abs(v))) for v in full.values()), default=0.0)
        strictly_pos = all(np.all(v > 1e-9 * g) for v in full.values()) and g > 0
        ctx.count(f"{kind}:nonbinding:" + ("hyp-holds" if strictly_pos else "hyp-fails(zero/negative values)"))
        if strictly_pos and (nk != n or err > 1e-10 * scale):
            res.append(("nonbinding", f"no limit binds but {n - nk} of {n} values were discarded (error {err!r})"))
    if res and kind == "svd" and policy in PARTIAL and isinstance(stage_dict(lim), dict):
        # Defect of the pinned commit, repaired in /repo (b589852): the partial-SVD stage read the k_block/D_block dictionary with the
        # raw row/column charge of the matrix block, i.e. with the NEGATED sector charge whenever sU differs from the signature
        # of the column group (nU) / equals that of the row group (not nU).  A failure that is reproduced exactly by that
        # reading of the dictionary is reported under its own stable key; anything else keeps the ordinary keys.
        s_row, s_col = rec["legs"][axes[0][0]]["s"], rec["legs"][axes[1][0]]["s"]
        negated = (rec["sU"] != s_col) if rec["nU"] else (rec["sU"] == s_row)
        if negated:
            res_neg, _ = fact_oracle(full, kept, effective_limits(lim, full, policy, lookup=lambda t: neg_charge(rec["sym"], t)))
            if not res_neg:
                res = [("lowrank-dict-negated-charge", "per-sector dictionary read with the negated sector charge by the partial-SVD stage: "
                        + "; ".join(m for _, m in res))]
    for key, msg in res:
        ctx.fail("oracle", f"c13:{kind}:{key}", f"{kind}_with_truncation violates the property ({key}): {msg}; limits={lim}", case=case, concrete=True)
    if dn is not None:
        dev = abs(err - dn)
        ctx.extra["max_error_identity_dev_rel"] = max(ctx.extra.get("max_error_identity_dev_rel", 0.0), dev / scale)
        if dev > 1e-10 * scale:
            ctx.fail("oracle", f"c13:{kind}:error-identity",
                     f"|a - U S V| = {err!r} but |S_discarded| = {dn!r} (|a| = {na!r}); limits={lim}", case=case, concrete=True)
    ctx.count(f"{kind}:kept:" + ("none" if nk == 0 else "all" if nk == n else "some"))
    ctx.count(f"{kind}:sym:{rec['sym']}")
    if "Uaxis" in rec:
        ctx.count(f"{kind}:Uaxis/Vaxis:non-default")
    if kind == "svd":
        ctx.count("svd:charge:" + ("zero" if not any(rec["n"]) else "nonzero"))
        ctx.count(f"svd:policy:{policy}")
        if rec.get("fix_signs"):
            ctx.count("svd:fix_signs")
        if policy in PARTIAL:
            sd = stage_dict(lim)
            tag = ("k_block:" if "kb" in lim else "D_block:") + ("dict" if isinstance(sd, dict) else "int")
            if isinstance(sd, dict):
                tag += ":distinct-values" if len({sd.get(t) for t in full}) > 1 else ":equal-values"
            ctx.count(f"svd:partial:{tag}")
            ctx.count(f"svd:partial:nU={rec['nU']},charge-{'nonzero' if any(rec['n']) else 'zero'}")
            ctx.count(f"svd:partial:size:{rec.get('size', 'small')}")
            # does any sector meet the library's criterion for the iterative solver?  (informative only)
            it = 0
            for t, v in full.items():
                k = min(sd.get(t, min(sd.values())) if isinstance(sd, dict) else sd, len(v))
                if rec.get("size") and 0 < k and ((policy != "lowrank" and len(v) * 0.1 > k) or (rec.get("size") == "big" and k < len(v) - 1)):
                    it += 1
            ctx.count("svd:partial:iterative-solver-eligible-sector:" + ("yes" if it else "no"))
    ctx.case(case, nontrivial=(n >= 2))
    return full


def run_facts(ctx, n_svd, n_eigh, deadline):
    import yastn
    rng = ctx.rng
    for kind, cnt in (("svd", n_svd), ("eigh", n_eigh)):
        done = 0
        tries = 0
        while done < cnt and tries < 20 * cnt:
            tries += 1
            if time.time() > deadline:
                ctx.notes.append(f"{kind} loop stopped by wall-clock guard after {done} cases")
                break
            rec = gen_fact_case(rng, kind)
            try:
                a = make_tensor(rec)
            except Exception:
                ctx.count(f"{kind}:gen-rejected"); continue
            if a.size == 0:
                ctx.count(f"{kind}:gen-empty"); continue
            axes = (tuple(rec["axes"][0]), tuple(rec["axes"][1]))
            if kind == "svd":
                S0 = yastn.linalg.svd(a, axes=axes, sU=rec["sU"], nU=rec["nU"], compute_uv=False)
            else:
                S0, _ = yastn.linalg.eigh(a, axes=axes, sU=rec["sU"], which=rec["which"])
            full = diag_blocks(S0)
            if not full:
                ctx.count(f"{kind}:gen-empty"); continue
            partial = rec.get("policy", "fullrank") in PARTIAL
            eval_fact_case(ctx, rec, gen_fact_limits(rng, full, sid=rec["sym"], partial=partial, wide="size" in rec), "binding")
            if done % 3 == 0:
                eval_fact_case(ctx, rec, gen_fact_limits(rng, full, nonbinding=True, sid=rec["sym"], partial=partial), "nonbinding")
            done += 1


# ----------------------------------------------------------------------------------------------

def run(ctx):
    ctx.rule = ("(A) exact spectra: 1-5 charge sectors (capped by the group order) of sizes 1-6 over dense/U1/Z2/Z3/Z2xU1/U1xU1, integer values "
                "k*2^-shift in the styles generic/degenerate/all-equal/zeros/zero-sector/power-of-two-max/geometric/signed/single-element; "
                "limits D_total in {inf,0,1,2,3,n/2,n-1,n,n+1} x D_block in {inf, const, per-sector dict incl. missing and foreign sectors} x dyadic "
                "tol, tol_block placed exactly on / 2^-12 beside / near a value*max ratio (also tol_block dictionaries); real truncation_mask vs Lean "
                "model (bit for bit if all positive values are distinct, kept multiset + Lean Valid on the real mask otherwise) and an exact integer "
                "oracle on the real mask. (B) svd_with_truncation / eigh_with_truncation (LM, LR) on random tensors of rank 2-4 (float or integer "
                "data, random bipartitions and leg order, non-zero charge, rectangular sectors): limits, maximality, error identity to 1e-10*|a|, "
                "non-binding limits keep everything. Non-trivial = at least 2 spectral values; distinct by full case.")
    ctx.assumptions += [
        "limits are in their documented domain: tol, tol_block >= 0; D_block, D_total natural numbers or inf (negative limits are outside the property)",
        "truncate_multiplets=False and mask_f=None (the multiplet heuristics are outside the property's statement)",
        "LAPACK svd/eigh contracts (a = U S V, isometries) are validated per case to 1e-11, not proved",
        "eigh_with_truncation checked for which in {LM, LR}; for SR/SM the code negates the weights so every tol >= 0 discards everything",
        "partial-SVD policies (lowrank, block_arnoldi, block_propack): a per-sector limit is always supplied (documented requirement); a "
        "D_block dictionary is non-empty (an empty one makes svd() call min() of an empty sequence); an explicit k_block is either the only "
        "per-sector limit (D_block left at inf) or >= D_block in every sector and, as a dictionary, names every sector (the default for "
        "sectors absent from k_block is an open TODO in the source); policy 'krylov' (marked WIP/BUG in the source), 'randomized' (torch "
        "only) and eigh_with_truncation(policy='block_lanczos') (documented as fullrank only; it raises) are not exercised",
        "a LinAlgError 'did not converge' raised by scipy's iterative solver under a partial policy is an honest failure, counted, not a violation",
    ]
    import yastn
    ctx.extra["yastn_path"] = yastn.__file__
    t0 = time.time()
    if ctx.quick:
        n_masks, n_svd, n_eigh, budget = 2500, 400, 80, 55
    else:
        n_masks, n_svd, n_eigh, budget = 20000, 3000, 500, 600
    run_masks(ctx, n_masks, t0 + budget * 0.6)
    run_facts(ctx, n_svd, n_eigh, t0 + budget)
    fixed_cases(ctx)


def fixed_cases(ctx):
    """boundary cases named in the property text, always run."""
    fixed = [
        # default arguments discard exact zeros only (DESIGN §7): S=[2,1,0]
        mask_case_json("dense", [()], [[2, 1, 0]], 0, {"tol": [0, 1], "tolb": [0, 1], "Db": None, "Dt": None}),
        # D_block = 0 for one sector through a dictionary, other sector missing from the dictionary
        mask_case_json("U1", [(-1,), (0,), (1,)], [[4, 2], [8, 3, 1], [5]], 1, {"tol": [0, 1], "tolb": [0, 1], "Db": {"dict": [[[0], 0], [[1], 1]]}, "Dt": None}),
        # tol exactly excluding a value: 2 = (1/4)*8 is not > threshold
        mask_case_json("Z2", [(0,), (1,)], [[8, 2], [3, 2]], 2, {"tol": [1, 4], "tolb": [0, 1], "Db": None, "Dt": None}),
        # all values equal, D_total cuts through the ties
        mask_case_json("Z3", [(0,), (1,), (2,)], [[8, 8], [8], [8, 8, 8]], 3, {"tol": [0, 1], "tolb": [0, 1], "Db": 2, "Dt": 3}),
        # block stage changes the global maximum: sector with the largest value has D_block 0
        mask_case_json("U1", [(0,), (1,)], [[64, 32], [8, 5, 4]], 0, {"tol": [1, 2], "tolb": [0, 1], "Db": {"dict": [[[0], 0], [[1], 3]]}, "Dt": None}),
    ]
    cases, reals = [], []
    for c in fixed:
        r = eval_mask_case(ctx, c)
        ctx.case({k: c[k] for k in ("sym", "charges", "vals", "shift", "lim")})
        ctx.count("mask:fixed")
        if r is not None:
            cases.append(c); reals.append(r)
    expected = [[[True, True, False]], [[False, False], [False, False, False], [True]], [[True, False], [True, False]], None,
                [[False, False], [True, True, False]]]
    for c, r, e in zip(cases, reals, expected):
        if e is not None and r != e:
            ctx.fail("oracle", "c13:mask:fixed", f"boundary case {c['vals']} {c['lim']}: mask {r}, expected {e}", case=c, concrete=True)


def search(ctx, broken, budget_s):
    """fresh random cases evaluated by the eager oracles only (real code), until something concrete shows up."""
    t0 = time.time()
    n = 0
    while time.time() - t0 < budget_s and not any(f.concrete for f in ctx.findings):
        run_masks(ctx, 200, t0 + budget_s)
        if time.time() - t0 < budget_s * 0.7:
            run_facts(ctx, 30, 10, t0 + budget_s)
        n += 1
    ctx.notes.append(f"failing-input search: {n} extra rounds of exact-spectrum and factorization oracles on the real code")


def replay(ctx, obj):
    f = obj.get("finding") or {}
    case = f.get("case") or obj.get("case")
    if not case:
        return run(ctx)
    ctx.rule = "replay of one stored case"
    if case.get("kind") == "mask":
        real = eval_mask_case(ctx, case)
        ctx.case(case)
        if "c13:mask:fixed" == f.get("key"):
            fixed_cases(ctx)
        print(f"replay mask: values={case['vals']} x2^-{case['shift']} limits={case['lim']} -> real mask {real}")
    else:
        lim = case["lim"]
        rec = {k: v for k, v in case.items() if k not in ("lim", "label")}
        eval_fact_case(ctx, rec, lim, case.get("label", "binding"))
        print(f"replay {case.get('kind')}: findings={[x.key for x in ctx.findings]}")
