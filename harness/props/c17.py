"""C17 — Serialisation round-trips every object exactly.

Tie to the source:
 (a) eager oracles on the REAL code: objects from a structured generator (tensors in seven symmetries that are
     diagonal / hard-fused (nested) / meta-fused / lazily transposed / empty / complex / with missing blocks and non-zero
     charge; MPS, MPO, MpoPBC with and without central block and non-unit factor; PEPS on every lattice class;
     Peps2Layers; DoublePepsTensor with op/swaps; EnvCTM / EnvBP / EnvBoundaryMPS) are sent through
     to_dict(level 0,1,2) -> {identity, split+combine, numpy.save/load, HDF5} -> from_dict and the restored object
     is compared with the original (legs incl. fusion history, n, dtype, dense values, trans/mfs/hfs, struct/slices,
     result of a follow-up tensordot with a fixed partner).  All data are small integers stored in floats, so every
     comparison (also of contractions) is exact.
 (b) to_dict(meta=...) vectors against an independent NumPy reference (blocks placed at meta's slices), linearity,
     norm, zero fill, rejections.
 (c) correspondence with the Lean model (YModel/Serial.lean) whose theorems are in YProofs/Props/C17.lean:
     split/combine on the JSON skeleton of real dictionaries (and on synthetic nested dictionaries incl. malformed
     ones), embed/unembed on the block layout of real tensors, field-level structure of Tensor.to_dict.
"""
import itertools
import os
import shutil
import tempfile
import time
import warnings

import numpy as np

LEAN_TARGETS = ["YProofs.Props.C17"]
LEVEL = "proof"
TRANSLATORS = []
DRIVER = "drv_c17"

K_D6 = "c17:split-mps-central-block"
K_D2 = "c17:triangular-to_dict"
K_Z2U1 = "c17:z2xu1-from_dict-no-config"
K_H5EMPTY = "c17:hdf5-empty-tensor"
K_LEGEMPTY = "c17:legacy-dict-empty-tensor"
K_EMBLAZY = "c17:meta-embed-lazy-hardfused"

SYMS = ["dense", "Z2", "Z3", "U1", "Z2xU1", "U1xU1xZ2", "U1xU1"]
MODULI = {"dense": [], "Z2": [2], "Z3": [3], "U1": [0], "U1xU1": [0, 0], "Z2xU1": [2, 0], "U1xU1xZ2": [0, 0, 2]}


def Y():
    import yastn
    return yastn


# ------------------------------------------------------------------------------------------------
# generator of tensors
# ------------------------------------------------------------------------------------------------

def make_cfg(sid, fermionic=False, **kw):
    yastn = Y()
    name = "sym_none" if sid == "dense" else "sym_" + sid
    return yastn.make_config(sym=getattr(yastn.sym, name), fermionic=fermionic, **kw)


def all_charges(sid, B=1):
    ms = MODULI[sid]
    comps = [list(range(m)) if m else list(range(-B, B + 1)) for m in ms]
    return [tuple(c) for c in itertools.product(*comps)]


def rand_leg(rng, cfg, sid, s=None, maxsec=3, maxD=3):
    yastn = Y()
    s = s if s is not None else rng.choice((1, -1))
    if sid == "dense":
        return yastn.Leg(cfg, s=s, D=(rng.randint(1, maxD),))
    pool = all_charges(sid, B=2 if len(MODULI[sid]) == 1 else 1)
    k = rng.randint(1, min(maxsec, len(pool)))
    ts = sorted(rng.sample(pool, k))
    return yastn.Leg(cfg, s=s, t=tuple(ts), D=tuple(rng.randint(1, maxD) for _ in ts))


def int_data(rng, size, cplx):
    """non-zero small integers stored in floats (all later arithmetic is exact)"""
    vals = (-5, -4, -3, -2, -1, 1, 2, 3, 4, 5)
    re = np.array([rng.choice(vals) for _ in range(size)], dtype=np.float64)
    if not cplx:
        return re
    im = np.array([rng.choice(vals) for _ in range(size)], dtype=np.float64)
    return re + 1j * im


def fill(a, rng, cplx=None):
    """replace the data of a freshly created tensor by integer-valued data"""
    if cplx is None:
        cplx = a.is_complex()
    a._data = int_data(rng, a.size, cplx)
    return a


def base_tensor(rng, cfg, sid, legs, n, cplx, keep=1.0):
    """tensor with integer data on a random subset (probability keep) of the blocks allowed by legs and n"""
    yastn = Y()
    dt = "complex128" if cplx else "float64"
    full = yastn.ones(cfg, legs=legs, n=n, dtype=dt)
    if keep >= 1.0 or len(full.struct.t) == 0:
        return fill(full, rng, cplx), len(full.struct.t), len(full.struct.t)
    a = yastn.Tensor(cfg, s=full.struct.s, n=full.struct.n, dtype=dt)
    kept = 0
    forced = rng.randrange(len(full.struct.t)) if rng.random() < 0.9 else -1
    for i, (t, D) in enumerate(zip(full.struct.t, full.struct.D)):
        if rng.random() < keep or i == forced:
            a.set_block(ts=t, Ds=D, val="ones")
            kept += 1
    return fill(a, rng, cplx), kept, len(full.struct.t)


def pick_charge(rng, cfg, legs):
    """a total charge for which the legs admit at least one block (non-zero in about half of the cases)"""
    if cfg.sym.NSYM == 0 or not legs:
        return None
    combos = list(itertools.product(*[range(len(l.t)) for l in legs]))
    if len(combos) > 400:
        combos = rng.sample(combos, 400)
    ts = np.array([[legs[i].t[j] for i, j in enumerate(c)] for c in combos], dtype=np.int64).reshape(len(combos), len(legs), cfg.sym.NSYM)
    ss = np.array([l.s for l in legs], dtype=np.int64)
    ns = sorted({tuple(x) for x in np.asarray(cfg.sym.fuse(ts, ss, 1)).reshape(len(combos), cfg.sym.NSYM).tolist()})
    nz = [x for x in ns if any(x)]
    if rng.random() < 0.08:
        return rng.choice(all_charges(cfg.sym.SYM_ID, 1))   # possibly no block at all
    if nz and rng.random() < 0.5:
        return rng.choice(nz)
    return rng.choice(ns)


def rand_groups(rng, ndim):
    """random grouping of a random permutation of the axes (at least one group with >= 2 axes if ndim >= 2)"""
    perm = list(range(ndim))
    rng.shuffle(perm)
    groups, i = [], 0
    while i < ndim:
        k = rng.choice((1, 1, 2, 2, 3))
        g = perm[i:i + k]
        groups.append(tuple(g) if len(g) > 1 else g[0])
        i += k
    if ndim >= 2 and all(not isinstance(g, tuple) for g in groups):
        groups = [tuple(perm[:2])] + perm[2:]
    return tuple(groups)


def features(a):
    f = []
    if a.isdiag:
        f.append("diag")
    depth = max([max((len(hf.tree) > 1) + sum(1 for o in hf.op if o == "p") // 2, 0) for hf in a.hfs], default=0)
    if any(len(hf.tree) > 1 for hf in a.hfs):
        f.append("hard")
    if any(sum(1 for x in hf.tree if x > 1) > 1 for hf in a.hfs):
        f.append("hard-nested")
    if any(mf != (1,) for mf in a.mfs):
        f.append("meta")
    if a.trans != tuple(range(a.ndim_n)):
        f.append("lazy")
    if a.size == 0:
        f.append("empty")
    if a.is_complex():
        f.append("complex")
    if any(x != 0 for x in a.struct.n):
        f.append("charged")
    del depth
    return f


def gen_tensor(rng, sid=None, want=None):
    """returns (tensor, recipe-json).  `want` biases towards a feature."""
    yastn = Y()
    sid = sid or rng.choice(SYMS)
    ferm = rng.random() < 0.25 and sid != "dense"
    cfg = make_cfg(sid, fermionic=ferm)
    cplx = (want == "complex") or rng.random() < 0.25
    recipe = {"sym": sid, "fermionic": ferm, "complex": cplx, "ops": []}
    if want == "diag" or (want is None and rng.random() < 0.1):
        leg = rand_leg(rng, cfg, sid)
        a = yastn.ones(cfg, isdiag=True, legs=leg, dtype="complex128" if cplx else "float64")
        a = fill(a, rng, cplx)
        recipe["kind"] = "diag"
        ops = rng.choice(([], ["transpose"], ["conj"], ["transpose", "conj"]))
    elif want == "empty" or (want is None and rng.random() < 0.06):
        nd = rng.randint(0 if sid == "dense" else 1, 4)
        s = tuple(rng.choice((1, -1)) for _ in range(nd))
        a = yastn.Tensor(cfg, s=s, dtype="complex128" if cplx else "float64")
        recipe["kind"] = "empty"
        ops = rng.choice(([], ["transpose"], ["meta"]))
        if nd < 2:
            ops = []
    else:
        nd = rng.randint(1, 5) if sid != "dense" else rng.randint(0, 4)
        legs = [rand_leg(rng, cfg, sid, maxsec=3 if nd <= 3 else 2, maxD=3 if nd <= 3 else 2) for _ in range(nd)]
        n = pick_charge(rng, cfg, legs)
        keep = rng.choice((1.0, 1.0, 0.6, 0.3)) if want != "missing" else 0.5
        a, kept, tot = base_tensor(rng, cfg, sid, legs, n, cplx, keep)
        recipe.update({"kind": "plain", "ndim": nd, "blocks": [kept, tot]})
        nops = rng.randint(0, 3)
        ops = [rng.choice(("hard", "meta", "transpose", "conj", "hard", "transpose")) for _ in range(nops)]
        if want in ("hard", "meta", "transpose"):
            ops.append(want)
        if want == "nested":
            ops = ["hard", "hard", "meta"] + ops
        if want == "lazy":
            ops.append("transpose")
    for op in ops:
        if op in ("hard", "meta") and a.ndim >= 2 and not a.isdiag:
            g = rand_groups(rng, a.ndim)
            a = a.fuse_legs(axes=g, mode=op)
            recipe["ops"].append([op, repr(g)])
        elif op == "transpose" and a.ndim >= 2:
            p = list(range(a.ndim))
            while p == list(range(a.ndim)):
                rng.shuffle(p)
            a = a.transpose(tuple(p))
            recipe["ops"].append(["transpose", p])
        elif op == "conj":
            a = a.conj()
            recipe["ops"].append(["conj"])
    return a, recipe


# ------------------------------------------------------------------------------------------------
# observables / comparison
# ------------------------------------------------------------------------------------------------

def partner_of(a):
    """fixed partner for the follow-up contraction: conj of `a` with a deterministic integer pattern as data"""
    p = a.conj()
    size = p.size
    pat = (np.arange(size) % 7 - 3).astype(np.float64)
    pat[pat == 0] = 2.0
    if a.is_complex():
        pat = pat + 1j * ((np.arange(size) % 5) - 2)
    p._data = pat
    return p


def follow_up(x, partner):
    """contract all but the last leg with the fixed partner (all legs if ndim == 1); returns (legs, dense)"""
    yastn = Y()
    if x.ndim == 0:
        return (), x.to_numpy()
    if x.isdiag:
        r = yastn.tensordot(x, partner, axes=(0, 0))
    else:
        k = max(1, x.ndim - 1)
        r = yastn.tensordot(x, partner, axes=(tuple(range(k)), tuple(range(k))))
    return r.get_legs(), r.to_numpy()


def tensor_diffs(a, b, strict=True):
    """list of observable differences between original `a` and restored `b` (empty = identical)"""
    yastn = Y()
    out = []
    if type(b) is not type(a):
        return [f"type {type(b).__name__} != {type(a).__name__}"]
    if b.config.sym.SYM_ID != a.config.sym.SYM_ID or b.config.fermionic != a.config.fermionic:
        out.append("config sym/fermionic")
    if b.config.backend.BACKEND_ID != a.config.backend.BACKEND_ID:
        out.append("config backend")
    if b.ndim != a.ndim or b.ndim_n != a.ndim_n:
        return out + ["ndim"]
    if b.isdiag != a.isdiag:
        out.append("isdiag")
    if b.n != a.n:
        out.append(f"n {b.n} != {a.n}")
    if b.s != a.s or b.s_n != a.s_n:
        out.append("signature")
    if b.get_dtype() != a.get_dtype():
        out.append(f"dtype {b.get_dtype()} != {a.get_dtype()}")
    try:
        if a.ndim > 0 and (b.get_legs() != a.get_legs() or b.get_legs(native=True) != a.get_legs(native=True)):
            out.append("legs (incl. fusion history)")
    except Exception as e:  # restored object unusable
        out.append(f"get_legs raised {type(e).__name__}: {e}")
        return out
    try:
        na, nb = a.to_numpy(), b.to_numpy()
        if na.shape != nb.shape or na.dtype != nb.dtype or not np.array_equal(na, nb):
            out.append("dense values")
    except Exception as e:
        out.append(f"to_numpy raised {type(e).__name__}: {e}")
        return out
    if b.mfs != a.mfs:
        out.append("mfs")
    if strict:
        if b.trans != a.trans:
            out.append(f"trans {b.trans} != {a.trans}")
        if b.hfs != a.hfs:
            out.append("hfs")
        if b.struct != a.struct:
            out.append("struct")
        if tuple(b.slices) != tuple(a.slices):
            out.append("slices")
        if not np.array_equal(np.asarray(b.data), np.asarray(a.data)):
            out.append("data vector")
    if out:
        return out
    try:
        b.is_consistent()
    except Exception as e:
        out.append(f"is_consistent raised {type(e).__name__}: {e}")
        return out
    try:
        p = partner_of(a)
        la, ra = follow_up(a, p)
        lb, rb = follow_up(b, p)
        if la != lb or ra.shape != rb.shape or not np.array_equal(ra, rb):
            out.append("follow-up tensordot with fixed partner")
        if a.ndim > 0 and any(l.is_fused() for l in a.get_legs()):
            ax = [i for i, l in enumerate(a.get_legs()) if l.is_fused()]
            ua, ub = a.unfuse_legs(axes=ax), b.unfuse_legs(axes=ax)
            if ua.get_legs() != ub.get_legs() or not np.array_equal(ua.to_numpy(), ub.to_numpy()):
                out.append("follow-up unfuse_legs")
    except Exception as e:
        out.append(f"follow-up raised {type(e).__name__}: {e}")
    return out


def light_diffs(a, b):
    """legs, charge, dtype and dense values only (used where the stored layout legitimately differs: the export consumed
    the lazy transpose)"""
    out = []
    if a.ndim != b.ndim or (a.ndim > 0 and b.get_legs() != a.get_legs()):
        out.append("legs (incl. fusion history) vs the lazily transposed original")
    elif b.n != a.n or b.get_dtype() != a.get_dtype() or not np.array_equal(a.to_numpy(), b.to_numpy()):
        out.append("n/dtype/dense values vs the lazily transposed original")
    return out


PLAIN = (dict, list, tuple, int, float, complex, str, bool, type(None))


def not_plain(x, path="d"):
    """paths of entries that are not basic python containers/scalars or numpy arrays/scalars"""
    if type(x) is dict:
        out = []
        for k, v in x.items():
            out += not_plain(k, path + ".key") + not_plain(v, f"{path}[{k!r}]")
        return out
    if type(x) in (list, tuple):
        out = []
        for i, v in enumerate(x):
            out += not_plain(v, f"{path}[{i}]")
        return out
    if type(x) in PLAIN or isinstance(x, (np.ndarray, np.generic)):
        return []
    return [f"{path}:{type(x).__name__}"]


# ------------------------------------------------------------------------------------------------
# transport paths
# ------------------------------------------------------------------------------------------------

class Tmp:
    def __init__(self):
        self.dir = tempfile.mkdtemp(prefix="c17_")
        self.n = 0

    def path(self, ext):
        self.n += 1
        return os.path.join(self.dir, f"f{self.n}.{ext}")

    def close(self):
        shutil.rmtree(self.dir, ignore_errors=True)


def via_split(d):
    yastn = Y()
    data, meta = yastn.split_data_and_meta(d)
    return yastn.combine_data_and_meta(data, meta)


def via_npsave(d, tmp):
    p = tmp.path("npy")
    np.save(p, d, allow_pickle=True)
    out = np.load(p, allow_pickle=True).item()
    os.remove(p)
    return out


def paths_for(level):
    return ["identity", "split"] + (["npsave", "split+npsave"] if level >= 1 else [])


def transport(d, path, tmp):
    if path == "identity":
        return d
    if path == "split":
        return via_split(d)
    if path == "npsave":
        return via_npsave(d, tmp)
    if path == "split+npsave":
        yastn = Y()
        data, meta = yastn.split_data_and_meta(d)
        data2 = via_npsave({"x": list(data)}, tmp)["x"]
        meta2 = via_npsave(meta, tmp)
        return yastn.combine_data_and_meta(tuple(data2), meta2)
    raise ValueError(path)


# ------------------------------------------------------------------------------------------------
# round trips of single tensors
# ------------------------------------------------------------------------------------------------

def _exc(e):
    return f"{type(e).__name__}: {str(e)[:200]}"


def tensor_roundtrips(ctx, a, case, tmp, levels=(0, 1, 2)):
    """all dictionary paths for one tensor; reports oracle failures; returns number of comparisons"""
    yastn = Y()
    sid = a.config.sym.SYM_ID
    ncmp = 0
    for level in levels:
        try:
            d0 = a.to_dict(level=level)
        except Exception as e:
            ctx.fail("oracle", "c17:tensor-to_dict-raises", f"Tensor.to_dict(level={level}) raised {_exc(e)}", case=case, concrete=True)
            continue
        if d0.get("level") != level or d0.get("type") != "Tensor":
            ctx.fail("oracle", "c17:tensor-dict-header", f"to_dict(level={level}) header {d0.get('type')},{d0.get('level')}", case=case, concrete=True)
        if level >= 1:
            bad = not_plain({k: v for k, v in d0.items() if k != "data"})
            if bad:
                ctx.fail("oracle", "c17:level-plain", f"to_dict(level={level}) keeps non-basic python objects at {bad[:3]}", case=case, concrete=True)
        if level >= 2 and not isinstance(d0["data"], np.ndarray):
            ctx.fail("oracle", "c17:level-plain", "to_dict(level=2) data is not a numpy array", case=case, concrete=True)
        for path in paths_for(level):
            for use_cfg in (False, True):
                if use_cfg and path not in ("identity", "npsave"):
                    continue
                key = f"c17:tensor-roundtrip:{path}"
                try:
                    d = transport(a.to_dict(level=level), path, tmp)
                    cfg = a.config if use_cfg else None
                    b = yastn.from_dict(d, config=cfg) if (level + len(path)) % 2 else yastn.Tensor.from_dict(d, config=cfg)
                except Exception as e:
                    if sid == "Z2xU1" and level >= 1 and not use_cfg and "sym encoded as string" in str(e):
                        ctx.count("known:z2xu1-no-config")
                        ctx.fail("oracle", K_Z2U1, f"from_dict(to_dict(level={level})) of a Z2xU1 tensor without config raised {_exc(e)}",
                                 case=case, concrete=True)
                        continue
                    ctx.fail("oracle", key, f"level={level} path={path} config={'given' if use_cfg else 'none'} raised {_exc(e)}",
                             case=dict(case, level=level, path=path), concrete=True)
                    continue
                ncmp += 1
                diffs = tensor_diffs(a, b, strict=True)
                if diffs:
                    ctx.fail("oracle", key, f"level={level} path={path} config={'given' if use_cfg else 'none'}: restored tensor differs in {diffs}",
                             case=dict(case, level=level, path=path), concrete=True)
        # dict_ver = 1 generation: no 'trans' key, identity permutation implied
        try:
            ac = a.consume_transpose()
            d = ac.to_dict(level=level)
            d.pop("trans")
            d["dict_ver"] = 1
            d = transport(d, "npsave" if level >= 1 else "identity", tmp)
            b = yastn.Tensor.from_dict(d, config=a.config if sid == "Z2xU1" else None)
            diffs = tensor_diffs(ac, b, strict=True) or light_diffs(a, b)
            ncmp += 1
            if diffs:
                ctx.fail("oracle", "c17:tensor-roundtrip:dict_ver1", f"level={level}: dict_ver=1 dictionary restores a tensor differing in {diffs}",
                         case=dict(case, level=level), concrete=True)
        except Exception as e:
            ctx.fail("oracle", "c17:tensor-roundtrip:dict_ver1", f"level={level}: dict_ver=1 dictionary raised {_exc(e)}", case=dict(case, level=level), concrete=True)
    return ncmp


def tensor_legacy_and_hdf5(ctx, a, case, tmp):
    yastn = Y()
    import h5py
    ncmp = 0
    ac = a.consume_transpose()
    # legacy save_to_dict format (no dict_ver; config has to be supplied)
    try:
        with warnings.catch_warnings():
            warnings.simplefilter("ignore")
            d = a.save_to_dict()
        d = via_npsave(d, tmp)
        b = yastn.load_from_dict(config=a.config, d=d) if a.size % 2 else yastn.Tensor.from_dict(d, a.config)
        diffs = tensor_diffs(ac, b, strict=False) or light_diffs(a, b)
        if not diffs and (b.hfs != ac.hfs or b.struct != ac.struct):
            diffs = ["hfs/struct vs consume_transpose()"]
        ncmp += 1
        if diffs:
            ctx.fail("oracle", "c17:tensor-roundtrip:legacy", f"save_to_dict/load_from_dict restores a tensor differing in {diffs}", case=case, concrete=True)
    except Exception as e:
        if len(a.struct.t) == 0 and not a.isdiag and type(e).__name__ == "AxisError":
            ctx.count("known:legacy-empty")
            ctx.fail("oracle", K_LEGEMPTY, f"Tensor.from_dict of a legacy (save_to_dict) dictionary of a tensor without blocks raised {_exc(e)}", case=case, concrete=True)
        else:
            ctx.fail("oracle", "c17:tensor-roundtrip:legacy", f"save_to_dict/load_from_dict raised {_exc(e)}", case=case, concrete=True)
    # HDF5
    p = tmp.path("h5")
    try:
        with h5py.File(p, "w") as f:
            a.save_to_hdf5(f, "./x/")
        with h5py.File(p, "r") as f:
            b = yastn.load_from_hdf5(a.config, f, "./x/")
        diffs = tensor_diffs(ac, b, strict=False) or light_diffs(a, b)
        if not diffs and (b.hfs != ac.hfs or b.struct != ac.struct or b.trans != tuple(range(a.ndim_n))):
            diffs = ["hfs/struct vs consume_transpose()"]
        ncmp += 1
        if diffs:
            ctx.fail("oracle", "c17:tensor-roundtrip:hdf5", f"save_to_hdf5/load_from_hdf5 restores a tensor differing in {diffs}", case=case, concrete=True)
    except Exception as e:
        if len(a.struct.t) == 0 and not a.isdiag and type(e).__name__ == "AxisError":
            ctx.count("known:hdf5-empty")
            ctx.fail("oracle", K_H5EMPTY, f"load_from_hdf5 of a tensor without blocks raised {_exc(e)}", case=case, concrete=True)
        else:
            ctx.fail("oracle", "c17:tensor-roundtrip:hdf5", f"save_to_hdf5/load_from_hdf5 raised {_exc(e)}", case=case, concrete=True)
    finally:
        if os.path.exists(p):
            os.remove(p)
    return ncmp


# ------------------------------------------------------------------------------------------------
# MPS / MPO
# ------------------------------------------------------------------------------------------------

MPS_SYMS = ["dense", "Z2", "U1", "Z3", "U1xU1", "Z2xU1"]


def gen_mps(rng, want_central=None):
    """integer-valued MPS / MPO / MpoPBC, optionally with a central block, non-unit factor, lazily transposed site"""
    yastn = Y()
    import yastn.tn.mps as mps
    sid = rng.choice(MPS_SYMS)
    cfg = make_cfg(sid)
    N = rng.randint(2, 4)
    nr_phys = rng.choice((1, 1, 2))
    cplx = rng.random() < 0.3
    kind = "mps" if nr_phys == 1 else rng.choice(("mpo", "mpo", "mpopbc"))
    psi = mps.MpoPBC(N=N) if kind == "mpopbc" else mps.MpsMpoOBC(N=N, nr_phys=nr_phys)
    zero = cfg.sym.zero()
    pool = all_charges(sid, 1)

    def vleg(trivial):
        if trivial:
            return yastn.Leg(cfg, s=1, t=(zero,) if cfg.sym.NSYM else (), D=(1,))
        return rand_leg(rng, cfg, sid, s=1, maxsec=2, maxD=2)
    vl = vleg(kind != "mpopbc")
    first = vl
    dt = "complex128" if cplx else "float64"
    wide = all_charges(sid, 3)
    for n in range(N):
        t = None
        for _ in range(30):
            lp = rand_leg(rng, cfg, sid, s=1, maxsec=2, maxD=2)
            if n < N - 1:
                cands = [vleg(False)]
            elif kind == "mpopbc":
                cands = [first]
            else:   # last virtual leg: dimension one, a charge for which the site tensor has a block
                cands = [yastn.Leg(cfg, s=1, t=(c,), D=(1,)) for c in rng.sample(wide, len(wide))] if wide else [vleg(True)]
            for vr in cands:
                legs = [vl.conj(), lp, vr] + ([lp.conj()] if nr_phys == 2 else [])
                t = yastn.ones(cfg, legs=legs, dtype=dt)
                if t.size > 0:
                    break
            if t.size > 0:
                break
        psi.A[n] = fill(t, rng, cplx)
        vl = t.get_legs(axes=2) if (t.size > 0 and n < N - 1) else vr   # only sectors that actually occur
    recipe = {"sym": sid, "N": N, "kind": kind, "complex": cplx}
    if rng.random() < 0.4:       # a site tensor stored with a pending (lazy) transpose
        n = rng.randrange(N)
        nd = psi.A[n].ndim
        rev = tuple(range(nd))[::-1]
        psi.A[n] = psi.A[n].transpose(rev).consume_transpose().transpose(rev)
        recipe["lazy_site"] = n
    central = want_central if want_central is not None else rng.random() < 0.5
    if central and kind != "mpopbc":
        n = rng.randint(-1, N - 1)
        leg = psi.A[n].get_legs(axes=2) if n >= 0 else psi.A[0].get_legs(axes=0).conj()
        C = yastn.ones(cfg, legs=[leg.conj(), leg], dtype="complex128" if cplx else "float64")
        psi.pC = (n, n + 1)
        psi.A[psi.pC] = fill(C, rng, cplx)
        recipe["pC"] = [n, n + 1]
    psi.factor = rng.choice((1, 1.0, 0.5, -2.0, 3, 0.25j if cplx else 4.0, 0, 0.0))   # 0: the zero state (what 0 * psi holds)
    recipe["factor"] = repr(psi.factor)
    return psi, recipe


def mps_dense(psi):
    """follow-up on the MPS level: absorb the central block, contract to one tensor, include the factor"""
    if type(psi).__name__ == "MpoPBC" or any(type(t).__name__ != "Tensor" for t in psi.A.values()):
        return None
    phi = psi.shallow_copy()
    phi.absorb_central_(to="last")
    return np.asarray(phi.factor) * phi.to_tensor().to_numpy()


def mps_diffs(a, b, strict=True):
    out = []
    if type(a) is not type(b):
        return [f"type {type(b).__name__} != {type(a).__name__}"]
    if a.N != b.N or a.nr_phys != b.nr_phys:
        return ["N/nr_phys"]
    if strict and a.pC != b.pC:
        out.append(f"pC {b.pC} != {a.pC}")
    fa, fb = np.asarray(a.factor), np.asarray(b.factor)
    if fa.shape != fb.shape or not np.array_equal(fa, fb):
        out.append(f"factor {b.factor!r} != {a.factor!r}")
    if strict:
        if set(a.A.keys()) != set(b.A.keys()):
            return out + ["A keys"]
        for k in a.A:
            if type(a.A[k]).__name__ == "Tensor":
                d = tensor_diffs(a.A[k], b.A[k], strict=True)
            else:
                d = dpt_diffs(a.A[k], b.A[k])
            if d:
                out.append(f"A[{k}]: {d}")
    if out:
        return out
    try:
        da, db = mps_dense(a), mps_dense(b)
        if da is not None and (da.shape != db.shape or da.dtype != db.dtype or not np.array_equal(da, db)):
            out.append("follow-up: factor * to_tensor() after absorbing the central block")
        if not strict and type(a).__name__ != "MpoPBC":
            pa, pb = a.shallow_copy(), b.shallow_copy()
            pa.absorb_central_(to="last")
            pb.absorb_central_(to="last")
            for n in range(a.N):
                if pa.A[n].get_legs() != pb.A[n].get_legs():
                    out.append(f"legs of A[{n}]")
    except Exception as e:
        out.append(f"follow-up raised {_exc(e)}")
    return out


def blockless_site(psi):
    """some site tensor (after absorbing the central block, as the exporters do) has no blocks"""
    phi = psi.shallow_copy()
    try:
        phi.absorb_central_(to="last")
    except Exception:
        pass
    return any(len(t.struct.t) == 0 for t in phi.A.values() if type(t).__name__ == "Tensor")


def mps_roundtrips(ctx, psi, case, tmp):
    yastn = Y()
    import yastn.tn.mps as mps
    import h5py
    ncmp = 0
    cls = type(psi)
    has_c = psi.pC is not None
    z2u1 = psi.config.sym.SYM_ID == "Z2xU1"
    for level in (0, 1, 2):
        for path in paths_for(level):
            key = f"c17:mps-roundtrip:{path}"
            try:
                d = psi.to_dict(level=level)
                if level >= 1:
                    bad = not_plain({k: v for k, v in d.items() if k not in ("A", "factor")})
                    if bad:
                        ctx.fail("oracle", "c17:level-plain", f"MPS.to_dict(level={level}) keeps {bad[:3]}", case=case, concrete=True)
                d = transport(d, path, tmp)
                cfg = psi.config if z2u1 and level >= 1 else None
                phi = yastn.from_dict(d, config=cfg) if level % 2 else cls.from_dict(d, config=cfg)
            except TypeError as e:
                if has_c and "split" in path and "not supported between instances" in str(e):
                    ctx.count("known:D6")
                    ctx.fail("oracle", K_D6, f"split_data_and_meta(psi.to_dict(level={level})) of an MPS/MPO with central block raised {_exc(e)}",
                             case=case, concrete=True)
                else:
                    ctx.fail("oracle", key, f"level={level} path={path} raised {_exc(e)}", case=dict(case, level=level, path=path), concrete=True)
                continue
            except Exception as e:
                ctx.fail("oracle", key, f"level={level} path={path} raised {_exc(e)}", case=dict(case, level=level, path=path), concrete=True)
                continue
            ncmp += 1
            diffs = mps_diffs(psi, phi, strict=True)
            if diffs:
                ctx.fail("oracle", key, f"level={level} path={path}: restored {cls.__name__} differs in {diffs[:3]}",
                         case=dict(case, level=level, path=path), concrete=True)
    if cls.__name__ != "MpsMpoOBC":
        return ncmp
    # legacy dictionary and HDF5 (both absorb the central block on export)
    try:
        with warnings.catch_warnings():
            warnings.simplefilter("ignore")
            d = psi.save_to_dict()
        d = via_npsave(d, tmp)
        phi = mps.load_from_dict(psi.config, d)
        diffs = mps_diffs(psi, phi, strict=False)
        ncmp += 1
        if diffs:
            ctx.fail("oracle", "c17:mps-roundtrip:legacy", f"save_to_dict/load_from_dict: restored MPS differs in {diffs[:3]}", case=case, concrete=True)
    except Exception as e:
        if type(e).__name__ == "AxisError" and blockless_site(psi):
            ctx.count("known:legacy-empty")
            ctx.fail("oracle", K_LEGEMPTY, f"legacy dictionary of an MPS with a block-less site tensor raised {_exc(e)}", case=case, concrete=True)
        else:
            ctx.fail("oracle", "c17:mps-roundtrip:legacy", f"save_to_dict/load_from_dict raised {_exc(e)}", case=case, concrete=True)
    p = tmp.path("h5")
    try:
        with h5py.File(p, "w") as f:
            psi.save_to_hdf5(f, "state/")
        with h5py.File(p, "r") as f:
            phi = mps.load_from_hdf5(psi.config, f, "./state/")
        diffs = mps_diffs(psi, phi, strict=False)
        ncmp += 1
        if diffs:
            ctx.fail("oracle", "c17:mps-roundtrip:hdf5", f"save_to_hdf5/load_from_hdf5: restored MPS differs in {diffs[:3]}", case=case, concrete=True)
    except Exception as e:
        if type(e).__name__ == "AxisError" and blockless_site(psi):
            ctx.count("known:hdf5-empty")
            ctx.fail("oracle", K_H5EMPTY, f"load_from_hdf5 of an MPS with a block-less site tensor raised {_exc(e)}", case=case, concrete=True)
        else:
            ctx.fail("oracle", "c17:mps-roundtrip:hdf5", f"save_to_hdf5/load_from_hdf5 raised {_exc(e)}", case=case, concrete=True)
    finally:
        if os.path.exists(p):
            os.remove(p)
    return ncmp


def dpt_diffs(a, b):
    """DoublePepsTensor"""
    if type(a) is not type(b):
        return [f"type {type(b).__name__}"]
    out = []
    for nm in ("bra", "ket"):
        d = tensor_diffs(getattr(a, nm), getattr(b, nm), strict=True)
        if d:
            out.append(f"{nm}: {d}")
    if (a.op is None) != (b.op is None):
        out.append("op presence")
    elif a.op is not None:
        d = tensor_diffs(a.op, b.op, strict=True)
        if d:
            out.append(f"op: {d}")
    if tuple(a.trans) != tuple(b.trans):
        out.append(f"transpose {b.trans} != {a.trans}")
    if dict(a.swaps) != dict(b.swaps):
        out.append(f"swaps {b.swaps} != {a.swaps}")
    if out:
        return out
    try:
        fa, fb = a.fuse_layers(), b.fuse_layers()
        if fa.get_legs() != fb.get_legs() or not np.array_equal(fa.to_numpy(), fb.to_numpy()):
            out.append("follow-up fuse_layers()")
    except Exception as e:
        out.append(f"follow-up fuse_layers raised {_exc(e)}")
    return out


# ------------------------------------------------------------------------------------------------
# PEPS, Peps2Layers, DoublePepsTensor, environments
# ------------------------------------------------------------------------------------------------

PEPS_SYMS = ["dense", "Z2", "U1", "U1xU1"]


def gen_geometry(rng, kind=None):
    import yastn.tn.fpeps as fpeps
    kind = kind or rng.choice(("square-obc", "square-infinite", "square-cylinder", "checkerboard", "rectangular",
                               "triangular-default", "triangular-other"))
    if kind.startswith("square"):
        dims = (rng.randint(1, 3), rng.randint(1, 3))
        if kind == "square-cylinder":
            dims = (rng.randint(2, 3), rng.randint(1, 3))
        return fpeps.SquareLattice(dims=dims, boundary=kind.split("-")[1]), {"geometry": kind, "dims": list(dims)}
    if kind == "checkerboard":
        return fpeps.CheckerboardLattice(), {"geometry": kind}
    if kind == "rectangular":
        pat = rng.choice(([[0, 1]], [[0, 1], [1, 0]], [[0, 1, 2], [1, 2, 0], [2, 0, 1]], [[0, 1], [2, 3]], [[0], [1], [2]],
                          {(0, 0): 0, (0, 1): 1, (1, 0): 1, (1, 1): 0}))
        return fpeps.RectangularUnitcell(pattern=pat), {"geometry": kind, "pattern": repr(pat)}
    if kind == "triangular-default":
        return fpeps.TriangularLattice(), {"geometry": kind}
    opts = rng.choice(({"dims": (2, 3), "boundary": "obc", "full_patch": True}, {"dims": (3, 3), "boundary": "infinite", "full_patch": True},
                       {"dims": (2, 2), "boundary": "obc", "full_patch": True}, {"dims": (3, 2), "boundary": "cylinder", "full_patch": True}))
    return fpeps.TriangularLattice(**opts), {"geometry": kind, "opts": repr(opts)}


def gen_peps(rng, geometry=None, sid=None, physical=None, neutral=False):
    yastn = Y()
    import yastn.tn.fpeps as fpeps
    if geometry is None:
        geometry, grec = gen_geometry(rng)
    else:
        geometry, grec = geometry
    sid = sid or rng.choice(PEPS_SYMS)
    ferm = sid != "dense" and rng.random() < 0.4
    cfg = make_cfg(sid, fermionic=ferm)
    cplx = rng.random() < 0.25
    dt = "complex128" if cplx else "float64"
    recipe = dict(grec, sym=sid, fermionic=ferm, complex=cplx)
    mode = rng.choice(("product", "bonds", "bonds")) if physical is None else ("bonds" if physical else "nophys")
    if physical is None and rng.random() < 0.15:
        mode = "nophys"
    recipe["mode"] = mode
    if mode == "product":
        vecs = {}
        for site in geometry.sites():
            lp = rand_leg(rng, cfg, sid, s=1, maxsec=2, maxD=2)
            v = yastn.ones(cfg, legs=[lp], n=lp.t[0] if cfg.sym.NSYM else None, dtype=dt)
            vecs[site] = fill(v, rng, cplx)
        return fpeps.product_peps(geometry, vecs), recipe
    psi = fpeps.Peps(geometry)
    lv = rand_leg(rng, cfg, sid, s=1, maxsec=2, maxD=2)
    for site in geometry.sites():
        legs = [lv.conj(), lv, lv, lv.conj()]
        if mode == "bonds":
            legs.append(rand_leg(rng, cfg, sid, s=1, maxsec=2, maxD=2))
        n = pick_charge(rng, cfg, legs) if not neutral else None
        t, _, _ = base_tensor(rng, cfg, sid, legs, n, cplx, keep=rng.choice((1.0, 0.7)))
        if rng.random() < 0.3 and mode == "bonds":
            t = t.fuse_legs(axes=((0, 1), (2, 3), 4)).unfuse_legs(axes=(0, 1)) if rng.random() < 0.5 else t.transpose((4, 3, 2, 1, 0)).consume_transpose().transpose((4, 3, 2, 1, 0))
        psi[site] = t
    return psi, recipe


def geometry_diffs(g, h):
    out = []
    if type(g) is not type(h):
        return [f"geometry type {type(h).__name__} != {type(g).__name__}"]
    for nm in ("dims", "boundary", "full_patch", "Nx", "Ny"):
        if getattr(g, nm, None) != getattr(h, nm, None):
            out.append(f"geometry.{nm} {getattr(h, nm, None)!r} != {getattr(g, nm, None)!r}")
    if not (g == h):
        out.append("geometry ==")
    if tuple(g.sites()) != tuple(h.sites()) or tuple(g.bonds()) != tuple(h.bonds()):
        out.append("geometry sites()/bonds()")
    try:
        idx = [(g.site2index((x, y)), h.site2index((x, y))) for x in range(g.Nx) for y in range(g.Ny)]
        if any(i != j for i, j in idx):
            out.append("geometry site2index")
    except Exception as e:
        out.append(f"site2index raised {_exc(e)}")
    return out


def obj_diffs(x, y):
    """Tensor | DoublePepsTensor | env dataclass | None"""
    from dataclasses import fields, is_dataclass
    if x is None or y is None:
        return [] if (x is None and y is None) else ["None vs object"]
    if type(x) is not type(y):
        return [f"type {type(y).__name__} != {type(x).__name__}"]
    nm = type(x).__name__
    if nm == "Tensor":
        return tensor_diffs(x, y, strict=True)
    if nm == "DoublePepsTensor":
        return dpt_diffs(x, y)
    if is_dataclass(x):
        out = []
        for f in fields(x):
            d = obj_diffs(getattr(x, f.name), getattr(y, f.name))
            if d:
                out.append(f"{f.name}: {d}")
        return out
    return [f"unsupported object {nm}"]


def lattice_diffs(a, b):
    if type(a) is not type(b):
        return [f"type {type(b).__name__} != {type(a).__name__}"]
    out = geometry_diffs(a.geometry, b.geometry)
    if out:
        return out
    if set(a._site_data.keys()) != set(b._site_data.keys()):
        return ["_site_data keys"]
    for k in a._site_data:
        d = obj_diffs(a._site_data[k], b._site_data[k])
        if d:
            out.append(f"site_data[{k}]: {d}")
    if not out:
        for x in range(a.Nx):
            for y in range(a.Ny):
                if (a[(x, y)] is None) != (b[(x, y)] is None):
                    out.append(f"psi[{x},{y}]")
    return out


def peps_any_diffs(a, b):
    nm = type(a).__name__
    if type(a) is not type(b):
        return [f"type {type(b).__name__} != {nm}"]
    if nm in ("Peps", "Lattice"):
        return lattice_diffs(a, b)
    if nm == "Peps2Layers":
        out = []
        if (a._bra is None) != (b._bra is None):
            out.append("bra presence")
        out += [f"ket: {d}" for d in lattice_diffs(a.ket, b.ket)]
        if a._bra is not None and b._bra is not None:
            out += [f"bra: {d}" for d in lattice_diffs(a._bra, b._bra)]
        return out
    return [f"unsupported {nm}"]


def env_diffs(a, b):
    nm = type(a).__name__
    if type(a) is not type(b):
        return [f"type {type(b).__name__} != {nm}"]
    out = []
    if type(a.psi).__name__ == "Peps2Layers" and a.psi._bra is None:
        if type(b.psi).__name__ != "Peps2Layers" or b.psi._bra is not None:
            out.append("psi layers")
        else:
            out += [f"psi: {d}" for d in lattice_diffs(a.psi.ket, b.psi.ket)]
    else:
        out += [f"psi: {d}" for d in peps_any_diffs(a.psi, b.psi)]
    if nm in ("EnvCTM", "EnvBP", "EnvCTM_c4v"):
        out += [f"env: {d}" for d in lattice_diffs(a.env, b.env)]
    if nm in ("EnvCTM", "EnvCTM_c4v"):
        out += [f"proj: {d}" for d in lattice_diffs(a.proj, b.proj)]
    if nm == "EnvBP" and a.which != b.which:
        out.append("which")
    if nm == "EnvBoundaryMPS":
        if set(a._env.keys()) != set(b._env.keys()):
            out.append("_env keys")
        else:
            for k in a._env:
                d = mps_diffs(a._env[k], b._env[k], strict=True)
                if d:
                    out.append(f"_env[{k}]: {d}")
        if a.info != b.info:
            out.append("info")
    return out


def generic_roundtrips(ctx, obj, diffs_fn, tag, case, tmp, known=None, levels=(0, 1, 2), cfg_if_z2u1=None):
    """to_dict(level) -> paths -> yastn.from_dict / cls.from_dict -> compare.  `known(level, path, exc, diffs)` may map a failure
    to a known-finding key."""
    yastn = Y()
    ncmp = 0
    cls = type(obj)
    for level in levels:
        for path in paths_for(level):
            key = f"c17:{tag}-roundtrip:{path}"
            diffs, exc = None, None
            try:
                d = obj.to_dict(level=level)
                if level >= 1:
                    bad = not_plain(strip_arrays(d))
                    if bad:
                        ctx.fail("oracle", "c17:level-plain", f"{cls.__name__}.to_dict(level={level}) keeps {bad[:3]}", case=case, concrete=True)
                d = transport(d, path, tmp)
                new = yastn.from_dict(d) if (level + len(path)) % 2 == 0 or cls.__name__ == "Lattice" and False else cls.from_dict(d)
                ncmp += 1
                diffs = diffs_fn(obj, new)
            except Exception as e:
                exc = e
            if exc is None and not diffs:
                continue
            k = known(level, path, exc, diffs) if known else None
            what = f"level={level} path={path}: " + (f"raised {_exc(exc)}" if exc is not None else f"restored {cls.__name__} differs in {diffs[:3]}")
            if k:
                ctx.count("known:" + k)
                ctx.fail("oracle", k, what, case=case, concrete=True)
            else:
                ctx.fail("oracle", key, what, case=dict(case, level=level, path=path), concrete=True)
    return ncmp


def strip_arrays(d):
    if type(d) is dict:
        return {k: strip_arrays(v) for k, v in d.items() if k not in ("data", "factor")}
    return d


def known_triangular(geometry):
    nondefault = type(geometry).__name__ == "TriangularLattice" and \
        (tuple(geometry.dims) != (3, 3) or geometry.boundary != "infinite" or geometry.full_patch)

    def f(level, path, exc, diffs):
        if not nondefault:
            return None
        if exc is not None or any("geometry" in d or "_site_data keys" in d for d in diffs):
            return K_D2
        return None
    return f


def gen_dpt(rng):
    """DoublePepsTensor with optional operator, charge swaps and transposition"""
    yastn = Y()
    import yastn.tn.fpeps as fpeps
    from yastn.tn.fpeps._doublePepsTensor import _allowed_transpose
    sid = rng.choice(("dense", "Z2", "U1", "U1xU1"))
    ferm = sid != "dense" and rng.random() < 0.6
    cfg = make_cfg(sid, fermionic=ferm)
    cplx = rng.random() < 0.25
    lv = [rand_leg(rng, cfg, sid, s=1, maxsec=2, maxD=2) for _ in range(4)]
    lp = rand_leg(rng, cfg, sid, s=1, maxsec=2, maxD=2)
    legs = [lv[0].conj(), lv[1], lv[2], lv[3].conj(), lp]
    ket, _, _ = base_tensor(rng, cfg, sid, legs, pick_charge(rng, cfg, legs), cplx, keep=1.0)
    same = rng.random() < 0.4
    bra = ket if same else base_tensor(rng, cfg, sid, legs, ket.n if cfg.sym.NSYM else None, cplx, keep=1.0)[0]
    op = None
    if rng.random() < 0.6:
        op = fill(yastn.ones(cfg, legs=[lp, lp.conj()], dtype="complex128" if cplx else "float64"), rng, cplx)
    swaps = {}
    pool = [c for c in all_charges(sid, 1) if any(c)]
    if pool and rng.random() < 0.6:
        for ax in rng.sample(["b0", "b1", "b2", "b3", "k0", "k1", "k2", "k3", "k4", "b4"], rng.randint(1, 3)):
            swaps[ax] = rng.choice(pool)
    trans = rng.choice(_allowed_transpose)
    dpt = fpeps.DoublePepsTensor(bra=bra, ket=ket, trans=trans, op=op, swaps=swaps)
    return dpt, {"sym": sid, "fermionic": ferm, "complex": cplx, "op": op is not None, "swaps": {k: list(v) for k, v in swaps.items()},
                 "transpose": list(trans), "bra_is_ket": same}


def gen_env(rng, kind=None, variant=0):
    yastn = Y()
    import yastn.tn.fpeps as fpeps
    kind = kind or rng.choice(("EnvCTM", "EnvCTM", "EnvBP", "EnvBoundaryMPS"))
    if kind == "EnvBoundaryMPS":
        geo = gen_geometry(rng, "square-obc")
        psi, rec = gen_peps(rng, geometry=geo, sid=rng.choice(("dense", "Z2", "U1")), physical=True)
        # product-like bonds are needed for a well defined contraction: use product_peps here
        psi, rec = gen_peps(rng, geometry=geo, sid=rec["sym"])
        if rec["mode"] != "product":
            cfg = psi.config
            vecs = {}
            for site in psi.sites():
                lp = rand_leg(rng, cfg, rec["sym"], s=1, maxsec=2, maxD=2)
                vecs[site] = fill(yastn.ones(cfg, legs=[lp], n=lp.t[0] if cfg.sym.NSYM else None), rng, False)
            psi = fpeps.product_peps(psi.geometry, vecs)
            rec["mode"] = "product"
        env = fpeps.EnvBoundaryMPS(psi, opts_svd={"D_total": 2}, setup=rng.choice(("l", "lr", "tb", "lrtb")))
        return env, dict(rec, env=kind)
    gk = rng.choice(("square-obc", "square-infinite", "checkerboard", "rectangular", "triangular-default")) if kind == "EnvCTM" else \
        rng.choice(("square-obc", "square-infinite", "checkerboard"))
    geo = gen_geometry(rng, gk)
    psi, rec = gen_peps(rng, geometry=geo, sid=rng.choice(("dense", "Z2", "U1")), physical=True, neutral=True)
    psi.config.backend.random_seed(rng.randrange(1 << 30))
    if kind == "EnvCTM":
        bra = None
        if rng.random() < 0.3:
            bra = psi.copy()
        env = fpeps.EnvCTM(psi, init=rng.choice(("rand", "eye", "dl")), bra=bra)
        if rng.random() < 0.5:   # also fill the projector slots
            for site in env.sites():
                for nm in ("hlt", "hrb", "vtl", "vbr"):
                    setattr(env.proj[site], nm, env[site].tl)
        rec["bra"] = bra is not None
    else:
        env = fpeps.EnvBP(psi, init="eye", which=("NN+BP", "NNN+BP", "BP")[variant % 3])
    return env, dict(rec, env=kind)


# ------------------------------------------------------------------------------------------------
# to_dict(meta=...) : the vector embedding used by Krylov solvers
# ------------------------------------------------------------------------------------------------

def vec_of(x, meta, **kw):
    yastn = Y()
    v, m2 = yastn.split_data_and_meta(x.to_dict(level=0, meta=meta, **kw), squeeze=True)
    return np.asarray(v), m2


def reference_vec(x, ref):
    """independent NumPy reference: the blocks of x (looked up by charge) placed at the slices of ref; zeros elsewhere.
    Valid for tensors without hard fusion (block <-> charge is then one-to-one) and identical trans."""
    out = np.zeros(ref.size, dtype=np.complex128 if x.is_complex() else np.float64)
    xt = {t: (sl.slcs[0], D) for t, sl, D in zip(x.struct.t, x.slices, x.struct.D)}
    for t, sl, D in zip(ref.struct.t, ref.slices, ref.struct.D):
        if t in xt:
            (lo, hi), Dx = xt[t]
            if tuple(Dx) != tuple(D):
                return None
            out[slice(*sl.slcs[0])] = np.asarray(x.data)[lo:hi]
    return out


def sumsq(v):
    """exact for integer-valued (complex) data"""
    v = np.asarray(v)
    return float(np.sum(v.real ** 2) + np.sum(v.imag ** 2))


def gen_embed_case(rng):
    """(ref, x, y, recipe): x, y carry random subsets of the blocks of ref (same legs, charge, fusion, lazy transpose)"""
    yastn = Y()
    sid = rng.choice([s for s in SYMS if s != "dense"] + ["dense"])
    cfg = make_cfg(sid, fermionic=(sid != "dense" and rng.random() < 0.2))
    cplx = rng.random() < 0.3
    diag = rng.random() < 0.1
    if diag:
        leg = rand_leg(rng, cfg, sid)
        full = yastn.ones(cfg, isdiag=True, legs=leg)
        nd, legs, n = 2, [leg, leg.conj()], None
    else:
        nd = rng.randint(1, 4)
        legs = [rand_leg(rng, cfg, sid, maxsec=3, maxD=2) for _ in range(nd)]
        n = pick_charge(rng, cfg, legs)
        full = yastn.ones(cfg, legs=legs, n=n)
    dt = "complex128" if cplx else "float64"

    def sub(keep):
        if diag:
            a = yastn.Tensor(cfg, s=full.struct.s, isdiag=True, dtype=dt)
            for t, D in zip(full.struct.t, full.struct.D):
                if rng.random() < keep:
                    a.set_block(ts=t[:cfg.sym.NSYM] if cfg.sym.NSYM else (), Ds=D[0], val="ones")
            return fill(a, rng, cplx)
        return base_tensor(rng, cfg, sid, legs, n, cplx, keep=keep)[0]
    ref = sub(1.0) if rng.random() < 0.7 else sub(0.8)
    refkeys = set(ref.struct.t)
    x, y = sub(0.6), sub(0.6)

    def restrict(a):   # drop blocks that ref does not have
        if set(a.struct.t) <= refkeys:
            return a
        b = yastn.Tensor(cfg, s=a.struct.s, n=a.struct.n, isdiag=a.isdiag, dtype=dt)
        for t in a.struct.t:
            if t in refkeys:
                if a.isdiag:
                    b.set_block(ts=t[:cfg.sym.NSYM] if cfg.sym.NSYM else (), Ds=len(a[t]), val=a[t])
                else:
                    b.set_block(ts=t, Ds=a[t].shape, val=a[t])
        return b
    x, y = restrict(x), restrict(y)
    ops = []
    if not diag and nd >= 2:
        for _ in range(rng.randint(0, 2)):
            o = rng.choice(("hard", "meta", "transpose"))
            if o == "transpose":
                p = list(range(ref.ndim))
                rng.shuffle(p)
                ops.append(("transpose", tuple(p)))
                ref, x, y = (z.transpose(tuple(p)) for z in (ref, x, y))
            elif ref.ndim >= 2:
                g = rand_groups(rng, ref.ndim)
                ops.append((o, g))
                ref, x, y = (z.fuse_legs(axes=g, mode=o) for z in (ref, x, y))
    rec = {"sym": sid, "complex": cplx, "diag": diag, "ndim": nd, "ops": repr(ops), "blocks": [len(ref.struct.t), len(x.struct.t), len(y.struct.t)]}
    return ref, x, y, rec


def embed_lazy_symmetric(ctx, rng, case):
    """x = a.transpose(p) held LAZILY where p exchanges legs with identical spaces: the stored structure of x coincides with that
    of `a` (and with meta taken from `a`), only the pending permutation differs.  The vector of x w.r.t. meta must be the vector of
    the materialised x, and un-embedding must give x back (NumPy: dense(a) transposed)."""
    yastn = Y()
    from harness import tgen
    sid = rng.choice(["dense", "Z2", "Z3", "U1", "Z2xU1", "U1xU1"])
    cplx = rng.random() < 0.3
    cfg = tgen.make_cfg(sid, dtype="complex128" if cplx else "float64")
    l0 = tgen.rand_leg(rng, cfg, sid, max_sectors=3, max_dim=3)
    others = [tgen.rand_leg(rng, cfg, sid, max_sectors=3, max_dim=2) for _ in range(rng.randint(0, 2))]
    legs = [l0] * rng.randint(2, 3) + others
    rng.shuffle(legs)
    a = tgen.rand_tensor(rng, cfg, sid, legs, cplx=cplx, drop=0.0, allow_empty=False)
    if a.size == 0:
        return
    same = [k for k, l in enumerate(legs) if l == l0]
    q = list(same); 
    for _ in range(5):
        rng.shuffle(q)
        if q != same:
            break
    else:
        return
    p = list(range(len(legs)))
    for k, k2 in zip(same, q):
        p[k] = k2
    p = tuple(p)
    try:
        _, meta = yastn.split_data_and_meta(a.to_dict(level=0), squeeze=True)
        b = a.transpose(axes=p)
        if b.get_legs() != a.get_legs() or tuple(b.n) != tuple(a.n):
            return
        rec = {"sym": sid, "legs": len(legs), "perm": list(p), "complex": cplx}
        ctx.case({"stream": "embed-lazy-symmetric", "recipe": rec}, nontrivial=len(a.struct.t) >= 2)
        ctx.count("embed-lazy-symmetric:stored-structure-equal:" + str(b.struct == a.struct))
        case = dict(case, recipe=rec, tensor=tgen.to_model(a))
        vb, _ = yastn.split_data_and_meta(b.to_dict(level=0, meta=meta), squeeze=True)
        vc, _ = yastn.split_data_and_meta(b.consume_transpose().to_dict(level=0, meta=meta), squeeze=True)
        back = yastn.Tensor.from_dict(yastn.combine_data_and_meta(vb, meta))
        bad = []
        if not np.array_equal(np.asarray(vb), np.asarray(vc)):
            bad.append("vector of the lazily transposed tensor != vector of the same tensor after consume_transpose()")
        if not np.array_equal(back.to_numpy(), a.to_numpy().transpose(p)):
            bad.append("un-embedded tensor != NumPy transpose of the dense array")
        if bad:
            ctx.fail("oracle", "c17:meta-embed:lazy-symmetric", f"to_dict(meta=...) of a tensor with a pending transposition {p} exchanging identical legs: {bad}",
                     case=case, concrete=True)
    except Exception as e:  # noqa: BLE001
        ctx.fail("oracle", "c17:meta-embed:lazy-symmetric", f"to_dict(meta=...) of a lazily transposed tensor compatible with meta raised {_exc(e)}", case=case, concrete=True)


def embed_checks(ctx, ref, x, y, case):
    yastn = Y()
    key = "c17:meta-embed"
    # domain of the known defect of Tensor.__add__: equally lazily transposed hard-fused operands whose fused legs differ in sectors
    lazy_hard_mask = ref.trans != tuple(range(ref.ndim_n)) and any(len(hf.tree) > 1 for hf in ref.hfs) and \
        not (x.hfs == ref.hfs and y.hfs == ref.hfs)
    try:
        _, meta = yastn.split_data_and_meta(ref.to_dict(level=0), squeeze=True)
        vx, mx = vec_of(x, meta)
        vy, _ = vec_of(y, meta)
        vs, _ = vec_of(x + y, meta)
        vl, _ = vec_of(2 * x - 3 * y, meta)
    except Exception as e:
        # hard-fused x whose fused legs miss whole sectors of ref's legs is handled by `a + ap`; any exception here is a failure
        if lazy_hard_mask:
            # `a + ap` of two equally lazily transposed hard-fused tensors whose fused legs differ in sectors (mask needed)
            ctx.count("known:meta-embed-lazy-hardfused")
            ctx.fail("oracle", K_EMBLAZY, f"to_dict(meta=...) of a lazily transposed hard-fused tensor compatible with meta raised {_exc(e)}",
                     case=case, concrete=True)
        else:
            ctx.fail("oracle", key, f"to_dict(meta=meta of a compatible tensor) raised {_exc(e)}", case=case, concrete=True)
        return None
    bad = []
    if vx.shape != (ref.size,) or vy.shape != (ref.size,):
        bad.append(f"vector length {vx.shape} != {ref.size}")
    else:
        if not np.array_equal(vs, vx + vy) or not np.array_equal(vl, 2 * vx - 3 * vy):
            bad.append("linearity")
        if sumsq(vx) != sumsq(np.asarray(x.data)):
            bad.append("norm: sum |v|^2 != sum |x|^2")
        if ref.trans == tuple(range(ref.ndim_n)) and x.trans == ref.trans:
            # nothing is pending: resolve_ops=True has nothing to resolve and must give the very same embedding
            try:
                vxr, mxr = vec_of(x, meta, resolve_ops=True)
                if vxr.shape != vx.shape or not np.array_equal(vxr, vx) or mxr != mx:
                    bad.append(f"to_dict(meta=..., resolve_ops=True) differs from resolve_ops=False although no transposition is pending (length {vxr.shape} vs {vx.shape})")
            except Exception as e:
                bad.append(f"to_dict(meta=..., resolve_ops=True) raised {_exc(e)}")
        if abs(np.linalg.norm(vx) - float(x.norm())) > 1e-9 * (1 + float(x.norm())):
            bad.append("norm vs Tensor.norm()")
        hard = any(len(hf.tree) > 1 for hf in ref.hfs)
        if not hard and not ref.isdiag:
            rv = reference_vec(x, ref)
            if rv is not None and not np.array_equal(rv, vx):
                bad.append("vector != blocks of x placed at the slices of meta (NumPy reference)")
        try:
            back = yastn.Tensor.from_dict(yastn.combine_data_and_meta(vx, meta))
            if back.struct != ref.struct or back.get_legs() != ref.get_legs():
                bad.append("unembedded tensor does not have the structure of meta")
            lg = ref.get_legs()
            if back.ndim > 0 and len(ref.struct.t) > 0 and not np.array_equal(back.to_numpy(legs=dict(enumerate(lg))), x.to_numpy(legs=dict(enumerate(lg)))):
                bad.append("unembed(embed(x)) != x with zero fill")
            nz = int(np.count_nonzero(vx))
            if nz != int(np.count_nonzero(np.asarray(x.data))):
                bad.append("zero fill: number of non-zero entries changed")
        except Exception as e:
            bad.append(f"unembed raised {_exc(e)}")
    if bad and lazy_hard_mask:
        ctx.count("known:meta-embed-lazy-hardfused")
        ctx.fail("oracle", K_EMBLAZY, f"to_dict(meta=...) of lazily transposed hard-fused tensors with differing fused sectors: {bad}", case=case, concrete=True)
    elif bad:
        ctx.fail("oracle", key, f"to_dict(meta=...) embedding: {bad}", case=case, concrete=True)
    return meta


def rejection_checks(ctx, rng, ref, x, meta, case):
    """incompatible config or meta must be rejected"""
    yastn = Y()
    cfg = ref.config
    sid = cfg.sym.SYM_ID
    key = "c17:meta-reject"
    n_rej = 0

    def must_reject(label, fn, exc_types=None):
        nonlocal n_rej
        try:
            fn()
        except yastn.YastnError:
            n_rej += 1
            ctx.count("reject:" + label)
            return
        except Exception as e:
            ctx.count("reject-other-exception:" + label + ":" + type(e).__name__)
            n_rej += 1
            return
        ctx.fail("oracle", key, f"incompatible input accepted: {label}", case=dict(case, reject=label), concrete=True)

    # --- config mismatch on from_dict
    other = "Z2" if sid != "Z2" else "U1"
    d = x.to_dict(level=rng.choice((0, 1, 2)))
    must_reject("config-sym", lambda: yastn.from_dict(dict(d), config=make_cfg(other)))
    must_reject("config-fermionic", lambda: yastn.from_dict(dict(d), config=make_cfg(sid, fermionic=not bool(cfg.fermionic))))
    must_reject("type", lambda: yastn.Tensor.from_dict(dict(d, type="MpsMpoOBC")))
    must_reject("dict_ver", lambda: yastn.Tensor.from_dict(dict(d, dict_ver=3)))
    # --- meta mismatch on to_dict
    if ref.isdiag or ref.ndim == 0:
        return n_rej
    nat_legs = ref.get_legs(native=True)
    plain = ref.mfs == ((1,),) * ref.ndim_n and all(len(hf.tree) == 1 for hf in ref.hfs) and ref.trans == tuple(range(ref.ndim_n))
    if cfg.sym.NSYM > 0:
        pool = [c for c in all_charges(sid, 1) if c != tuple(ref.n)]
        n2 = rng.choice(pool)
        z = yastn.Tensor(cfg, s=ref.s_n if plain else x.struct.s, n=n2)
        if plain:
            must_reject("charge", lambda: z.to_dict(level=0, meta=meta))
    if plain:
        s2 = tuple(-s for s in ref.s_n)
        z2 = yastn.Tensor(cfg, s=s2, n=ref.n if cfg.sym.NSYM else None)
        must_reject("signature", lambda: z2.to_dict(level=0, meta=meta))
        if ref.ndim_n >= 2:
            z3 = yastn.Tensor(cfg, s=ref.s_n, n=ref.n if cfg.sym.NSYM else None).fuse_legs(axes=[tuple(range(ref.ndim_n))], mode="meta")
            must_reject("mfs", lambda: z3.to_dict(level=0, meta=meta))
        if len(ref.struct.t) > 0:
            t0, D0 = ref.struct.t[0], ref.struct.D[0]
            z4 = yastn.Tensor(cfg, s=ref.s_n, n=ref.n if cfg.sym.NSYM else None)
            z4.set_block(ts=t0, Ds=tuple(d + 1 for d in D0), val="ones")
            must_reject("bond-dimension", lambda: z4.to_dict(level=0, meta=meta))
            # block outside meta: meta of a tensor lacking a block that z5 has
            if len(ref.struct.t) >= 2:
                small = yastn.Tensor(cfg, s=ref.s_n, n=ref.n if cfg.sym.NSYM else None)
                for t, D in list(zip(ref.struct.t, ref.struct.D))[1:]:
                    small.set_block(ts=t, Ds=D, val="ones")
                _, msmall = yastn.split_data_and_meta(small.to_dict(level=0), squeeze=True)
                z5 = yastn.Tensor(cfg, s=ref.s_n, n=ref.n if cfg.sym.NSYM else None)
                z5.set_block(ts=t0, Ds=D0, val="ones")
                must_reject("block-outside-meta", lambda: z5.to_dict(level=0, meta=msmall))
    else:
        if ref.trans != tuple(range(ref.ndim_n)):
            def fits(y):
                """every block of y (logical order) is a block of ref with the same shape, same signature and charge: then y IS compatible with
                meta (e.g. legs that are exchanged by the permutation hold the same sectors) and accepting it is right"""
                try:
                    yc, rc = y.consume_transpose(), ref.consume_transpose()
                    if yc.struct.s != rc.struct.s or yc.struct.n != rc.struct.n or yc.mfs != rc.mfs or yc.hfs != rc.hfs:
                        return False
                    rmap = dict(zip(rc.struct.t, rc.struct.D))
                    return all(t in rmap and rmap[t] == D for t, D in zip(yc.struct.t, yc.struct.D))
                except Exception:  # noqa: BLE001
                    return True   # cannot decide: do not demand a rejection
            yrev = x.consume_transpose().transpose(tuple(range(x.ndim))[::-1])
            if not fits(yrev):
                must_reject("lazy-transpose-vs-meta", lambda: yrev.to_dict(level=0, meta=meta))
            else:
                ctx.count("reject:lazy-transpose-vs-meta:premise-not-met")
    del nat_legs
    return n_rej


# ------------------------------------------------------------------------------------------------
# correspondence with the Lean model (YModel/Serial.lean)
# ------------------------------------------------------------------------------------------------

class Skel:
    """JSON skeleton (Val of the model) of a python dictionary; arrays are replaced by ids (object identity)"""

    def __init__(self):
        self.ids = {}
        self.keep = []
        self.unsupported = 0

    def arr_id(self, x):
        k = id(x)
        if k not in self.ids:
            self.ids[k] = len(self.ids)
            self.keep.append(x)   # keep alive so that ids stay unique
        return self.ids[k]

    def key(self, k):
        if isinstance(k, bool):
            raise KeyError("bool key")
        if isinstance(k, (int, np.integer)):
            return {"i": int(k)}
        if isinstance(k, str):
            return {"s": k}
        if isinstance(k, tuple) and all(isinstance(a, (int, np.integer, str)) and not isinstance(a, bool) for a in k):
            return {"t": [{"i": int(a)} if not isinstance(a, str) else {"s": a} for a in k]}
        raise KeyError(f"unsupported key {k!r}")

    def val(self, x):
        if x is None:
            return None
        if isinstance(x, (bool, np.bool_)):
            return {"b": bool(x)}
        if isinstance(x, (int, np.integer)):
            return {"i": int(x)}
        if isinstance(x, str):
            return {"s": x}
        if isinstance(x, np.ndarray):
            return {"a": [self.arr_id(x)]}
        if isinstance(x, dict):
            return {"d": [[self.key(k), self.val(v)] for k, v in x.items()]}
        if isinstance(x, (tuple, list)):
            return {"t": [self.val(v) for v in x]}
        return {"s": f"<{type(x).__name__}:{x!r}>"[:80]}


def norm_val(v):
    """order-insensitive normal form of a Val JSON (python dictionaries compare without order)"""
    import json
    if isinstance(v, dict):
        if "d" in v:
            items = [[json.dumps(k, sort_keys=True), norm_val(x)] for k, x in v["d"]]
            return {"d": sorted(items, key=lambda p: p[0])}
        if "t" in v:
            return {"t": [norm_val(x) for x in v["t"]]}
    return v


def reorder(d, rng):
    """same dictionary with another insertion order at every level"""
    if not isinstance(d, dict):
        return d
    ks = list(d.keys())
    rng.shuffle(ks)
    return {k: (d[k] if k == "data" else reorder(d[k], rng)) for k in ks}


def synth_dict(rng, depth=0, malformed=False):
    kinds = ["int", "str", "tup2", "tupis"]
    kind = rng.choice(kinds)
    n = rng.randint(0, 4) if depth else rng.randint(1, 5)

    def mk(kind):
        if kind == "int":
            return rng.randint(-3, 6)
        if kind == "str":
            return rng.choice(("data", "data", "A", "type", "b", "struct", "Data", "dat", "z", "", "a b"))
        if kind == "tup2":
            return (rng.randint(-1, 3), rng.randint(0, 3))
        return (rng.randint(0, 2), rng.choice(("l", "r", "t", "b")))
    keys = []
    for _ in range(n):
        keys.append(mk(kind))
    if malformed and rng.random() < 0.7 and n >= 1:
        keys.append(mk(rng.choice([k for k in kinds if k != kind])))
    d = {}
    for k in keys:
        r = rng.random()
        if r < 0.3 and depth < 3:
            v = synth_dict(rng, depth + 1, malformed and rng.random() < 0.5)
        elif r < 0.5:
            v = np.arange(rng.randint(0, 3), dtype=np.float64)
        elif r < 0.6:
            v = (1, "x", {"data": 3, 2: 1}, None)   # dictionaries inside tuples are not walked
        elif r < 0.7:
            v = [rng.randint(0, 5), True]
        else:
            v = rng.choice((0, 1, -7, "s", None, True, False, 2.5))
        d[k] = v
    return d


def split_correspondence(ctx, dicts, tag):
    """real split/combine vs the model on the JSON skeleton of `dicts`"""
    yastn = Y()
    reqs, info = [], []
    for d in dicts:
        sk = Skel()
        try:
            v = sk.val(d)
        except KeyError:
            ctx.count(f"corr-split:{tag}:unsupported-key")
            continue
        try:
            data, meta = yastn.split_data_and_meta(d)
            comb = yastn.combine_data_and_meta(data, meta)
            real = {"data": [sk.val(x) for x in data], "meta": norm_val(sk.val(meta)), "combined": norm_val(sk.val(comb))}
        except TypeError as e:
            real = {"err": "TypeError"}
        except Exception as e:
            real = {"err": type(e).__name__}
        reqs.append(v)
        info.append((real, norm_val(v)))
    if not reqs or ctx.drv is None:
        return
    res = []
    for i in range(0, len(reqs), 25):
        r = ctx.drv.call({"op": "split_batch", "cases": reqs[i:i + 25]})
        if not r.get("ok"):
            ctx.fail("correspondence", "c17:model-error", f"split_batch: {r}")
            return
        res += r["res"]
    for (real, vnorm), m, v in zip(info, res, reqs):
        ctx.count(f"corr-split:{tag}:{'err' if 'err' in real else 'ok'}")
        ctx.count("compared")
        if ("err" in real) != ("err" in m):
            if "err" in m and m["err"] == "TypeError" and "err" not in real:
                # the model rejects keys that python's sorted() would have to compare; the real code being more permissive
                # (e.g. after a fix of D6) is checked by the round-trip oracles, not here
                ctx.count(f"corr-split:{tag}:real-more-permissive")
                continue
            ctx.fail("correspondence", f"c17:corr-split:{tag}", f"acceptance differs: real={real.get('err', 'ok')} model={m.get('err', 'ok')}", case={"val": v})
            continue
        if "err" in real:
            if real["err"] != m["err"]:
                ctx.fail("correspondence", f"c17:corr-split:{tag}", f"error kind differs: real={real['err']} model={m['err']}", case={"val": v})
            continue
        if real["data"] != m["data"]:
            ctx.fail("correspondence", f"c17:corr-split:{tag}", "order/content of the data tuple differs between real split and model", case={"val": v})
        elif real["meta"] != norm_val(m["meta"]):
            ctx.fail("correspondence", f"c17:corr-split:{tag}", "meta differs between real split and model", case={"val": v})
        elif real["combined"] != norm_val(m["combined"]) or real["combined"] != vnorm:
            ctx.fail("correspondence", f"c17:corr-split:{tag}", "combine(split(d)) differs (real vs model vs d)", case={"val": v})


def split_order_oracle(ctx, d, rng, case):
    """real code: the data order and meta do not depend on the insertion order of the dictionary"""
    yastn = Y()
    try:
        d2 = reorder(d, rng)
        data1, meta1 = yastn.split_data_and_meta(d)
        data2, meta2 = yastn.split_data_and_meta(d2)
    except TypeError:
        return
    sk = Skel()
    if [sk.val(x) for x in data1] != [sk.val(x) for x in data2] or norm_val(sk.val(meta1)) != norm_val(sk.val(meta2)):
        ctx.fail("oracle", "c17:split-order", "split_data_and_meta depends on the insertion order of the dictionary (data order / meta differ)",
                 case=case, concrete=True)


def embed_correspondence(ctx, cases):
    """cases: (ref, x) tensors without fusion / diag; real vector vs model embed"""
    yastn = Y()
    if ctx.drv is None or not cases:
        return
    reqs, reals = [], []
    for ref, x, expect_reject in cases:
        lay = [[list(t), int(sl.Dp)] for t, sl in zip(ref.struct.t, ref.slices)]
        blocks = [[list(t), [int(v) for v in np.asarray(x.data)[slice(*sl.slcs[0])].real]] for t, sl in zip(x.struct.t, x.slices)]
        try:
            _, meta = yastn.split_data_and_meta(ref.to_dict(level=0), squeeze=True)
            v, _ = vec_of(x, meta)
            real = {"vec": [int(z) for z in np.asarray(v).real]}
        except yastn.YastnError:
            real = {"err": "rejected"}
        reqs.append({"meta": lay, "x": blocks})
        reals.append(real)
    r = ctx.drv.call({"op": "embed_batch", "cases": reqs})
    if not r.get("ok"):
        ctx.fail("correspondence", "c17:model-error", f"embed_batch: {r}")
        return
    for real, m, q in zip(reals, r["res"], reqs):
        ctx.count(f"corr-embed:{'err' if 'err' in real else 'ok'}")
        ctx.count("compared")
        if ("err" in real) != ("err" in m):
            ctx.fail("correspondence", "c17:corr-embed", f"acceptance differs real={real} model={m}", case=q)
        elif "err" not in real and real["vec"] != m["vec"]:
            ctx.fail("correspondence", "c17:corr-embed", f"vector differs real={real['vec'][:12]} model={m['vec'][:12]}", case=q)
        elif "err" not in real and m["normsq"] != m["normsq_x"]:
            ctx.fail("correspondence", "c17:corr-embed", "model norm mismatch", case=q)


def rec_of(a):
    def ints(x):
        return [int(v) for v in x]
    hfs = []
    for hf in a.hfs:
        t = [ints(_flat(x)) for x in hf.t]
        D = [ints(_flat(x)) for x in hf.D]
        hfs.append({"tree": ints(hf.tree), "op": hf.op, "s": ints(hf.s), "t": t, "D": D})
    fer = a.config.fermionic
    return {"cfg": {"backend": a.config.backend.BACKEND_ID, "sym": a.config.sym.SYM_ID, "fermionic": bool(fer) if not isinstance(fer, tuple) else any(fer)},
            "s": ints(a.struct.s), "n": ints(a.struct.n), "diag": bool(a.struct.diag), "t": [ints(t) for t in a.struct.t],
            "D": [ints(D) for D in a.struct.D], "size": int(a.struct.size),
            "slices": [ints(_flat(sl)) for sl in a.slices], "trans": ints(a.trans), "mfs": [ints(m) for m in a.mfs], "hfs": hfs,
            "data": [0] * 0}


def _flat(x):
    out = []
    for v in x:
        if isinstance(v, (tuple, list)):
            out += _flat(v)
        else:
            out.append(v)
    return out


def shape_of(v):
    """nesting shape of a Val JSON: dictionaries with their (string) keys, tuples only by kind"""
    if isinstance(v, dict) and "d" in v:
        return {"d": {k["s"] if "s" in k else repr(k): shape_of(x) for k, x in v["d"]}}
    if isinstance(v, dict) and "t" in v:
        return "tuple"
    if isinstance(v, dict) and "a" in v:
        return "array"
    if isinstance(v, dict) and "i" in v:
        return "int"
    if isinstance(v, dict) and "s" in v:
        return "str"
    if isinstance(v, dict) and "b" in v:
        return "bool"
    return "none"


CFG_KEYS = ("backend", "sym", "fermionic")


def todict_correspondence(ctx, tensors):
    """field-level structure of Tensor.to_dict(level) vs the model's toDict, and model-side fromDict∘toDict"""
    if ctx.drv is None or not tensors:
        return
    reqs, reals = [], []
    for a in tensors:
        for lvl in (0, 1, 2):
            for ver in (2, 1):
                d = a.to_dict(level=lvl)
                if ver == 1:
                    d.pop("trans")
                    d["dict_ver"] = 1
                if lvl >= 1:   # the model keeps only the three configuration fields that from_dict looks at
                    d["config"] = {k: d["config"][k] for k in CFG_KEYS}
                    d["config"]["fermionic"] = bool(d["config"]["fermionic"]) if not isinstance(d["config"]["fermionic"], tuple) else any(d["config"]["fermionic"])
                sk = Skel()
                real = shape_of(sk.val(d))
                if lvl == 0:
                    real["d"]["data"] = "array"
                reals.append((real, d, lvl, ver))
                reqs.append({"rec": rec_of(a), "lvl": lvl, "ver": ver, "cfg": None})
    res = []
    for i in range(0, len(reqs), 30):
        r = ctx.drv.call({"op": "todict_batch", "cases": reqs[i:i + 30]})
        if not r.get("ok"):
            ctx.fail("correspondence", "c17:model-error", f"todict_batch: {r}")
            return
        res += r["res"]
    for (real, d, lvl, ver), m, q in zip(reals, res, reqs):
        ctx.count("compared")
        ctx.count(f"corr-todict:lvl{lvl}:ver{ver}")
        ms = shape_of(m["dict"])
        if ms != real:
            ctx.fail("correspondence", "c17:corr-todict", f"structure of to_dict(level={lvl}) differs: real={real} model={ms}", case=q)
            continue
        md = {k["s"]: v for k, v in m["dict"]["d"]}
        want_ver, want_lvl = d["dict_ver"], d["level"]
        if md["dict_ver"] != {"i": want_ver} or md["level"] != {"i": want_lvl} or md["type"] != {"s": d["type"]} or md["isdiag"] != {"b": bool(d["isdiag"])}:
            ctx.fail("correspondence", "c17:corr-todict", "header fields differ", case=q)
        if ver == 2 and md["trans"] != Skel().val(tuple(d["trans"])):
            ctx.fail("correspondence", "c17:corr-todict", "trans differs", case=q)
        if md["mfs"] != Skel().val(d["mfs"]):
            ctx.fail("correspondence", "c17:corr-todict", "mfs differs", case=q)
        if "err" in m or (ver == 2 and not m.get("back_same")) or (ver == 1 and m.get("back_trans") != list(range(len(q["rec"]["s"])))):
            ctx.fail("correspondence", "c17:corr-todict", f"model fromDict(toDict) is not the identity: {m.get('err')}", case=q)


# ------------------------------------------------------------------------------------------------
# the check
# ------------------------------------------------------------------------------------------------

class Budget:
    def __init__(self, ctx, total):
        self.ctx, self.total = ctx, total
        self.t0 = time.time()

    def over(self, frac):
        return time.time() - self.t0 > self.total * frac


def fixed_corpus(ctx, tmp, base):
    """deterministic cases: every object class once, and the inputs of the findings known on the pinned tree"""
    yastn = Y()
    import random
    import yastn.tn.mps as mps
    import yastn.tn.fpeps as fpeps
    rng = random.Random("C17-fixed")
    # --- D6: MPS with central block
    psi, rec = gen_mps(rng, want_central=True)
    while "pC" not in rec:
        psi, rec = gen_mps(rng, want_central=True)
    mps_roundtrips(ctx, psi, dict(base, stream="fixed-mps-central", recipe=rec), tmp)
    # --- D2: non-default triangular lattice (and the default one, which has to pass)
    for kind in ("triangular-other", "triangular-default"):
        psi, rec = gen_peps(rng, geometry=gen_geometry(rng, kind), sid="U1")
        generic_roundtrips(ctx, psi, peps_any_diffs, "peps", dict(base, stream="fixed-" + kind, recipe=rec), tmp, known=known_triangular(psi.geometry))
    # --- Z2xU1 tensor, block-less tensor
    a, rec = gen_tensor(rng, sid="Z2xU1", want="hard")
    tensor_roundtrips(ctx, a, dict(base, stream="fixed-z2xu1", recipe=rec), tmp)
    tensor_legacy_and_hdf5(ctx, a, dict(base, stream="fixed-z2xu1", recipe=rec), tmp)
    e = yastn.Tensor(make_cfg("U1"), s=(1, -1, 1))
    tensor_roundtrips(ctx, e, dict(base, stream="fixed-empty"), tmp)
    tensor_legacy_and_hdf5(ctx, e, dict(base, stream="fixed-empty"), tmp)
    # --- to_dict(meta) of a lazily transposed hard-fused tensor lacking sectors of meta
    cfg = make_cfg("Z2")
    l2 = yastn.Leg(cfg, s=1, t=((0,), (1,)), D=(1, 2))
    l1 = yastn.Leg(cfg, s=1, t=((0,),), D=(1,))
    ref = fill(yastn.ones(cfg, legs=[l2, l2, l1, l2]), rng, False)
    x = yastn.Tensor(cfg, s=(1, 1, 1, 1))
    x.set_block(ts=(0, 0, 0, 0), Ds=(1, 1, 1, 1), val=[5.])
    y = yastn.Tensor(cfg, s=(1, 1, 1, 1))
    y.set_block(ts=(1, 1, 0, 0), Ds=(2, 2, 1, 1), val=[1., 2., 3., 4.])
    for lazy in (False, True):
        f = [z.fuse_legs(axes=((0, 1), (2, 3)), mode="hard") for z in (ref, x, y)]
        if lazy:
            f = [z.transpose((1, 0)) for z in f]
        embed_checks(ctx, f[0], f[1], f[2], dict(base, stream="fixed-embed-hard", lazy=lazy))
    # --- MPO made of DoublePepsTensors (transfer matrix of a PEPS)
    psi, rec = gen_peps(rng, geometry=gen_geometry(rng, "square-obc"), sid="Z2", physical=True)
    try:
        tm = psi.transfer_mpo(n=0, dirn="v")
    except Exception as ex:  # not part of the property
        ctx.notes.append(f"transfer_mpo not available for the fixed case: {_exc(ex)}")
        tm = None
    if tm is not None:
        generic_roundtrips(ctx, tm, lambda p, q: mps_diffs(p, q, strict=True), "mpo-dpt", dict(base, stream="fixed-transfer-mpo", recipe=rec), tmp)


def run(ctx):
    tmp = Tmp()
    try:
        with warnings.catch_warnings():
            warnings.simplefilter("ignore", DeprecationWarning)
            _run(ctx, tmp)
    finally:
        tmp.close()


def _run(ctx, tmp):
    yastn = Y()
    import yastn.tn.fpeps as fpeps
    rng = ctx.rng
    quick = ctx.quick
    base = {"seed": ctx.seed, "tier": ctx.tier}
    ctx.extra["yastn_path"] = os.path.dirname(yastn.__file__)
    ctx.rule = ("objects from a structured generator (tensors in dense/Z2/Z3/U1/U1xU1/Z2xU1/U1xU1xZ2, bosonic and fermionic, that are "
                "diagonal / hard-fused (nested) / meta-fused / lazily transposed / block-less / complex / with missing blocks / charged; "
                "MPS, MPO, MpoPBC with and without central block and non-unit factor; PEPS on all lattice classes; Peps2Layers; "
                "DoublePepsTensor; EnvCTM/EnvBP/EnvBoundaryMPS) x levels 0,1,2 x {identity, split+combine, numpy save/load, HDF5, legacy "
                "dictionaries}; integer-valued data so that all comparisons are exact; a case is non-trivial if the object has at "
                "least one block; distinct by generation recipe")
    ctx.assumptions += ["numpy.save/load (pickle) and h5py are exercised, not modelled",
                        "dtype handling and the torch backend are outside the Lean model (dtype is checked on the real code)"]
    B = Budget(ctx, 45 if quick else 600)
    n_t, n_m, n_p, n_d, n_e, n_v, n_s = (180, 48, 35, 24, 12, 160, 200) if quick else (1500, 400, 300, 200, 60, 1500, 1500)

    fixed_corpus(ctx, tmp, base)

    # ---- tensors ----------------------------------------------------------------------------------
    wants = [None, None, "diag", "empty", "missing", "hard", "meta", "nested", "lazy", "complex", None, "lazy"]
    tensors_for_model, dicts_for_model = [], []
    for i in range(n_t):
        if B.over(0.35):
            ctx.notes.append(f"tensor stream cut at {i}/{n_t} (time)")
            break
        sid = SYMS[i % len(SYMS)] if i < 4 * len(SYMS) else None
        a, rec = gen_tensor(rng, sid=sid, want=wants[i % len(wants)])
        case = dict(base, stream="tensor", i=i, recipe=rec)
        fs = features(a)
        for f in fs or ["plain"]:
            ctx.count("tensor:" + f)
        ctx.count("tensor-sym:" + rec["sym"])
        ctx.case({"stream": "tensor", "recipe": rec}, nontrivial=a.size > 0)
        n = tensor_roundtrips(ctx, a, case, tmp)
        n += tensor_legacy_and_hdf5(ctx, a, case, tmp)
        ctx.count("comparisons", n)
        if i % 6 == 0 and rec["sym"] != "Z2xU1" or i < 8:
            tensors_for_model.append(a)
        if i % 10 == 0:
            dicts_for_model.append(a.to_dict(level=1 + i % 2))

    # ---- MPS / MPO --------------------------------------------------------------------------------
    for i in range(n_m):
        if B.over(0.5):
            ctx.notes.append(f"mps stream cut at {i}/{n_m} (time)")
            break
        psi, rec = gen_mps(rng)
        case = dict(base, stream="mps", i=i, recipe=rec)
        ctx.count("mps:" + rec["kind"] + (":central" if "pC" in rec else "") + (":factor" if rec["factor"] not in ("1", "1.0") else ""))
        ctx.case({"stream": "mps", "recipe": rec})
        ctx.count("comparisons", mps_roundtrips(ctx, psi, case, tmp))
        if i % 4 == 0:
            d = psi.to_dict(level=2)
            dicts_for_model.append(d)
            split_order_oracle(ctx, d, rng, case)

    # ---- PEPS -------------------------------------------------------------------------------------
    gkinds = ["square-obc", "square-infinite", "square-cylinder", "checkerboard", "rectangular", "triangular-default", "triangular-other"]
    for i in range(n_p):
        if B.over(0.65):
            ctx.notes.append(f"peps stream cut at {i}/{n_p} (time)")
            break
        psi, rec = gen_peps(rng, geometry=gen_geometry(rng, gkinds[i % len(gkinds)]))
        case = dict(base, stream="peps", i=i, recipe=rec)
        ctx.count("peps:" + rec["geometry"])
        ctx.case({"stream": "peps", "recipe": rec})
        kn = known_triangular(psi.geometry)
        ctx.count("comparisons", generic_roundtrips(ctx, psi, peps_any_diffs, "peps", case, tmp, known=kn))
        if i % 3 == 0 and rec["mode"] != "nophys":
            bra = psi.copy()
            for k, t in bra._site_data.items():   # a bra that differs from the ket
                bra._site_data[k] = fill(t, rng)
            p2 = fpeps.Peps2Layers(psi, bra)
            ctx.count("peps2layers")
            ctx.count("comparisons", generic_roundtrips(ctx, p2, peps_any_diffs, "peps2layers", case, tmp, known=kn))
        if i % 5 == 0:
            d = psi.to_dict(level=1)
            dicts_for_model.append(d)
            split_order_oracle(ctx, d, rng, case)
        if i % 7 == 0:   # legacy dictionary of a PEPS
            try:
                with warnings.catch_warnings():
                    warnings.simplefilter("ignore")
                    d = psi.save_to_dict()
                phi = fpeps.load_from_dict(psi.config, via_npsave(d, tmp))
                diffs = [f"site {s}: {x}" for s in psi.sites() for x in (light_diffs(psi[s], phi[s]))]
                g = geometry_diffs(psi.geometry, phi.geometry)
                if g and kn(0, "legacy", None, g) == K_D2:
                    ctx.fail("oracle", K_D2, f"legacy dictionary: {g[:2]}", case=case, concrete=True)
                elif g or diffs:
                    ctx.fail("oracle", "c17:peps-roundtrip:legacy", f"save_to_dict/load_from_dict: {(g + diffs)[:3]}", case=case, concrete=True)
            except Exception as e:
                if type(e).__name__ == "AxisError" and any(len(psi[st].struct.t) == 0 for st in psi.sites()):
                    ctx.count("known:legacy-empty")
                    ctx.fail("oracle", K_LEGEMPTY, f"legacy dictionary of a PEPS with a block-less site tensor raised {_exc(e)}", case=case, concrete=True)
                elif type(psi.geometry).__name__ == "TriangularLattice" and kn(0, "legacy", e, None) == K_D2:
                    ctx.fail("oracle", K_D2, f"legacy dictionary raised {_exc(e)}", case=case, concrete=True)
                else:
                    ctx.fail("oracle", "c17:peps-roundtrip:legacy", f"save_to_dict/load_from_dict raised {_exc(e)}", case=case, concrete=True)

    # ---- DoublePepsTensor ---------------------------------------------------------------------------
    for i in range(n_d):
        if B.over(0.72):
            break
        dpt, rec = gen_dpt(rng)
        case = dict(base, stream="dpt", i=i, recipe=rec)
        ctx.count("dpt" + (":op" if rec["op"] else "") + (":swaps" if rec["swaps"] else ""))
        ctx.case({"stream": "dpt", "recipe": rec})
        ctx.count("comparisons", generic_roundtrips(ctx, dpt, dpt_diffs, "dpt", case, tmp))
        if i % 4 == 0:
            dicts_for_model.append(dpt.to_dict(level=2))

    # ---- environments -------------------------------------------------------------------------------
    ekinds = ["EnvCTM", "EnvBP", "EnvBoundaryMPS", "EnvCTM"]
    for i in range(n_e):
        if B.over(0.82):
            ctx.notes.append(f"env stream cut at {i}/{n_e} (time)")
            break
        try:
            env, rec = gen_env(rng, ekinds[i % len(ekinds)], variant=i // len(ekinds))
        except Exception as e:   # building the environment (contractions, not serialisation) failed: not this property
            ctx.count("env-generation-failed:" + type(e).__name__)
            continue
        case = dict(base, stream="env", i=i, recipe=rec)
        ctx.count("env:" + rec["env"])
        ctx.case({"stream": "env", "recipe": rec})
        ctx.count("comparisons", generic_roundtrips(ctx, env, env_diffs, "env", case, tmp, known=known_triangular(env.geometry),
                                                    levels=(0, 1, 2) if i % 2 == 0 else (2,)))
        if i % 2 == 0:
            d = env.to_dict(level=2)
            dicts_for_model.append(d)
            split_order_oracle(ctx, d, rng, case)

    # ---- to_dict(meta=...) of a tensor held with a pending transposition that maps the stored structure onto itself ----------
    for i in range(60 if quick else 600):
        if B.over(0.9):
            break
        embed_lazy_symmetric(ctx, rng, dict(base, stream="embed-lazy-symmetric", i=i))

    # ---- to_dict(meta=...) ----------------------------------------------------------------------------
    emb_cases = []
    for i in range(n_v):
        if B.over(0.92):
            ctx.notes.append(f"embed stream cut at {i}/{n_v} (time)")
            break
        ref, x, y, rec = gen_embed_case(rng)
        case = dict(base, stream="embed", i=i, recipe=rec)
        ctx.case({"stream": "embed", "recipe": rec}, nontrivial=ref.size > 0)
        ctx.count("embed:" + ("diag" if rec["diag"] else "fused/lazy" if rec["ops"] != "[]" else "plain"))
        meta = embed_checks(ctx, ref, x, y, case)
        if meta is not None:
            ctx.count("rejections", rejection_checks(ctx, rng, ref, x, meta, case))
        if rec["ops"] == "[]" and not rec["diag"] and not rec["complex"] and len(emb_cases) < 80:
            emb_cases.append((ref, x, False))
            if len(ref.struct.t) >= 2:   # a block outside meta
                small = yastn.Tensor(ref.config, s=ref.struct.s, n=ref.struct.n)
                for t, D in list(zip(ref.struct.t, ref.struct.D))[1:]:
                    small.set_block(ts=t, Ds=D, val="ones")
                emb_cases.append((small, ref, True))

    # ---- correspondence with the Lean model --------------------------------------------------------------
    if ctx.drv is None:
        ctx.notes.append("model driver not available: correspondence skipped")
        return
    split_correspondence(ctx, dicts_for_model, "real")
    synth = [synth_dict(rng, malformed=(i % 5 == 0)) for i in range(n_s)]
    split_correspondence(ctx, synth, "synthetic")
    embed_correspondence(ctx, emb_cases)
    todict_correspondence(ctx, tensors_for_model[:30 if quick else 150])


def search(ctx, broken, budget_s):
    """the eager oracles of run() already evaluated the property on the real code for every generated object"""
    ctx.notes.append("failing-input search = the eager round-trip oracles over the generated objects (already run)")


def replay(ctx, obj):
    import random
    case = (obj.get("finding") or {}).get("case") or {}
    seed = case.get("seed", ctx.seed)
    tier = case.get("tier", ctx.tier)
    ctx.rng = random.Random(f"{ctx.pid}-{seed}")
    ctx.quick = tier == "quick"
    ctx.notes.append(f"replay: re-running the generator with seed={seed} tier={tier}; the stored case is stream={case.get('stream')} i={case.get('i')}")
    run(ctx)
