"""C01 — Tensor algebra agrees with dense linear algebra.

Correspondence: random programs (tgen/tprog) are executed on the real code; after EVERY step the
real result's observables (signature, charge, block keys/shapes/values through public block
access) are compared exactly (integer data) with the Lean model's result for the same step.
Eager oracles on the real code: NumPy on dense operands (`to_numpy(legs=…)`) for every step;
block access / to_numpy / to_nonsymmetric / get_legs describe one array; `in` agrees with `[]`.
"""
import time

import numpy as np

from .. import tgen, tprog

LEAN_TARGETS = ["YProofs.Props.C01", "YProofs.Props.C01Dot", "YProofs.Props.C01DotGen", "YProofs.Props.C01Vdot", "YProofs.Props.C01Trace", "YProofs.Props.C01Broadcast", "YProofs.Props.C01Legs", "YProofs.Props.C01Mask", "YProofs.Props.C01Diag", "YProofs.Props.C01Assoc", "YProofs.Props.C01Prog"]
LEVEL = "proof"
TRANSLATORS = ["gen_sym"]
DRIVER = "drv_c01"

OPS = ["tensordot", "tensordot", "tensordot", "add", "sub", "transpose", "conj", "trace", "smul", "neg", "vdot", "add_leg",
       "remove_leg", "moveaxis", "conj_blocks", "flip_signature", "copy", "consume_transpose", "matmul", "addmany",
       "ncon", "einsum", "diag", "broadcast", "apply_mask", "fuse", "remove_zero_blocks", "elementwise"]


def program_budget(ctx):
    return (2400, (2, 8)) if ctx.quick else (20000, (2, 12))


def zero_extras(ro, mo):
    """blocks the real result holds in addition to the model's, provided they are all zero (which zero blocks a
    contraction creates depends on tensordot_policy and is not an observable of the property); else None"""
    if ro.get("kind") != "tensor" or ro.get("opaque") or "blocks" not in mo:
        return None
    km = {tuple(map(tuple, b["t"])) for b in mo["blocks"]}
    extra = [b for b in ro["blocks"] if tuple(map(tuple, b["t"])) not in km]
    if not extra or any(any(b["re"]) or any(b.get("im", [])) for b in extra):
        return None
    return [{"t": b["t"], "D": b["D"]} for b in extra]


def run_model(ctx, g):
    """run the program on the model; where the real result carries extra all-zero blocks the model value is padded with
    them (a `pad` step) so that both sides continue from the same structure.  Returns (response, real-step -> model-id)."""
    if not ctx.drv:
        return None, {}
    pads = {}
    for _ in range(len(g.steps) + 1):
        steps, idmap = [], {}
        for k, st in enumerate(g.steps):
            m = dict(st.model)
            m["a"] = [idmap[i] for i in m.get("a", [])]
            steps.append(m)
            idmap[k] = len(steps) - 1
            if k in pads:
                steps.append({"f": "pad", "a": [idmap[k]], "zero": pads[k]})
                idmap[k] = len(steps) - 1
        mod = ctx.drv.call({"op": "prog", "inputs": [], "steps": steps})
        if not mod.get("ok"):
            return mod, idmap
        again = False
        for k, st in enumerate(g.steps):
            if k in pads or st.exc is not None:
                continue
            ro = tprog.real_obs(g, st)
            z = zero_extras(ro, tgen.model_obs(mod["vals"][idmap[k]]))
            if z:
                pads[k] = z
                ctx.count("zero-block-resync")
                again = True
                break
        if not again:
            return mod, idmap
    return mod, idmap


def run_one(ctx, gen_kwargs, depth, check_access=True, tag="c01"):
    """generate + execute one program; compare with the model; returns the ProgGen."""
    rng = ctx.rng
    setup = gen_kwargs.pop('setup', None)
    g = tprog.ProgGen(rng, ops=gen_kwargs.pop('ops', OPS), **gen_kwargs)
    if setup:
        setup(g)
    t0 = time.time()
    from ..core import time_limit, CaseTimeout
    try:
        with time_limit(30):
            for _ in range(depth):
                g.step()
                if time.time() - t0 > 15:
                    ctx.count("case-time-limit")
                    break
    except CaseTimeout:
        # a runaway case (e.g. a huge dense reference) is an infrastructure event, never a violation
        ctx.count("program-timeout")
        ctx.notes.append(f"program aborted by the 30 s wall-clock guard after {len(g.steps)} steps ({gen_kwargs})")
        return g
    mod, idmap = run_model(ctx, g)
    for oe in getattr(g, "oracle_errors", []):
        ctx.count("oracle-reference-not-built:" + oe.split(":")[0])
        if len(ctx.notes) < 10:
            ctx.notes.append("oracle reference not built: " + oe)
    case_id = {"sym": gen_kwargs["symname"], "policy": gen_kwargs.get("policy"), "fusion": gen_kwargs.get("fusion"),
               "cplx": gen_kwargs.get("cplx"), "steps": [s.model for s in g.steps]}
    nontrivial = False
    for k, st in enumerate(g.steps):
        ctx.count(f"op:{st.opname}")
        if st.model.get("f") not in ("input", "opaque", "id", "pad"):
            ctx.count(f"modelled-step:{st.model.get('f')}")   # executed by the Lean model (not a re-synchronised input)
        ro = tprog.real_obs(g, st)
        if st.malformed:
            ctx.count("malformed")
        if ro["kind"] == "err":
            ctx.count(f"real-rejects:{ro['err']}")
        if ro["kind"] == "tensor":
            if len(ro["blocks"]) >= 2:
                nontrivial = True
            if len(ro["blocks"]) == 0:
                ctx.count("empty-result")
        # ---- oracle: NumPy reference on the real code --------------------------------------
        why = tprog.check_oracle(g, st)
        if why:
            ctx.fail("oracle", f"{tag}:dense:{st.opname.split('_')[0]}",
                     f"step {k} ({st.opname}) of program: {why}", case={"program": case_id, "step": k}, concrete=True)
        # ---- oracle: block access / dense / legs consistency --------------------------------
        if check_access and ro["kind"] == "tensor":
            why = access_consistent(g, st.real)
            if why:
                ctx.fail("oracle", f"{tag}:access:{why[0]}", f"step {k} ({st.opname}): {why[1]}",
                         case={"program": case_id, "step": k}, concrete=True)
        # ---- correspondence with the model ---------------------------------------------------
        if mod is not None:
            if not mod.get("ok"):
                ctx.fail("correspondence", f"{tag}:model-error", f"model driver error: {mod.get('err')}", case=case_id)
                break
            mv = mod["vals"][idmap[k]]
            mo = tgen.model_obs(mv)
            if mv.get("kind") == "err" and str(mv.get("err", "")).startswith("dep"):
                continue  # depends on a rejected value
            if ro["kind"] == "err":
                if mv.get("kind") != "err":
                    ctx.fail("correspondence", f"{tag}:accept:{st.opname}",
                             f"step {k} ({st.opname}): real code rejects ({ro['err']}: {ro['msg']}) but the model computes a result",
                             case={"program": case_id, "step": k})
                continue
            if mv.get("kind") == "err":
                ctx.fail("correspondence", f"{tag}:accept:{st.opname}",
                         f"step {k} ({st.opname}): model rejects ({mv.get('err')}) but the real code computes a result",
                         case={"program": case_id, "step": k})
                continue
            if ro.get("opaque") or ro["kind"] == "other":
                continue
            if ro["kind"] == "num":
                if mo.get("num") != ro["num"]:
                    ctx.fail("correspondence", f"{tag}:value:{st.opname}", f"step {k} ({st.opname}): number real={ro['num']} model={mo.get('num')}",
                             case={"program": case_id, "step": k})
                continue
            diff = first_diff(ro, mo)
            if diff:
                ctx.fail("correspondence", f"{tag}:value:{st.opname}", f"step {k} ({st.opname}): {diff}", case={"program": case_id, "step": k})
            if not mv.get("wf", True):
                ctx.fail("correspondence", f"{tag}:model-wf:{st.opname}", f"step {k} ({st.opname}): model result is not well-formed", case={"program": case_id, "step": k})
    ctx.case({"sym": gen_kwargs["symname"], "policy": gen_kwargs.get("policy"), "cplx": gen_kwargs.get("cplx"),
              "ops": [s.opname for s in g.steps]}, nontrivial=nontrivial)
    return g


def first_diff(ro, mo):
    for f in ("sym", "s", "n", "diag"):
        if ro[f] != mo[f]:
            return f"{f}: real={ro[f]} model={mo[f]}"
    kr = [b["t"] for b in ro["blocks"]]
    km = [b["t"] for b in mo["blocks"]]
    if kr != km:
        return f"block keys: real={kr} model={km}"
    for br, bm in zip(ro["blocks"], mo["blocks"]):
        if br["D"] != bm["D"]:
            return f"block {br['t']} shape real={br['D']} model={bm['D']}"
        if br["re"] != bm["re"] or br.get("im", []) != bm.get("im", []):
            return f"block {br['t']} values differ: real={br['re'][:12]} model={bm['re'][:12]}"
    return None


def access_consistent(g, a):
    """Block access, to_numpy, to_nonsymmetric and get_legs describe one and the same array."""
    yastn = g.yastn
    legs = a.get_legs(native=True)
    try:
        dense = a.to_numpy(native=True)
    except Exception as e:  # noqa: BLE001
        return ("to_numpy", f"to_numpy raised {type(e).__name__}: {e}")
    if tuple(dense.shape) != tuple(sum(l.D) for l in legs) and not a.isdiag:
        return ("shape", f"to_numpy shape {dense.shape} != leg dimensions {[sum(l.D) for l in legs]}")
    # independent re-assembly from blocks and legs
    ref = np.zeros(dense.shape, dtype=dense.dtype)
    offs = []
    for l in legs:
        o, d = 0, {}
        for t, D in zip(l.t, l.D):
            d[t] = (o, o + D); o += D
        offs.append(d)
    nsym = a.config.sym.NSYM
    keys = tgen.logical_keys(a)
    for key in keys:
        flat = tuple(x for c in key for x in c)
        try:
            blk = np.asarray(a[flat])
        except Exception as e:  # noqa: BLE001
            return ("getitem", f"a[{flat}] raised {type(e).__name__} for an existing block")
        if a.isdiag:
            blk = np.diag(blk)
        sl = tuple(slice(*offs[i][tuple(c)]) for i, c in enumerate(key))
        if ref[sl].shape != blk.shape:
            return ("blockshape", f"block {flat} has shape {blk.shape}, legs say {ref[sl].shape}")
        ref[sl] = blk
        if flat not in a and not (a.isdiag and flat[:nsym] in a):
            return ("contains", f"`{flat} in a` is False although a[{flat}] exists (trans={a.trans})")
    if not np.array_equal(ref, dense):
        return ("dense", "to_numpy differs from the array re-assembled from a[key] and get_legs")
    # a key that does not exist must be reported absent by both access paths
    import itertools
    combos = itertools.islice(itertools.product(*[l.t for l in legs]), 40)
    present = {tuple(x for c in key for x in c) for key in keys}
    for combo in combos:
        flat = tuple(x for c in combo for x in c)
        if flat in present or len(flat) == 0:
            continue
        try:
            a[flat]
            return ("getitem-absent", f"a[{flat}] returns a block that is not part of the tensor")
        except yastn.YastnError:
            pass
        if flat in a and not a.isdiag:
            return ("contains", f"`{flat} in a` is True although a[{flat}] does not exist (trans={a.trans})")
        break
    # reverse=True: the same array with the sectors of every leg placed in descending order of charges
    if len(keys) > 0:     # (tensors without blocks: see the tag nonsym-empty below)
        roffs = []
        for l in legs:
            o, d = 0, {}
            for t, D in zip(reversed(l.t), reversed(l.D)):
                d[t] = (o, o + D); o += D
            roffs.append(d)
        rref = np.zeros(dense.shape, dtype=dense.dtype)
        for key in keys:
            blk = np.asarray(a[tuple(x for c in key for x in c)])
            rref[tuple(slice(*roffs[i][tuple(c)]) for i, c in enumerate(key))] = np.diag(blk) if a.isdiag else blk
        try:
            rdense = a.to_numpy(native=True, reverse=True)
            rns = a.to_nonsymmetric(native=True, reverse=True).to_numpy()
        except Exception as e:  # noqa: BLE001
            return ("reverse", f"to_numpy/to_nonsymmetric(reverse=True) raised {type(e).__name__}: {e}")
        if rdense.shape != rref.shape or not np.array_equal(rdense, rref):
            return ("reverse", "to_numpy(reverse=True) differs from the array re-assembled from a[key] with the sectors of get_legs in descending order")
        if rns.shape != rref.shape or not np.array_equal(rns, rref):
            return ("reverse", "to_nonsymmetric(reverse=True) differs from the array re-assembled from a[key] with the sectors of get_legs in descending order")
    # to_nonsymmetric: same array, no symmetry
    tag = "nonsym" if len(keys) > 0 else "nonsym-empty"
    try:
        ns = a.to_nonsymmetric()
        if not np.array_equal(ns.to_numpy(), a.to_numpy()):
            return (tag, "to_nonsymmetric().to_numpy() differs from to_numpy()")
    except Exception as e:  # noqa: BLE001
        return (tag, f"to_nonsymmetric()/its to_numpy raised {type(e).__name__}: {e} (tensor with {len(keys)} blocks)")
    return None


def run(ctx):
    rng = ctx.rng
    nprog, (dmin, dmax) = program_budget(ctx)
    ctx.rule = ("random type-directed programs over {tensordot (all conj flags, outer, @), add, sub, add(amplitudes), transpose (lazy or "
                "materialised), moveaxis, conj, conj_blocks, flip_signature, neg, scalar mul, trace, vdot, add_leg, remove_leg, copy/clone, "
                "consume_transpose, broadcast, apply_mask, diag (all three executed by the Lean model too), element-wise functions, ncon/einsum, fuse; "
                "ill-defined contractions/traces that must be rejected} on tensors of all 7 symmetries, ranks 0-6, real/complex integer data, random block subsets; ~12% malformed "
                "steps; after every step real observables == model observables (exact) and == NumPy on dense operands; a program is "
                "non-trivial if some step result has >=2 blocks; distinct by (sym, policy, op sequence); plus view relations R1/R3 (harness/views.py): the same "
                "public operation on an operand held with a pending transposition / meta- or hard-fused legs and on its consumed copy agree exactly")
    budget = 50 if ctx.quick else 800
    for it in range(nprog):
        if ctx.elapsed() > budget:
            ctx.count("stopped-by-time-budget")
            break
        sym = rng.choice(tgen.SYM_NAMES)
        kw = dict(symname=sym, policy=rng.choice(tgen.POLICIES), fusion="hard", cplx=rng.random() < 0.3)
        ctx.count(f"sym:{sym}")
        ctx.count(f"policy:{kw['policy']}")
        run_one(ctx, kw, rng.randint(dmin, dmax))
    # the same operations on operands held lazily / with meta- or hard-fused legs (no model: exact metamorphic relations)
    from .. import views
    views.run(ctx, 300 if ctx.quick else 5000, 20 if ctx.quick else 250, which=("R1", "R1", "R1", "R3"))


def search(ctx, broken, budget):
    """On a broken proof/correspondence: the NumPy oracles already ran eagerly on every step of every program;
    run additional fresh programs (oracle only) within the budget."""
    t0 = time.time()
    rng = ctx.rng
    drv, ctx.drv = ctx.drv, None
    try:
        while time.time() - t0 < budget and not any(f.concrete for f in ctx.findings):
            sym = rng.choice(tgen.SYM_NAMES)
            run_one(ctx, dict(symname=sym, policy=rng.choice(tgen.POLICIES), fusion="hard", cplx=rng.random() < 0.3), rng.randint(3, 8))
    finally:
        ctx.drv = drv


def replay(ctx, obj):
    run(ctx)
