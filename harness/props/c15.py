"""C15 — Operations never modify their operands; copies are independent.

Snapshot monitor: in random programs over the public Tensor API (all operations of the C01/C02/C14
generators), MPS/MPO methods and PEPS / DoublePepsTensor methods, EVERY pre-existing object is snapshotted
(bytes of `_data`, struct, slices, hfs, mfs, trans; containers: key sets, pC, factor, per-tensor
snapshots; DoublePepsTensor: op, swaps, trans) before and after EVERY call that returns a new object; any
difference is the failing input.  In-place API (`a[key] = x`, `set_block`, methods ending in `_`) is
exercised on sources of copy()/clone()/shallow_copy(): copies must be unaffected, and the set of objects
that observe an item assignment must be exactly the objects sharing the receiver's array — this aliasing
structure is compared with the Lean heap model (correspondence).
"""
import numpy as np

from .. import tgen, tprog
from . import c01

LEAN_TARGETS = ["YProofs.Props.C15"]
LEVEL = "proof"
TRANSLATORS = []
DRIVER = "drv_c15"


# ------------------------------------------------------------------------------------------------------------
# snapshots
# ------------------------------------------------------------------------------------------------------------
def snap_tensor(a):
    return (a._data.tobytes(), str(a._data.dtype), a.struct, a.slices, a.hfs, a.mfs, a.trans, a.isdiag, id(a.config.sym))


def _has_data(sv):
    """does the snapshot contain tensor / array data?"""
    if not isinstance(sv, tuple) or not sv:
        return False
    if sv[0] in ("T", "M", "D", "A"):
        return True
    return any(_has_data(y) for y in sv[1:] if isinstance(y, tuple))


def snap(x, _seen=None):
    import yastn
    if isinstance(x, yastn.Tensor):
        return ("T",) + snap_tensor(x)
    if hasattr(x, "A") and hasattr(x, "pC") and hasattr(x, "factor"):   # MpsMpoOBC
        return ("M", x.N, x.nr_phys, x.pC, repr(x.factor), tuple(sorted((repr(k), snap_tensor(v)) for k, v in x.A.items())))
    if type(x).__name__ == "DoublePepsTensor":
        return ("D", snap_tensor(x.ket), snap_tensor(x.bra), tuple(x.trans), None if x.op is None else snap_tensor(x.op), tuple(sorted(x.swaps.items())))
    if type(x).__name__ in ("Peps", "Lattice"):
        return ("P", repr(x.geometry), tuple(sorted((repr(k), snap(v, _seen)) for k, v in x._site_data.items() if v is not None)),
                tuple(sorted((repr(k), snap(v, _seen)) for k, v in getattr(x, "_patch", {}).items())))
    if type(x).__name__ == "Peps2Layers":
        return ("P2", snap(x.ket, _seen), None if x._bra is None else snap(x._bra, _seen))
    if isinstance(x, np.ndarray):
        return ("A", x.tobytes(), str(x.dtype), x.shape)
    if isinstance(x, (list, tuple)):
        return ("L",) + tuple(snap(v, _seen) for v in x)
    if isinstance(x, dict):
        return ("Dict",) + tuple(sorted((repr(k), snap(v, _seen)) for k, v in x.items()))
    if (type(x).__module__ or "").startswith("yastn.") and hasattr(x, "__dict__") and not isinstance(x, type) and not callable(x):
        # any other yastn object (environments, their per-site records, geometries): all its attributes, recursively
        _seen = set() if _seen is None else _seen
        if id(x) in _seen:
            return ("cycle", type(x).__name__)
        _seen.add(id(x))
        # attributes are read through the public access path (per-site records derive some fields lazily on first access) and only
        # those that hold tensor data are part of the observable value (scratch attributes such as the window of the last
        # measurement are not)
        items = []
        for k in sorted(vars(x)):
            try:
                v = getattr(x, k)
            except Exception:  # noqa: BLE001
                continue
            if callable(v):
                continue
            sv = snap(v, _seen)
            if _has_data(sv):
                items.append((k, sv))
        _seen.discard(id(x))
        return ("Obj", type(x).__name__, tuple(items))
    return ("O", repr(x))


# ------------------------------------------------------------------------------------------------------------
def run(ctx):
    ctx.rule = ("(A) random Tensor programs (all ops of the C01/C14 generators incl. ncon, fuse, svd, qr, masks): every pre-existing value snapshotted before/after "
                "every step; (B) in-place API on sources of copy/clone/shallow_copy/transpose/conj…: observers of an item assignment == objects sharing the array == "
                "Lean heap model; (C) MPS/MPO methods and algorithms; (D) PEPS / DoublePepsTensor methods; non-trivial = the step has >=1 tensor operand with blocks; (A2) table of ~70 value-returning public functions: operand, a view sharing its storage, the second operand and dictionaries handed to de-serialisers bit-identical afterwards; MPS states with a central block; option dictionaries and operator/projector containers passed to algorithms and environment methods are operands too")
    part_tensor_programs(ctx)
    part_function_table(ctx)
    part_inplace(ctx)
    part_mps(ctx)
    part_peps(ctx)


# ---- (A) ------------------------------------------------------------------------------------------------------
def part_tensor_programs(ctx):
    rng = ctx.rng
    nprog = 2500 if ctx.quick else 20000
    t0 = ctx.elapsed()
    budget = 28 if ctx.quick else 300
    from .c14 import OPS as OPS14
    ops = sorted(set(c01.OPS + OPS14 + ["svd", "qr"]))
    for it in range(nprog):
        if ctx.elapsed() - t0 > budget:
            ctx.count("A:stopped-by-time-budget")
            break
        sym = rng.choice(tgen.SYM_NAMES)
        g = tprog.ProgGen(rng, sym, policy=rng.choice(tgen.POLICIES), fusion=rng.choice(["hard", "meta"]), cplx=rng.random() < 0.3,
                          ops=ops, max_rank=5, malformed_rate=0.08)
        snaps = []
        from ..core import time_limit, CaseTimeout
        try:
            with time_limit(25):
                for _ in range(rng.randint(3, 9)):
                    n0 = len(g.vals)
                    g.step()
                    # every value that existed before this step must be bit-identical
                    for k in range(n0):
                        if snaps[k] is not None and snap(g.vals[k]) != snaps[k]:
                            st = g.steps[-1]
                            ctx.fail("oracle", f"c15:tensor:{st.opname.split('_')[0]}",
                                     f"value {k} changed during step {len(g.steps) - 1} ({st.opname}, operands {list(st.args)}): an operation that returns a new object modified a pre-existing tensor",
                                     case={"sym": sym, "steps": [s.model0 or s.model for s in g.steps], "ops": [s.opname for s in g.steps], "changed": k}, concrete=True)
                            snaps[k] = snap(g.vals[k])
                    for k in range(n0, len(g.vals)):
                        snaps.append(snap(g.vals[k]) if g.vals[k] is not None else None)
        except CaseTimeout:
            ctx.count("A:program-timeout")
        for st in g.steps:
            ctx.count(f"A:op:{st.opname}")
        ctx.case({"part": "A", "sym": sym, "ops": [s.opname for s in g.steps]}, nontrivial=any(len(s.args) > 0 for s in g.steps))


# ---- (A2) -----------------------------------------------------------------------------------------------------
def part_function_table(ctx):
    """every public function/method of the Tensor API that returns a value (numbers, factors, spectra, masks, dictionaries, arrays)
    leaves its operand(s) bit-identical — also the tensors that SHARE storage with an operand (views taken before the call)"""
    import yastn
    rng = ctx.rng
    ncase = 260 if ctx.quick else 4000
    t0 = ctx.elapsed()
    for it in range(ncase):
        if ctx.elapsed() - t0 > (14 if ctx.quick else 200):
            ctx.count("A2:stopped-by-time-budget")
            break
        sym = rng.choice(tgen.SYM_NAMES)
        cplx = rng.random() < 0.3
        cfg = tgen.make_cfg(sym, rng.choice(tgen.POLICIES), "hard", dtype="complex128" if cplx else "float64")
        kind = rng.choice(["matrix", "matrix", "general", "diag", "diag", "hermitian", "mask"])
        l = tgen.rand_leg(rng, cfg, sym, max_sectors=3, max_dim=3)
        if kind == "general":
            legs = [tgen.rand_leg(rng, cfg, sym, max_sectors=3, max_dim=3) for _ in range(rng.randint(1, 4))]
            a = tgen.rand_tensor(rng, cfg, sym, legs, cplx=cplx, drop=0.2, allow_empty=False)
        elif kind in ("matrix", "hermitian"):
            a = tgen.rand_tensor(rng, cfg, sym, [l, l.conj()], cplx=cplx, n=cfg.sym.zero(), drop=0.0, allow_empty=False)
            if kind == "hermitian":
                a = a + a.transpose((1, 0)).conj()
        else:
            a = yastn.eye(cfg, legs=[l, l.conj()], isdiag=True)
            # un-normalised positive spectrum (valid input of entropy / truncation_mask), or a boolean mask
            a._data = (np.array([rng.random() < 0.6 for _ in range(a.size)], dtype=bool) if kind == "mask"
                       else np.array([rng.randint(1, 9) for _ in range(a.size)], dtype=np.float64))
        if a.size == 0:
            continue
        if rng.random() < 0.4 and a.ndim >= 2 and not a.isdiag:
            p = list(range(a.ndim)); rng.shuffle(p)
            a = a.transpose(tuple(p))              # pending permutation
        view = rng.choice([lambda x: x.shallow_copy(), lambda x: x.flip_signature(), lambda x: x.transpose(tuple(range(x.ndim))[::-1]),
                           lambda x: x.conj_blocks() if False else x.drop_leg_history()])(a)   # shares storage with `a`
        b = tgen.rand_tensor(rng, cfg, sym, list(a.get_legs()), cplx=cplx, n=a.n, drop=0.2, allow_empty=True) if not a.isdiag else None
        nd = a.ndim
        half = (tuple(range(nd // 2)), tuple(range(nd // 2, nd))) if nd >= 2 else None
        table = [("norm", lambda: a.norm()), ("norm-inf", lambda: a.norm(p="inf")), ("to_numpy", lambda: a.to_numpy()), ("to_dense", lambda: a.to_dense()),
                 ("to_nonsymmetric", lambda: a.to_nonsymmetric()), ("to_dict", lambda: a.to_dict()), ("save_to_dict", lambda: a.save_to_dict()),
                 ("split_data_and_meta", lambda: yastn.split_data_and_meta(a.to_dict(level=0))), ("get_legs", lambda: a.get_legs()),
                 ("is_consistent", lambda: a.is_consistent()), ("abs-compare", lambda: (abs(a) > 1) if hasattr(a, "__abs__") else None),
                 ("exp", lambda: a.exp(step=0.1)), ("sqrt-abs", lambda: abs(a).sqrt()), ("real", lambda: a.real()), ("imag", lambda: a.imag()),
                 ("reciprocal", lambda: a.reciprocal(cutoff=0.5)), ("rsqrt", lambda: abs(a).rsqrt(cutoff=0.5)), ("pow", lambda: abs(a) ** 2),
                 ("conj", lambda: a.conj()), ("flip_charges", lambda: a.flip_charges()), ("switch_signature", lambda: a.switch_signature(axes=0)),
                 ("remove_zero_blocks", lambda: a.remove_zero_blocks()), ("trace-all", lambda: a.trace(axes=(0, 1)) if nd == 2 else None),
                 ("vdot", lambda: yastn.vdot(a, a)), ("allclose", lambda: yastn.allclose(a, a)), ("are_independent", lambda: yastn.are_independent(a, view)),
                 ("item", lambda: [np.asarray(a[t]).sum() for t in a.get_blocks_charge()]), ("to_raw_tensor", lambda: a.to_raw_tensor() if len(a.struct.t) == 1 else None),
                 ("copy", lambda: a.copy()), ("clone", lambda: a.clone()), ("mul", lambda: 2 * a), ("div", lambda: a / 2), ("neg", lambda: -a)]
        if b is not None:
            table += [("add", lambda: a + b), ("sub", lambda: a - b), ("allclose2", lambda: yastn.allclose(a, b)), ("vdot2", lambda: yastn.vdot(a, b)),
                      ("tensordot-all", lambda: yastn.tensordot(a, b, axes=(tuple(range(nd)), tuple(range(nd))), conj=(1, 0)))]
        if half and not a.isdiag:
            table += [("svd", lambda: yastn.svd(a, axes=half)), ("svd_with_truncation", lambda: yastn.svd_with_truncation(a, axes=half, D_total=2, D_block=1)),
                      ("qr", lambda: yastn.qr(a, axes=half)), ("svd-lowrank", lambda: yastn.svd(a, axes=half, policy="lowrank", D_block=1)),
                      ("fuse-hard", lambda: a.fuse_legs(axes=half, mode="hard")), ("fuse-meta", lambda: a.fuse_legs(axes=half, mode="meta"))]
        if kind in ("matrix", "hermitian"):
            table += [("eigh", lambda: yastn.eigh(a, axes=(0, 1))) if kind == "hermitian" else ("eig", lambda: yastn.eig(a, axes=(0, 1))),
                      ("eigh_with_truncation", lambda: yastn.eigh_with_truncation(a, axes=(0, 1), D_total=2) if kind == "hermitian" else None),
                      ("diag", lambda: a.diag()), ("matmul", lambda: a @ a), ("exp-matrix-power", lambda: a @ a @ a)]
        if a.isdiag and kind == "diag":
            table += [("entropy", lambda: yastn.entropy(a)), ("entropy-renyi", lambda: yastn.entropy(a, alpha=2)),
                      ("truncation_mask", lambda: yastn.truncation_mask(a, D_total=2, D_block=1, tol=0.1, tol_block=0.2)),
                      ("truncation_mask_multiplets", lambda: yastn.truncation_mask_multiplets(a, D_total=2, eps_multiplet=0.1)),
                      ("diag-to-matrix", lambda: a.diag()), ("broadcast", lambda: a.broadcast(a.diag(), axes=0)), ("sqrt", lambda: a.sqrt()),
                      ("reciprocal-diag", lambda: a.reciprocal(cutoff=2)), ("trace-diag", lambda: a.trace())]
        if a.isdiag and kind == "mask":
            table += [("bitwise_not", lambda: a.bitwise_not()), ("apply_mask", lambda: a.apply_mask(yastn.ones(cfg, legs=[l, l.conj()]), axes=0)),
                      ("mask-sum", lambda: a.trace())]
        # dictionaries handed to the de-serialisers are operands too
        lvl = rng.choice([0, 1, 2])
        dct = a.to_dict(level=lvl)
        dsplit = yastn.split_data_and_meta(a.to_dict(level=0))
        table += [(f"from_dict(level={lvl},config)", lambda: yastn.Tensor.from_dict(dct, config=cfg)), (f"from_dict(level={lvl})", lambda: yastn.Tensor.from_dict(dct)),
                  (f"yastn.from_dict(level={lvl},config)", lambda: yastn.from_dict(dct, config=cfg)),
                  ("split_data_and_meta(dict)", lambda: yastn.split_data_and_meta(dct)),
                  ("combine_data_and_meta", lambda: yastn.combine_data_and_meta(*dsplit)),
                  ("load_from_dict", lambda: yastn.load_from_dict(cfg, a.save_to_dict()))]
        rng.shuffle(table)
        for name, fn in table[:12]:
            sd = (snap(dct), snap(list(dsplit)))
            sa, sv = snap(a), snap(view)
            sb = snap(b) if b is not None else None
            try:
                fn()
            except Exception as e:  # noqa: BLE001 — a rejected call must leave its operands alone as well
                ctx.count(f"A2:raised:{name}")
            ctx.count(f"A2:fn:{name}")
            ctx.case({"part": "A2", "sym": sym, "kind": kind, "fn": name, "pending": a.trans != tuple(range(a.ndim_n))}, nontrivial=len(a.struct.t) >= 1)
            case = {"part": "A2", "sym": sym, "kind": kind, "fn": name, "cplx": cplx, "tensor": {"s": list(a.struct.s), "n": list(a.n), "t": [list(t) for t in a.struct.t],
                    "D": [list(D) for D in a.struct.D], "trans": list(a.trans), "isdiag": a.isdiag}}
            if snap(a) != sa:
                ctx.fail("oracle", f"c15:function:{name}", f"{name}() modified its operand ({kind} tensor, {sym})", case=case, concrete=True)
            elif snap(view) != sv:
                ctx.fail("oracle", f"c15:function:{name}:view", f"{name}() modified a tensor sharing storage with its operand", case=case, concrete=True)
            if b is not None and snap(b) != sb:
                ctx.fail("oracle", f"c15:function:{name}:second", f"{name}() modified its second operand", case=case, concrete=True)
            if (snap(dct), snap(list(dsplit))) != sd:
                ctx.fail("oracle", f"c15:function:{name.split('(')[0]}:dict", f"{name} modified the dictionary / data-meta pair handed to it", case=case, concrete=True)


# ---- (B) ------------------------------------------------------------------------------------------------------
DERIVE = {
    # name: (function, expected effect on the data array: 'alloc' | 'share' | 'either')
    "copy": (lambda a: a.copy(), "alloc"),
    "clone": (lambda a: a.clone(), "alloc"),
    "shallow_copy": (lambda a: a.shallow_copy(), "share"),
    "transpose": (lambda a: a.transpose(axes=tuple(range(a.ndim))[::-1]), "share"),
    "flip_signature": (lambda a: a.flip_signature(), "share"),
    "conj": (lambda a: a.conj(), "either"),          # shares for real data (ndarray.conj() returns self), allocates for complex
    "neg": (lambda a: -a, "alloc"),
    "smul": (lambda a: 2 * a, "alloc"),
    "add_leg": (lambda a: a.add_leg(axis=0), "share"),
    "consume_transpose": (lambda a: a.consume_transpose(), "either"),
    "fuse_meta": (lambda a: a.fuse_legs(axes=(tuple(range(a.ndim)),), mode="meta") if a.ndim > 1 else a.shallow_copy(), "share"),
    "fuse_hard": (lambda a: a.fuse_legs(axes=(tuple(range(a.ndim)),), mode="hard") if a.ndim > 1 else a.copy(), "either"),
    "drop_leg_history": (lambda a: a.drop_leg_history(), "share"),
    "real": (lambda a: a.real(), "either"),
    "to": (lambda a: a.to(dtype=a.yastn_dtype), "either"),
    "detach": (lambda a: a.detach(), "either"),
}


def part_inplace(ctx):
    import yastn
    rng = ctx.rng
    n = 220 if ctx.quick else 3000
    for it in range(n):
        sym = rng.choice(tgen.SYM_NAMES)
        cfg = tgen.make_cfg(sym)
        cplx = rng.random() < 0.3
        legs = [tgen.rand_leg(rng, cfg, sym, max_sectors=3, max_dim=3) for _ in range(rng.randint(1, 3))]
        a = tgen.rand_tensor(rng, cfg, sym, legs, cplx=cplx, drop=0.2, allow_empty=False)
        if not a.struct.t:
            continue
        # a family of objects derived from `a` (and from each other)
        objs, trace = [a], []
        for _ in range(rng.randint(2, 5)):
            src = rng.randrange(len(objs))
            name = rng.choice(list(DERIVE))
            try:
                o = DERIVE[name][0](objs[src])
            except Exception:  # noqa: BLE001
                continue
            if not isinstance(o, yastn.Tensor) or o.size != objs[src].size:
                continue
            if any(o is x for x in objs):
                ctx.count(f"B:effect:self:{name}")   # the operation returned its argument itself (no new object)
                continue
            shares = bool(np.shares_memory(o._data, objs[src]._data))
            exp = DERIVE[name][1]
            if exp != "either" and shares != (exp == "share"):
                ctx.count(f"B:effect-table-differs:{name}")   # informational: the property allows sharing
                if len(ctx.notes) < 8:
                    ctx.notes.append(f"effect table: {name} {'shares' if shares else 'allocates'} (table says {exp})")
            objs.append(o); trace.append(["share" if shares else "alloc", src, name])
        # in-place edits on random members
        steps = [[t[0], t[1]] for t in trace]
        names = [t[2] for t in trace]
        real_changed = []
        for _ in range(rng.randint(1, 3)):
            dst = rng.randrange(len(objs))
            o = objs[dst]
            if not o.struct.t:
                continue
            before = [snap(x) for x in objs]
            kind = rng.choice(["setItem", "setBlock"])
            key = rng.choice(o.struct.t)
            nsym = cfg.sym.NSYM
            try:
                if kind == "setItem":
                    lk = tprog_logical_key(o, key)
                    blk = np.asarray(o[lk])
                    ctx.extra['edit_counter'] = ctx.extra.get('edit_counter', 0) + 1
                    new = blk + 1000 + ctx.extra['edit_counter']
                    o[lk] = new
                else:
                    D = o.struct.D[o.struct.t.index(key)]
                    lk = tprog_logical_key(o, key)
                    Dl = tuple(D[i] for i in o.trans) if not o.isdiag else D[0]
                    ctx.extra['edit_counter'] = ctx.extra.get('edit_counter', 0) + 1
                    val = np.full(Dl if not o.isdiag else (D[0],), 2000.0 + ctx.extra['edit_counter'])
                    o.set_block(ts=lk if not o.isdiag else lk[:nsym], Ds=Dl, val=val)
            except Exception as e:  # noqa: BLE001
                ctx.count(f"B:inplace-rejected:{kind}:{type(e).__name__}")
                break   # a rejected in-place call may leave its RECEIVER half-updated (allowed); stop editing this family
            after = [snap(x) for x in objs]
            changed = [k for k in range(len(objs)) if before[k] != after[k]]
            steps.append([kind, dst]); names.append(kind)
            real_changed.append((len(steps) - 1, changed, kind, dst))
            ctx.count(f"B:{kind}")
            # independence of copies: an `alloc` result never observes an in-place edit of something else
            for k in changed:
                if k != dst and not _shares(objs, k, dst, kind):
                    ctx.fail("oracle", f"c15:independent:{kind}", f"{kind} on object {dst} changed object {k} which does not share its array (derivation: {names})",
                             case={"sym": sym, "tensor": tgen.to_model(a) if not a.isdiag else None, "derivation": trace, "edit": [kind, dst]}, concrete=True)
        case = {"part": "B", "sym": sym, "derivation": [[t[2], t[1]] for t in trace], "edits": [[s[0], s[1]] for s in steps[len(trace):]]}
        ctx.case(case, nontrivial=len(trace) >= 2)
        # correspondence with the heap model: which variables observe each in-place step
        if ctx.drv is not None and real_changed:
            mod = ctx.drv.call({"op": "heap_trace", "init": 1, "steps": steps})
            if mod.get("ok"):
                for (k, changed, kind, dst) in real_changed:
                    if sorted(mod["changed"][k]) != sorted(changed):
                        ctx.fail("correspondence", f"c15:heap-model:{kind}", f"{kind} on object {dst}: real observers {changed}, model predicts {mod['changed'][k]} (derivation {names})", case=case)
                        break


def tprog_logical_key(o, key):
    nsym = o.config.sym.NSYM
    nd = o.ndim_n
    ch = [tuple(key[i * nsym:(i + 1) * nsym]) for i in range(nd)]
    return tuple(x for i in o.trans for x in ch[i])


def _shares(objs, k, dst, kind):
    return kind == "setItem" and bool(np.shares_memory(objs[k]._data, objs[dst]._data)) or \
        (kind == "setItem" and False)


# ---- (C) ------------------------------------------------------------------------------------------------------
def part_mps(ctx):
    import yastn
    import yastn.tn.mps as mps
    rng = ctx.rng
    ncase = 30 if ctx.quick else 300
    t0 = ctx.elapsed()
    for it in range(ncase):
        if ctx.elapsed() - t0 > (25 if ctx.quick else 300):
            ctx.count("C:stopped-by-time-budget")
            break
        fam = rng.choice([("Spin12", "dense"), ("Spin12", "Z2"), ("Spin12", "U1"), ("SpinlessFermions", "U1"), ("SpinlessFermions", "Z2")])
        ops = getattr(yastn.operators, fam[0])(sym=fam[1])
        N = rng.randint(2, 5)
        I = mps.product_mpo(ops.I(), N)
        np.random.seed(100003 * ctx.seed + it)
        psi = phi = None
        for n in ([None] if fam[1] == "dense" else [(N // 2,), (0,), (1,), (N % 2,)]):
            try:
                psi = mps.random_mps(I, D_total=rng.randint(2, 4), n=n)
                phi = mps.random_mps(I, D_total=rng.randint(2, 4), n=n)
                break
            except yastn.YastnError:
                psi = phi = None
        if psi is None:
            ctx.count("C:no-random-state")
            continue
        if fam[0] == "Spin12":
            terms = [mps.Hterm(rng.choice([1.0, -0.5]), (k, k + 1), (ops.sp(), ops.sm())) for k in range(N - 1)] + \
                    [mps.Hterm(0.5, (k, k + 1), (ops.sm(), ops.sp())) for k in range(N - 1)] + [mps.Hterm(0.3, (k,), (ops.sz(),)) for k in range(N)]
        else:
            terms = [mps.Hterm(1.0, (k, k + 1), (ops.cp(), ops.c())) for k in range(N - 1)] + \
                    [mps.Hterm(1.0, (k + 1, k), (ops.cp(), ops.c())) for k in range(N - 1)] + [mps.Hterm(0.2, (k,), (ops.n(),)) for k in range(N)]
        H = mps.generate_mpo(I, terms)
        psiC = psi.copy()
        try:   # a state holding a central block (as left by orthogonalize_site_ / 2-site updates)
            psiC.orthogonalize_site_(rng.randint(0, N - 1), to=rng.choice(["first", "last"]), normalize=False)
        except Exception as e:  # noqa: BLE001
            ctx.count(f"C:central-raised:{type(e).__name__}")
        o_svd, o_eigs, o_expmv = {"D_total": 4, "tol": 1e-10}, {"hermitian": True, "which": "SR"}, {"hermitian": True, "tol": 1e-10}
        dC = psiC.to_dict(level=rng.choice([0, 1, 2]))
        objs = {"psi": psi, "phi": phi, "H": H, "I": I, "psiC": psiC, "opts_svd": o_svd, "opts_eigs": o_eigs, "opts_expmv": o_expmv, "dict(psiC)": dC}

        def to_h5(x):
            import h5py, tempfile, os as _os
            with tempfile.TemporaryDirectory() as tmpd:
                with h5py.File(_os.path.join(tmpd, "x.h5"), "w") as f:
                    x.save_to_hdf5(f, "state/")
        extra_calls = [
            ("C.to_dict", lambda: psiC.to_dict(level=rng.choice([0, 1, 2]))), ("C.save_to_dict", lambda: psiC.save_to_dict()), ("C.save_to_hdf5", lambda: to_h5(psiC)),
            ("save_to_hdf5", lambda: to_h5(psi)), ("C.norm", lambda: psiC.norm()), ("C.get_entropy", lambda: psiC.get_entropy()),
            ("C.get_Schmidt_values", lambda: psiC.get_Schmidt_values()), ("C.measure_overlap", lambda: mps.measure_overlap(psiC, psiC)),
            ("C.measure_mpo", lambda: mps.measure_mpo(psiC, H, psiC)), ("C.to_tensor", lambda: psiC.to_tensor() if N <= 4 else None),
            ("C.add", lambda: mps.add(psiC, psiC)), ("C.matmul", lambda: H @ psiC), ("C.copy", lambda: psiC.copy()), ("C.shallow_copy", lambda: psiC.shallow_copy()),
            ("from_dict(dict)", lambda: mps.MpsMpoOBC.from_dict(dC) if hasattr(mps.MpsMpoOBC, "from_dict") else None),
            ("yastn.from_dict(dict,config)", lambda: yastn.from_dict(dC, config=psi.config)),
            ("dmrg_(opts)", lambda: mps.dmrg_(psi.copy(), H, method="2site", max_sweeps=1, opts_svd=o_svd, opts_eigs=o_eigs)),
            ("tdvp_(opts)", lambda: list(mps.tdvp_(psi.copy(), H, times=(0, 0.05), dt=0.05, method=rng.choice(["1site", "2site", "12site"]), opts_svd=o_svd, opts_expmv=o_expmv))),
            ("compression_(opts)", lambda: mps.compression_(psi.copy(), [H, psi], method="2site", max_sweeps=1, opts_svd=o_svd)),
            ("truncate_(opts)", lambda: (lambda x: (x.canonize_(to="last"), x.truncate_(to="first", opts_svd=o_svd)))(psi.copy())),
            ("zipper(opts)", lambda: mps.zipper(H, psi, opts_svd=o_svd)),
        ]
        calls = extra_calls + [
            ("add", lambda: mps.add(psi, phi, amplitudes=[1.0, -2.0])),
            ("matmul", lambda: H @ psi), ("mpo@mpo", lambda: H @ H), ("smul", lambda: 3.0 * psi), ("conj", lambda: psi.conj()),
            ("T", lambda: H.T), ("H", lambda: H.H), ("reverse_sites", lambda: psi.reverse_sites()), ("copy", lambda: psi.copy()),
            ("clone", lambda: psi.clone()), ("shallow_copy", lambda: psi.shallow_copy()), ("norm", lambda: psi.norm()),
            ("get_Schmidt_values", lambda: psi.get_Schmidt_values()), ("get_entropy", lambda: psi.get_entropy()),
            ("get_bond_dimensions", lambda: psi.get_bond_dimensions()), ("to_tensor", lambda: psi.to_tensor() if N <= 4 else None),
            ("measure_overlap", lambda: mps.measure_overlap(psi, psi)), ("measure_mpo", lambda: mps.measure_mpo(psi, H, psi)),
            ("vdot", lambda: mps.vdot(psi, psi)), ("measure_1site", lambda: mps.measure_1site(psi, ops.sz() if fam[0] == "Spin12" else ops.n(), psi)),
            ("measure_2site", lambda: mps.measure_2site(psi, ops.sz() if fam[0] == "Spin12" else ops.n(), ops.sz() if fam[0] == "Spin12" else ops.n(), psi)),
            ("zipper", lambda: mps.zipper(H, psi, opts_svd={"D_total": 8})),
            ("compression_", lambda: mps.compression_(psi.copy(), [H, psi], method="1site", max_sweeps=1)),
            ("dmrg_", lambda: mps.dmrg_(psi.copy(), H, method="1site", max_sweeps=1)),
            ("tdvp_", lambda: list(mps.tdvp_(psi.copy(), H, times=(0, 0.05), dt=0.05, method="1site"))),
            ("Env", lambda: mps.Env(psi, [H, psi]).setup_(to="first").measure()),
            ("generate_mpo", lambda: mps.generate_mpo(I, terms[:2])),
            ("is_canonical", lambda: psi.is_canonical(to="first")),
        ]
        rng.shuffle(calls)
        from ..core import time_limit, CaseTimeout
        for name, fn in calls[: (20 if ctx.quick else len(calls))]:
            before = {k: snap(v) for k, v in objs.items()}
            opsnap = [snap(t.operators) for t in terms]
            try:
                with time_limit(15):
                    fn()
            except CaseTimeout:
                ctx.count(f"C:call-timeout:{name}")
                continue
            except Exception as e:  # noqa: BLE001
                ctx.count(f"C:raised:{name}:{type(e).__name__}")
            ctx.count(f"C:call:{name}")
            ctx.case({"part": "C", "family": list(fam), "N": N, "call": name})
            for k, v in objs.items():
                if snap(v) != before[k]:
                    ctx.fail("oracle", f"c15:mps:{name}", f"{name} modified its operand {k} ({fam}, N={N})", case={"family": list(fam), "N": N, "call": name, "operand": k}, concrete=True)
            if [snap(t.operators) for t in terms] != opsnap:
                ctx.fail("oracle", f"c15:mps:{name}:operators", f"{name} modified the operators of its Hterms", case={"family": list(fam), "N": N, "call": name}, concrete=True)
        # copy / clone independence under the in-place API
        for cname in ("copy", "clone"):
            b = getattr(psi, cname)()
            sb, sp = snap(b), snap(psi)
            a = psi.copy()
            def edit_blocks(x):
                # documented in-place API of Tensor (item assignment) on EVERY tensor the object holds, central block included
                for t in list(x.A.values()):
                    for key in t.get_blocks_charge():
                        t[key] = 0 * t[key] + 7.0

            edits = [("canonize_", lambda x: x.canonize_(to="first")), ("orthogonalize_site_", lambda x: (x.orthogonalize_site_(0, to="last"), x.absorb_central_(to="last"))),
                     ("truncate_", lambda x: (x.canonize_(to="last"), x.truncate_(to="first", opts_svd={"D_total": 1}))),
                     ("setitem", lambda x: x.__setitem__(0, 2 * x[0])), ("factor", lambda x: setattr(x, "factor", 7.0)),
                     ("tensor-item-assignment", edit_blocks), ("tensor-item-assignment", edit_blocks)]
            ename, efn = rng.choice(edits)
            src = getattr(psi, cname)()   # edit a copy of psi that was itself copied: c = copy(src); edit src; c unchanged
            central = rng.random() < 0.5
            if central:   # mixed-canonical form with a central block (state left by orthogonalize_site_ / 2-site updates)
                try:
                    src.orthogonalize_site_(rng.randint(0, N - 1), to=rng.choice(["first", "last"]), normalize=False)
                except Exception as e:  # noqa: BLE001
                    ctx.count(f"C:central-raised:{type(e).__name__}")
            ctx.count(f"C:independence:central-block:{src.pC is not None}")
            ename = ename + ("+central" if src.pC is not None else "")
            c = getattr(src, cname)()
            sc = snap(c)
            try:
                efn(src)
            except Exception as e:  # noqa: BLE001
                ctx.count(f"C:edit-raised:{ename}:{type(e).__name__}")
            ctx.count(f"C:independence:{cname}:{ename}")
            if snap(c) != sc:
                ctx.fail("oracle", f"c15:mps:{cname}-independent", f"in-place {ename} on the source changed its {cname}()", case={"family": list(fam), "N": N, "copy": cname, "edit": ename}, concrete=True)
            # and the other direction: editing the copy leaves the source alone
            ss = snap(src)
            try:
                efn(c)
            except Exception as e:  # noqa: BLE001
                pass
            if snap(src) != ss:
                ctx.fail("oracle", f"c15:mps:{cname}-independent-rev", f"in-place {ename} on a {cname}() changed the source", case={"family": list(fam), "N": N, "copy": cname, "edit": ename}, concrete=True)
            if snap(b) != sb or snap(psi) != sp:
                ctx.fail("oracle", f"c15:mps:{cname}", f"{cname}() or its source changed without being touched", case={"family": list(fam), "N": N}, concrete=True)


# ---- (D) ------------------------------------------------------------------------------------------------------
def part_peps(ctx):
    import yastn
    import yastn.tn.fpeps as fpeps
    rng = ctx.rng
    ncase = 12 if ctx.quick else 120
    t0 = ctx.elapsed()
    for it in range(ncase):
        if ctx.elapsed() - t0 > (25 if ctx.quick else 300):
            ctx.count("D:stopped-by-time-budget")
            break
        sym = rng.choice(["U1", "Z2"])
        ops = yastn.operators.SpinlessFermions(sym=sym)
        geo = fpeps.SquareLattice(dims=rng.choice([(1, 2), (2, 1), (2, 2), (2, 2), (2, 3), (3, 2)]), boundary="obc")
        occ = {s: ops.vec_n(val=rng.randint(0, 1)) for s in geo.sites()}
        psi = fpeps.product_peps(geo, occ)
        I, c, cp = ops.I(), ops.c(), ops.cp()
        g = fpeps.gates.gate_nn_hopping(1.0, 0.3, I, c, cp, bond=geo.bonds()[0])
        psi.apply_gate_(g)
        phi = fpeps.product_peps(geo, {s: ops.vec_n(val=1 - int(v.n[0] if sym == "U1" else v.n[0])) if False else ops.vec_n(val=rng.randint(0, 1)) for s, v in occ.items()})
        p2 = fpeps.Peps2Layers(ket=psi, bra=phi)
        site = geo.sites()[0]
        T = p2[site]
        objs = {"psi": psi, "phi": phi, "p2": p2, "T": T, "gate": list(g.G)}
        n1 = ops.n().add_leg(s=1).swap_gate(axes=(0, 2)) if False else None
        calls = [
            ("peps.copy", lambda: psi.copy()), ("peps.clone", lambda: psi.clone()), ("peps.shallow_copy", lambda: psi.shallow_copy() if hasattr(psi, "shallow_copy") else None),
            ("peps.to_tensor", lambda: psi.to_tensor()), ("peps.to_dict", lambda: psi.to_dict()),
            ("p2.clone", lambda: p2.clone()), ("p2.getitem", lambda: p2[site]), ("T.copy", lambda: T.copy()), ("T.clone", lambda: T.clone()),
            ("T.fuse_layers", lambda: T.fuse_layers()), ("T.transpose", lambda: T.transpose(axes=(1, 2, 3, 0))), ("T.conj", lambda: T.conj() if hasattr(T, "conj") else None),
            ("T.get_legs", lambda: T.get_legs()), ("T.get_shape", lambda: T.get_shape()),
            ("T.apply_gate_on_ket", lambda: T.apply_gate_on_ket(ops.n().add_leg(s=1, axis=2) if False else g.G[0], dirn="l") if False else None),
            ("env.ctm.measure", lambda: fpeps.EnvCTM(psi, init="eye").measure_1site(ops.n())),
            ("env.bd.measure", lambda: fpeps.EnvBoundaryMPS(psi, opts_svd={"D_total": 8}, setup="lr").measure_1site(ops.n())),
            ("gate.apply-on-copy", lambda: psi.copy().apply_gate_(g)),
        ]
        # arguments handed to environment methods are operands too: operator / projector containers of every accepted form
        sites = geo.sites()
        vecs = [ops.vec_n(val=0), ops.vec_n(val=1)]
        p_list, p_dict = list(vecs), {s_: list(vecs) for s_ in sites}
        p_latt = fpeps.Lattice(geo, objects={s_: list(vecs) for s_ in sites})
        O = {"n": ops.n(), "c": c, "cp": cp, "I": I}
        o_dict = {s_: {"n": ops.n(), "h": I - ops.n()} for s_ in sites}
        objs.update({"p_list": p_list, "p_dict": p_dict, "p_latt": p_latt, "operators": O, "o_dict": o_dict})
        envs = {}

        def env(kind):
            if kind not in envs:
                if kind == "bd":
                    envs[kind] = fpeps.EnvBoundaryMPS(psi, opts_svd={"D_total": 4}, setup="lr")
                elif kind == "ctm":
                    envs[kind] = fpeps.EnvCTM(psi, init="eye")
                else:
                    envs[kind] = fpeps.EnvBP(psi)
            return envs[kind]
        bond = geo.bonds()[0]
        extra = []
        for kind in ("bd", "ctm", "bp"):
            extra += [(f"env.{kind}.sample:list", lambda kind=kind: env(kind).sample(p_list)),
                      (f"env.{kind}.sample:dict", lambda kind=kind: env(kind).sample(p_dict)),
                      (f"env.{kind}.sample:lattice", lambda kind=kind: env(kind).sample(p_latt)),
                      (f"env.{kind}.measure_1site:dict", lambda kind=kind: env(kind).measure_1site(o_dict)),
                      (f"env.{kind}.measure_1site:site", lambda kind=kind: env(kind).measure_1site(O["n"], site=site)),
                      (f"env.{kind}.measure_nn", lambda kind=kind: env(kind).measure_nn(O["cp"], O["c"])),
                      (f"env.{kind}.measure_nn:bond", lambda kind=kind: env(kind).measure_nn(O["n"], O["n"], bond=bond)),
                      (f"env.{kind}.measure_2site", lambda kind=kind: env(kind).measure_2site(O["n"], O["n"], xrange=(0, geo.Nx), yrange=(0, geo.Ny)))]
        rng.shuffle(extra)
        calls += extra[: (8 if ctx.quick else len(extra))]
        for name, fn in calls:
            before = {k: snap(v) for k, v in objs.items()}
            try:
                fn()
            except Exception as e:  # noqa: BLE001
                ctx.count(f"D:raised:{name}:{type(e).__name__}")
            ctx.count(f"D:call:{name}")
            ctx.case({"part": "D", "sym": sym, "dims": list(geo.dims), "call": name})
            for k, v in objs.items():
                if snap(v) != before[k]:
                    ctx.fail("oracle", f"c15:peps:{name}", f"{name} modified its operand {k}", case={"sym": sym, "dims": list(geo.dims), "call": name, "operand": k}, concrete=True)
        part_envs(ctx, rng, psi, ops, geo, sym)
        # receiver's pending charge swaps survive apply_gate_on_ket (a method returning a modified shallow copy)
        T2 = p2[site]
        T2.add_charge_swaps_(ops.c().n, "k4")
        before = snap(T2)
        try:
            T2.apply_gate_on_ket(g.G[0] if g.G[0].ndim == 3 else g.G[0], dirn="l")
        except Exception as e:  # noqa: BLE001
            ctx.count(f"D:apply_gate_on_ket-raised:{type(e).__name__}")
        if snap(T2) != before:
            ctx.fail("oracle", "c15:apply_gate_on_ket-pops-swaps", "DoublePepsTensor.apply_gate_on_ket changed its receiver (pending charge swaps)", case={"sym": sym}, concrete=True)
        # clone of a two-layer PEPS with a distinct bra
        try:
            q = p2.clone()
            if snap(q.ket) != snap(p2.ket) or snap(q.bra) != snap(p2.bra):
                ctx.fail("oracle", "c15:peps2layers-clone", "Peps2Layers.clone() does not reproduce its layers", case={"sym": sym}, concrete=True)
        except Exception as e:  # noqa: BLE001
            ctx.fail("oracle", "c15:peps2layers-clone", f"Peps2Layers.clone() with a distinct bra raises {type(e).__name__}: {e}", case={"sym": sym}, concrete=True)
        # copy/clone independence under apply_gate_
        for cname in ("copy", "clone"):
            c2 = getattr(psi, cname)()
            sc, sp = snap(c2), snap(psi)
            c2.apply_gate_(g)
            if snap(psi) != sp:
                ctx.fail("oracle", f"c15:peps:{cname}-independent", f"apply_gate_ on a {cname}() changed the source PEPS", case={"sym": sym, "copy": cname}, concrete=True)
            src = getattr(psi, cname)()
            c3 = getattr(src, cname)()
            s3 = snap(c3)
            src.apply_gate_(g)
            if snap(c3) != s3:
                ctx.fail("oracle", f"c15:peps:{cname}-independent-rev", f"apply_gate_ on the source changed its {cname}()", case={"sym": sym, "copy": cname}, concrete=True)
            ctx.count(f"D:independence:{cname}")


def part_envs(ctx, rng, psi, ops, geo, sym):
    """(D2) an environment is an operand of its own value-returning methods (measurements, sampling, serialisation, copies) and of the
    measurements' arguments; copy()/clone() of an environment that has been updated are independent of it, in both directions"""
    import yastn.tn.fpeps as fpeps
    sites, bonds = geo.sites(), geo.bonds()
    n, I, c, cp = ops.n(), ops.I(), ops.c(), ops.cp()
    vecs = [ops.vec_n(val=0), ops.vec_n(val=1)]
    psi = psi.copy()
    for b in bonds:    # entangle (nearly) every bond: boundary vectors and projectors are then generic, not products
        if rng.random() < 0.85:
            psi.apply_gate_(fpeps.gates.gate_nn_hopping(1.0, rng.choice([0.3, 0.5, 0.2j]), I, c, cp, bond=b))
    nup = rng.choice([0, 1, 1, 2])
    svd4 = {"D_total": 4}

    def make(kind):
        if kind == "bd":
            return fpeps.EnvBoundaryMPS(psi, opts_svd={"D_total": 8}, setup=rng.choice(["lr", "tb", "lrtb", "lrtb", "lrtb"]))
        if kind == "ctm":
            e = fpeps.EnvCTM(psi, init="eye")
            for _ in range(nup):      # populates the projectors
                e.update_(opts_svd=svd4)
            return e
        e = fpeps.EnvBP(psi)
        for _ in range(nup):
            e.update_()
        return e

    def mutate(kind, e):
        if kind == "ctm":   # a different truncation than the one used so far: the projectors change even on a converged environment
            e.update_(opts_svd={"D_total": rng.choice([1, 2, 3])}, moves=rng.choice(["hv", "h", "v"]))
        elif kind == "bp":
            e.update_()
        else:
            return False
        return True

    Nx, Ny = geo.Nx, geo.Ny
    wins = [((0, Nx), (0, Ny))]
    if Nx > 1:
        wins.append(((rng.randrange(Nx - 1),) * 1 + (Nx,), (0, Ny)))
    if Ny > 1:
        wins.append(((0, Nx), (rng.randrange(Ny - 1), Ny)))
    for kind in rng.sample(["bd", "ctm", "bp"], 2 if ctx.quick else 3):
        try:
            env = make(kind)
        except Exception as e:  # noqa: BLE001
            ctx.count(f"D2:setup-raised:{kind}:{type(e).__name__}")
            continue
        xr, yr = rng.choice(wins)
        site, bond = rng.choice(sites), rng.choice(bonds)
        table = [("measure_1site", lambda: env.measure_1site(n)), ("measure_1site:site", lambda: env.measure_1site(n, site=site)),
                 ("measure_nn", lambda: env.measure_nn(n, n)), ("measure_nn:bond", lambda: env.measure_nn(cp, c, bond=bond)),
                 ("measure_2site:v", lambda: env.measure_2site(n, n, xrange=xr, yrange=yr, dirn="v")),
                 ("measure_2site:h", lambda: env.measure_2site(n, n, xrange=xr, yrange=yr, dirn="h")),
                 ("measure_2site:cp-c", lambda: env.measure_2site(cp, c, xrange=xr, yrange=yr, dirn=rng.choice("hv"))),
                 ("measure_nsite", lambda: env.measure_nsite(n, n, sites=[bond[0], bond[1]])),
                 ("sample", lambda: env.sample(list(vecs))), ("sample:window", lambda: env.sample(list(vecs), xrange=xr, yrange=yr)),
                 ("to_dict", lambda: env.to_dict()), ("save_to_dict", lambda: env.save_to_dict()),
                 ("copy", lambda: env.copy()), ("clone", lambda: env.clone()), ("shallow_copy", lambda: env.shallow_copy()),
                 ("getitem", lambda: env[site]), ("boundary_mps", lambda: env.boundary_mps(0, rng.choice("tblr"))),
                 ("bond_metric-free", lambda: env.max_D() if hasattr(env, "max_D") else None)]
        rng.shuffle(table)
        table.sort(key=lambda nf: not nf[0].startswith("measure_2site"))     # the window measurements first (stable sort)
        for name, fn in table[: (10 if ctx.quick else len(table))]:
            if not hasattr(env, name.split(":")[0].split("-")[0]) and name not in ("getitem",):
                continue
            before, bpsi = snap(env), snap(psi)
            try:
                fn()
            except Exception as e:  # noqa: BLE001
                ctx.count(f"D2:raised:{kind}.{name}:{type(e).__name__}")
            ctx.count(f"D2:call:{kind}.{name}")
            case = {"part": "D2", "sym": sym, "dims": list(geo.dims), "env": kind, "call": name, "updates": nup}
            ctx.case(case)
            if snap(env) != before:
                ctx.fail("oracle", f"c15:env:{kind}.{name}", f"{type(env).__name__}.{name} (a value-returning method) modified the environment it was called on", case=case, concrete=True)
                break
            if snap(psi) != bpsi:
                ctx.fail("oracle", f"c15:env:{kind}.{name}:psi", f"{type(env).__name__}.{name} modified the PEPS of the environment", case=case, concrete=True)
                break
        # independence of copies
        for cname in ("copy", "clone"):
            if not hasattr(env, cname):
                continue
            try:
                e2 = getattr(env, cname)()
                s2, s1 = snap(e2), snap(env)
                if s2 != s1:
                    ctx.count(f"D2:{cname}-differs-from-source:{kind}")
                case = {"part": "D2", "sym": sym, "dims": list(geo.dims), "env": kind, "copy": cname, "updates": nup}
                if mutate(kind, env):
                    if snap(e2) != s2:
                        ctx.fail("oracle", f"c15:env:{kind}.{cname}-independent", f"an in-place update of a {type(env).__name__} changed its earlier {cname}()", case=case, concrete=True)
                    s1 = snap(env)
                    mutate(kind, e2)
                    if snap(env) != s1:
                        ctx.fail("oracle", f"c15:env:{kind}.{cname}-independent-rev", f"an in-place update of the {cname}() of a {type(env).__name__} changed the source", case=case, concrete=True)
                    ctx.count(f"D2:independence:{kind}.{cname}")
            except Exception as e:  # noqa: BLE001
                ctx.count(f"D2:independence-raised:{kind}.{cname}:{type(e).__name__}")


def search(ctx, broken, budget):
    ctx.notes.append("the snapshot monitor ran eagerly on every call; a differing snapshot is the failing input")


def replay(ctx, obj):
    run(ctx)
