#!/usr/bin/env python3
"""Translator: yastn/tn/mps/_tdvp.py  ->  lean/YModel/Consts.lean

Reads the *current working tree* of $YASTN_REPO (default /repo) with the stdlib `ast` module (nothing is
imported or executed) and extracts from the body of `tdvp_`:

  * the shape of the step-count formula  `steps = int((t1 - t0 - EPS) // dt) + 1`  and the literal EPS,
  * `ds = (t1 - t0) / steps`,
  * the 2nd-order branch   `env = routine(t + <mid>, <len>, env)`,
  * the 4th-order branch   `s2 = <literal>` and the five `env = routine(t + <mid>, <len>, env)` calls,
  * the time advance `t = t + ds`.

`<mid>` and `<len>` are evaluated symbolically as polynomials in {t, ds, s2} with exact rational coefficients
(decimal literals are read from the *source text*, so no digit is lost); they must have the form
`t + (a + b*s2)*ds` resp. `(a' + b'*s2)*ds`.  Everything is written as exact integer data.

Anything outside this fragment is reported under "unknown" and replaced by a value that makes the dependent
theorem of YProofs/Props/C10.lean fail to check (s2 := 0, empty tables, shape "unknown"), never silently accepted.
"""
import ast
import os
from fractions import Fraction

REPO = os.environ.get("YASTN_REPO", "/repo")


class Unknown(Exception):
    pass


# ---- polynomials in t, ds, s2 with Fraction coefficients: dict {(et, eds, es2): coef} -----------------------
def p_const(c):
    return {(0, 0, 0): Fraction(c)} if c != 0 else {}


def p_var(name):
    return {{"t": (1, 0, 0), "ds": (0, 1, 0), "s2": (0, 0, 1)}[name]: Fraction(1)}


def p_add(a, b, sign=1):
    out = dict(a)
    for k, v in b.items():
        out[k] = out.get(k, 0) + sign * v
        if out[k] == 0:
            del out[k]
    return out


def p_mul(a, b):
    out = {}
    for (k1, v1) in a.items():
        for (k2, v2) in b.items():
            k = tuple(x + y for x, y in zip(k1, k2))
            out[k] = out.get(k, 0) + v1 * v2
            if out[k] == 0:
                del out[k]
    return out


def literal_fraction(node, src):
    """exact value of a numeric literal, from its source text"""
    if not (isinstance(node, ast.Constant) and type(node.value) in (int, float)):
        raise Unknown(ast.unparse(node))
    txt = ast.get_source_segment(src, node)
    if txt is None:
        raise Unknown("no source segment")
    txt = txt.replace("_", "")
    try:
        return Fraction(txt)  # handles '0.5', '1e-12', '2'
    except Exception:
        raise Unknown(txt)


def poly(node, src):
    if isinstance(node, ast.Constant):
        return p_const(literal_fraction(node, src))
    if isinstance(node, ast.Name) and node.id in ("t", "ds", "s2"):
        return p_var(node.id)
    if isinstance(node, ast.UnaryOp) and isinstance(node.op, ast.USub):
        return p_mul(p_const(-1), poly(node.operand, src))
    if isinstance(node, ast.BinOp):
        a, b = poly(node.left, src), poly(node.right, src)
        if isinstance(node.op, ast.Add):
            return p_add(a, b)
        if isinstance(node.op, ast.Sub):
            return p_add(a, b, -1)
        if isinstance(node.op, ast.Mult):
            return p_mul(a, b)
        if isinstance(node.op, ast.Div):
            if list(b.keys()) == [(0, 0, 0)]:
                return p_mul(a, p_const(1 / b[(0, 0, 0)]))
    raise Unknown(ast.unparse(node))


def lin_in_ds(p, with_t):
    """p == [t +] (a + b*s2)*ds  ->  (a, b)"""
    p = dict(p)
    if with_t:
        if p.pop((1, 0, 0), None) != 1:
            raise Unknown("mid-time is not of the form t + ...")
    a = p.pop((0, 1, 0), Fraction(0))
    b = p.pop((0, 1, 1), Fraction(0))
    if p:
        raise Unknown(f"unexpected monomials {p}")
    return a, b


def routine_call(stmt, src):
    """env = routine(<mid>, <len>, env)  ->  ((a, b), (a', b'))"""
    if not (isinstance(stmt, ast.Assign) and len(stmt.targets) == 1 and isinstance(stmt.targets[0], ast.Name)
            and stmt.targets[0].id == "env" and isinstance(stmt.value, ast.Call)
            and isinstance(stmt.value.func, ast.Name) and stmt.value.func.id == "routine"
            and len(stmt.value.args) == 3 and not stmt.value.keywords
            and isinstance(stmt.value.args[2], ast.Name) and stmt.value.args[2].id == "env"):
        raise Unknown(ast.unparse(stmt))
    mid = lin_in_ds(poly(stmt.value.args[0], src), True)
    ln = lin_in_ds(poly(stmt.value.args[1], src), False)
    return mid, ln


def is_order_test(test, value):
    return (isinstance(test, ast.Compare) and isinstance(test.left, ast.Name) and test.left.id == "order"
            and len(test.ops) == 1 and isinstance(test.ops[0], ast.Eq)
            and isinstance(test.comparators[0], ast.Constant) and test.comparators[0].value == value)


def steps_shape(stmt, src):
    """steps = int((t1 - t0 - EPS) // dt) + 1  ->  EPS as Fraction"""
    if not (isinstance(stmt, ast.Assign) and len(stmt.targets) == 1 and isinstance(stmt.targets[0], ast.Name)
            and stmt.targets[0].id == "steps"):
        raise Unknown(ast.unparse(stmt))
    v = stmt.value
    ok = (isinstance(v, ast.BinOp) and isinstance(v.op, ast.Add) and isinstance(v.right, ast.Constant) and v.right.value == 1
          and type(v.right.value) is int
          and isinstance(v.left, ast.Call) and isinstance(v.left.func, ast.Name) and v.left.func.id == "int"
          and len(v.left.args) == 1 and not v.left.keywords)
    if not ok:
        raise Unknown(ast.unparse(stmt))
    q = v.left.args[0]
    if not (isinstance(q, ast.BinOp) and isinstance(q.op, ast.FloorDiv) and isinstance(q.right, ast.Name) and q.right.id == "dt"):
        raise Unknown(ast.unparse(stmt))
    num = q.left  # t1 - t0 - EPS
    if not (isinstance(num, ast.BinOp) and isinstance(num.op, ast.Sub) and isinstance(num.left, ast.BinOp)
            and isinstance(num.left.op, ast.Sub) and isinstance(num.left.left, ast.Name) and num.left.left.id == "t1"
            and isinstance(num.left.right, ast.Name) and num.left.right.id == "t0"):
        raise Unknown(ast.unparse(stmt))
    eps = literal_fraction(num.right, src)
    if not (eps > 0 and eps.numerator == 1):
        raise Unknown(f"EPS = {eps}")
    return eps


def extract(repo=REPO):
    path = os.path.join(repo, "yastn", "tn", "mps", "_tdvp.py")
    src = open(path).read()
    tree = ast.parse(src)
    res = {"s2": None, "eps_den": None, "steps_shape": "unknown", "ds_shape": "unknown", "advance": "unknown",
           "second": [], "fourth": [], "unknown": []}
    fn = next((n for n in tree.body if isinstance(n, ast.FunctionDef) and n.name == "tdvp_"), None)
    if fn is None:
        res["unknown"].append("function tdvp_ not found")
        return res
    loop = None
    for n in ast.walk(fn):
        if isinstance(n, ast.For) and isinstance(n.target, ast.Tuple) and [getattr(e, "id", None) for e in n.target.elts] == ["t0", "t1"]:
            loop = n
    if loop is None:
        res["unknown"].append("snapshot loop `for t0, t1 in ...` not found")
        return res
    # steps = ... ; t, ds = t0, (t1 - t0) / steps
    try:
        eps = steps_shape(loop.body[0], src)
        res["eps_den"] = eps.denominator
        res["steps_shape"] = "floor"
    except (Unknown, IndexError) as e:
        res["unknown"].append(f"steps formula: {e}")
    try:
        st = loop.body[1]
        ok = (isinstance(st, ast.Assign) and isinstance(st.targets[0], ast.Tuple)
              and [e.id for e in st.targets[0].elts] == ["t", "ds"] and isinstance(st.value, ast.Tuple)
              and ast.unparse(st.value.elts[0]) == "t0" and ast.unparse(st.value.elts[1]) == "(t1 - t0) / steps")
        if not ok:
            raise Unknown(ast.unparse(st))
        res["ds_shape"] = "T/steps"
    except (Unknown, IndexError, AttributeError) as e:
        res["unknown"].append(f"ds formula: {e}")
    inner = next((n for n in loop.body if isinstance(n, ast.For)), None)
    if inner is None:
        res["unknown"].append("step loop not found")
        return res
    # inner body: if order == '2nd': ... elif order == '4th': ... else: raise ; t = t + ds
    try:
        iff = inner.body[0]
        if not (isinstance(iff, ast.If) and is_order_test(iff.test, "2nd")):
            raise Unknown("2nd-order branch")
        if len(iff.body) != 1:
            raise Unknown("2nd-order branch has != 1 statement")
        res["second"] = [routine_call(iff.body[0], src)]
    except (Unknown, IndexError) as e:
        res["unknown"].append(f"2nd order: {e}")
    try:
        iff = inner.body[0]
        el = iff.orelse[0]
        if not (isinstance(el, ast.If) and is_order_test(el.test, "4th")):
            raise Unknown("4th-order branch")
        s2st = el.body[0]
        if not (isinstance(s2st, ast.Assign) and isinstance(s2st.targets[0], ast.Name) and s2st.targets[0].id == "s2"):
            raise Unknown("s2 assignment")
        s2 = literal_fraction(s2st.value, src)
        calls = [routine_call(s, src) for s in el.body[1:]]
        res["s2"] = s2
        res["fourth"] = calls
    except (Unknown, IndexError, AttributeError) as e:
        res["unknown"].append(f"4th order: {e}")
    try:
        adv = inner.body[1]
        if ast.unparse(adv) != "t = t + ds" or len(inner.body) != 2:
            raise Unknown(ast.unparse(adv))
        res["advance"] = "t+ds"
    except (Unknown, IndexError) as e:
        res["unknown"].append(f"time advance: {e}")
    return res


def _q(fr):
    return f"({fr.numerator}, {fr.denominator})"


def _lin(ab):
    a, b = ab
    return f"({_q(a)}, {_q(b)})"


def lean_text(res):
    s2 = res["s2"] if res["s2"] is not None else Fraction(0)
    eps_den = res["eps_den"] if res["eps_den"] is not None else 1
    lines = ["/- GENERATED by gen/gen_consts.py from yastn/tn/mps/_tdvp.py -- do not edit. -/",
             "namespace YModel.Consts", "",
             "/-- the literal `s2` of the 4th-order branch, exactly as written in the source (0 if not recognised) -/",
             f"def s2Num : Nat := {s2.numerator}",
             f"def s2Den : Nat := {s2.denominator}", "",
             "/-- `EPS = 1/epsDen` in `steps = int((t1 - t0 - EPS) // dt) + 1` -/",
             f"def epsDen : Nat := {eps_den}", "",
             "/-- shape of the step-count formula: \"floor\" = `int((t1 - t0 - EPS) // dt) + 1` -/",
             f"def stepsShape : String := \"{res['steps_shape']}\"",
             "/-- \"T/steps\" = `ds = (t1 - t0) / steps` -/",
             f"def dsShape : String := \"{res['ds_shape']}\"",
             "/-- \"t+ds\" = the time is advanced by `t = t + ds` after every step -/",
             f"def advanceShape : String := \"{res['advance']}\"", "",
             "/-- rational `(num, den)`; linear form `(c0, c1)` meaning `c0 + c1*s2` -/",
             "abbrev RawQ := Int × Nat",
             "abbrev RawLin := RawQ × RawQ", "",
             "/-- 2nd order: `routine(t + mid*ds, len*ds, env)` as `(mid, len)` -/",
             "def second : List (RawLin × RawLin) := [" + ", ".join(f"({_lin(m)}, {_lin(l)})" for m, l in res["second"]) + "]", "",
             "/-- 4th order: the `routine(t + mid*ds, len*ds, env)` calls in source order -/",
             "def fourth : List (RawLin × RawLin) := [" + ",\n  ".join(f"({_lin(m)}, {_lin(l)})" for m, l in res["fourth"]) + "]", "",
             "end YModel.Consts", ""]
    return "\n".join(lines)


def write_if_changed(path, text):
    try:
        if open(path).read() == text:
            return False
    except FileNotFoundError:
        pass
    with open(path, "w") as f:
        f.write(text)
    return True


def main_generate():
    here = os.path.dirname(os.path.abspath(__file__))
    res = extract(os.environ.get("YASTN_REPO", REPO))
    out = os.path.join(here, "..", "lean", "YModel", "Consts.lean")
    ch = write_if_changed(out, lean_text(res))
    return {"s2": str(res["s2"]), "eps_den": res["eps_den"], "steps_shape": res["steps_shape"],
            "n_fourth": len(res["fourth"]), "changed": ch, "unknown": res["unknown"]}


if __name__ == "__main__":
    print(main_generate())
