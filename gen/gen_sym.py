#!/usr/bin/env python3
"""Translator: yastn/sym/sym_*.py  ->  lean/YModel/SymGen.lean

Parses every symmetry module of the *current working tree* of /repo with the stdlib `ast`
module (the module is never imported), reads SYM_ID, NSYM and the body of `fuse`, and emits a
`SymDef` whose `expr : SymExpr` is the translation of the body.  Anything outside the
recognised fragment becomes `.unknown "<source>"` so that the theorems which depend on the rule
*fail to check* instead of silently passing.

The fragment (see YModel/Sym.lean):
    BASE   := new_signature * (charges.swapaxes(1, 2) @ signatures)
    NOSC   := charges.swapaxes(1, 2) @ signatures
    E      := BASE | NOSC | np.mod(E, k)
    body   := return E
            | v = E ; (v[:, i] = np.mod(v[:, i], k))* ; return v
"""
import ast
import os
import sys

REPO = os.environ.get("YASTN_REPO", "/repo")


def _is_name(n, name):
    return isinstance(n, ast.Name) and n.id == name


def _is_int(n):
    return isinstance(n, ast.Constant) and type(n.value) is int


def _is_nosc(n):
    # charges.swapaxes(1, 2) @ signatures
    if not (isinstance(n, ast.BinOp) and isinstance(n.op, ast.MatMult)):
        return False
    l, r = n.left, n.right
    if not _is_name(r, "signatures"):
        return False
    if not (isinstance(l, ast.Call) and isinstance(l.func, ast.Attribute) and l.func.attr == "swapaxes"
            and _is_name(l.func.value, "charges") and len(l.args) == 2 and not l.keywords):
        return False
    a, b = l.args
    return _is_int(a) and _is_int(b) and {a.value, b.value} == {1, 2}


def _np_mod(n):
    """np.mod(X, k) -> (X, k) or None"""
    if (isinstance(n, ast.Call) and isinstance(n.func, ast.Attribute) and n.func.attr == "mod"
            and _is_name(n.func.value, "np") and len(n.args) == 2 and not n.keywords and _is_int(n.args[1])
            and n.args[1].value >= 0):
        return n.args[0], n.args[1].value
    return None


def tr_expr(n):
    """translate an expression; returns Lean term string or None"""
    if _is_nosc(n):
        return ".baseNoScale"
    if isinstance(n, ast.BinOp) and isinstance(n.op, ast.Mult):
        if _is_name(n.left, "new_signature") and _is_nosc(n.right):
            return ".base"
        if _is_name(n.right, "new_signature") and _is_nosc(n.left):
            return ".base"
    m = _np_mod(n)
    if m is not None:
        inner = tr_expr(m[0])
        if inner is not None:
            return f"(.modAll {inner} {m[1]})"
    return None


def _col_subscript(n, var):
    """var[:, i] -> i or None"""
    if not (isinstance(n, ast.Subscript) and _is_name(n.value, var)):
        return None
    sl = n.slice
    if not (isinstance(sl, ast.Tuple) and len(sl.elts) == 2):
        return None
    a, b = sl.elts
    if not (isinstance(a, ast.Slice) and a.lower is None and a.upper is None and a.step is None):
        return None
    if _is_int(b) and b.value >= 0:
        return b.value
    return None


def tr_body(fn):
    body = [s for s in fn.body
            if not (isinstance(s, ast.Expr) and isinstance(s.value, ast.Constant) and isinstance(s.value.value, str))]
    if len(body) == 1 and isinstance(body[0], ast.Return) and body[0].value is not None:
        return tr_expr(body[0].value)
    if len(body) >= 2 and isinstance(body[0], ast.Assign) and len(body[0].targets) == 1 \
            and isinstance(body[0].targets[0], ast.Name) and isinstance(body[-1], ast.Return) \
            and _is_name(body[-1].value, body[0].targets[0].id):
        var = body[0].targets[0].id
        cur = tr_expr(body[0].value)
        if cur is None:
            return None
        for st in body[1:-1]:
            if not (isinstance(st, ast.Assign) and len(st.targets) == 1):
                return None
            i = _col_subscript(st.targets[0], var)
            m = _np_mod(st.value)
            if i is None or m is None:
                return None
            j = _col_subscript(m[0], var)
            if j != i:
                return None
            cur = f"(.modCol {cur} {i} {m[1]})"
        return cur
    return None


def lean_str(s):
    return '"' + s.replace("\\", "\\\\").replace('"', '\\"').replace("\n", "\\n") + '"'


def translate_file(path):
    src = open(path).read()
    tree = ast.parse(src)
    out = []
    for node in tree.body:
        if not isinstance(node, ast.ClassDef):
            continue
        sym_id = nsym = fuse = None
        for st in node.body:
            if isinstance(st, ast.Assign) and len(st.targets) == 1 and isinstance(st.targets[0], ast.Name):
                if st.targets[0].id == "SYM_ID" and isinstance(st.value, ast.Constant) and isinstance(st.value.value, str):
                    sym_id = st.value.value
                if st.targets[0].id == "NSYM" and _is_int(st.value):
                    nsym = st.value.value
            if isinstance(st, ast.FunctionDef) and st.name == "fuse":
                fuse = st
        if sym_id is None or fuse is None:
            continue
        args = [a.arg for a in fuse.args.args]
        if args and args[0] == "cls":
            args = args[1:]
        expr = None
        if args == ["charges", "signatures", "new_signature"] and nsym is not None:
            expr = tr_body(fuse)
        if expr is None:
            expr = f"(.unknown {lean_str(ast.unparse(fuse))})"
        if nsym is None:
            nsym = 0
            expr = f"(.unknown {lean_str('NSYM not an int literal')})"
        out.append((node.name, sym_id, nsym, expr, os.path.basename(path)))
    return out


def generate(repo=REPO):
    d = os.path.join(repo, "yastn", "sym")
    defs = []
    for fn in sorted(os.listdir(d)):
        if fn.startswith("sym_") and fn.endswith(".py") and fn != "sym_abelian.py":
            defs += translate_file(os.path.join(d, fn))
    lines = ["/- GENERATED by gen/gen_sym.py from yastn/sym/sym_*.py -- do not edit. -/",
             "import YModel.Sym", "namespace YModel.SymGen", "open YModel", ""]
    for cls, sid, nsym, expr, fn in defs:
        lines.append(f"/-- {fn}: class {cls} -/")
        lines.append(f"def {cls} : SymDef := {{ id := {lean_str(sid)}, nsym := {nsym}, expr := {expr} }}")
        lines.append("")
    lines.append("def all : List SymDef := [" + ", ".join(c for c, *_ in defs) + "]")
    lines.append("")
    lines.append("end YModel.SymGen")
    return "\n".join(lines) + "\n", defs


def write_if_changed(path, text):
    try:
        if open(path).read() == text:
            return False
    except FileNotFoundError:
        pass
    with open(path, "w") as f:
        f.write(text)
    return True


def main_generate():
    here = os.path.dirname(os.path.abspath(__file__))
    text, defs = generate()
    out = os.path.join(here, "..", "lean", "YModel", "SymGen.lean")
    ch = write_if_changed(out, text)
    return {"symmetries": [d[1] for d in defs], "changed": ch,
            "unknown": [d[1] for d in defs if ".unknown" in d[3]]}


if __name__ == "__main__":
    here = os.path.dirname(os.path.abspath(__file__))
    text, defs = generate()
    out = os.path.join(here, "..", "lean", "YModel", "SymGen.lean")
    ch = write_if_changed(out, text)
    print(f"gen_sym: {len(defs)} symmetries, {'updated' if ch else 'unchanged'}")
    for d in defs:
        print("  ", d[1], d[2], d[3][:80])
