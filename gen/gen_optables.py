#!/usr/bin/env python3
"""Translator: yastn/operators/*.py  ->  lean/YModel/OpTables.lean

Imports `yastn.operators` from the *current working tree* of $YASTN_REPO (default /repo; the path is put first on
sys.path and the origin of the imported package is verified, the installed copy is never used), instantiates every
predefined operator class for every symmetry it accepts and dumps, per (class, symmetry):

  * the fermionic flags of the configuration (`config.fermionic`), NSYM,
  * the sector-ordered local basis (one charge per basis state, from `ops.space()`),
  * every operator the class offers (names in `ops.operators` and in `ops.to_dict()` that are methods; a `spin`
    parameter is expanded to 'u' and 'd' -> names `c:u`, `c:d`, ...): its charge `n` and its dense matrix in the
    sector-ordered basis with EXACT entries: each entry is (a + b*sqrt2 + (c + d*sqrt2) i) / den with integers
    a, b, c, d and one denominator den per operator.

An entry that is not representable in this form (within 1e-13) makes the operator `exact := false` with an empty
matrix: the theorem `tables_exact` and every algebra theorem that mentions the operator then FAIL to check, and the
operator is reported under "unknown".  Operators a symmetry does not define (the method raises YastnError, e.g.
Spin12(sym='U1').x()) are simply absent from that table; theorems that need them fail if they disappear.
"""
import importlib
import inspect
import math
import os
import sys

REPO = os.environ.get("YASTN_REPO", "/repo")

FAMILY_SPECS = [("Spin12", ["dense", "Z2", "U1"]), ("Spin1", ["dense", "Z3", "U1"]),
                ("SpinlessFermions", ["Z2", "U1"]),
                ("SpinfulFermions", ["Z2", "U1", "U1xU1", "U1xU1xZ2"]),
                ("SpinfulFermions_tJ", ["Z2", "U1", "U1xU1", "U1xU1xZ2"]),
                ("Qdit", ["dense"])]
QDIT_D = 3
SQ2 = math.sqrt(2.0)


def load_operators(repo=None):
    repo = os.path.abspath(repo or os.environ.get("YASTN_REPO", REPO))
    if sys.path[0] != repo:
        sys.path.insert(0, repo)
    mod = importlib.import_module("yastn.operators")
    origin = os.path.abspath(mod.__file__)
    if not origin.startswith(repo + os.sep):
        raise RuntimeError(f"yastn.operators imported from {origin}, expected below {repo}")
    return mod


def instantiate(opmod, cls_name, sym):
    cls = getattr(opmod, cls_name)
    if cls_name == "Qdit":
        return cls(d=QDIT_D, sym=sym)
    return cls(sym=sym)


def enumerate_ops(ops):
    """[(name, tensor)] of every operator the instance offers for its symmetry"""
    names = list(getattr(ops, "operators", ()))
    try:
        for k in ops.to_dict():
            if k not in names and callable(getattr(ops, k, None)):
                names.append(k)
    except Exception:  # noqa: BLE001
        pass
    out = []
    for nm in names:
        meth = getattr(ops, nm, None)
        if not callable(meth):
            continue
        params = inspect.signature(meth).parameters
        variants = [((), nm)]
        if "spin" in params:
            variants = [(("u",), nm + ":u"), (("d",), nm + ":d")]
        for args, full in variants:
            try:
                t = meth(*args)
            except Exception as e:  # noqa: BLE001
                if type(e).__name__ == "YastnError":
                    continue          # operator not defined for this symmetry
                raise
            if getattr(t, "ndim", None) == 2:
                out.append((full, t))
    return out


def exact_part(x):
    """x (real) -> (a, b, den) with x = (a + b*sqrt2)/den, small integers; None if not representable"""
    for den in (1, 2, 4):
        for b in (0, 1, -1, 2, -2, 3, -3, 4, -4):
            a = x * den - b * SQ2
            ra = round(a)
            if abs(a - ra) < 1e-13 and abs(ra) <= 64:
                return int(ra), b, den
    return None


def exact_matrix(mat):
    """-> (den, [[(a,b,c,d)]]) or None"""
    rows, dens = [], []
    for row in mat:
        r = []
        for x in row:
            x = complex(x)
            re, im = exact_part(x.real), exact_part(x.imag)
            if re is None or im is None:
                return None
            r.append((re, im))
            dens += [re[2], im[2]]
        rows.append(r)
    den = max(dens) if dens else 1
    out = []
    for r in rows:
        out.append([(re[0] * (den // re[2]), re[1] * (den // re[2]), im[0] * (den // im[2]), im[1] * (den // im[2])) for re, im in r])
    return den, out


def lean_str(s):
    return '"' + s.replace("\\", "\\\\").replace('"', '\\"') + '"'


def lean_ints(xs):
    return "[" + ", ".join(str(int(x)) for x in xs) + "]"


def lean_ferm(f):
    if f is True:
        return "Fermionic.all"
    if f is False:
        return "Fermionic.none"
    return "Fermionic.mask [" + ", ".join("true" if x else "false" for x in f) + "]"


def collect(repo=None):
    opmod = load_operators(repo)
    fams, unknown = [], []
    for cls_name, syms in FAMILY_SPECS:
        if not hasattr(opmod, cls_name):
            unknown.append(f"{cls_name}: class missing")
            continue
        for sym in syms:
            try:
                ops = instantiate(opmod, cls_name, sym)
            except Exception as e:  # noqa: BLE001
                unknown.append(f"{cls_name}:{sym}: cannot instantiate ({type(e).__name__})")
                continue
            sp = ops.space()
            ts = [tuple(t) if isinstance(t, (tuple, list)) else (t,) for t in sp.t]
            basis = [t for t, D in zip(ts, sp.D) for _ in range(D)]
            entries = []
            for name, ten in enumerate_ops(ops):
                import numpy as np
                mat = np.asarray(ten.to_numpy(legs={0: sp, 1: sp.conj()}))
                ex = exact_matrix(mat.tolist())
                n = [int(x) for x in ten.n]
                if ex is None or tuple(ten.s) != (1, -1):
                    unknown.append(f"{cls_name}:{sym}:{name}")
                    entries.append((name, n, 0, [], False))
                else:
                    entries.append((name, n, ex[0], ex[1], True))
            fams.append({"cls": cls_name, "sym": sym, "ferm": ops.config.fermionic, "nsym": int(ops.config.sym.NSYM),
                         "basis": [list(t) for t in basis], "ops": entries})
    return fams, unknown


def generate(repo=None):
    fams, unknown = collect(repo)
    L = ["/- GENERATED by gen/gen_optables.py from yastn/operators/*.py -- do not edit. -/",
         "import YModel.JW", "namespace YModel.OpTables", "open YModel YModel.JW", ""]
    idents = []
    for f in fams:
        ident = f"{f['cls']}_{f['sym']}"
        idents.append(ident)
        L.append(f"/-- {f['cls']}(sym='{f['sym']}') -/")
        L.append(f"def {ident} : Family := {{")
        L.append(f"  cls := {lean_str(f['cls'])}, sym := {lean_str(f['sym'])}, ferm := {lean_ferm(f['ferm'])}, nsym := {f['nsym']},")
        L.append("  basis := [" + ", ".join(lean_ints(t) for t in f["basis"]) + "],")
        L.append("  ops := [")
        rows = []
        for name, n, den, mat, exact in f["ops"]:
            m = "[" + ", ".join("[" + ", ".join(f"⟨{a},{b},{c},{d}⟩" for a, b, c, d in row) + "]" for row in mat) + "]"
            rows.append(f"    {{ name := {lean_str(name)}, n := {lean_ints(n)}, den := {den}, exact := {'true' if exact else 'false'},\n"
                        f"      mat := {m} }}")
        L.append(",\n".join(rows) + "] }")
        L.append("")
    L.append("def all : List Family := [" + ", ".join(idents) + "]")
    L.append("")
    L.append("end YModel.OpTables")
    return "\n".join(L) + "\n", fams, unknown


def write_if_changed(path, text):
    try:
        if open(path).read() == text:
            return False
    except FileNotFoundError:
        pass
    with open(path, "w") as f:
        f.write(text)
    return True


def default_out():
    here = os.path.dirname(os.path.abspath(__file__))
    return os.environ.get("YASTN_OPTABLES_OUT") or os.path.join(here, "..", "lean", "YModel", "OpTables.lean")


def main_generate():
    text, fams, unknown = generate()
    ch = write_if_changed(default_out(), text)
    return {"families": [f"{f['cls']}:{f['sym']}" for f in fams], "operators": sum(len(f["ops"]) for f in fams),
            "changed": ch, "unknown": unknown}


if __name__ == "__main__":
    print(main_generate())
