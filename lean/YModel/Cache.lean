/-!
# Executable model of `functools.lru_cache(maxsize)` as used by yastn (`yastn/tensor/_control_lru.py`)

* `LRU α β` : the table itself – capacity and the entries, **most recently used first**.
* `LRU.call f c x` : one call of the memoised function: a hit returns the stored value and moves the
  entry to the front; a miss computes `f x`, inserts it in front and evicts the least recently used
  entry when the table is over capacity; `cap = 0` stores nothing (Python: `maxsize=0` → no caching,
  every call counts as a miss).
* `LRU.clear` : `cache_clear()`.   `LRU.resize n` : what `set_cache_maxsize(n)` does, i.e.
  `lru_cache(n)(old.__wrapped__)` – a NEW, empty table of capacity `n`.
* `Cache α β` : table + the two counters `hits`, `misses` of `cache_info()`; `currsize`, `maxsize`
  are derived.  `Cache.step` / `Cache.trace` replay a history of events.

Not modelled: `maxsize=None` (unbounded; never used by yastn or by `set_cache_maxsize` callers in the
harness), `typed=True`, re-entrancy (a cached function calling itself with the same key) and
Python's `==`/`hash` identifications between keys (`True == 1`): keys are an abstract type with
decidable equality.
-/
namespace YModel

structure LRU (α β : Type) where
  cap : Nat
  entries : List (α × β)
deriving Repr

namespace LRU
variable {α β : Type} [DecidableEq α]

def empty (cap : Nat) : LRU α β := ⟨cap, []⟩

/-- value stored under key `x` (first match) -/
def find? (c : LRU α β) (x : α) : Option β :=
  match c.entries.find? (fun p => p.1 = x) with
  | some p => some p.2
  | none => none

def keys (c : LRU α β) : List α := c.entries.map (·.1)

def size (c : LRU α β) : Nat := c.entries.length

/-- one call of the memoised function; returns (new table, returned value, was it a hit?) -/
def call (f : α → β) (c : LRU α β) (x : α) : LRU α β × β × Bool :=
  match c.find? x with
  | some y => ({ c with entries := (x, y) :: c.entries.filter (fun p => p.1 ≠ x) }, y, true)
  | none =>
    let y := f x
    ({ c with entries := ((x, y) :: c.entries).take c.cap }, y, false)

/-- `cache_clear()` -/
def clear (c : LRU α β) : LRU α β := { c with entries := [] }

/-- `set_cache_maxsize(n)`: a new empty table of capacity `n` around the same undecorated function -/
def resize (_c : LRU α β) (n : Nat) : LRU α β := empty n

end LRU

/-- events of a history -/
inductive Ev (α : Type) where
  | call (x : α)
  | clear
  | resize (n : Nat)
deriving Repr

/-- a cache object as seen through `cache_info()`: the table and the counters -/
structure Cache (α β : Type) where
  lru : LRU α β
  hits : Nat
  misses : Nat
deriving Repr

namespace Cache
variable {α β : Type} [DecidableEq α]

def fresh (cap : Nat) : Cache α β := ⟨LRU.empty cap, 0, 0⟩

def currsize (c : Cache α β) : Nat := c.lru.size
def maxsize (c : Cache α β) : Nat := c.lru.cap

/-- one event; for a call the output is `some (value, hit?)` -/
def step (f : α → β) (c : Cache α β) : Ev α → Cache α β × Option (β × Bool)
  | .call x =>
    let r := c.lru.call f x
    (if r.2.2 then { c with lru := r.1, hits := c.hits + 1 }
     else { c with lru := r.1, misses := c.misses + 1 }, some r.2)
  | .clear => (⟨c.lru.clear, 0, 0⟩, none)
  | .resize n => (⟨c.lru.resize n, 0, 0⟩, none)

/-- replay a history: after every event the cache object and the output of the event -/
def trace (f : α → β) : Cache α β → List (Ev α) → List (Cache α β × Option (β × Bool))
  | _, [] => []
  | c, e :: es => let r := c.step f e; r :: trace f r.1 es

/-- the cache object after a history -/
def final (f : α → β) : Cache α β → List (Ev α) → Cache α β
  | c, [] => c
  | c, e :: es => final f (c.step f e).1 es

/-- the values returned by the calls of a history, in order -/
def results (f : α → β) (c : Cache α β) (evs : List (Ev α)) : List β :=
  (trace f c evs).filterMap (fun p => p.2.map (·.1))

/-- the hit flags of the calls of a history, in order -/
def hitFlags (f : α → β) (c : Cache α β) (evs : List (Ev α)) : List Bool :=
  (trace f c evs).filterMap (fun p => p.2.map (·.2))

end Cache

/-- the arguments of the calls of a history, in order (what remains when clears/resizes are erased) -/
def Ev.calls {α : Type} : List (Ev α) → List α
  | [] => []
  | .call x :: es => x :: calls es
  | _ :: es => calls es

/-- number of calls after the last clear/resize (`none`-free version: with the flag "a reset occurred") -/
def Ev.sinceReset {α : Type} : List (Ev α) → Bool × Nat
  | [] => (false, 0)
  | .call _ :: es => let r := sinceReset es; if r.1 then r else (false, r.2 + 1)
  | _ :: es => let r := sinceReset es; (true, r.2)

end YModel

namespace YModel
/-!
## Memo tables keyed by a projection of the argument

What a hand-written `dict` memo, or an `lru_cache` whose key leaves out something the function depends on, amounts to: the table is
addressed by `k x` instead of `x`.  (Unbounded, never cleared: the least favourable case for staleness.)
-/
structure KMemo (κ β : Type) where
  entries : List (κ × β)
deriving Repr

namespace KMemo
variable {α κ β : Type} [DecidableEq κ]

def lookup (m : KMemo κ β) (c : κ) : Option β := (m.entries.find? (fun p => p.1 = c)).map (·.2)

/-- one call: a hit under the key `k x` returns what is stored, a miss computes and stores `f x` -/
def call (k : α → κ) (f : α → β) (m : KMemo κ β) (x : α) : KMemo κ β × β :=
  match m.lookup (k x) with
  | some y => (m, y)
  | none => (⟨(k x, f x) :: m.entries⟩, f x)

/-- the values returned along a history of calls -/
def run (k : α → κ) (f : α → β) : KMemo κ β → List α → List β
  | _, [] => []
  | m, x :: xs => let r := m.call k f x; r.2 :: run k f r.1 xs

end KMemo
end YModel
