import YModel.Sym
import YModel.Sort
import YModel.Leg
/-!
M3/M4 — block-sparse tensor model.

A tensor is a symmetry rule, a signature vector, a total charge, a `isdiag` flag and a list of
blocks `(key, block)`; the key is the list of leg charges (one `Charge` per leg), a block is a
shape plus an *index function*.  yastn's flat `_data` + `slices` are not represented (in every
tensor yastn produces the blocks lie contiguously in key order), nor is laziness of transposition
(`trans`): the model is the logical view.  A diagonal tensor is modelled by square 2-d blocks with
zeros off the diagonal plus the flag.

The value ring `R` is a parameter with core-Lean operation classes only, so the same definitions
run over Gaussian integers (`GI`, exact) and are reasoned about over any commutative ring.
-/
namespace YModel

abbrev Key := List Charge

/-- order of block keys: lexicographic over the legs, each charge in Python tuple order.  For keys of
one tensor (same rank, same NSYM) this is the Python tuple order on the flattened charges, which is how
yastn sorts `struct.t`. -/
def keyLt : Key → Key → Bool
  | [], [] => false
  | [], _ :: _ => true
  | _ :: _, [] => false
  | a :: as, b :: bs => lexLt a b || (a == b && keyLt as bs)
def keyLe (a b : Key) : Bool := !keyLt b a

structure Block (R : Type) where
  shape : List Nat
  val : List Nat → R

structure Tensor (R : Type) where
  sym : SymDef
  s : List Int
  n : Charge
  isdiag : Bool
  blocks : List (Key × Block R)

inductive Err | sym | signature | bondDim | axes | charge | diag | rank | other
deriving Repr, DecidableEq, Inhabited

namespace Tensor
variable {R : Type}

def rank (T : Tensor R) : Nat := T.s.length
def keys (T : Tensor R) : List Key := T.blocks.map (·.1)
def get? (T : Tensor R) (k : Key) : Option (Block R) := (T.blocks.find? (fun kb => kb.1 == k)).map (·.2)

end Tensor

/-! ### multi-indices -/

/-- all multi-indices of a shape, row-major order -/
def allIdx : List Nat → List (List Nat)
  | [] => [[]]
  | d :: ds => (List.range d).flatMap (fun i => (allIdx ds).map (fun r => i :: r))

def prodL : List Nat → Nat
  | [] => 1
  | d :: ds => d * prodL ds

/-- inverse of `ravel` -/
def unravel : List Nat → Nat → List Nat
  | [], _ => []
  | _ :: ds, p => (p / prodL ds) :: unravel ds (p % prodL ds)

/-- row-major flat position -/
def ravel : List Nat → List Nat → Nat
  | [], _ => 0
  | _ :: _, [] => 0
  | d :: ds, i :: is => i * prodL ds + ravel ds is

def inRange (shape idx : List Nat) : Bool :=
  shape.length == idx.length && (List.zipWith (fun d i => decide (i < d)) shape idx).all id

/-- sum of a function over all multi-indices of a shape -/
def sumIdx {R} [Zero R] [Add R] (shape : List Nat) (f : List Nat → R) : R :=
  ((allIdx shape).map f).foldl (· + ·) 0

/-- pick entries of a list at given positions -/
def pick {α} [Inhabited α] (l : List α) (pos : List Nat) : List α := pos.map (fun p => l.getD p default)

/-! ### sector tables (legs derived from blocks) -/

def insertSorted (lt : α → α → Bool) (x : α) : List α → List α
  | [] => [x]
  | y :: ys => if lt x y then x :: y :: ys else if lt y x then y :: insertSorted lt x ys else y :: ys

/-- sort and remove duplicates (w.r.t. the strict order `lt`) -/
def sortDedup (lt : α → α → Bool) : List α → List α
  | [] => []
  | x :: xs => insertSorted lt x (sortDedup lt xs)

abbrev LegSpace := List (Charge × Nat)

/-- sector table of leg `i`, ascending in charge: what `get_legs(i)` reports -/
def legSpace {R} (T : Tensor R) (i : Nat) : LegSpace :=
  sortDedup (fun a b => lexLt a.1 b.1 || (a.1 == b.1 && a.2 < b.2))
    (T.blocks.map (fun kb => (kb.1.getD i [], kb.2.shape.getD i 0)))

def legSpaces {R} (T : Tensor R) : List LegSpace := (List.range T.rank).map (legSpace T)

/-- one dimension per charge -/
def LegSpace.consistent (L : LegSpace) : Bool := (L.map (·.1)).Nodup

def LegSpace.dim (L : LegSpace) : Nat := (L.map (·.2)).foldl (· + ·) 0

/-- locate a dense position in a leg space: `(charge, position inside the sector)` -/
def locate : LegSpace → Nat → Option (Charge × Nat)
  | [], _ => none
  | (t, d) :: rest, p => if p < d then some (t, p) else locate rest (p - d)

def LegSpace.lookup (L : LegSpace) (t : Charge) : Option Nat := (L.find? (fun td => td.1 == t)).map (·.2)

/-- sector and position inside the sector that dense position `idx[i]` of leg `i` falls into -/
def locAt (L : List LegSpace) (idx : List Nat) (i : Nat) : Option (Charge × Nat) :=
  locate (L.getD i []) (idx.getD i 0)

def keyAt (L : List LegSpace) (idx : List Nat) (n : Nat) : Key :=
  (List.range n).map (fun i => ((locAt L idx i).getD ([], 0)).1)

def posAt (L : List LegSpace) (idx : List Nat) (n : Nat) : List Nat :=
  (List.range n).map (fun i => ((locAt L idx i).getD ([], 0)).2)

/-- `to_numpy(legs=L)`: value of the dense array at a multi-index: the element of the block addressed
by the located sectors, `0` if there is no such block (or the index lies outside the leg spaces). -/
def toDenseOn {R} [Zero R] (L : List LegSpace) (T : Tensor R) (idx : List Nat) : R :=
  if (List.range T.rank).all (fun i => (locAt L idx i).isSome) then
    match T.get? (keyAt L idx T.rank) with
    | none => 0
    | some b => b.val (posAt L idx T.rank)
  else 0

def toDense {R} [Zero R] (T : Tensor R) : List Nat → R := toDenseOn (legSpaces T) T

/-! ### well-formedness -/

def chargeOfKey (d : SymDef) (s : List Int) (k : Key) : Charge := d.fuse k s 1

/-- one bond dimension per (leg, charge): `_test_tD_consistency` -/
def DimsCons {R} (bs : List (Key × Block R)) : Prop :=
  ∀ x ∈ bs, ∀ y ∈ bs, ∀ i : Nat, x.1.getD i [] = y.1.getD i [] → x.2.shape.getD i 0 = y.2.shape.getD i 0

/-- executable form of `DimsCons` for tensors of rank `rank` -/
def dimsConsB {R} (rank : Nat) (bs : List (Key × Block R)) : Bool :=
  bs.all (fun x => bs.all (fun y => (List.range rank).all (fun i =>
    x.1.getD i [] != y.1.getD i [] || x.2.shape.getD i 0 == y.2.shape.getD i 0)))

structure WF {R} (ms : List Nat) (T : Tensor R) : Prop where
  sig : ∀ x ∈ T.s, x = 1 ∨ x = -1
  ncanon : isCanonical ms T.n = true
  sorted : T.keys.Pairwise (fun a b => keyLt a b = true)
  keyRank : ∀ kb ∈ T.blocks, kb.1.length = T.rank ∧ kb.2.shape.length = T.rank
  canon : ∀ kb ∈ T.blocks, ∀ c ∈ kb.1, isCanonical ms c = true
  rule : ∀ kb ∈ T.blocks, chargeOfKey T.sym T.s kb.1 = T.n
  dimsPos : ∀ kb ∈ T.blocks, ∀ d ∈ kb.2.shape, 0 < d
  dimsCons : DimsCons T.blocks

/-- decidable structural check used by the driver on every result (`is_consistent` analogue) -/
def wfCheck {R} (ms : List Nat) (T : Tensor R) : Bool :=
  T.s.all (fun x => x == 1 || x == -1) &&
  isCanonical ms T.n &&
  (T.keys.zip T.keys.tail).all (fun ab => keyLt ab.1 ab.2) &&
  T.blocks.all (fun kb => kb.1.length == T.rank && kb.2.shape.length == T.rank &&
    kb.1.all (isCanonical ms) && (chargeOfKey T.sym T.s kb.1 == T.n) && kb.2.shape.all (0 < ·)) &&
  dimsConsB T.rank T.blocks

end YModel
