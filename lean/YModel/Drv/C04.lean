import YModel.JsonUtil
import YModel.SymGen
import YModel.Factor
import YModel.DriverCore
namespace YModel.Drv.C04
open Lean YModel YModel.J

def findSym (id : String) : R SymDef :=
  match SymGen.all.find? (·.id == id) with
  | some d => pure d
  | none => throw s!"unknown symmetry {id}"

/-- {op:"factor_struct", sym, s:[s0,s1], n, blocks:[[r, c, [Dl, Dr]]…], sU, nU}
    → {U:[[r, t, [Dl, m]]…], V:[[t, c, [m, Dr]]…], S:[[t, m]…], Un, Vn} -/
def factorStructH (j : Json) : R Json := do
  let d ← findSym (← str (← field j "sym"))
  let s ← ints (← field j "s")
  let n ← ints (← field j "n")
  let sU ← int (← field j "sU")
  let nU ← bool (← field j "nU")
  let bl ← list (fun b => do
    let a ← arr b
    let r ← ints a[0]!
    let c ← ints a[1]!
    let D ← nats a[2]!
    pure ({ r := r, c := c, Dl := D.getD 0 0, Dr := D.getD 1 0 } : MBlock)) (← field j "blocks")
  let fs := factorStruct d (s.getD 0 1) (s.getD 1 1) n bl sU nU
  pure (obj [
    ("U", ofList (fun (x : Charge × Charge × Nat × Nat) => Json.arr #[ofInts x.1, ofInts x.2.1, ofNats [x.2.2.1, x.2.2.2]]) fs.U),
    ("V", ofList (fun (x : Charge × Charge × Nat × Nat) => Json.arr #[ofInts x.1, ofInts x.2.1, ofNats [x.2.2.1, x.2.2.2]]) fs.V),
    ("S", ofList (fun (x : Charge × Nat) => Json.arr #[ofInts x.1, ofNat x.2]) fs.S),
    ("Un", ofInts fs.Un), ("Vn", ofInts fs.Vn)])

def handlers : List (String × Handler) := [("factor_struct", factorStructH)]

end YModel.Drv.C04
