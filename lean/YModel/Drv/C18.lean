import YModel.JsonUtil
import YModel.Krylov
/-!
Driver for C18: runs the generic Krylov model (`YModel/Krylov.lean`) instantiated with
* `Float` scalars / `FloatArray` vectors (real problems), and
* complex scalars as pairs of `Float` / pairs of `FloatArray` (complex problems),
the linear map being a dense matrix sent by the harness.  Floats travel as their 64-bit patterns (exact).
The small-matrix exponential is a scaling-and-squaring Taylor evaluation written here; the eigen-decomposition and the
pseudo-inverse solve of the small matrix are supplied by the harness (parameters `eig`, `lstsq` of the model) and their
defining identities are re-checked here.  The step-size heuristic of Niesen–Wright is transcribed in `nwCtrl`.
-/
namespace YModel.Drv.C18
open Lean YModel YModel.J YModel.Krylov

/-! ### complex numbers and vectors -/
abbrev C := Float × Float

namespace C
@[inline] def add (a b : C) : C := (a.1 + b.1, a.2 + b.2)
@[inline] def sub (a b : C) : C := (a.1 - b.1, a.2 - b.2)
@[inline] def mul (a b : C) : C := (a.1 * b.1 - a.2 * b.2, a.1 * b.2 + a.2 * b.1)
@[inline] def neg (a : C) : C := (-a.1, -a.2)
@[inline] def conj (a : C) : C := (a.1, -a.2)
def abs (a : C) : Float :=
  if a.2 == 0 then a.1.abs else if a.1 == 0 then a.2.abs else
  let x := a.1.abs; let y := a.2.abs
  if x > y then x * Float.sqrt (1 + (y / x) * (y / x)) else y * Float.sqrt (1 + (x / y) * (x / y))
def div (a b : C) : C :=
  if b.2 == 0 then (a.1 / b.1, a.2 / b.1) else
  let d := b.1 * b.1 + b.2 * b.2
  ((a.1 * b.1 + a.2 * b.2) / d, (a.2 * b.1 - a.1 * b.2) / d)
end C

structure CVec where
  re : FloatArray
  im : FloatArray

def fmap2 (f : Float → Float → Float) (a b : FloatArray) : FloatArray := Id.run do
  let n := a.size
  let mut r := FloatArray.emptyWithCapacity n
  for i in [0:n] do
    r := r.push (f (a.get! i) (b.get! i))
  return r

def fmap (f : Float → Float) (a : FloatArray) : FloatArray := Id.run do
  let mut r := FloatArray.emptyWithCapacity a.size
  for i in [0:a.size] do
    r := r.push (f (a.get! i))
  return r

def fdot (a b : FloatArray) : Float := Id.run do
  let mut s := 0.0
  for i in [0:a.size] do
    s := s + a.get! i * b.get! i
  return s

def CVec.add (a b : CVec) : CVec := ⟨fmap2 (· + ·) a.re b.re, fmap2 (· + ·) a.im b.im⟩
def CVec.smul (c : C) (a : CVec) : CVec := Id.run do
  let n := a.re.size
  let mut r := FloatArray.emptyWithCapacity n
  let mut s := FloatArray.emptyWithCapacity n
  for i in [0:n] do
    let x := a.re.get! i; let y := a.im.get! i
    r := r.push (c.1 * x - c.2 * y)
    s := s.push (c.1 * y + c.2 * x)
  return ⟨r, s⟩
/-- vdot(a, b) = Σ conj(a_i) b_i -/
def CVec.inner (a b : CVec) : C :=
  (fdot a.re b.re + fdot a.im b.im, fdot a.re b.im - fdot a.im b.re)

/-- the model's arithmetic on complex pairs -/
def cplxArith : Arith C CVec where
  zero := (0, 0)
  one := (1, 0)
  ofNat n := (Float.ofNat n, 0)
  add := C.add
  sub := C.sub
  mul := C.mul
  div := C.div
  neg := C.neg
  abs a := (C.abs a, 0)
  re a := (a.1, 0)
  sqrt a := (Float.sqrt a.1, 0)
  lt a b := a.1 < b.1
  isZero a := a.1 == 0 && a.2 == 0
  vadd := CVec.add
  smul := CVec.smul
  inner := CVec.inner

/-- the model's arithmetic on `Float` -/
def floatArith : Arith Float FloatArray where
  zero := 0
  one := 1
  ofNat := Float.ofNat
  add := (· + ·)
  sub := (· - ·)
  mul := (· * ·)
  div := (· / ·)
  neg x := -x
  abs := Float.abs
  re x := x
  sqrt := Float.sqrt
  lt a b := a < b
  isZero x := x == 0
  vadd := fmap2 (· + ·)
  smul c := fmap (c * ·)
  inner := fdot

/-! ### dense linear maps -/
structure CMat where
  n : Nat
  re : FloatArray
  im : FloatArray

def CMat.apply (M : CMat) (v : CVec) : CVec := Id.run do
  let n := M.n
  let mut r := FloatArray.emptyWithCapacity n
  let mut s := FloatArray.emptyWithCapacity n
  for i in [0:n] do
    let mut a := 0.0
    let mut b := 0.0
    for j in [0:n] do
      let mr := M.re.get! (i * n + j); let mi := M.im.get! (i * n + j)
      let x := v.re.get! j; let y := v.im.get! j
      a := a + (mr * x - mi * y)
      b := b + (mr * y + mi * x)
    r := r.push a
    s := s.push b
  return ⟨r, s⟩

def CMat.applyReal (M : CMat) (v : FloatArray) : FloatArray := Id.run do
  let n := M.n
  let mut r := FloatArray.emptyWithCapacity n
  for i in [0:n] do
    let mut a := 0.0
    for j in [0:n] do
      a := a + M.re.get! (i * n + j) * v.get! j
    r := r.push a
  return r

/-! ### small-matrix exponential (complex, scaling and squaring + Taylor) -/
abbrev SM := Array (Array C)

def smMul (a b : SM) : SM :=
  let n := a.size
  (Array.range n).map fun i => (Array.range n).map fun j => Id.run do
    let mut s : C := (0, 0)
    for k in [0:n] do
      s := C.add s (C.mul (a[i]!)[k]! (b[k]!)[j]!)
    return s

def smAdd (a b : SM) : SM := (Array.range a.size).map fun i => (Array.range a.size).map fun j => C.add (a[i]!)[j]! (b[i]!)[j]!
def smScale (c : Float) (a : SM) : SM := a.map (·.map fun x => (c * x.1, c * x.2))
def smId (n : Nat) : SM := (Array.range n).map fun i => (Array.range n).map fun j => if i == j then ((1, 0) : C) else (0, 0)
def smNorm1 (a : SM) : Float := Id.run do
  let n := a.size
  let mut best := 0.0
  for j in [0:n] do
    let mut s := 0.0
    for i in [0:n] do
      s := s + C.abs (a[i]!)[j]!
    if s > best then best := s
  return best

/-- exp(M): scale by 2^-s so that ‖M‖₁ ≤ 1/2, Taylor to degree 20, square s times -/
def smExp (M : SM) : SM := Id.run do
  let n := M.size
  let nrm := smNorm1 M
  let mut s : Nat := 0
  let mut sc := 1.0
  if nrm.isNaN || nrm.isInf then
    return M.map (·.map fun _ => (nrm - nrm, 0))   -- NaN matrix, like scipy on overflowing input
  while nrm * sc > 0.5 && s < 1100 do
    s := s + 1
    sc := sc * 0.5
  let A := smScale sc M
  let mut term := smId n
  let mut sum := smId n
  for k in [1:21] do
    term := smScale (1.0 / Float.ofNat k) (smMul term A)
    sum := smAdd sum term
  let mut R := sum
  for _ in [0:s] do
    R := smMul R R
  return R

def expmC (M : List (List C)) : List (List C) :=
  ((smExp (M.map List.toArray).toArray).map Array.toList).toList

def expmR (M : List (List Float)) : List (List Float) :=
  (expmC (M.map (·.map fun x => ((x, 0) : C)))).map (·.map Prod.fst)

/-! ### the Niesen–Wright step-size / Krylov-size heuristic (lines 116–152 of `expmv`) -/
structure NW where
  ncvOld : Option Nat := none
  tauOld : Option Float := none
  omega : Option Float := none
  reject : Bool := false
  orderComputed : Bool := false
  ncvComputed : Bool := false
  order : Float := 0
  ncvEst : Float := 2

def pyMax (a b : Float) : Float := if b > a then b else a   -- max([a, b])
def ceilNat (x : Float) : Nat := (Float.ceil x).toUInt64.toNat

def nwCtrl {K : Type} (toF : K → Float) (ofF : Float → K) (mem : NW) (inp : CtrlIn K) : CtrlOut K × NW :=
  let gamma := 0.8
  let delta := 1.2
  let tau := toF inp.tau
  let err := toF inp.err
  let tOut := toF inp.tOut
  let tNow := toF inp.tNow
  let tol := toF inp.tol
  let m := inp.m
  let mF := Float.ofNat m
  let ncv := inp.ncv
  let omegaOld := mem.omega.getD 0
  let omega := (tOut / tau) * (err / tol)
  let tauOldF := mem.tauOld.getD 0
  let tauDiffers := match mem.tauOld with | none => true | some x => tau != x
  let ncvSame := mem.ncvOld == some ncv
  -- order
  let (order, orderComputed) :=
    if ncvSame && tauDiffers && mem.reject then
      (pyMax 1.0 (Float.log (omega / omegaOld) / Float.log (tau / tauOldF)), true)
    else if mem.reject && mem.orderComputed then (mem.order, false)
    else (0.25 * mF, false)
  -- ncv estimate
  let (ncvEst, ncvComputed) :=
    if !ncvSame && !tauDiffers && mem.reject then
      ((if omega > 0 then
          pyMax 1.1 (Float.pow (omega / omegaOld) (1.0 / (Float.ofNat (mem.ncvOld.getD 0) - Float.ofNat ncv)))
        else 1.1), true)
    else if mem.reject && mem.ncvComputed then (mem.ncvEst, false)
    else (2.0, false)
  let (omega', tauNew, ncvNew) :=
    if inp.happy then (0.0, tau, ncv)
    else if m == inp.ncvMax && omega > delta then (omega, tau * Float.pow (omega / gamma) (-1.0 / order), inp.ncvMax)
    else
      let tauOpt := if omega > 0 then tau * Float.pow (omega / gamma) (-1.0 / order) else tOut - tNow
      let ncvOpt := if omega > 0 then ceilNat (pyMax 1.0 (Float.ceil (mF + Float.log (omega / gamma) / Float.log ncvEst))) else 1
      let c1 := ncv * ceilNat ((tOut - tNow) / tauOpt)
      let c2 := ncvOpt * ceilNat ((tOut - tNow) / tau)
      if c1 < c2 then (omega, tauOpt, m) else (omega, tau, ncvOpt)
  let accept := omega' <= delta
  ({ accept, tauNew := ofF tauNew, ncvNew },
   { ncvOld := some ncv, tauOld := some tau, omega := some omega', reject := !accept, orderComputed, ncvComputed,
     order, ncvEst })

/-! ### JSON -/
def fOfJ (j : Json) : R Float := do
  let n ← j.getNat?
  pure (Float.ofBits (UInt64.ofNat n))
def fToJ (x : Float) : Json := Json.num (JsonNumber.fromNat x.toBits.toNat)
def farr (j : Json) : R FloatArray := do
  let a ← arr j
  let mut r := FloatArray.emptyWithCapacity a.size
  for x in a do
    r := r.push (← fOfJ x)
  pure r
def farrJ (a : FloatArray) : Json := Json.arr ((Array.range a.size).map fun i => fToJ (a.get! i))
def zerosF (n : Nat) : FloatArray := Id.run do
  let mut r := FloatArray.emptyWithCapacity n
  for _ in [0:n] do
    r := r.push 0.0
  return r

/-- {"re":[…], "im":[…]|null} -/
def cvec (j : Json) : R CVec := do
  let re ← farr (← field j "re")
  let imj := fieldD j "im" Json.null
  let im ← if imj.isNull then pure (zerosF re.size) else farr imj
  pure ⟨re, im⟩
def cvecJ (v : CVec) : Json := obj [("re", farrJ v.re), ("im", farrJ v.im)]
def cmat (j : Json) : R CMat := do
  let n ← nat (← field j "n")
  let v ← cvec j
  if v.re.size != n * n || v.im.size != n * n then throw "matrix size"
  pure ⟨n, v.re, v.im⟩
def cnum (j : Json) : R C := do
  let a ← arr j
  pure (← fOfJ a[0]!, ← fOfJ a[1]!)
def cnumJ (c : C) : Json := Json.arr #[fToJ c.1, fToJ c.2]
def cnums (j : Json) : R (List C) := list cnum j

/-- generic view so that each handler is written once for both instantiations -/
structure Inst (K V : Type) where
  A : Arith K V
  ofC : C → K
  toC : K → C
  vOf : CVec → V
  vTo : V → CVec
  app : CMat → V → V
  expm : List (List K) → List (List K)

def instC : Inst C CVec := ⟨cplxArith, id, id, id, id, CMat.apply, expmC⟩
def instR : Inst Float FloatArray :=
  ⟨floatArith, Prod.fst, fun x => (x, 0), fun v => v.re, fun v => ⟨v, zerosF v.size⟩, CMat.applyReal, expmR⟩

def errStr : Err → String
  | .zeroVector => "zero-vector"
  | .index => "index"

def matJ {K} (I : Inst K V) (M : List (List K)) : Json := ofList (fun row => ofList (fun x => cnumJ (I.toC x)) row) M

/-- {op:"expmv", cplx, F, v, t, tol, ncv, herm, normalize, fuel} -/
def runExpmv {K V} (I : Inst K V) (j : Json) : R Json := do
  let F ← cmat (← field j "F")
  let v ← cvec (← field j "v")
  let t ← cnum (← field j "t")
  let tol ← fOfJ (← field j "tol")
  let ncv ← nat (← field j "ncv")
  let herm ← bool (← field j "herm")
  let normalize ← bool (← field j "normalize")
  let fuel ← nat (← field j "fuel")
  let ctrl := nwCtrl (fun k => (I.toC k).1) (fun x => I.ofC (x, 0))
  match expmv I.A (I.app F) I.expm ctrl ({} : NW) fuel F.n (I.vOf v) (I.ofC t) (I.ofC (tol, 0)) ncv herm normalize with
  | .error e => pure (obj [("err", errStr e)])
  | .ok o => pure (obj [("v", cvecJ (I.vTo o.v)), ("steps", ofList (fun x => cnumJ (I.toC x)) o.steps.reverse),
                        ("nf", ofNat o.nf), ("ncv", ofNat o.ncv)])

/-- {op:"expand", cplx, F, v0, tol, ncv, herm} (v0 is normalised by the model as eigs does) →
    {happy, m, V:[…], T: m×m, h: H[(m,m-1)] or 0} -/
def runExpand {K V} (I : Inst K V) (j : Json) : R Json := do
  let F ← cmat (← field j "F")
  let v0 ← cvec (← field j "v0")
  let tol ← fOfJ (← field j "tol")
  let ncv ← nat (← field j "ncv")
  let herm ← bool (← field j "herm")
  let A := I.A
  let nv := norm A (I.vOf v0)
  if A.isZero nv then return obj [("err", "zero-vector")]
  let q0 := A.smul (A.div A.one nv) (I.vOf v0)
  let r := expand A (I.app F) (I.ofC (tol, 0)) ncv herm { V := [q0], cols := [] }
  let m := if r.2 then r.1.V.length else r.1.V.length - 1
  pure (obj [("happy", r.2), ("m", ofNat m), ("V", ofList (fun v => cvecJ (I.vTo v)) r.1.V),
             ("T", matJ I (squareMatrix A r.1.cols m)), ("h", cnumJ (I.toC (hEntry A r.1.cols m (m - 1)))),
             ("normv", cnumJ (I.toC nv))])

def pairsOf {K V} (I : Inst K V) (j : Json) : R (List (K × List K)) := do
  let ps ← arr j
  ps.toList.mapM fun p => do
    let a ← arr p
    let val ← cnum a[0]!
    let vec ← cnums a[1]!
    pure (I.ofC val, vec.map I.ofC)

/-- {op:"eigs", cplx, F, v0, k, which, ncv, herm, pairs:[[val, vec]…]} → {vals, Y, contract} -/
def runEigs {K V} (I : Inst K V) (j : Json) : R Json := do
  let F ← cmat (← field j "F")
  let v0 ← cvec (← field j "v0")
  let k ← nat (← field j "k")
  let which ← str (← field j "which")
  let ncv ← nat (← field j "ncv")
  let herm ← bool (← field j "herm")
  let pairs ← pairsOf I (← field j "pairs")
  let A := I.A
  match eigs A (I.app F) (fun _ => pairs) (I.ofC (1e-13, 0)) (I.vOf v0) k which ncv herm with
  | .error e => pure (obj [("err", errStr e)])
  | .ok res => pure (obj [("vals", ofList (fun p => cnumJ (I.toC p.1)) res), ("Y", ofList (fun p => cvecJ (I.vTo p.2)) res)])

/-- {op:"lin_T", …} → the (m+1)×m matrix and |q0| the harness needs to evaluate `pinv(T) @ be1` -/
def runLinT {K V} (I : Inst K V) (j : Json) : R Json := do
  let F ← cmat (← field j "F")
  let b ← cvec (← field j "b")
  let v0 ← cvec (← field j "v0")
  let tol ← fOfJ (← field j "tol")
  let ncv ← nat (← field j "ncv")
  let herm ← bool (← field j "herm")
  let A := I.A
  let q0 := vsub A (I.vOf b) (I.app F (I.vOf v0))
  let nv := norm A q0
  if A.isZero nv then return obj [("err", "zero-vector")]
  let r := expand A (I.app F) (I.ofC (tol, 0)) ncv herm { V := [A.smul (A.div A.one nv) q0], cols := [] }
  let m := if r.2 then r.1.V.length else r.1.V.length - 1
  pure (obj [("happy", r.2), ("m", ofNat m), ("T", matJ I (lsMatrix A r.1.cols m r.2 (I.ofC (tol, 0)))),
             ("normv", cnumJ (I.toC nv))])

/-- {op:"lin_solver", cplx, F, b, v0, ncv, tol, herm, y:[…]} → {vf, res} -/
def runLin {K V} (I : Inst K V) (j : Json) : R Json := do
  let F ← cmat (← field j "F")
  let b ← cvec (← field j "b")
  let v0 ← cvec (← field j "v0")
  let tol ← fOfJ (← field j "tol")
  let ncv ← nat (← field j "ncv")
  let herm ← bool (← field j "herm")
  let y ← cnums (← field j "y")
  match linSolver I.A (I.app F) (fun _ _ => y.map I.ofC) (I.vOf b) (I.vOf v0) ncv (I.ofC (tol, 0)) herm with
  | .error e => pure (obj [("err", errStr e)])
  | .ok (vf, res) => pure (obj [("vf", cvecJ (I.vTo vf)), ("res", cnumJ (I.toC res))])

/-- {op:"expm", M:[[c…]…]} → the driver's own small-matrix exponential (validated against scipy by the harness) -/
def runExpm (j : Json) : R Json := do
  let M ← list cnums (← field j "M")
  pure (obj [("E", ofList (fun row => ofList cnumJ row) (expmC M))])

def dispatch (fC : Inst C CVec → Json → R Json) (fR : Inst Float FloatArray → Json → R Json) (j : Json) : R Json := do
  let cplx ← bool (← field j "cplx")
  if cplx then fC instC j else fR instR j

def handlers : List (String × (Json → R Json)) :=
  [("expmv", dispatch runExpmv runExpmv), ("expand", dispatch runExpand runExpand), ("eigs", dispatch runEigs runEigs),
   ("lin_T", dispatch runLinT runLinT), ("lin_solver", dispatch runLin runLin), ("expm", runExpm)]

end YModel.Drv.C18
