import YModel.JsonUtil
import YModel.Sched
/-! Driver handlers for C09 (DMRG schedule / environment freshness).  The JSON codecs for events are shared
with `Drv/C10.lean`.

Wire format of an event: `[kind, [int args], reads, writes, pops]`, a key is `[a, b]` or `[a, b, b]` exactly as
the Python dictionary key of `env.F`.  Directions: `0` = 'first', `1` = 'last'. -/
namespace YModel.Drv.C09
open Lean YModel YModel.J YModel.Sched

def keyJson : Key → Json
  | .L m => ofInts [(m : Int) - 1, m]
  | .R m => ofInts [(m : Int), (m : Int) - 1]
  | .DL m => ofInts [(m : Int) - 1, m, m]
  | .DR m => ofInts [(m : Int), (m : Int) - 1, (m : Int) - 1]

def keyOf (j : Json) : R Key := do
  let l ← ints j
  match l with
  | [a, b] =>
    if b = a + 1 ∧ 0 ≤ b then pure (.L b.toNat)
    else if b = a - 1 ∧ 0 ≤ a then pure (.R a.toNat)
    else throw s!"bad key {l}"
  | [a, b, c] =>
    if c = b ∧ b = a + 1 ∧ 0 ≤ b then pure (.DL b.toNat)
    else if c = b ∧ b = a - 1 ∧ 0 ≤ a then pure (.DR a.toNat)
    else throw s!"bad key {l}"
  | _ => throw s!"bad key {l}"

def dirInt : Dir → Int | .first => 0 | .last => 1
def dirOf (i : Int) : R Dir := if i = 0 then pure .first else if i = 1 then pure .last else throw "bad direction"
def sgnInt : Sgn → Int | .minus => -1 | .plus => 1
def sgnOf (i : Int) : R Sgn := if i = -1 then pure .minus else if i = 1 then pure .plus else throw "bad sign"
def b2i (b : Bool) : Int := if b then 1 else 0

/-- kind and integer arguments of an event; `st` = state before the event (for `abs`: the central block) -/
def evHead (N : Nat) (st : St) : Ev → String × List Int
  | .upd n to => ("upd", [n, dirInt to])
  | .clr ns => ("clr", ns.map (fun (n : Nat) => (n : Int)))
  | .h0 m => ("H0", [(m : Int) - 1, m])
  | .h1 n => ("H1", [n])
  | .h2 n => ("H2", [n, (n : Int) + 1])
  | .meas m => ("meas", [(m : Int) - 1, m])
  | .w1 n => ("w1", [n])
  | .w2 n => ("w2", [n, (n : Int) + 1])
  | .orth n to => ("orth", [n, dirInt to])
  | .abs to => ("abs", dirInt to :: (match st.pC with | none => [] | some m => [(m : Int) - 1, m]))
  | .wC m => ("wC", [(m : Int) - 1, m])
  | .mA n s => ("A", [n, sgnInt s])
  | .mAA n s => ("AA", [n, (n : Int) + 1, sgnInt s])
  | .mC m s => ("C", [(m : Int) - 1, m, sgnInt s, b2i (m = 0 ∨ m = N)])
  | .enl m r => ("enl", [(m : Int) - 1, m, b2i r])

def evJson (N : Nat) (st : St) (e : Ev) (eff : Eff) : Json :=
  let (k, a) := evHead N st e
  Json.arr #[Json.str k, ofInts a, ofList keyJson eff.r, ofList keyJson eff.w, ofList keyJson eff.p]

def natOf (i : Int) : R Nat := if 0 ≤ i then pure i.toNat else throw s!"negative index {i}"

/-- parse an event of a real trace; returns the event, its observed effects and (for `abs`) the observed pC -/
def evOf (j : Json) : R (Ev × Eff × Option (Option Nat)) := do
  let a ← arr j
  let k ← str a[0]!
  let args ← ints a[1]!
  let r ← list keyOf (a[2]?.getD (Json.arr #[]))
  let w ← list keyOf (a[3]?.getD (Json.arr #[]))
  let p ← list keyOf (a[4]?.getD (Json.arr #[]))
  let eff : Eff := { r := r, w := w, p := p }
  match k, args with
  | "upd", [n, d] => pure (.upd (← natOf n) (← dirOf d), eff, none)
  | "clr", ns => pure (.clr (← ns.mapM natOf), eff, none)
  | "H0", [a, b] =>
    let (lo, hi) := if a ≤ b then (a, b) else (b, a)
    if hi = lo + 1 then pure (.h0 (← natOf hi), eff, none) else throw "bad H0 bond"
  | "H1", [n] => pure (.h1 (← natOf n), eff, none)
  | "H2", [a, b] =>
    let (lo, hi) := if a ≤ b then (a, b) else (b, a)
    if hi = lo + 1 then pure (.h2 (← natOf lo), eff, none) else throw "bad H2 bond"
  | "meas", [a, b] =>
    let (lo, hi) := if a ≤ b then (a, b) else (b, a)
    if hi = lo + 1 then pure (.meas (← natOf hi), eff, none) else throw "measure at a non-adjacent bond is not modelled"
  | "w1", [n] => pure (.w1 (← natOf n), eff, none)
  | "w2", [a, b] => if b = a + 1 then pure (.w2 (← natOf a), eff, none) else throw "bad w2 bond"
  | "orth", [n, d] => pure (.orth (← natOf n) (← dirOf d), eff, none)
  | "abs", [d] => pure (.abs (← dirOf d), eff, some none)
  | "abs", [d, _, m] => pure (.abs (← dirOf d), eff, some (some (← natOf m)))
  | "wC", [_, m] => pure (.wC (← natOf m), eff, none)
  | "A", [n, s] => pure (.mA (← natOf n) (← sgnOf s), eff, none)
  | "AA", [a, _, s] => pure (.mAA (← natOf a) (← sgnOf s), eff, none)
  | "C", [_, m, s, _] => pure (.mC (← natOf m) (← sgnOf s), eff, none)
  | "enl", [_, m, r] => pure (.enl (← natOf m) (r != 0), eff, none)
  | _, _ => throw s!"unknown event {k} {args}"

/-- verbose model run: JSON events (with the model's effects) and problems -/
def runModel (N : Nat) (pre : Bool) (st0 : St) (evs : List Ev) : List Json × List (Nat × String) × St :=
  let rec go (st : St) (i : Nat) : List Ev → List Json × List (Nat × String) × St
    | [] => ([], [], st)
    | e :: es =>
      let eff := effOf pre st e
      let (st', msgs) := applyRaw N st e eff
      let (a, b, c) := go st' (i + 1) es
      (evJson N st e eff :: a, msgs.map (fun m => (i, m)) ++ b, c)
  go st0 0 evs

def violJson (v : List (Nat × String)) : Json := ofList (fun (p : Nat × String) => Json.arr #[ofNat p.1, Json.str p.2]) v

def gaugeStr : Gauge → String | .left => "L" | .right => "R" | .none => "-"

def stateJson (N : Nat) (st : St) : Json :=
  obj [("pC", match st.pC with | none => Json.null | some m => ofInts [(m : Int) - 1, m]),
       ("gauge", Json.str (String.join ((List.range N).map (fun n => gaugeStr (st.g n))))),
       ("ver", ofNats ((List.range N).map st.ver)),
       ("fresh_edge", Json.bool (st.fresh N (.L 0) && st.fresh N (.R 0)))]

def methodOf (s : String) : R Method :=
  if s = "1site" then pure .one else if s = "2site" then pure .two else if s = "12site" then pure .onetwo
  else throw s!"unknown method {s}"

/-- {op:"dmrg_trace", N, methods:[…], pre, canon} → {events, viol, exit} -/
def dmrgTraceH (j : Json) : R Json := do
  let N ← nat (← field j "N")
  let ms ← list (fun x => do methodOf (← str x)) (← field j "methods")
  let pre ← bool (← field j "pre")
  let canon ← bool (← field j "canon")
  let evs := (if canon then [] else canonizeFirst N) ++ dmrgTrace N ms
  let (js, viol, st) := runModel N pre (init N canon) evs
  pure (obj [("events", Json.arr js.toArray), ("viol", violJson viol), ("exit", stateJson N st)])

/-- run the stamp model over a *real* trace: {op:"check_trace", N, canon, events:[raw…]} → {viol, exit} -/
def checkTraceH (j : Json) : R Json := do
  let N ← nat (← field j "N")
  let canon ← bool (← field j "canon")
  let evs ← list evOf (← field j "events")
  let rec go (st : St) (i : Nat) : List (Ev × Eff × Option (Option Nat)) → List (Nat × String) × St
    | [] => ([], st)
    | (e, eff, pc) :: es =>
      let pcMsg := match pc with
        | some p => if p = st.pC then [] else [(i, "central block differs from the model")]
        | none => []
      let (st', msgs) := applyRaw N st e eff
      let (b, c) := go st' (i + 1) es
      (pcMsg ++ msgs.map (fun m => (i, m)) ++ b, c)
  let (viol, st) := go (init N canon) 0 evs
  pure (obj [("viol", violJson viol), ("exit", stateJson N st), ("n", ofNat evs.length)])

def handlers : List (String × (Json → R Json)) :=
  [("dmrg_trace", dmrgTraceH), ("check_trace", checkTraceH)]

end YModel.Drv.C09
