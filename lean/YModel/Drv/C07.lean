import YModel.JsonUtil
import YModel.JW
import YModel.OpTables
namespace YModel.Drv.C07
open Lean YModel YModel.J YModel.JW

def findFamily (cls sym : String) : R Family :=
  match OpTables.all.find? (fun F => F.cls == cls && F.sym == sym) with
  | some F => pure F
  | none => throw s!"unknown family {cls}:{sym}"

def kJson (x : K) : Json := ofInts [x.a, x.b, x.c, x.d]

def matJson (m : Mat) : Json := Json.arr (m.map (fun r => Json.arr (r.map kJson).toArray)).toArray

/-- sparse encoding `[r, c, a, b, c', d]` of the non-zero entries -/
def sparseJson (den : Nat) (m : Mat) : Json :=
  let rows := m.zipIdx.flatMap (fun (r, i) => (r.zipIdx.filter (fun (x, _) => x != 0)).map (fun (x, j) =>
    ofInts [(i : Int), (j : Int), x.a, x.b, x.c, x.d]))
  obj [("den", ofNat den), ("nz", Json.arr rows.toArray)]

/-- {op:"tables"} → every generated family -/
def tables (_ : Json) : R Json :=
  pure (obj [("families", ofList (fun (F : Family) => obj [
    ("cls", F.cls), ("sym", F.sym), ("nsym", ofNat F.nsym),
    ("fss", Json.arr ((List.range F.nsym).map (fun j => Json.bool (F.fss.getD j false))).toArray),
    ("basis", ofIntss F.basis), ("wellFormed", F.wellFormed),
    ("ops", ofList (fun (o : OpDef) => obj [("name", o.name), ("n", ofInts o.n), ("den", ofNat o.den),
        ("exact", o.exact), ("mat", matJson o.mat)]) F.ops)]) OpTables.all)])

/-- {op:"terms_dense", cls, sym, N, fpos:[…], terms:[[[re,im],[positions],[names]],…]}
→ {user:{den,nz}, rule:{den,nz}}: Σ amplitude × (user-order product | generate_mpo rule) -/
def termsDense (j : Json) : R Json := do
  let F ← findFamily (← str (← field j "cls")) (← str (← field j "sym"))
  let N ← nat (← field j "N")
  let fposL ← ints (← field j "fpos")
  let fpos : Nat → Int := fun i => fposL.getD i (i : Int)
  let terms ← arr (← field j "terms")
  let L := F.loc
  let dim := L.d ^ N
  let mut user : SMat := SMat.zeroOf dim
  let mut rule : SMat := SMat.zeroOf dim
  for t in terms.toList do
    let a ← arr t
    let amp ← ints a[0]!
    let pos ← nats a[1]!
    let names ← list str a[2]!
    if pos.length != names.length then throw "positions/operators mismatch"
    let mut ops : List TOp := []
    let mut den : Nat := 1
    for (p, nm) in pos.zip names do
      match F.find? nm with
      | none => throw s!"unknown operator {nm}"
      | some o =>
        if !o.exact then throw s!"inexact operator {nm}"
        if p ≥ N then throw "position outside the chain"
        ops := ops ++ [⟨p, o.mat, o.n⟩]
        den := den * o.den
    let ampK : K := ⟨amp.getD 0 0, 0, amp.getD 1 0, 0⟩
    user := user + ⟨den, matScale ampK (userProduct L fpos N ops)⟩
    rule := rule + ⟨den, matScale ampK (mpoRule L F.ferm F.nsym fpos N ops)⟩
  pure (obj [("user", sparseJson user.den user.m), ("rule", sparseJson rule.den rule.m)])

/-- {op:"parse_bonds", cases:[[pattern, N],…]} → {res:[{ok:[[i,j],…]} | {err:"ValueError"}]} -/
def parseBonds (j : Json) : R Json := do
  let cases ← arr (← field j "cases")
  let res ← cases.toList.mapM (fun c => do
    let a ← arr c
    let s ← str a[0]!
    let N ← nat a[1]!
    match parse2siteBonds s N with
    | some ps => pure (obj [("ok", Json.arr (ps.map (fun p => ofInts [p.1, p.2])).toArray)])
    | none => pure (obj [("err", "ValueError")]))
  pure (obj [("res", Json.arr res.toArray)])

def handlers : List (String × (Json → R Json)) :=
  [("tables", tables), ("terms_dense", termsDense), ("parse_bonds", parseBonds)]

end YModel.Drv.C07
