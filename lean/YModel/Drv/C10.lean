import YModel.JsonUtil
import YModel.Sched
import YModel.Drv.C09
/-! Driver handlers for C10 (TDVP schedule, overlap chain, time grid).  Event codecs: `Drv/C09.lean`. -/
namespace YModel.Drv.C10
open Lean YModel YModel.J YModel.Sched YModel.Drv.C09

def updJson : Upd → Json
  | .site lo hi s => if lo = hi then Json.arr #[Json.str "A", ofNat lo, ofInt (sgnInt s)]
                     else Json.arr #[Json.str "AA", ofNat lo, ofNat hi, ofInt (sgnInt s)]
  | .bond m s => Json.arr #[Json.str "C", ofInt ((m : Int) - 1), ofNat m, ofInt (sgnInt s)]

def updOf (j : Json) : R Upd := do
  let a ← arr j
  let k ← str a[0]!
  let args ← (a.toList.drop 1).mapM int
  match k, args with
  | "A", [n, s] => pure (.site (← natOf n) (← natOf n) (← sgnOf s))
  | "AA", [lo, hi, s] => pure (.site (← natOf lo) (← natOf hi) (← sgnOf s))
  | "C", [_, m, s] => pure (.bond (← natOf m) (← sgnOf s))
  | _, _ => throw s!"bad update {k} {args}"

/-- per sweep: events and whether its local updates form the two mirrored overlap chains -/
def sweepsV (m : Method) (N : Nat) : Nat → List Bool → List (List Ev) × List Bool
  | 0, o => ([], o)
  | k + 1, o =>
    let (a, o1) := tdvpSweep m N o
    let (rest, o2) := sweepsV m N k o1
    (a :: rest, o2)

/-- {op:"tdvp_trace", N, method, sweeps, oracle:[0/1…], pre} → {events, viol, exit, chains:[bool per sweep], oracle_left} -/
def tdvpTraceH (j : Json) : R Json := do
  let N ← nat (← field j "N")
  let m ← methodOf (← str (← field j "method"))
  let k ← nat (← field j "sweeps")
  let o ← ints (← field j "oracle")
  let pre ← bool (← field j "pre")
  let (sw, oleft) := sweepsV m N k (o.map (· != 0))
  let evs := setupFirst N ++ sw.flatten
  let (js, viol, st) := runModel N pre (init N true) evs
  pure (obj [("events", Json.arr js.toArray), ("viol", violJson viol), ("exit", stateJson N st),
             ("chains", ofList (fun (s : List Ev) => Json.bool (sweepIsChain N (updsOf N s))) sw),
             ("upds", ofList (fun (s : List Ev) => ofList updJson (updsOf N s)) sw),
             ("oracle_left", ofNat oleft.length)])

/-- {op:"chain", N, upds:[…]} (the local updates of ONE real sweep, skipped `_update_C` removed) → {ok, ncv_ok} -/
def chainH (j : Json) : R Json := do
  let N ← nat (← field j "N")
  let us ← list updOf (← field j "upds")
  -- memory keys: different local problems never share a key
  let keys := us.map (fun u => (ncvKey u, match u with | .site lo hi _ => (0, lo, hi) | .bond m _ => (1, m, m)))
  let ncvOk := keys.all (fun a => keys.all (fun b => a.1 != b.1 || a.2 == b.2))
  pure (obj [("ok", Json.bool (sweepIsChain N us)), ("ncv_ok", Json.bool ncvOk)])

def qJson (q : Q) : Json := let n := q.normalize; Json.arr #[ofInt n.num, ofNat n.den]

/-- {op:"time_grid", cases:[[Tnum, Tden, dtnum, dtden], …]} → per case {steps, ds, sub2, sub4}
(`sub*` = [[mid offset, length], …] in absolute units, i.e. multiplied by ds) -/
def timeGridH (j : Json) : R Json := do
  let cases ← arr (← field j "cases")
  let res ← cases.toList.mapM (fun c => do
    let a ← ints c
    match a with
    | [tn, td, dn, dd] =>
      let T : Q := ⟨tn, td.toNat⟩
      let dt : Q := ⟨dn, dd.toNat⟩
      let steps := stepsQ T dt
      let ds := dsQ T dt
      let sub (tb : List (Lin × Lin)) := ofList (fun (p : Q × Q) => Json.arr #[qJson (p.1.mul ds), qJson (p.2.mul ds)]) (subSteps tb s2)
      pure (obj [("steps", ofInt steps), ("ds", qJson ds), ("sub2", sub table2), ("sub4", sub table4)])
    | _ => throw "bad time-grid case")
  pure (obj [("res", Json.arr res.toArray)])

def constsH (_ : Json) : R Json :=
  pure (obj [("s2", Json.arr #[ofNat Consts.s2Num, ofNat Consts.s2Den]), ("eps_den", ofNat Consts.epsDen),
             ("steps_shape", Json.str Consts.stepsShape), ("n_fourth", ofNat Consts.fourth.length)])

def handlers : List (String × (Json → R Json)) :=
  [("tdvp_trace", tdvpTraceH), ("check_trace", checkTraceH), ("chain", chainH), ("time_grid", timeGridH),
   ("consts", constsH)]

end YModel.Drv.C10
