import YModel.JsonUtil
import YModel.Gauge
/-! JSON handlers of the C08 model driver: gauge state machine traces and the discarded-weight fold. -/
namespace YModel.Drv.C08
open Lean YModel YModel.J YModel.Gauge

def dirOf (s : String) : Dir :=
  if s == "first" then .first else if s == "last" then .last else .bad

def dirStr : Dir → String
  | .first => "first" | .last => "last" | .bad => "bad"

def gStr : G → String
  | .L => "L" | .R => "R" | .none => "-"

def errJson : Option Err → Json
  | none => Json.null
  | some .yastn => "yastn"
  | some .key => "key"

/-- ["orth", n, to, normalize] | ["diag", normalize] | ["absorb", to] | ["remove"] |
    ["canonize", to, normalize] | ["truncate", to, hasOpts, normalize] -/
def callOf (j : Json) : R Call := do
  let a ← arr j
  let name ← str a[0]!
  match name with
  | "orth" => pure (.orth (← int a[1]!) (dirOf (← str a[2]!)) (← bool a[3]!))
  | "diag" => pure (.diag (← bool a[1]!))
  | "absorb" => pure (.absorb (dirOf (← str a[1]!)))
  | "remove" => pure .remove
  | "canonize" => pure (.canonize (dirOf (← str a[1]!)) (← bool a[2]!))
  | "truncate" => pure (.truncate (dirOf (← str a[1]!)) (← bool a[2]!) (← bool a[3]!))
  | _ => throw s!"unknown call {name}"

def callJson : Call → Json
  | .orth n to _ => Json.arr #["orth", ofInt n, dirStr to]
  | .diag _ => Json.arr #["diag"]
  | .absorb to => Json.arr #["absorb", dirStr to]
  | .remove => Json.arr #["remove"]
  | .canonize to _ => Json.arr #["canonize", dirStr to]
  | .truncate to _ _ => Json.arr #["truncate", dirStr to]

def pairJson (p : Int × Int) : Json := ofInts [p.1, p.2]

def snapJson (r : St × Option Err × List Call) : Json :=
  let s := r.1
  obj [("pC", match s.pC with | none => Json.null | some p => pairJson p),
       ("bonds", ofList pairJson s.bonds),
       ("err", errJson r.2.1),
       ("gauge", ofList (fun (i : Nat) => (gStr (s.gauge (i : Int)) : Json)) (List.range s.N)),
       ("unit", s.unit),
       ("trace", ofList callJson r.2.2)]

def traceCase (j : Json) : R Json := do
  let N ← nat (← field j "N")
  let calls ← list callOf (← field j "calls")
  pure (ofList snapJson (runTrace (init N) calls))

/-- {op:"trace_batch", cases:[{N, calls:[…]}, …]} → {res:[[snapshot after each call], …]} -/
def traceBatch (j : Json) : R Json := do
  let cases ← arr (← field j "cases")
  let res ← cases.toList.mapM traceCase
  pure (obj [("res", Json.arr res.toArray)])

def intOfStr (j : Json) : R Int := do
  let s ← str j
  match s.toInt? with
  | some i => pure i
  | none => throw s!"not an integer: {s}"

def ratOf (j : Json) : R Rat := do
  let a ← arr j
  let n ← intOfStr a[0]!
  let d ← intOfStr a[1]!
  if d ≤ 0 then throw "denominator must be positive"
  pure (Rat.divInt n d)

def ratJson (q : Rat) : Json := Json.arr #[(toString q.num : Json), (toString q.den : Json)]

/-- {op:"refold", cases:[[[num,den],…], …]} (integers as decimal strings; per-cut `discarded_local`)
    → {res:[[num,den], …]} = exact `discarded2_total` -/
def refold (j : Json) : R Json := do
  let cases ← arr (← field j "cases")
  let res ← cases.toList.mapM (fun c => do
    let ds ← list ratOf c
    pure (ratJson (accumulate ds)))
  pure (obj [("res", Json.arr res.toArray)])

def handlers : List (String × (Json → R Json)) :=
  [("trace_batch", traceBatch), ("refold", refold)]

end YModel.Drv.C08
