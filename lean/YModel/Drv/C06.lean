import YModel.JsonUtil
import YModel.DMps
/-! Driver of the dense MPS model: evaluates an expression DAG from dense integer site tensors over exact
Gaussian rationals and returns dense vectors and overlap / expectation numbers (closed at several bonds). -/
namespace YModel.Drv.C06
open Lean YModel YModel.J YModel.DMps

/-- `[re, im, den]` -/
def gq (j : Json) : R GQ := do
  let a ← ints j
  match a with
  | [re, im, den] => if den ≤ 0 then throw "denominator" else pure (GQ.mk' re im den.toNat)
  | [p, q] => if q ≤ 0 then throw "denominator" else pure (GQ.mk' p 0 q.toNat)
  | _ => throw "scalar must be [re,im,den] or [p,q]"

def ofGQ (x : GQ) : Json := ofInts [x.re, x.im, (x.den : Int)]

/-- materialise the index function of a site into a flat array (identity on in-range indices) -/
def tabSite (A : Site GQ) : Site GQ :=
  let n := A.dk * A.db * A.Dl * A.Dr
  let arr : Array GQ := Array.ofFn (n := n) (fun i =>
    let r := i.val % A.Dr
    let q := i.val / A.Dr
    let l := q % A.Dl
    let q := q / A.Dl
    let t := q % A.db
    let s := q / A.db
    A.a s t l r)
  { A with a := fun s t l r =>
      if s < A.dk ∧ t < A.db ∧ l < A.Dl ∧ r < A.Dr then arr.getD (((s * A.db + t) * A.Dl + l) * A.Dr + r) 0 else 0 }

def tabState (ψ : State GQ) : State GQ := { ψ with sites := ψ.sites.map tabSite }

def siteOf (j : Json) : R (Site GQ) := do
  let dk ← nat (← field j "dk")
  let db ← nat (← field j "db")
  let Dl ← nat (← field j "Dl")
  let Dr ← nat (← field j "Dr")
  let re ← ints (← field j "re")
  let im ← ints (← field j "im")
  let n := dk * db * Dl * Dr
  if re.length ≠ n ∨ im.length ≠ n then throw "site data length"
  let ar := re.toArray
  let ai := im.toArray
  pure { dk := dk, db := db, Dl := Dl, Dr := Dr,
         a := fun s t l r =>
           if s < dk ∧ t < db ∧ l < Dl ∧ r < Dr then
             let i := ((s * db + t) * Dl + l) * Dr + r
             ⟨ar.getD i 0, ai.getD i 0, 1⟩
           else 0 }

def leafOf (j : Json) : R (State GQ) := do
  let nr ← nat (← field j "nr")
  let per ← bool (← field j "periodic")
  let f ← gq (← field j "factor")
  let sites ← list siteOf (← field j "sites")
  pure { nrPhys := nr, sites := sites, factor := f, periodic := per }

/-- exact modulus of a Gaussian rational with rational modulus -/
def modulus (c : GQ) : R GQ :=
  let n := (c.re * c.re + c.im * c.im).toNat
  let r := Nat.sqrt n
  if r * r = n then pure (GQ.mk' r 0 c.den) else throw "irrational modulus"

def liftE (e : Except String (State GQ)) : R (State GQ) := e

def getArg (env : Array (State GQ)) (i : Nat) : R (State GQ) :=
  match env[i]? with
  | some x => pure x
  | none => throw s!"bad node id {i}"

def evalStep (env : Array (State GQ)) (j : Json) : R (State GQ) := do
  let f ← str (← field j "f")
  let ids ← nats (← field j "a")
  let args ← ids.mapM (getArg env)
  let one : GQ := 1
  let arg0 : R (State GQ) := match args with | x :: _ => pure x | [] => throw "missing operand"
  let res ← (match f with
    | "add" => do
      let amps ← list gq (← field j "amps")
      liftE (DMps.add args amps)
    | "plus" => liftE (DMps.add args [one, one])
    | "sub" => liftE (DMps.add args [one, -one])
    | "neg" => do pure (DMps.smul (-one) one (← arg0))
    | "smul" | "rmul" => do
      let c ← gq (← field j "c")
      pure (DMps.smul c (← modulus c) (← arg0))
    | "div" => do
      let c ← gq (← field j "c")
      let ci := one / c
      pure (DMps.smul ci (← modulus ci) (← arg0))
    | "setfactor" => do
      let q ← gq (← field j "fac")
      let x ← arg0
      pure { x with factor := x.factor * q }
    | "copy" | "clone" | "shallow" => arg0
    | "conj" => do pure (DMps.conj (← arg0))
    | "T" => do pure (DMps.transpose (← arg0))
    | "H" => do pure (DMps.conjTranspose (← arg0))
    | "rev" => do pure (DMps.reverseSites (← arg0))
    | "matmul" =>
      match args with
      | [a, b] => liftE (DMps.multiply a b)
      | _ => throw "matmul needs two operands"
    | _ => throw s!"unknown step {f}")
  pure (tabState res)

def lcmDen (v : List GQ) : Nat := v.foldl (fun acc x => Nat.lcm acc x.den) 1

def denseJson (id : Nat) (ψ : State GQ) : Json :=
  let v := DMps.toVec ψ
  let d := lcmDen v
  obj [("id", ofNat id), ("den", ofNat d),
       ("v", Json.arr (v.map (fun x => ofInts [x.re * (d / x.den : Nat), x.im * (d / x.den : Nat)])).toArray)]

def cutsOf (n : Nat) : List Nat := [0, n / 2, n].eraseDups

def obsJson (env : Array (State GQ)) (j : Json) : R Json := do
  let o ← str (← field j "o")
  let id ← nat (← field j "id")
  let bra ← getArg env (← nat (← field j "bra"))
  let ket ← getArg env (← nat (← field j "ket"))
  let cuts := cutsOf bra.sites.length
  match o with
  | "overlap" =>
    pure (obj [("id", ofNat id), ("v", ofList ofGQ (cuts.map (fun n => DMps.overlapAt n bra ket)))])
  | "mpo" => do
    let ops ← (← nats (← field j "ops")).mapM (getArg env)
    pure (obj [("id", ofNat id), ("v", ofList ofGQ (cuts.map (fun n => DMps.measureMpoSumAt n bra ops ket)))])
  | _ => throw s!"unknown observable {o}"

def evalCase (j : Json) : Json :=
  let r : R Json := do
    let leaves ← list leafOf (← field j "leaves")
    let steps ← arr (← field j "steps")
    let mut env : Array (State GQ) := leaves.toArray
    for st in steps do
      let x ← evalStep env st
      env := env.push x
    let want ← nats (← field j "dense")
    let dense ← want.mapM (fun i => do pure (denseJson i (← getArg env i)))
    let obs ← (← arr (← field j "obs")).toList.mapM (obsJson env)
    pure (obj [("dense", Json.arr dense.toArray), ("obs", Json.arr obs.toArray)])
  match r with
  | .ok x => x
  | .error e => obj [("err", e)]

/-- {op:"eval_batch", cases:[…]} → {res:[{dense:[{id,den,v}], obs:[{id,v}]} | {err}]} -/
def evalBatch (j : Json) : R Json := do
  let cases ← arr (← field j "cases")
  pure (obj [("res", Json.arr (cases.map evalCase))])

/-- error branches of `add` / `multiply` on tiny states -/
def malformed (_ : Json) : R Json := do
  let s : Site GQ := ⟨2, 1, 1, 1, fun _ _ _ _ => 1⟩
  let w : Site GQ := ⟨2, 2, 1, 1, fun _ _ _ _ => 1⟩
  let p2 : State GQ := { nrPhys := 1, sites := [s, s], factor := 1 }
  let p3 : State GQ := { nrPhys := 1, sites := [s, s, s], factor := 1 }
  let h2 : State GQ := { nrPhys := 2, sites := [w, w], factor := 1 }
  let e (x : Except String (State GQ)) : Json := match x with | .ok _ => Json.null | .error m => m
  pure (obj [("res", obj [
    ("amps", e (DMps.add [p2, p2] [1, 1, 1])),
    ("N", e (DMps.add [p2, p3] [1, 1])),
    ("nr_phys", e (DMps.add [p2, h2] [1, 1])),
    ("mps-left", e (DMps.multiply p2 h2)),
    ("N2", e (DMps.multiply h2 p3))])])

def handlers : List (String × (Json → R Json)) :=
  [("eval_batch", evalBatch), ("malformed", malformed)]

end YModel.Drv.C06
