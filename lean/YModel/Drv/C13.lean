import YModel.JsonUtil
import YModel.Trunc
namespace YModel.Drv.C13
open Lean YModel YModel.J YModel.Trunc

/-- `[num, den]` -/
def tolOf (j : Json) : R Tol := do
  let a ← nats j
  match a with
  | [n, d] => if d = 0 then throw "tolerance with zero denominator" else pure ⟨n, d⟩
  | _ => throw "tolerance must be [num, den]"

/-- `null` (= inf) or a natural number -/
def dOf (j : Json) : R (Option Nat) := opt nat j

/-- a constant `x` or `{"dict": [[t, x], …]}` -/
def perSector {α : Type} (f : Json → R α) (j : Json) : R (PerSector α) :=
  match j.getObjVal? "dict" with
  | .ok d => do
    let l ← list (fun e => do
      let a ← arr e
      let t ← ints a[0]!
      let x ← f a[1]!
      pure (t, x)) d
    pure (.dict l)
  | .error _ => .const <$> f j

def limitsOf (c : Json) : R Limits := do
  let tol ← tolOf (← field c "tol")
  let tolb ← perSector tolOf (← field c "tolb")
  let db ← perSector dOf (← field c "Db")
  let dt ← dOf (← field c "Dt")
  pure ⟨tol, tolb, db, dt⟩

def spectrumOf (j : Json) : R Spectrum :=
  list (fun e => do
    let a ← arr e
    let t ← ints a[0]!
    let vs ← ints a[1]!
    pure (t, vs)) j

def ofBools (l : List Bool) : Json := Json.arr (l.map (fun (b : Bool) => Json.bool b)).toArray
def ofBoolss (l : List (List Bool)) : Json := Json.arr (l.map ofBools).toArray
def boolss (j : Json) : R (List (List Bool)) := list (list bool) j

/-- one case `{S:[[t,[v…]],…], tol:[n,d], tolb:[n,d]|{dict}, Db:null|n|{dict}, Dt:null|n, mask?:[[bool…]…]}`
→ `{mask, blk, model_valid, judge_model, judge_real?}` -/
def oneCase (c : Json) : R Json := do
  let S ← spectrumOf (← field c "S")
  let L ← limitsOf c
  let A := truncate L S
  let M := A.mask
  let base := [("mask", ofBoolss M),
               ("blk", ofBoolss (A.map (fun s => s.2.map Cell.blk))),
               ("values_ok", Json.bool (A.spectrum == S)),
               ("model_valid", Json.bool (validAB L A)),
               ("judge_model", Json.bool (judge L S M))]
  let real := fieldD c "mask" Json.null
  if real.isNull then pure (obj base)
  else do
    let R ← boolss real
    pure (obj (base ++ [("judge_real", Json.bool (judge L S R))]))

/-- {op:"trunc_batch", cases:[…]} → {res:[…]} -/
def truncBatch (j : Json) : R Json := do
  let cases ← arr (← field j "cases")
  let res ← cases.toList.mapM oneCase
  pure (obj [("res", Json.arr res.toArray)])

def handlers : List (String × (Json → R Json)) := [("trunc_batch", truncBatch)]

end YModel.Drv.C13
