import YModel.JsonUtil
import YModel.GI
import YModel.ExpectSpec
/-! JSON handlers of the C12 model driver (`drv_c12`). -/
namespace YModel.Drv.C12
open Lean YModel YModel.J YModel.Expect

/-- `true` | `false` | `[bool, …]` -/
def ferm (j : Json) : R Fermionic :=
  match j with
  | .bool true => pure .all
  | .bool false => pure .none
  | _ => do pure (.mask (← list bool j))

def gi (j : Json) : R GI := do
  let a ← ints j
  pure ⟨a.getD 0 0, a.getD 1 0⟩

def ofGI (z : GI) : Json := ofInts [z.re, z.im]

/-- {op:"sign_batch", ferm, cases:[[[rank, charge], …]]} → {res:[[signCanonicalOrder, invSign]]}
the sign of an operator order (sites as ranks in the fermionic order). -/
def signBatch (j : Json) : R Json := do
  let f ← ferm (← field j "ferm")
  let cases ← arr (← field j "cases")
  let res ← cases.toList.mapM (fun c => do
    let ops ← list (fun o => do
      let a ← arr o
      pure ({ site := (← nat a[0]!), charge := (← ints a[1]!), mat := [] } : Op GI)) c
    pure (ofInts [scoSign f ops, specSign f ops]))
  pure (obj [("res", Json.arr res.toArray)])

/-- {op:"swaps_batch", moduli:[nat], cases:[[[charge, [axis,…]], …]]} → {res:[{swaps:[[axis, charge]], err:bool}]} -/
def swapsBatch (j : Json) : R Json := do
  let ms ← nats (← field j "moduli")
  let cases ← arr (← field j "cases")
  let res ← cases.toList.mapM (fun c => do
    let calls ← list (fun o => do
      let a ← arr o
      pure ((← ints a[0]!), (← list str a[1]!))) c
    let (sw, err) := runScript ms [] calls
    pure (obj [("swaps", Json.arr (sw.map (fun e => Json.arr #[Json.str e.1, ofInts e.2])).toArray), ("err", Json.bool err)]))
  pure (obj [("res", Json.arr res.toArray)])

/-- {op:"expect_batch", ferm, d, basis:[charge], cases:[{n, state:[[config,[re,im]]], ops:[{site, charge, mat}]}]}
→ {res:[[re, im]]}: the executable specification `expect` on exact data. -/
def expectBatch (j : Json) : R Json := do
  let f ← ferm (← field j "ferm")
  let d ← nat (← field j "d")
  let basis ← intss (← field j "basis")
  let cases ← arr (← field j "cases")
  let res ← cases.toList.mapM (fun c => do
    let st ← list (fun t => do
      let a ← arr t
      pure ((← nats a[0]!), (← gi a[1]!))) (← field c "state")
    let ops ← list (fun o => do
      pure ({ site := (← nat (← field o "site")), charge := (← ints (← field o "charge")),
              mat := (← list (list gi) (← field o "mat")) } : Op GI)) (← field c "ops")
    pure (ofGI (expect f basis d Conj.conj ops st)))
  pure (obj [("res", Json.arr res.toArray)])

def handlers : List (String × (Json → R Json)) :=
  [("sign_batch", signBatch), ("swaps_batch", swapsBatch), ("expect_batch", expectBatch)]

end YModel.Drv.C12
