import YModel.JsonUtil
import YModel.Geometry
/-! JSON handlers exposing the geometry model (C20). All requests are batches. -/
namespace YModel.Drv.C20
open Lean YModel YModel.J YModel.Geo

def siteJ (s : Site) : Json := Json.arr #[ofInt s.1, ofInt s.2]
def ositeJ : Option Site → Json
  | none => Json.null
  | some s => siteJ s
def bondJ (b : Bond) : Json := Json.arr #[siteJ b.1, siteJ b.2]
def indexJ : Index → Json
  | .site s => siteJ s
  | .lab n => ofInt n
def oobjJ : Option Obj → Json
  | none => Json.null
  | some o => ofInt o

def site (j : Json) : R Site := do
  let a ← ints j
  match a with
  | [x, y] => pure (x, y)
  | _ => throw "site: expected [x, y]"

def triple (j : Json) : R (Site × Int) := do
  let a ← ints j
  match a with
  | [x, y, l] => pure ((x, y), l)
  | _ => throw "expected [x, y, v]"

/-- geometry spec → constructor result (`.error kind` = the Python constructor raises) -/
def parseGeom (j : Json) : R (Except String Geom) := do
  let cls ← str (← field j "cls")
  let sq : R (Except String Sq) := do
    let d ← nats (← field j "dims")
    let b ← str (← field j "boundary")
    match d, Boundary.ofString? b with
    | [nx, ny], some bd => pure (.ok ⟨nx, ny, bd⟩)
    | [_, _], none => pure (.error "boundary")
    | _, _ => throw "dims: expected [Nx, Ny]"
  match cls with
  | "square" => do
    match ← sq with
    | .ok g => pure (.ok (.square g))
    | .error e => pure (.error e)
  | "checker" => pure (.ok .checker)
  | "tri" => do
    let full ← bool (← field j "full_patch")
    match ← sq with
    | .ok g => pure (.ok (.tri ⟨g, full⟩))
    | .error e => pure (.error e)
  | "rect" => do
    let r ← match j.getObjVal? "pattern" with
      | .ok p => do
        let pat ← intss p
        pure (Rect.mk? pat)
      | .error _ => do
        let d ← list triple (← field j "dict")
        pure (Rect.ofDict? d)
    match r with
    | .ok r => pure (.ok (.rect r))
    | .error e => pure (.error e.toString)
  | _ => throw s!"unknown geometry class {cls}"

def bondsJ (G : Geom) (dirn : Option String) (rev : Bool) : Json := ofList bondJ (G.bonds dirn rev)

def rangeI (a b : Int) : List Int := (List.range (b - a).toNat).map fun (k : Nat) => a + k

def windowSites (w : List Int) : R (List Site) :=
  match w with
  | [x0, x1, y0, y1] => pure ((rangeI x0 x1).flatMap fun x => (rangeI y0 y1).map fun y => (x, y))
  | _ => throw "window: expected [x0, x1, y0, y1]"

def geomFull (G : Geom) (win nwin pwin : List Site) (K : Int) : Json :=
  let shifts := (rangeI (-K) (K + 1)).flatMap fun dx => (rangeI (-K) (K + 1)).map fun dy => (dx, dy)
  obj [
    ("dims", ofNats [G.base.Nx, G.base.Ny]),
    ("sites", ofList siteJ G.sites),
    ("bonds", obj [("h", bondsJ G (some "h") false), ("hr", bondsJ G (some "h") true),
                   ("v", bondsJ G (some "v") false), ("vr", bondsJ G (some "v") true),
                   ("d", bondsJ G (some "d") false), ("dr", bondsJ G (some "d") true),
                   ("n", bondsJ G none false), ("nr", bondsJ G none true)]),
    ("nn", ofList (fun s => ofList (fun d => ositeJ (G.nnSite s d.vec)) Dir.all) nwin),
    ("nnshift", ofList (fun s => ofList (fun d => ositeJ (G.nnSite s d)) shifts) nwin),
    ("nn_none", ofList (fun d => ositeJ (G.base.nnSiteO none d.vec)) Dir.all),
    ("idx", ofList (fun s => match G.site2index s with
        | .ok i => indexJ i
        | .error e => obj [("err", e)]) win),
    ("bdirn", ofList (fun s0 => ofList (fun s1 => match G.nnBondDirn s0 s1 with
        | some d => Json.str d.toString
        | none => Json.null) pwin) pwin),
    ("ford", ofList (fun s0 => ofList (fun s1 => Json.bool (fOrdered s0 s1)) pwin) pwin)]

/-- {op:"geom_batch", cases:[{geom, window (site2index), nwindow (nn_site), pwindow (pairs): [x0,x1,y0,y1], K}, …]} -/
def geomBatch (j : Json) : R Json := do
  let cases ← arr (← field j "cases")
  let res ← cases.toList.mapM (fun c => do
    let g ← parseGeom (← field c "geom")
    match g with
    | .error e => pure (obj [("err", e)])
    | .ok G => do
      let win ← windowSites (← ints (← field c "window"))
      let nwin ← windowSites (← ints (← field c "nwindow"))
      let pwin ← windowSites (← ints (← field c "pwindow"))
      let K ← int (← field c "K")
      pure (obj [("ok", geomFull G win nwin pwin K)]))
  pure (obj [("res", Json.arr res.toArray)])

def rectJ (r : Except PatErr Rect) : Json :=
  match r with
  | .ok r => obj [("ok", obj [("dims", ofNats [r.Nx, r.Ny]), ("sites", ofList siteJ r.sites),
                               ("h", ofList (fun b => bondJ b) r.bondsH),
                               ("v", ofList (fun b => bondJ b) r.bondsV)])]
  | .error e => obj [("err", e.toString)]

/-- {op:"pattern_batch", patterns:[pattern,…]} | {op:"pattern_batch", dicts:[[[x,y,l],…],…]} -/
def patternBatch (j : Json) : R Json := do
  match j.getObjVal? "patterns" with
  | .ok ps => do
    let pats ← list intss ps
    pure (obj [("res", ofList (fun p => rectJ (Rect.mk? p)) pats)])
  | .error _ => do
    let ds ← list (list triple) (← field j "dicts")
    pure (obj [("res", ofList (fun d => rectJ (Rect.ofDict? d)) ds)])

def stateJ (c : Lat) : Json :=
  obj [("data", ofList (fun (kv : Index × Option Obj) => Json.arr #[indexJ kv.1, oobjJ kv.2]) c.data),
       ("patch", ofList (fun (kv : Site × Option Obj) => Json.arr #[siteJ kv.1, oobjJ kv.2]) c.patch)]

def copyObj (o : Obj) : Obj := o + 1000

/-- one script step; returns (new state, observation) -/
def step (c : Lat) (st : Json) : R (Except String (Lat × Json)) := do
  let a ← arr st
  let op ← str a[0]!
  match op with
  | "get" => do
    let s ← site a[1]!
    match c.get s with
    | .ok v => pure (.ok (c, oobjJ v))
    | .error e => pure (.error e)
  | "set" => do
    let s ← site a[1]!
    let v ← opt int a[2]!
    match c.set s v with
    | .ok c' => pure (.ok (c', Json.null))
    | .error e => pure (.error e)
  | "apply" =>
    match c.applyPatch with
    | .ok c' => pure (.ok (c', Json.null))
    | .error e => pure (.error e)
  | "move" => do
    let ss ← list site a[1]!
    match c.moveToPatch copyObj ss with
    | .ok c' => pure (.ok (c', Json.null))
    | .error e => pure (.error e)
  | "move1" => do
    let s ← site a[1]!
    match c.moveToPatch copyObj [s] with
    | .ok c' => pure (.ok (c', Json.null))
    | .error e => pure (.error e)
  | "items" => do
    let r := c.geom.sites.mapM (fun s => do
      let v ← c.get s
      pure (Json.arr #[siteJ s, oobjJ v]))
    match r with
    | .ok l => pure (.ok (c, Json.arr l.toArray))
    | .error e => pure (.error e)
  | _ => throw s!"unknown step {op}"

def parseInit (j : Json) : R (Option InitObjs) := do
  if j.isNull then return none
  match j.getObjVal? "single" with
  | .ok o => return some (.single (← int o))
  | .error _ => pure ()
  match j.getObjVal? "dict" with
  | .ok d => return some (.dict (← list triple d))
  | .error _ => pure ()
  let rows ← intss (← field j "seq")
  return some (.seq rows)

/-- {op:"lattice_batch", cases:[{geom, init, script:[step,…]}, …]} →
per case {init_err} | {trace:[{obs, state} | {err}]} (the script stops at the first error) -/
def latticeBatch (j : Json) : R Json := do
  let cases ← arr (← field j "cases")
  let res ← cases.toList.mapM (fun cj => do
    let g ← parseGeom (← field cj "geom")
    match g with
    | .error e => pure (obj [("geom_err", e)])
    | .ok G => do
      let ini ← parseInit (fieldD cj "init" Json.null)
      let c0 := match ini with
        | none => Lat.new G
        | some o => Lat.init G o
      match c0 with
      | .error e => pure (obj [("init_err", e)])
      | .ok c0 => do
        let steps ← arr (← field cj "script")
        let mut c := c0
        let mut trace : Array Json := #[]
        for st in steps do
          match ← step c st with
          | .ok (c', o) =>
            c := c'
            trace := trace.push (obj [("obs", o), ("state", stateJ c)])
          | .error e =>
            trace := trace.push (obj [("err", e)])
            break
        pure (obj [("init_state", stateJ c0), ("trace", Json.arr trace)]))
  pure (obj [("res", Json.arr res.toArray)])

def handlers : List (String × (Json → R Json)) :=
  [("geom_batch", geomBatch), ("pattern_batch", patternBatch), ("lattice_batch", latticeBatch)]

end YModel.Drv.C20
