import YModel.TensorIO
import YModel.Fusion
import YModel.DriverCore
namespace YModel.Drv.C03
open Lean YModel YModel.J YModel.TIO

/-- {op:"fuse_hard", tensor, groups} → {s, n, legs:[{t,D}], dense:[re…]} of the hard-fused tensor -/
def fuseHardH (j : Json) : R Json := do
  let T ← tensorOfJson (← field j "tensor")
  let groups ← list nats (← field j "groups")
  match fuseHard T groups with
  | .error e => throw s!"fuseHard: {errStr e}"
  | .ok F =>
    let F := materialize F
    let L := legSpaces F
    let xs := denseOn L F
    pure (obj [("s", ofInts F.s), ("n", ofInts F.n), ("legs", ofList legToJson L),
               ("dense", ofInts (xs.map (·.re))), ("dense_im", ofInts (xs.map (·.im))),
               ("keys", ofList (fun (kb : Key × Block GI) => ofIntss kb.1) F.blocks)])

def handlers : List (String × Handler) := [("fuse_hard", fuseHardH)]

end YModel.Drv.C03
