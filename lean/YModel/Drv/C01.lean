import YModel.TensorIO
import YModel.Slice
import YModel.DriverCore
/-! Program executor for the tensor model: C01/C02/C14 (and reused by others). -/
namespace YModel.Drv.C01
open Lean YModel YModel.J YModel.TIO

inductive Val
  | ten (T : Tensor GI)
  | num (x : GI)
  | bad (why : String)

def getT (vals : Array Val) (i : Nat) : R (Tensor GI) :=
  match vals[i]? with
  | some (.ten T) => pure T
  | some (.bad w) => throw s!"dep:{w}"
  | some (.num _) => throw "dep:number"
  | none => throw "dep:index"

def liftE (x : Except Err (Tensor GI)) : Val :=
  match x with
  | .ok T => .ten (materialize T)
  | .error e => .bad (errStr e)

def step (vals : Array Val) (j : Json) : R Val := do
  let f ← str (← field j "f")
  let args ← nats (← field j "a")
  if f == "input" then
    return .ten (← tensorOfJson (← field j "tensor"))
  if f == "opaque" then
    return .bad "dep:opaque"
  let T0 ← getT vals (args.getD 0 0)
  match f with
  | "id" => pure (.ten T0)
  | "pad" => do
      -- resynchronisation with policy-dependent zero blocks of the real result: add explicit zero blocks
      let zs ← arr (← field j "zero")
      let mut T := T0
      for z in zs do
        let t ← intss (← field z "t")
        let D ← nats (← field z "D")
        if (T.get? t).isNone then
          T := { T with blocks := isort (fun x y => keyLe x.1 y.1) ((t, zeroBlock D) :: T.blocks) }
      pure (.ten (materialize T))
  | "add" => do let T1 ← getT vals (args.getD 1 0); pure (liftE (add T0 T1))
  | "sub" => do let T1 ← getT vals (args.getD 1 0); pure (liftE (sub T0 T1))
  | "smul" => do let c ← giOfJson (← field j "c"); pure (liftE (.ok (smul c T0)))
  | "neg" => pure (liftE (.ok (neg T0)))
  | "conj" => pure (liftE (.ok (conj T0)))
  | "conj_blocks" => pure (liftE (.ok (conjBlocks T0)))
  | "flip_signature" => pure (liftE (.ok (flipSignature T0)))
  | "transpose" => do let σ ← nats (← field j "axes"); pure (liftE (transpose σ T0))
  | "diag" => pure (liftE (diag T0))
  | "apply_mask" => do
      -- a = [diagonal mask (entries 0/1), tensor]
      let T1 ← getT vals (args.getD 1 0)
      let ax ← nat (← field j "axis")
      pure (liftE (applyMask T0 T1 ax))
  | "broadcast" => do
      -- a = [diagonal operand, tensor]
      let T1 ← getT vals (args.getD 1 0)
      let ax ← nat (← field j "axis")
      pure (liftE (broadcast T0 T1 ax))
  | "tensordot" => do
      let T1 ← getT vals (args.getD 1 0)
      let ax ← list nats (← field j "axes")
      let cj ← nats (fieldD j "conj" (ofNats [0, 0]))
      let A := if cj.getD 0 0 == 1 then conj T0 else T0
      let B := if cj.getD 1 0 == 1 then conj T1 else T1
      pure (liftE (tensordot A B (ax.getD 0 []) (ax.getD 1 [])))
  | "vdot" => do
      let T1 ← getT vals (args.getD 1 0)
      let cj ← nats (fieldD j "conj" (ofNats [1, 0]))
      let A := if cj.getD 0 1 == 1 then conj T0 else T0
      let B := if cj.getD 1 0 == 1 then conj T1 else T1
      -- vdot = full contraction without extra conjugation
      match tensordot A B (List.range A.rank) (List.range B.rank) with
      | .error e => pure (.bad (errStr e))
      | .ok c => if A.rank ≠ B.rank then pure (.bad "rank") else
          pure (.num (match (materialize c).blocks with | [] => 0 | kb :: _ => kb.2.val []))
  | "trace" => do
      let ax ← list nats (← field j "axes")
      pure (liftE (trace T0 (ax.getD 0 []) (ax.getD 1 [])))
  | "add_leg" => do
      let axis ← nat (← field j "axis")
      let s ← int (← field j "s")
      let t ← ints (← field j "t")
      pure (liftE (addLeg T0 axis s t))
  | "remove_leg" => do
      let axis ← nat (← field j "axis")
      pure (liftE (removeLeg T0 axis))
  | _ => throw s!"unknown step {f}"

def valToJson : Val → Json
  | .ten T => (tensorToJson T).setObjVal! "kind" "tensor"
  | .num x => obj [("kind", "num"), ("num", giToJson x)]
  | .bad w => obj [("kind", "err"), ("err", w)]

/-- {op:"prog", inputs:[tensor…], steps:[{f, a:[ids], …}…], dense?:[{id, legs:[leg…]}]}
    → {vals:[…one per step…], dense:[…]} -/
def prog (j : Json) : R Json := do
  let inputs ← list tensorOfJson (← field j "inputs")
  let steps ← arr (← field j "steps")
  let mut vals : Array Val := (inputs.map Val.ten).toArray
  let mut outs : Array Json := #[]
  for st in steps do
    let v := match step vals st with
      | .ok v => v
      | .error e => Val.bad e
    vals := vals.push v
    outs := outs.push (valToJson v)
  let mut dense : Array Json := #[]
  match (j.getObjVal? "dense").toOption with
  | some dj =>
    for d in (← arr dj) do
      let id ← nat (← field d "id")
      let L ← list legOfJson (← field d "legs")
      match vals[id]? with
      | some (.ten T) =>
        let xs := denseOn L T
        dense := dense.push (obj [("id", ofNat id), ("re", ofInts (xs.map (·.re))), ("im", ofInts (xs.map (·.im)))])
      | _ => dense := dense.push (obj [("id", ofNat id), ("err", "not a tensor")])
  | none => pure ()
  let inWf := inputs.map (fun T => Json.bool (wfCheck ((T.sym.expr.moduli T.sym.nsym).getD []) T))
  pure (obj [("vals", Json.arr outs), ("dense", Json.arr dense), ("inputs_wf", Json.arr inWf.toArray)])

/-- {op:"slice_uniform", cases:[[Ds, size]…]} → {res:[[[ [sector, start, stop]… ]…]…]} -/
def sliceUniformH (j : Json) : R Json := do
  let cases ← arr (← field j "cases")
  let res ← cases.toList.mapM (fun c => do
    let a ← arr c
    let Ds ← nats a[0]!
    let size ← nat a[1]!
    pure (ofList (fun (sl : List (Nat × Nat × Nat)) => ofList (fun (x : Nat × Nat × Nat) => ofNats [x.1, x.2.1, x.2.2]) sl)
      (YModel.Slice.sliceUniform Ds size)))
  pure (obj [("res", Json.arr res.toArray)])

def handlers : List (String × Handler) := [("prog", prog), ("slice_uniform", sliceUniformH)]

end YModel.Drv.C01
