import YModel.JsonUtil
import YModel.Cache
/-! Driver of the LRU model: replay histories of `call key` / `clear` / `resize n` events (keys are
integers) and report, after every event, what `cache_info()` of the modelled object shows. -/
namespace YModel.Drv.C16
open Lean YModel YModel.J

/-- the memoised function of the driver (any pure function would do; hits do not depend on it) -/
def probeF (x : Int) : Int := 3 * x + 1

/-- event encoding: `[0, key]` call, `[1]` clear, `[2, n]` resize -/
def ev (j : Json) : R (Ev Int) := do
  let a ← arr j
  match ← int a[0]! with
  | 0 => pure (.call (← int a[1]!))
  | 1 => pure .clear
  | 2 => pure (.resize (← nat a[1]!))
  | k => throw s!"unknown event tag {k}"

/-- per event: [hit (1/0; -1 for clear/resize), currsize, hits, misses, maxsize, value|null] -/
def row (p : Cache Int Int × Option (Int × Bool)) : Json :=
  let c := p.1
  let (h, v) : Int × Json := match p.2 with
    | some (y, true) => (1, ofInt y)
    | some (y, false) => (0, ofInt y)
    | none => (-1, Json.null)
  Json.arr #[ofInt h, ofNat c.currsize, ofNat c.hits, ofNat c.misses, ofNat c.maxsize, v]

def replayOne (j : Json) : R Json := do
  let cap ← nat (← field j "cap")
  let evs ← list ev (← field j "events")
  pure (ofList row (Cache.trace probeF (Cache.fresh cap) evs))

/-- {op:"replay_batch", cases:[{cap, events:[…]}, …]} → {res:[[row,…],…]} -/
def replayBatch (j : Json) : R Json := do
  let cases ← arr (← field j "cases")
  let res ← cases.toList.mapM replayOne
  pure (obj [("res", Json.arr res.toArray)])

def handlers : List (String × (Json → R Json)) :=
  [("replay_batch", replayBatch)]

end YModel.Drv.C16
