import YModel.JsonUtil
import YModel.SymGen
import YModel.Leg
namespace YModel.Drv.C19
open Lean YModel YModel.J

def findSym (id : String) : R SymDef :=
  match SymGen.all.find? (·.id == id) with
  | some d => pure d
  | none => throw s!"unknown symmetry {id}"

/-- {op:"fuse_batch", sym, cases:[[cs, ss, sn], …]} → {res:[charge,…]} -/
def fuseBatch (j : Json) : R Json := do
  let d ← findSym (← str (← field j "sym"))
  let cases ← arr (← field j "cases")
  let res ← cases.toList.mapM (fun c => do
    let a ← arr c
    let cs ← intss a[0]!
    let ss ← ints a[1]!
    let sn ← int a[2]!
    pure (ofInts (d.fuse cs ss sn)))
  pure (obj [("res", Json.arr res.toArray)])

/-- {op:"add_charges_batch", sym, cases:[[cs, ss|null, sn], …]} -/
def addChargesBatch (j : Json) : R Json := do
  let d ← findSym (← str (← field j "sym"))
  let cases ← arr (← field j "cases")
  let res ← cases.toList.mapM (fun c => do
    let a ← arr c
    let cs ← intss a[0]!
    let ss ← opt ints a[1]!
    let sn ← int a[2]!
    pure (ofInts (d.addCharges cs ss sn)))
  pure (obj [("res", Json.arr res.toArray)])

def legErrStr : LegErr → String
  | .signature => "signature" | .dims => "dims" | .count => "count" | .range => "range" | .repeated => "repeated"

def legJson (l : Leg) : Json :=
  obj [("s", ofInt l.s), ("t", ofIntss l.t), ("D", ofNats l.D), ("hf_s", ofInts l.hf.s)]

/-- {op:"leg_batch", sym, cases:[[s, t(flat), D], …]} → per case {ok:{s,t,D}, conj:{…}} | {err:kind} -/
def legBatch (j : Json) : R Json := do
  let d ← findSym (← str (← field j "sym"))
  let cases ← arr (← field j "cases")
  let res ← cases.toList.mapM (fun c => do
    let a ← arr c
    let s ← int a[0]!
    let t ← ints a[1]!
    let D ← ints a[2]!
    match Leg.mk? d s t D with
    | .ok l => pure (obj [("ok", legJson l), ("conj", legJson l.conj), ("conjconj_same", l.conj.conj == l)])
    | .error e => pure (obj [("err", legErrStr e)]))
  pure (obj [("res", Json.arr res.toArray)])

def symInfo (_ : Json) : R Json :=
  pure (obj [("syms", ofList (fun (d : SymDef) => obj [("id", d.id), ("nsym", ofNat d.nsym),
    ("moduli", match d.expr.moduli d.nsym with | some ms => ofNats ms | none => Json.null),
    ("expr", toString (repr d.expr))]) SymGen.all)])

def handlers : List (String × (Json → R Json)) :=
  [("fuse_batch", fuseBatch), ("add_charges_batch", addChargesBatch), ("leg_batch", legBatch),
   ("sym_info", symInfo)]

end YModel.Drv.C19
