import YModel.JsonUtil
import YModel.Serial
/-! JSON handlers of the C17 model driver.
Val  : {"i":n} | {"s":str} | {"b":bool} | null | {"a":[ints]} | {"t":[vals]} | {"d":[[key,val],…]}
Key  : {"i":n} | {"s":str} | {"t":[atoms]},   Atom : {"i":n} | {"s":str} -/
namespace YModel.Drv.C17
open Lean YModel YModel.J YModel.Serial

def atomOf (j : Json) : R Atom :=
  match j.getObjVal? "i" with
  | .ok v => Atom.int <$> int v
  | .error _ => Atom.str <$> (field j "s" >>= str)

def keyOf (j : Json) : R Key :=
  match j.getObjVal? "i" with
  | .ok v => Key.int <$> int v
  | .error _ =>
    match j.getObjVal? "s" with
    | .ok v => Key.str <$> str v
    | .error _ => Key.tup <$> (field j "t" >>= list atomOf)

partial def valOf (j : Json) : R Val := do
  if j.isNull then return Val.none
  match j.getObjVal? "i" with
  | .ok v => return Val.int (← int v)
  | .error _ => pure ()
  match j.getObjVal? "s" with
  | .ok v => return Val.str (← str v)
  | .error _ => pure ()
  match j.getObjVal? "b" with
  | .ok v => return Val.bool (← bool v)
  | .error _ => pure ()
  match j.getObjVal? "a" with
  | .ok v => return Val.arr (← ints v)
  | .error _ => pure ()
  match j.getObjVal? "t" with
  | .ok v => return Val.tuple (← (← arr v).toList.mapM valOf)
  | .error _ => pure ()
  let kvs ← arr (← field j "d")
  let l ← kvs.toList.mapM (fun p => do
    let a ← arr p
    let k ← keyOf a[0]!
    let v ← valOf a[1]!
    pure (k, v))
  return Val.dict l

def atomJ : Atom → Json
  | .int i => obj [("i", ofInt i)]
  | .str s => obj [("s", Json.str s)]

def keyJ : Key → Json
  | .int i => obj [("i", ofInt i)]
  | .str s => obj [("s", Json.str s)]
  | .tup l => obj [("t", ofList atomJ l)]

partial def valJ : Val → Json
  | .int i => obj [("i", ofInt i)]
  | .str s => obj [("s", Json.str s)]
  | .bool b => obj [("b", Json.bool b)]
  | .none => Json.null
  | .arr a => obj [("a", ofInts a)]
  | .tuple l => obj [("t", Json.arr (l.map valJ).toArray)]
  | .dict kvs => obj [("d", Json.arr (kvs.map (fun p => Json.arr #[keyJ p.1, valJ p.2])).toArray)]

def errStr : Err → String
  | .typeError => "TypeError"
  | .notDict => "notDict"
  | .indexError => "IndexError"
  | .rejected w => "rejected: " ++ w

/-- {op:"split_batch", cases:[val,…]} → per case {data:[val…], meta:val, combined:val|{"err":…}, canon:val} | {err} -/
def splitBatch (j : Json) : R Json := do
  let cases ← arr (← field j "cases")
  let res ← cases.toList.mapM (fun c => do
    let v ← valOf c
    match split v with
    | .error e => pure (obj [("err", errStr e)])
    | .ok (data, mt) =>
      let comb := match combine data mt with
        | .ok r => valJ r
        | .error e => obj [("err", errStr e)]
      pure (obj [("data", Json.arr (data.map valJ).toArray), ("meta", valJ mt), ("combined", comb),
                 ("canon", valJ (canon v))]))
  pure (obj [("res", Json.arr res.toArray)])

/-- {op:"combine_batch", cases:[[ [val…], meta ],…]} -/
def combineBatch (j : Json) : R Json := do
  let cases ← arr (← field j "cases")
  let res ← cases.toList.mapM (fun c => do
    let a ← arr c
    let data ← (← arr a[0]!).toList.mapM valOf
    let mt ← valOf a[1]!
    match combine data mt with
    | .ok r => pure (obj [("ok", valJ r)])
    | .error e => pure (obj [("err", errStr e)]))
  pure (obj [("res", Json.arr res.toArray)])

def layoutOf (j : Json) : R Layout := list (fun e => do
  let a ← arr e
  pure ((← ints a[0]!), (← nat a[1]!))) j

def blocksOf (j : Json) : R Blocks := list (fun e => do
  let a ← arr e
  pure ((← ints a[0]!), (← ints a[1]!))) j

/-- {op:"embed_batch", cases:[{meta:[[t,n],…], x:[[t,[vals]],…]},…]} → {vec, back:[[t,vals],…], normsq} | {err} -/
def embedBatch (j : Json) : R Json := do
  let cases ← arr (← field j "cases")
  let res ← cases.toList.mapM (fun c => do
    let lay ← layoutOf (← field c "meta")
    let x ← blocksOf (← field c "x")
    match embed lay x with
    | .error e => pure (obj [("err", errStr e)])
    | .ok v =>
      let back := unembed lay v
      pure (obj [("vec", ofInts v), ("back", ofList (fun (b : Charge × List Int) => Json.arr #[ofInts b.1, ofInts b.2]) back),
                 ("normsq", ofInt (sumSq v)), ("normsq_x", ofInt (normSq x))]))
  pure (obj [("res", Json.arr res.toArray)])

def cfgOf (j : Json) : R Cfg := do
  pure ⟨← str (← field j "backend"), ← str (← field j "sym"), ← bool (← field j "fermionic")⟩

def fusionOf (j : Json) : R Fusion := do
  pure ⟨← ints (← field j "tree"), ← str (← field j "op"), ← ints (← field j "s"), ← intss (← field j "t"), ← intss (← field j "D")⟩

def recOf (j : Json) : R TRec := do
  pure { cfg := ← cfgOf (← field j "cfg"), s := ← ints (← field j "s"), n := ← ints (← field j "n"),
         diag := ← bool (← field j "diag"), t := ← intss (← field j "t"), D := ← intss (← field j "D"),
         size := ← int (← field j "size"), slices := ← intss (← field j "slices"), trans := ← ints (← field j "trans"),
         mfs := ← intss (← field j "mfs"), hfs := ← list fusionOf (← field j "hfs"), data := ← ints (← field j "data") }

/-- {op:"todict_batch", cases:[{rec:…, lvl, ver, cfg:null|{…}},…]} → {dict:val, back_same:bool, back_trans:[…]} | {err} -/
def todictBatch (j : Json) : R Json := do
  let cases ← arr (← field j "cases")
  let res ← cases.toList.mapM (fun c => do
    let T ← recOf (← field c "rec")
    let lvl ← nat (← field c "lvl")
    let ver ← nat (← field c "ver")
    let cfg ← opt cfgOf (fieldD c "cfg" Json.null)
    let d := toDict lvl ver T
    match fromDict d cfg with
    | .error e => pure (obj [("dict", valJ d), ("err", errStr e)])
    | .ok T' => pure (obj [("dict", valJ d), ("back_same", Json.bool (decide (T' = T))), ("back_trans", ofInts T'.trans)]))
  pure (obj [("res", Json.arr res.toArray)])

def handlers : List (String × (Json → R Json)) :=
  [("split_batch", splitBatch), ("combine_batch", combineBatch), ("embed_batch", embedBatch), ("todict_batch", todictBatch)]

end YModel.Drv.C17
