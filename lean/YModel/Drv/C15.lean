import YModel.JsonUtil
import YModel.Heap
import YModel.DriverCore
namespace YModel.Drv.C15
open Lean YModel YModel.J YModel.Heap

/-- {op:"heap_trace", init:<number of initial variables>, steps:[["alloc",src]|["share",src]|["setItem",dst]|["setBlock",dst]…]}
    every variable starts with its own array [id]; setItem/setBlock write a fresh marker value.
    → {changed:[[indices of variables whose observable value changed by step k]…], refs:[[ref per variable after step k]…]} -/
def heapTrace (j : Json) : R Json := do
  let n ← nat (← field j "init")
  let steps ← arr (← field j "steps")
  let mut s : State := { heap := fun a => if a < n then some [Int.ofNat a] else none, next := n,
                         env := (List.range n).map (fun i => ⟨i, i⟩) }
  let mut out : Array Json := #[]
  let mut refs : Array Json := #[]
  let mut marker : Int := 1000
  for st in steps do
    let a ← arr st
    let kind ← str a[0]!
    let idx ← nat a[1]!
    marker := marker + 1
    let m := marker
    let stp : Step := match kind with
      | "alloc" => .alloc idx 0 id
      | "share" => .share idx 0
      | "setItem" => .setItem idx (fun _ => [m])
      | _ => .setBlock idx (fun _ => [m])
    let s' := step s stp
    let changed := (List.range s.env.length).filter (fun i => obs s' i != obs s i)
    out := out.push (ofNats changed)
    refs := refs.push (ofNats (s'.env.map (·.ref)))
    s := s'
  pure (obj [("changed", Json.arr out), ("refs", Json.arr refs)])

def handlers : List (String × Handler) := [("heap_trace", heapTrace)]

end YModel.Drv.C15
