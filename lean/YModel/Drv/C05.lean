import YModel.JsonUtil
import YModel.Swap
import YModel.Ncon
/-! JSON handlers of the C05 model driver (`drv_c05`). -/
namespace YModel.Drv.C05
open Lean YModel YModel.J YModel.Ncon

/-- `true` | `false` | `[bool, …]` -/
def ferm (j : Json) : R Fermionic :=
  match j with
  | .bool true => pure .all
  | .bool false => pure .none
  | _ => do pure (.mask (← list bool j))

def natss (j : Json) : R (List (List Nat)) := list nats j

def signsOrErr (r : Except String (List SBlock)) : Json :=
  match r with
  | .ok bs => ofInts (bs.map (fun b => b.2.headD 0))
  | .error e => obj [("err", e)]

/-- {op:"swap_batch", nsym, ferm, cases:[{axes:[[nat]], blocks:[[charge]]}]} → {res:[[±1,…] | {err}]}
Every block is sent with data `[1]`; the returned number is the data after `swapGate`. -/
def swapBatch (j : Json) : R Json := do
  let nsym ← nat (← field j "nsym")
  let f ← ferm (← field j "ferm")
  let cases ← arr (← field j "cases")
  let res ← cases.toList.mapM (fun c => do
    let axes ← natss (← field c "axes")
    let blocks ← list intss (← field c "blocks")
    pure (signsOrErr (swapGate f nsym axes (blocks.map (fun ts => (ts, [1]))))))
  pure (obj [("res", Json.arr res.toArray)])

/-- {op:"swap_charge_batch", nsym, ferm, cases:[{axes:[nat], charges:[int] (flat), blocks:[[charge]]}]} -/
def swapChargeBatch (j : Json) : R Json := do
  let nsym ← nat (← field j "nsym")
  let f ← ferm (← field j "ferm")
  let cases ← arr (← field j "cases")
  let res ← cases.toList.mapM (fun c => do
    let axes ← nats (← field c "axes")
    let charges ← ints (← field c "charges")
    let blocks ← list intss (← field c "blocks")
    pure (signsOrErr (swapGateCharge f nsym axes charges (blocks.map (fun ts => (ts, [1]))))))
  pure (obj [("res", Json.arr res.toArray)])

/-- {op:"swap_sign_batch", ferm, cases:[[cs0, cs1]]} → {res:[±1]}  (`swap_charges`) -/
def swapSignBatch (j : Json) : R Json := do
  let f ← ferm (← field j "ferm")
  let cases ← arr (← field j "cases")
  let res ← cases.toList.mapM (fun c => do
    let a ← arr c
    pure (swapSign f (← intss a[0]!) (← intss a[1]!)))
  pure (obj [("res", ofInts res)])

/-- {op:"sco_batch", ferm, cases:[[[rank, charge], …]]} → {res:[[signCanonicalOrder, invSign]]}
sites are sent as integer ranks, `f_ordered = (rank₁ ≤ rank₂)`. -/
def scoBatch (j : Json) : R Json := do
  let f ← ferm (← field j "ferm")
  let cases ← arr (← field j "cases")
  let res ← cases.toList.mapM (fun c => do
    let ops ← list (fun o => do
      let a ← arr o
      pure ((← int a[0]!), (← ints a[1]!))) c
    let le := fun (a b : Int) => decide (a ≤ b)
    pure (ofInts [signCanonicalOrder f le ops, invSign f le ops]))
  pure (obj [("res", Json.arr res.toArray)])

def cmdOf (j : Json) : R Cmd := do
  let a ← arr j
  let name ← str a[0]!
  match name with
  | "tensordot" =>
    let t12 ← nats a[2]!
    let ax ← natss a[3]!
    pure (.tensordot (← nat a[1]!) (t12.getD 0 0) (t12.getD 1 0) (ax.getD 0 []) (ax.getD 1 []))
  | "swap_gate" => pure (.swapGate (← nat a[1]!) (← nat a[2]!) (← nats a[3]!))
  | "parity_sign" => pure (.paritySign (← nat a[1]!) (← nat a[2]!) (← nats a[3]!))
  | "trace" =>
    let ax ← natss a[3]!
    pure (.trace (← nat a[1]!) (← nat a[2]!) (ax.getD 0 []) (ax.getD 1 []))
  | "transpose" => pure (.transpose (← nat a[1]!) (← nat a[2]!) (← nats a[3]!))
  | _ => throw s!"unknown command {name}"

def swapsOf (j : Json) : R (List (Edge × Edge)) :=
  list (fun s => do
    let a ← ints s
    match a with
    | [x, y] => pure (x, y)
    | _ => throw "swap should be a pair") j

/-- {op:"judge_batch", cases:[{inds, swaps, cmds}]} → {res:[{agree:bool, edges, bad:[bool]|null, nlab}]}
`agree` ⇔ for EVERY parity labelling of the network the executed sign equals the specified one. -/
def judgeBatch (j : Json) : R Json := do
  let cases ← arr (← field j "cases")
  let res ← cases.toList.mapM (fun c => do
    let inds ← intss (← field c "inds")
    let swaps ← swapsOf (← field c "swaps")
    let cmds ← list cmdOf (← field c "cmds")
    let edges := edgesOf inds
    match judge inds swaps cmds with
    | none => pure (obj [("agree", true), ("edges", ofInts edges), ("bad", Json.null), ("nlab", ofNat (2 ^ edges.length))])
    | some bs =>
      let why := match execOdd inds cmds (labOf edges bs) with
        | .ok s => s!"exec={s} spec={specOdd (labOf edges bs) swaps}"
        | .error e => e
      pure (obj [("agree", false), ("edges", ofInts edges), ("bad", Json.arr (bs.map Json.bool).toArray),
                 ("why", why), ("nlab", ofNat (2 ^ edges.length))]))
  pure (obj [("res", Json.arr res.toArray)])

def handlers : List (String × (Json → R Json)) :=
  [("swap_batch", swapBatch), ("swap_charge_batch", swapChargeBatch), ("swap_sign_batch", swapSignBatch),
   ("sco_batch", scoBatch), ("judge_batch", judgeBatch)]

end YModel.Drv.C05
