import YModel.JsonUtil
import YModel.Gates
/-! Driver for C11: evaluates the closed-form gates of `YModel.Gates` at `Float` parameters and returns the
integer structure matrices.  Floats travel as IEEE-754 bit patterns (`Float.toBits`), so nothing is lost in
printing. -/
namespace YModel.Drv.C11
open Lean YModel YModel.J YModel.Gates

def ofFloatBits (x : Float) : Json := ofNat x.toBits.toNat
def ofC (z : C) : Json := Json.arr #[ofFloatBits z.re, ofFloatBits z.im]
def floatOfBits (j : Json) : R Float := do
  let n ← nat j
  pure (Float.ofBits (UInt64.ofNat n))
def cOf (j : Json) : R C := do
  let a ← arr j
  pure ⟨← floatOfBits a[0]!, ← floatOfBits a[1]!⟩

def findForm (n : String) : R ClosedForm :=
  match allForms.find? (·.name == n) with
  | some f => pure f
  | none => throw s!"unknown closed form {n}"

/-- {op:"forms"} → names, parameter names, dimension, coefficient functions and integer matrices -/
def forms (_ : Json) : R Json :=
  pure (obj [("forms", ofList (fun (f : ClosedForm) => obj [
    ("name", f.name), ("params", ofList (fun (s : String) => (s : Json)) f.params), ("dim", ofNat f.dim),
    ("step", ofNat f.step),
    ("terms", ofList (fun (t : Gates.Term) => obj [("fn", t.fn.name), ("mat", ofIntss t.mat)]) f.terms)]) allForms)])

/-- {op:"eval_batch", cases:[[name, [[re,im]…]], …]} → per case {coefs:[[re,im]…], dense:[[…]], ham:[[…]]} -/
def evalBatch (j : Json) : R Json := do
  let cases ← arr (← field j "cases")
  let res ← cases.toList.mapM (fun c => do
    let a ← arr c
    let f ← findForm (← str a[0]!)
    let ps ← list cOf a[1]!
    if ps.length != f.params.length then throw s!"{f.name}: expected {f.params.length} parameters"
    pure (obj [("coefs", ofList ofC (f.coefs ps)),
               ("dense", ofList (ofList ofC) (f.evalC ps)),
               ("ham", ofList (ofList ofC) (f.hamC ps))]))
  pure (obj [("res", Json.arr res.toArray)])

def named : List (String × IMat) :=
  [("a", a), ("adag", adag), ("Z", Z), ("I2", I2), ("X", X), ("n", nOcc), ("h", hOcc), ("I4", I4),
   ("c1", c1), ("c2", c2), ("c1dag", c1dag), ("c2dag", c2dag), ("K", K), ("NH", NH), ("XX", XX),
   ("nUp", nUp), ("nDn", nDn), ("nUpDn", nUpDn), ("Pdn", Pdn), ("Pup", Pup), ("Pud", Pud), ("P00", P00)]

/-- {op:"matrices"} → every named integer matrix and the derived products the theorems use -/
def matrices (_ : Json) : R Json :=
  pure (obj [("mats", obj (named.map fun (n, m) => (n, ofIntss m))),
    ("derived", obj [
      ("K_jw", ofIntss (madd (mmul c1dag c2) (mmul c2dag c1))),
      ("NH_jw", ofIntss (madd (mmul (mmul c1dag c1) (mmul c2 c2dag)) (mmul (mmul c1 c1dag) (mmul c2dag c2)))),
      ("K2", ofIntss (mmul K K)), ("K3", ofIntss (mmul (mmul K K) K)),
      ("XX_kron", ofIntss (kron X X)), ("XX2", ofIntss (mmul XX XX)), ("X2", ofIntss (mmul X X)),
      ("n2", ofIntss (mmul nOcc nOcc)),
      ("Pdn_def", ofIntss (msub nDn nUpDn)), ("Pup_def", ofIntss (msub nUp nUpDn)),
      ("Psum", ofIntss (madd (madd P00 Pdn) (madd Pup Pud)))])])

/-- {op:"mmul_batch", cases:[[A,B],…]} → products (cross-check of the list algebra against NumPy) -/
def mmulBatch (j : Json) : R Json := do
  let cases ← arr (← field j "cases")
  let res ← cases.toList.mapM (fun c => do
    let a ← arr c
    pure (ofIntss (mmul (← intss a[0]!) (← intss a[1]!))))
  pure (obj [("res", Json.arr res.toArray)])

def handlers : List (String × (Json → R Json)) :=
  [("forms", forms), ("eval_batch", evalBatch), ("matrices", matrices), ("mmul_batch", mmulBatch)]

end YModel.Drv.C11
