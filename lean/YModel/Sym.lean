/-
M1 `Sym`: symmetry rules of yastn (`yastn/sym/sym_*.py`) as a tiny expression language plus a
fixed interpreter.  `SymGen.lean` (generated from the Python sources on every run by
`gen/gen_sym.py`) contains one `SymDef` per shipped symmetry.
No Mathlib imports: this file is executable and used by the driver.
-/
namespace YModel

abbrev Charge := List Int

/-- The fragment of Python that the seven `fuse` one-liners are written in. -/
inductive SymExpr where
  /-- `new_signature * (charges.swapaxes(1, 2) @ signatures)` -/
  | base
  /-- `charges.swapaxes(1, 2) @ signatures` (sym_none) -/
  | baseNoScale
  /-- `np.mod(e, k)` -/
  | modAll (e : SymExpr) (k : Nat)
  /-- `teff = e; teff[:, i] = np.mod(teff[:, i], k)` -/
  | modCol (e : SymExpr) (i : Nat) (k : Nat)
  /-- anything the translator does not recognise -/
  | unknown (src : String)
deriving Repr, DecidableEq, Inhabited

/-- component `j` of `Σ_i s_i * c_i` : one entry of `charges.swapaxes(1,2) @ signatures`. -/
def rawComp (cs : List Charge) (ss : List Int) (j : Nat) : Int :=
  (List.zipWith (fun c s => s * c.getD j 0) cs ss).sum

/-- component `j` of the value the Python expression computes for one row of `charges`. -/
def SymExpr.comp (cs : List Charge) (ss : List Int) (sn : Int) : SymExpr → Nat → Int
  | .base, j => sn * rawComp cs ss j
  | .baseNoScale, j => rawComp cs ss j
  | .modAll e k, j => (e.comp cs ss sn j) % (k : Int)
  | .modCol e i k, j => if j = i then (e.comp cs ss sn j) % (k : Int) else e.comp cs ss sn j
  | .unknown _, _ => 0

def SymExpr.eval (nsym : Nat) (e : SymExpr) (cs : List Charge) (ss : List Int) (sn : Int) : Charge :=
  (List.range nsym).map (e.comp cs ss sn)

/-- modulus of component `j` (0 = U(1)); `none` if the expression is not in canonical shape
(mod applied twice to one column, modulus 0, unrecognised source). -/
def SymExpr.modulus? : SymExpr → Nat → Option Nat
  | .base, _ => some 0
  | .baseNoScale, _ => none
  | .modAll e k, j =>
      match e.modulus? j with
      | some 0 => if 0 < k then some k else none
      | _ => none
  | .modCol e i k, j =>
      match e.modulus? j with
      | some m => if j = i then (if m = 0 ∧ 0 < k then some k else none) else some m
      | none => none
  | .unknown _, _ => none

def SymExpr.moduli (nsym : Nat) (e : SymExpr) : Option (List Nat) :=
  if (List.range nsym).all (fun j => (e.modulus? j).isSome)
  then some ((List.range nsym).map (fun j => (e.modulus? j).getD 0))
  else none

structure SymDef where
  id : String
  nsym : Nat
  expr : SymExpr
deriving Repr, DecidableEq, Inhabited

def SymDef.fuse (d : SymDef) (cs : List Charge) (ss : List Int) (sn : Int) : Charge :=
  d.expr.eval d.nsym cs ss sn

def SymDef.zero (d : SymDef) : Charge := List.replicate d.nsym 0

/-- `sym_abelian.add_charges` -/
def SymDef.addCharges (d : SymDef) (cs : List Charge) (ss : Option (List Int)) (sn : Int) : Charge :=
  if cs.isEmpty then d.zero
  else d.fuse cs (ss.getD (List.replicate cs.length 1)) sn

/-- The generic specification all shipped symmetries reduce to:
componentwise `(sn * Σ s_i c_i) mod m`, Euclidean remainder, `m = 0` meaning no reduction
(`Int.emod x 0 = x`). -/
def canonComp (m : Nat) (cs : List Charge) (ss : List Int) (sn : Int) (j : Nat) : Int :=
  (sn * rawComp cs ss j) % (m : Int)

def canonFuse (ms : List Nat) (cs : List Charge) (ss : List Int) (sn : Int) : Charge :=
  (List.range ms.length).map (fun j => canonComp (ms.getD j 0) cs ss sn j)

/-- What the *name* of a symmetry promises: the group it denotes.  Hand-written specification
table (moduli per component, 0 = U(1)) for the symmetries shipped with yastn. -/
def expectedModuli : String → Option (List Nat)
  | "dense" => some []
  | "Z2" => some [2]
  | "Z3" => some [3]
  | "U1" => some [0]
  | "U1xU1" => some [0, 0]
  | "Z2xU1" => some [2, 0]
  | "U1xU1xZ2" => some [0, 0, 2]
  | _ => none

/-- canonical range of a single component -/
def canonRange (m : Nat) (x : Int) : Bool := m = 0 || (0 ≤ x && x < (m : Int))

def isCanonical (ms : List Nat) (t : Charge) : Bool :=
  t.length = ms.length && (List.zipWith canonRange ms t).all id

end YModel
