/-!
Model of `yastn.tensor.oe_blocksparse.slice_leg_uniform(leg, size)`: the positions of a leg, sector after
sector, are cut into consecutive pieces of `size` positions (the last piece may be shorter).  A piece is
reported per sector as a contiguous range `[start, stop)`.
-/
namespace YModel.Slice

/-- all positions of a leg, `(sector index, position inside the sector)`, in layout order -/
def positions (Ds : List Nat) : List (Nat × Nat) :=
  (List.range Ds.length).flatMap (fun i => (List.range (Ds.getD i 0)).map (fun p => (i, p)))

/-- consecutive chunks of length `n` (fuel = length of the list) -/
def chunksAux {α} (n : Nat) : Nat → List α → List (List α)
  | 0, _ => []
  | _ + 1, [] => []
  | fuel + 1, l => l.take n :: chunksAux n fuel (l.drop n)

def chunks {α} (n : Nat) (l : List α) : List (List α) := chunksAux n l.length l

/-- group a chunk of positions into per-sector ranges `(sector, start, stop)` (positions are consecutive) -/
def ranges : List (Nat × Nat) → List (Nat × Nat × Nat)
  | [] => []
  | (i, p) :: rest =>
    match ranges rest with
    | (j, s, e) :: more => if i = j then (i, p, e) :: more else (i, p, p + 1) :: (j, s, e) :: more
    | [] => [(i, p, p + 1)]

def sliceUniform (Ds : List Nat) (size : Nat) : List (List (Nat × Nat × Nat)) :=
  (chunks size (positions Ds)).map ranges

end YModel.Slice
