import YModel.Tensor
/-!
M5 — specification-level definitions of the tensor algebra on the block model.
Every result is built as `keys' = sortDedup candidates`, `block' = pointwise formula`.
-/
namespace YModel
variable {R : Type}

class Conj (R : Type) where
  conj : R → R

/-! ### generic helpers -/

def Tensor.ofKeys (T : Tensor R) (ks : List Key) (f : Key → Block R) : Tensor R :=
  { T with blocks := (sortDedup keyLt ks).map (fun k => (k, f k)) }

def Block.map (f : R → R) (b : Block R) : Block R := { b with val := fun i => f (b.val i) }

def Tensor.mapVals (f : R → R) (T : Tensor R) : Tensor R :=
  { T with blocks := T.blocks.map (fun kb => (kb.1, kb.2.map f)) }

/-- all sector tables (operands jointly) are consistent: one dimension per (leg, charge) -/
def jointConsistent (rank : Nat) (bs : List (Key × Block R)) : Bool := dimsConsB rank bs

def zeroBlock [Zero R] (shape : List Nat) : Block R := ⟨shape, fun _ => 0⟩

/-! ### linear structure -/

def addBlocks [Zero R] [Add R] (x y : Option (Block R)) : Block R :=
  match x, y with
  | some a, some b => ⟨a.shape, fun i => a.val i + b.val i⟩
  | some a, none => a
  | none, some b => b
  | none, none => zeroBlock []

/-- `a + b` (`_algebra.py:__add__`): same symmetry, signature, charge, diag flag; blocks present in
only one operand are copied; inconsistent bond dimensions are rejected. -/
def add [Zero R] [Add R] (a b : Tensor R) : Except Err (Tensor R) :=
  if a.sym ≠ b.sym then .error .sym
  else if a.rank ≠ b.rank then .error .rank
  else if a.s ≠ b.s then .error .signature
  else if a.n ≠ b.n then .error .charge
  else if a.isdiag ≠ b.isdiag then .error .diag
  else if ¬ jointConsistent a.rank (a.blocks ++ b.blocks) then .error .bondDim
  else .ok (a.ofKeys (a.keys ++ b.keys) (fun k => addBlocks (a.get? k) (b.get? k)))

def smul [Mul R] (c : R) (a : Tensor R) : Tensor R := a.mapVals (fun x => c * x)
def neg [Neg R] (a : Tensor R) : Tensor R := a.mapVals (fun x => -x)

def sub [Zero R] [Add R] [Neg R] (a b : Tensor R) : Except Err (Tensor R) := add a (neg b)

/-! ### conjugation variants -/

def negCharge (d : SymDef) (t : Charge) : Charge := d.fuse [t] [1] (-1)

/-- `conj`: values conjugated, signature and total charge negated (`_single.py:conj`) -/
def conj [Conj R] (a : Tensor R) : Tensor R :=
  { a.mapVals Conj.conj with s := a.s.map (fun x => -x), n := negCharge a.sym a.n }

/-- `conj_blocks`: only the values -/
def conjBlocks [Conj R] (a : Tensor R) : Tensor R := a.mapVals Conj.conj

/-- `flip_signature`: signature and total charge negated, values unchanged -/
def flipSignature (a : Tensor R) : Tensor R :=
  { a with s := a.s.map (fun x => -x), n := negCharge a.sym a.n }

/-! ### transposition -/

def isPerm (n : Nat) (σ : List Nat) : Bool := σ.length == n && (List.range n).all (fun i => σ.contains i)

def Block.perm (σ : List Nat) (b : Block R) : Block R :=
  { shape := pick b.shape σ
    val := fun i => b.val ((List.range b.shape.length).map (fun p => i.getD (σ.idxOf p) 0)) }

/-- `transpose(axes=σ)`: result leg `j` is operand leg `σ[j]` -/
def transpose (σ : List Nat) (a : Tensor R) : Except Err (Tensor R) :=
  if ¬ isPerm a.rank σ then .error .axes
  else if a.isdiag ∧ σ ≠ [0, 1] ∧ σ ≠ [1, 0] then .error .axes
  else
    let bs := a.blocks.map (fun kb => (pick kb.1 σ, kb.2.perm σ))
    .ok { a with s := pick a.s σ, blocks := isort (fun x y => keyLe x.1 y.1) bs }

/-! ### contraction -/

/-- full index of an operand from the outer part `i` (at positions `posOut`) and the contracted
part `c` (at positions `posIn`) -/
def assemble (rank : Nat) (posOut : List Nat) (i : List Nat) (posIn : List Nat) (c : List Nat) : List Nat :=
  (List.range rank).map (fun p =>
    let q := posOut.idxOf p
    if q < posOut.length then i.getD q 0 else c.getD (posIn.idxOf p) 0)

def complementAxes (rank : Nat) (axs : List Nat) : List Nat := (List.range rank).filter (fun i => !axs.contains i)

/-- contraction of one pair of blocks -/
def dotBlocks [Zero R] [Add R] [Mul R] (ra rb : Nat) (outA inA inB outB : List Nat)
    (A B : Block R) : Block R :=
  { shape := pick A.shape outA ++ pick B.shape outB
    val := fun ij =>
      let i := ij.take outA.length
      let j := ij.drop outA.length
      sumIdx (pick A.shape inA) (fun c =>
        A.val (assemble ra outA i inA c) * B.val (assemble rb outB j inB c)) }

def sumBlocks [Zero R] [Add R] (bs : List (Block R)) : Block R :=
  match bs with
  | [] => zeroBlock []
  | b :: rest => ⟨b.shape, fun i => rest.foldl (fun acc x => acc + x.val i) (b.val i)⟩

def nodupB (l : List Nat) : Bool := l.Nodup

/-- `tensordot(a, b, axes=(inA, inB))`, non-diagonal operands (diagonal ones are 2-d blocks in
the model, so the same definition applies).  Result legs: remaining legs of `a` in order, then
remaining legs of `b`.  Total charge `a.n + b.n`. -/
def tensordot [Zero R] [Add R] [Mul R] (a b : Tensor R) (inA inB : List Nat) : Except Err (Tensor R) :=
  if a.sym ≠ b.sym then .error .sym
  else if inA.length ≠ inB.length ∨ ¬ nodupB inA ∨ ¬ nodupB inB ∨
      ¬ inA.all (· < a.rank) ∨ ¬ inB.all (· < b.rank) then .error .axes
  else if pick a.s inA ≠ (pick b.s inB).map (fun x => -x) then .error .signature
  else
    let outA := complementAxes a.rank inA
    let outB := complementAxes b.rank inB
    let pairs := a.blocks.flatMap (fun ka => (b.blocks.filter (fun kb => pick ka.1 inA == pick kb.1 inB)).map (fun kb => (ka, kb)))
    if ¬ pairs.all (fun p => pick p.1.2.shape inA == pick p.2.2.shape inB) then .error .bondDim
    else
      let cand := pairs.map (fun p => (pick p.1.1 outA ++ pick p.2.1 outB,
                                       dotBlocks a.rank b.rank outA inA inB outB p.1.2 p.2.2))
      let res : Tensor R :=
        { sym := a.sym, s := pick a.s outA ++ pick b.s outB, n := a.sym.fuse [a.n, b.n] [1, 1] 1, isdiag := false,
          blocks := (sortDedup keyLt (cand.map (·.1))).map (fun k =>
            (k, sumBlocks ((cand.filter (fun kb => kb.1 == k)).map (·.2)))) }
      if ¬ jointConsistent res.rank res.blocks then .error .bondDim else .ok res

/-- `vdot(a, b)` with conj=(1,0): ⟨a|b⟩, zero unless charges cancel -/
def vdot [Zero R] [Add R] [Mul R] [Conj R] (a b : Tensor R) : Except Err R :=
  match tensordot (conj a) b (List.range a.rank) (List.range b.rank) with
  | .error e => .error e
  | .ok c => if a.rank ≠ b.rank then .error .rank else .ok (match c.blocks with | [] => 0 | kb :: _ => kb.2.val [])

/-- `trace(a, axes=(in0, in1))`; remaining legs keep their order -/
def trace [Zero R] [Add R] (a : Tensor R) (in0 in1 : List Nat) : Except Err (Tensor R) :=
  if in0.length ≠ in1.length ∨ ¬ nodupB (in0 ++ in1) ∨ ¬ (in0 ++ in1).all (· < a.rank) then .error .axes
  else if pick a.s in0 ≠ (pick a.s in1).map (fun x => -x) then .error .signature
  else if in0.isEmpty then .ok a
  else
    let out := complementAxes a.rank (in0 ++ in1)
    let sel := a.blocks.filter (fun kb => pick kb.1 in0 == pick kb.1 in1)
    if ¬ sel.all (fun kb => pick kb.2.shape in0 == pick kb.2.shape in1) then .error .bondDim
    else
      let cand := sel.map (fun kb => (pick kb.1 out,
        (⟨pick kb.2.shape out, fun i =>
            sumIdx (pick kb.2.shape in0) (fun c =>
              kb.2.val ((List.range a.rank).map (fun p =>
                let q := out.idxOf p
                if q < out.length then i.getD q 0
                else
                  let q0 := in0.idxOf p
                  if q0 < in0.length then c.getD q0 0 else c.getD (in1.idxOf p) 0)))⟩ : Block R)))
      .ok { sym := a.sym, s := pick a.s out, n := a.n, isdiag := false,
            blocks := (sortDedup keyLt (cand.map (·.1))).map (fun k =>
              (k, sumBlocks ((cand.filter (fun kb => kb.1 == k)).map (·.2)))) }

/-! ### diagonal operand -/

/-- value of a diagonal tensor (model: square 2-d blocks with key `[γ, γ]`) in sector `γ` at position `q` -/
def diagVal [Zero R] (d : Tensor R) (γ : Charge) (q : Nat) : R :=
  match d.get? [γ, γ] with
  | none => 0
  | some B => B.val [q, q]

/-- `d.broadcast(a, axes=ax)` (`_contractions.py:broadcast`): leg `ax` of `a` is multiplied by the diagonal of `d`, sector by
sector.  Sectors are matched by charge only (no signature is compared); blocks of `a` whose sector is absent from `d` are dropped;
signature, total charge and leg order are those of `a` (a diagonal `a` stays diagonal). -/
def broadcast [Zero R] [Mul R] (d a : Tensor R) (ax : Nat) : Except Err (Tensor R) :=
  if ¬ d.isdiag then .error .diag
  else if a.sym ≠ d.sym then .error .sym
  else if ax ≥ a.rank then .error .axes
  else
    let sel := a.blocks.filter (fun kb => (d.get? [kb.1.getD ax [], kb.1.getD ax []]).isSome)
    if ¬ sel.all (fun kb =>
        match d.get? [kb.1.getD ax [], kb.1.getD ax []] with
        | some B => B.shape.getD 0 0 == kb.2.shape.getD ax 0
        | none => true) then .error .bondDim
    else
      .ok { a with blocks := sel.map (fun kb =>
              (kb.1, ⟨kb.2.shape, fun i => diagVal d (kb.1.getD ax []) (i.getD ax 0) * kb.2.val i⟩)) }

/-- `a.diag()` (`_single.py:diag`): a diagonal tensor becomes an ordinary 2-leg tensor (same elements); a 2-leg tensor of zero charge,
opposite signatures and square blocks becomes the diagonal tensor holding its diagonal (off-diagonal elements are dropped). -/
def diag [Zero R] (a : Tensor R) : Except Err (Tensor R) :=
  if a.isdiag then .ok { a with isdiag := false }
  else if a.rank ≠ 2 ∨ a.s.foldl (· + ·) 0 ≠ 0 then .error .signature
  else if a.n.any (· ≠ 0) then .error .charge
  else if ¬ a.blocks.all (fun kb => kb.2.shape.getD 0 0 == kb.2.shape.getD 1 0) then .error .bondDim
  else .ok { a with isdiag := true,
                    blocks := a.blocks.map (fun kb => (kb.1, ⟨kb.2.shape, fun i => if i.getD 0 0 = i.getD 1 0 then kb.2.val i else 0⟩)) }

/-- positions (inside sector `γ`) that a diagonal mask tensor keeps: the non-zero diagonal entries, ascending -/
def maskIdx [Zero R] [DecidableEq R] (m : Tensor R) (γ : Charge) : List Nat :=
  match m.get? [γ, γ] with
  | none => []
  | some B => (List.range (B.shape.getD 0 0)).filter (fun q => B.val [q, q] ≠ 0)

/-- `m.apply_mask(a, axes=ax)` (`_contractions.py:apply_mask`, `_merging.py:_meta_mask`): on leg `ax` only the positions kept by the
diagonal mask `m` survive, sector by sector; sectors without a kept position (or absent from the mask) disappear with their blocks;
signature, charge and leg order are those of `a`. (Non-diagonal `a` only.) -/
def applyMask [Zero R] [DecidableEq R] (m a : Tensor R) (ax : Nat) : Except Err (Tensor R) :=
  if ¬ m.isdiag then .error .diag
  else if a.isdiag then .error .other
  else if a.sym ≠ m.sym then .error .sym
  else if ax ≥ a.rank then .error .axes
  else
    let sel := a.blocks.filter (fun kb => !(maskIdx m (kb.1.getD ax [])).isEmpty)
    if ¬ sel.all (fun kb =>
        match m.get? [kb.1.getD ax [], kb.1.getD ax []] with
        | some B => B.shape.getD 0 0 == kb.2.shape.getD ax 0
        | none => true) then .error .bondDim
    else
      .ok { a with blocks := sel.map (fun kb =>
              (kb.1, ⟨kb.2.shape.set ax (maskIdx m (kb.1.getD ax [])).length,
                      fun i => kb.2.val (i.set ax ((maskIdx m (kb.1.getD ax [])).getD (i.getD ax 0) 0))⟩)) }

/-! ### legs -/

/-- `add_leg(axis, s, t)`: a new one-dimensional leg of charge `t` (reduced to canonical range),
signature `sl`, at `axis`; the total charge absorbs it: `n' = n + sl·t`. -/
def addLeg (a : Tensor R) (axis : Nat) (sl : Int) (t : Charge) : Except Err (Tensor R) :=
  if a.isdiag then .error .diag
  else if axis > a.rank then .error .axes
  else if ¬ (sl = 1 ∨ sl = -1) then .error .signature
  else if t.length ≠ a.sym.nsym then .error .charge
  else
    -- `t = sym.add_charges(t, signatures=(s,), new_signature=s)`: the charge is brought to canonical range
    let t := a.sym.fuse [t] [sl] sl
    .ok { a with s := a.s.take axis ++ [sl] ++ a.s.drop axis,
                 n := a.sym.fuse [a.n, t] [1, sl] 1,
                 blocks := a.blocks.map (fun kb =>
                   (kb.1.take axis ++ [t] ++ kb.1.drop axis,
                    ⟨kb.2.shape.take axis ++ [1] ++ kb.2.shape.drop axis,
                     fun i => kb.2.val (i.take axis ++ i.drop (axis + 1))⟩)) }

/-- `remove_leg(axis)`: removes a leg of dimension one; its charge moves into `n` -/
def removeLeg (a : Tensor R) (axis : Nat) : Except Err (Tensor R) :=
  if a.isdiag then .error .diag
  else if axis ≥ a.rank then .error .axes
  else if ¬ a.blocks.all (fun kb => kb.2.shape.getD axis 0 == 1) then .error .bondDim
  else
    let ts := sortDedup lexLt (a.blocks.map (fun kb => kb.1.getD axis []))
    if ts.length > 1 then .error .bondDim
    else
      let t := ts.headD (List.replicate a.sym.nsym 0)
      let sl := a.s.getD axis 1
      .ok { a with s := a.s.eraseIdx axis,
                   n := a.sym.fuse [a.n, t] [1, -sl] 1,
                   blocks := a.blocks.map (fun kb =>
                     (kb.1.eraseIdx axis,
                      ⟨kb.2.shape.eraseIdx axis, fun i => kb.2.val (i.take axis ++ [0] ++ i.drop axis)⟩)) }

end YModel
