import Lean.Data.Json
import YModel.JsonUtil
import YModel.Drv.C19
/-! Line-protocol driver: one JSON request per input line, one JSON response per output line. -/
open Lean YModel

def allHandlers : List (String × (Json → J.R Json)) :=
  YModel.Drv.C19.handlers

def handle (line : String) : Json :=
  match Json.parse line with
  | .error e => J.obj [("ok", false), ("err", s!"parse: {e}")]
  | .ok j =>
    match j.getObjVal? "op" >>= Json.getStr? with
    | .error e => J.obj [("ok", false), ("err", s!"no op: {e}")]
    | .ok op =>
      match allHandlers.lookup op with
      | none => J.obj [("ok", false), ("err", s!"unknown op {op}")]
      | some h =>
        match h j with
        | .ok r => r.setObjVal! "ok" true
        | .error e => J.obj [("ok", false), ("err", e)]

def main : IO Unit := do
  let stdin ← IO.getStdin
  let stdout ← IO.getStdout
  repeat
    let line ← stdin.getLine
    if line.isEmpty then break
    if line.trimAscii.isEmpty then continue
    stdout.putStrLn (Json.compress (handle line))
    stdout.flush
