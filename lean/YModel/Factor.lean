import YModel.Sym
import YModel.Sort
import YModel.Leg
/-!
M7 — structure of the factors of svd / qr (`linalg.py:_meta_svd`, `_meta_qr`) at the level of the merged
block matrix: a matrix with signature `(s0, s1)`, total charge `n` and blocks labelled by
`(row charge r, column charge c, (Dl, Dr))`.

The connecting charge `tCon` of a block is chosen by a four-way case on which factor carries the charge
(`nU`) and the requested signature `sU` of the new leg:
  * `nU ∧ sU = s1`   ⇒ `c`      * `nU ∧ sU = -s1`  ⇒ `-c`
  * `¬nU ∧ sU = -s0` ⇒ `r`      * `¬nU ∧ sU = s0`  ⇒ `-r`
`U` has blocks `(r, tCon)` with signature `(s0, sU)`, `S` is diagonal on `tCon` with signature `(-sU, sU)`,
`V` has blocks `(tCon, c)` with signature `(-sU, s1)`; blocks with `min(Dl, Dr) = 0` are dropped.
-/
namespace YModel

structure MBlock where
  r : Charge
  c : Charge
  Dl : Nat
  Dr : Nat
deriving Repr, DecidableEq

def negC (d : SymDef) (t : Charge) : Charge := d.fuse [t] [1] (-1)

/-- the connecting charge of one matrix block -/
def tCon (d : SymDef) (s0 s1 sU : Int) (nU : Bool) (b : MBlock) : Charge :=
  if nU then (if sU = s1 then b.c else negC d b.c)
  else (if sU = -s0 then b.r else negC d b.r)

structure FactorStruct where
  U : List (Charge × Charge × Nat × Nat)   -- (r, tCon, Dl, min)
  S : List (Charge × Nat)                  -- (tCon, min)
  V : List (Charge × Charge × Nat × Nat)   -- (tCon, c, min, Dr)
  Un : Charge
  Vn : Charge
  sU : Int × Int
  sS : Int × Int
  sV : Int × Int

def factorStruct (d : SymDef) (s0 s1 : Int) (n : Charge) (blocks : List MBlock) (sU : Int) (nU : Bool) : FactorStruct :=
  let bs := blocks.filter (fun b => 0 < min b.Dl b.Dr)
  { U := bs.map (fun b => (b.r, tCon d s0 s1 sU nU b, b.Dl, min b.Dl b.Dr))
    S := bs.map (fun b => (tCon d s0 s1 sU nU b, min b.Dl b.Dr))
    V := bs.map (fun b => (tCon d s0 s1 sU nU b, b.c, min b.Dl b.Dr, b.Dr))
    Un := if nU then n else d.zero
    Vn := if nU then d.zero else n
    sU := (s0, sU), sS := (-sU, sU), sV := (-sU, s1) }

end YModel
