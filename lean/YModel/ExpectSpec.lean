import YModel.Swap
import YModel.Sort
/-!
M11/M12 `ExpectSpec`: the *specification* of an expectation value of a product of graded local operators
in a declared fermionic site order, and the bookkeeping model of `DoublePepsTensor.add_charge_swaps_`.

* `Op`          – a local operator: rank of its site in the fermionic order, its charge `n`, its `d × d` matrix
* `State`       – a formal linear combination of basis kets `|σ₀ σ₁ … ⟩` (list of `(configuration, amplitude)`)
* `specSign`    – sign of an operator order = parity of the inversions w.r.t. the site order weighted by
                  `⟨nᵢ,nⱼ⟩_fss` (`invSign` of `YModel/Swap.lean`; `scoSign` is the selection loop of the source,
                  equal to it by theorem `signCanonicalOrder_eq_inversions` of C05)
* `canon`       – canonical order: stable sort by site (operators on one site keep their order = on-site product)
* `applyOp`     – Jordan–Wigner action: `O_i |σ⟩ = Σ_a (−1)^{Σ_{j<i} ⟨n_O, t(σ_j)⟩_fss} O[a,σ_i] |σ[i:=a]⟩`
* `expect`      – `specSign · ⟨v| O_{s₁} … O_{s_k} |v⟩` with the operators in canonical order; this is how every
                  `measure_*` function of the PEPS environments is organised (`sign_canonical_order`, `ops[n] @ op`,
                  charge swaps for the strings).
* `addChargeSwaps` – `yastn/tn/fpeps/_doublePepsTensor.py: add_charge_swaps_` (lines 82-103), incl. its error branch.

The value ring `R` is generic (`Zero`, `Add`, `Mul`, `Neg` only): executed over Gaussian integers (`YModel.GI`,
driver `drv_c12`), theorems over every commutative ring (ℂ in particular).  No Mathlib.
-/
namespace YModel.Expect
open YModel

variable {R : Type}

/-- a local operator -/
structure Op (R : Type) where
  /-- rank of the site in the fermionic order -/
  site : Nat
  /-- the charge `op.n` -/
  charge : Charge
  /-- matrix rows: `mat[a][b] = ⟨a|O|b⟩` -/
  mat : List (List R)

/-- local basis states of all sites, in the fermionic order -/
abbrev Config := List Nat
/-- formal linear combination of basis kets -/
abbrev State (R : Type) := List (Config × R)

def natLe (a b : Nat) : Bool := decide (a ≤ b)

def Op.key (o : Op R) : Nat × Charge := (o.site, o.charge)

/-- sign the specification assigns to an operator order (closed form: weighted inversion parity) -/
def specSign (f : Fermionic) (ops : List (Op R)) : Int := invSign f natLe (ops.map Op.key)

/-- the same sign computed by the selection loop of `sign_canonical_order` -/
def scoSign (f : Fermionic) (ops : List (Op R)) : Int := signCanonicalOrder f natLe (ops.map Op.key)

def siteLe (a b : Op R) : Bool := natLe a.site b.site

/-- canonical order: ascending sites, stable -/
def canon (ops : List (Op R)) : List (Op R) := isort siteLe ops

/-- multiply by a sign `±1` (anything else than `1` negates; only `±1` occur) -/
def zsign [Neg R] (s : Int) (x : R) : R := if s = 1 then x else -x

/-- `(−1)^{Σ_{j<i} ⟨n, t(σ_j)⟩_fss}`: the Jordan–Wigner string of an operator of charge `n` at position `i` -/
def stringSign (f : Fermionic) (basis : List Charge) (n : Charge) (i : Nat) (σ : Config) : Int :=
  sgn (((σ.take i).map (fun a => f.weight n (basis.getD a []))).sum)

def entry [Zero R] (m : List (List R)) (a b : Nat) : R := (m.getD a []).getD b 0

/-- `O_i` applied to one term `α |σ⟩` -/
def applyTerm [Zero R] [Mul R] [Neg R] (f : Fermionic) (basis : List Charge) (d : Nat) (o : Op R)
    (t : Config × R) : State R :=
  (List.range d).map (fun a =>
    (t.1.set o.site a, zsign (stringSign f basis o.charge o.site t.1) (entry o.mat a (t.1.getD o.site 0) * t.2)))

def applyOp [Zero R] [Mul R] [Neg R] (f : Fermionic) (basis : List Charge) (d : Nat) (o : Op R)
    (v : State R) : State R :=
  v.flatMap (applyTerm f basis d o)

/-- `O₁ O₂ … O_k |v⟩` (the last operator acts first) -/
def applyAll [Zero R] [Mul R] [Neg R] (f : Fermionic) (basis : List Charge) (d : Nat) (ops : List (Op R))
    (v : State R) : State R :=
  ops.foldr (applyOp f basis d) v

/-- `⟨u|τ⟩ β` for one term `β |τ⟩` of the ket -/
def pair [Zero R] [Add R] [Mul R] (conj : R → R) (u : State R) (b : Config × R) : R :=
  (u.map (fun a => if a.1 = b.1 then conj a.2 * b.2 else 0)).sum

/-- `⟨u|w⟩ = Σ_{(τ,β)∈w} Σ_{(σ,α)∈u} [σ = τ] conj(α) β` -/
def vdot [Zero R] [Add R] [Mul R] (conj : R → R) (u w : State R) : R :=
  (w.map (pair conj u)).sum

/-- `⟨v| O₁ … O_k |v⟩` for the operators in the given order -/
def braket [Zero R] [Add R] [Mul R] [Neg R] (f : Fermionic) (basis : List Charge) (d : Nat) (conj : R → R)
    (ops : List (Op R)) (v : State R) : R :=
  vdot conj v (applyAll f basis d ops v)

/-- `c · v` -/
def scale [Mul R] (c : R) (v : State R) : State R := v.map (fun t => (t.1, c * t.2))

/-- **the specification**: sign of the order times the canonically ordered product -/
def expect [Zero R] [Add R] [Mul R] [Neg R] (f : Fermionic) (basis : List Charge) (d : Nat) (conj : R → R)
    (ops : List (Op R)) (v : State R) : R :=
  zsign (specSign f ops) (braket f basis d conj (canon ops) v)

/-! ### `add_charge_swaps_` -/

/-- `x % m` for a `Z_m` factor, `x` for a `U(1)` factor (`m = 0`) -/
def red (m : Nat) (x : Int) : Int := if m = 0 then x else x % (m : Int)

/-- componentwise reduction -/
def cnorm (ms : List Nat) (c : Charge) : Charge := (List.range ms.length).map (fun j => red (ms.getD j 0) (c.getD j 0))

/-- `sym.add_charges(t, charge)` for a product of cyclic / integer factors with moduli `ms` -/
def addMod (ms : List Nat) (a b : Charge) : Charge :=
  (List.range ms.length).map (fun j => red (ms.getD j 0) (a.getD j 0 + b.getD j 0))

def zeroCharge (ms : List Nat) : Charge := List.replicate ms.length 0

/-- `self.swaps`: a dict in insertion order -/
abbrev Swaps := List (String × Charge)

def validAxes : List String := ["b0", "b1", "b2", "b3", "b4", "k0", "k1", "k2", "k3", "k4"]

/-- `t = swaps.pop(ax, None); t = add_charges(t, charge) if t is not None else charge` -/
def newCharge (ms : List Nat) (sw : Swaps) (ax : String) (ch : Charge) : Charge :=
  match sw.lookup ax with
  | some t => addMod ms t ch
  | none => ch

/-- one iteration of the loop body for a valid axis: pop the entry, `if t != zero: swaps[ax] = t`
(re-inserted at the end of the dict) -/
def addOne (ms : List Nat) (sw : Swaps) (ax : String) (ch : Charge) : Swaps :=
  if newCharge ms sw ax ch != zeroCharge ms then
    sw.filter (fun e => e.1 != ax) ++ [(ax, newCharge ms sw ax ch)]
  else sw.filter (fun e => e.1 != ax)

/-- `add_charge_swaps_(charge, axes)`; the flag is `true` when `YastnError` is raised (the entries written before the
offending axis stay written, as in the source) -/
def addChargeSwaps (ms : List Nat) (sw : Swaps) (ch : Charge) : List String → Swaps × Bool
  | [] => (sw, false)
  | ax :: rest =>
    if validAxes.contains ax then addChargeSwaps ms (addOne ms sw ax ch) ch rest else (sw, true)

/-- a script of calls on one `DoublePepsTensor`; stops at the first raised error -/
def runScript (ms : List Nat) : Swaps → List (Charge × List String) → Swaps × Bool
  | sw, [] => (sw, false)
  | sw, (ch, axes) :: rest =>
    match addChargeSwaps ms sw ch axes with
    | (sw', true) => (sw', true)
    | (sw', false) => runScript ms sw' rest

/-- the charge an axis is swapped with (`zero` when the axis has no entry) -/
def val (ms : List Nat) (sw : Swaps) (ax : String) : Charge := (sw.lookup ax).getD (zeroCharge ms)

end YModel.Expect
