import YModel.Ops
/-! Gaussian integers: the exact executable value ring (real dtypes have `im = 0`). -/
namespace YModel

structure GI where
  re : Int
  im : Int
deriving Repr, DecidableEq, Inhabited, BEq

instance : Zero GI := ⟨⟨0, 0⟩⟩
instance : Add GI := ⟨fun a b => ⟨a.re + b.re, a.im + b.im⟩⟩
instance : Neg GI := ⟨fun a => ⟨-a.re, -a.im⟩⟩
instance : Mul GI := ⟨fun a b => ⟨a.re * b.re - a.im * b.im, a.re * b.im + a.im * b.re⟩⟩
instance : Conj GI := ⟨fun a => ⟨a.re, -a.im⟩⟩

end YModel
