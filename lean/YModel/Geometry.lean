import YModel.Sort
/-!
# Geometry model (property C20)

Executable model of `yastn/tn/fpeps/_geometry.py`: `SquareLattice`, `CheckerboardLattice`,
`RectangularUnitcell`, `TriangularLattice` and the `Lattice` container (`__getitem__`,
`__setitem__`, `apply_patch`, `move_to_patch`, `__init__` with objects).

The model mirrors the case analysis of the source *as it is*, including
* `nn_site` does not check that the argument lies in the lattice and wraps `x` on a cylinder only
  when it left `[0, Nx)`;
* `SquareLattice.site2index` returns the site unchanged in open directions (also outside the lattice);
* `RectangularUnitcell` lists its unique sites in Python tuple order (row-major), not in fermionic order;
* `TriangularLattice(full_patch=True)` lists a diagonal bond `(nn_site(s,'b'), nn_site(s,'r'))` only when both
  neighbours exist (like h/v bonds); `bonds()` is `h + v + d`;
* `Lattice.__setitem__` on a site whose index is not a key creates a new key.

Assumption of the model: `Nx, Ny ≥ 1` wherever a modulo is taken (Python raises `ZeroDivisionError`
for `Nx = 0`; Lean's `x % 0 = x`).  All theorems carry `0 < Nx`, `0 < Ny` explicitly.
-/
namespace YModel.Geo

abbrev Site := Int × Int
abbrev Bond := Site × Site

/-- per-direction boundary rule: `'i'` infinite, `'o'` open, `'p'` periodic -/
inductive Bc | i | o | p
deriving DecidableEq, Repr, Inhabited

inductive Boundary | infinite | obc | cylinder
deriving DecidableEq, Repr, Inhabited

def Boundary.ofString? : String → Option Boundary
  | "infinite" => some .infinite
  | "obc" => some .obc
  | "cylinder" => some .cylinder
  | _ => none

/-- `_periodic_dict[boundary][0]` -/
def Boundary.px : Boundary → Bc
  | .infinite => .i | .obc => .o | .cylinder => .p
/-- `_periodic_dict[boundary][1]` -/
def Boundary.py : Boundary → Bc
  | .infinite => .i | .obc => .o | .cylinder => .o

inductive Dir | tl | t | tr | l | r | bl | b | br
deriving DecidableEq, Repr, Inhabited

/-- `self._dir` -/
def Dir.vec : Dir → Int × Int
  | .tl => (-1, -1) | .t => (-1, 0) | .tr => (-1, 1)
  | .l => (0, -1) | .r => (0, 1)
  | .bl => (1, -1) | .b => (1, 0) | .br => (1, 1)

def Dir.all : List Dir := [.tl, .t, .tr, .l, .r, .bl, .b, .br]

def Dir.opp : Dir → Dir
  | .tl => .br | .t => .b | .tr => .bl | .l => .r | .r => .l | .bl => .tr | .b => .t | .br => .tl

def Dir.ofString? : String → Option Dir
  | "tl" => some .tl | "t" => some .t | "tr" => some .tr | "l" => some .l | "r" => some .r
  | "bl" => some .bl | "b" => some .b | "br" => some .br | _ => none

/-- the data of a `SquareLattice` instance that its methods read -/
structure Sq where
  Nx : Nat
  Ny : Nat
  bd : Boundary
deriving DecidableEq, Repr, Inhabited

/-- `SquareLattice.nn_site(site, d)` for a site that is not `None`; `d` is a shift `(dx, dy)`
(the eight named directions are `Dir.vec`). -/
def Sq.nnSite (g : Sq) (s : Site) (d : Int × Int) : Option Site :=
  let x := s.1 + d.1
  let y := s.2 + d.2
  if g.bd.px = .o ∧ (x < 0 ∨ x ≥ g.Nx) then none
  else if g.bd.py = .o ∧ (y < 0 ∨ y ≥ g.Ny) then none
  else if g.bd.px = .p ∧ (x < 0 ∨ x ≥ g.Nx) then some (x % g.Nx, y)
  else some (x, y)

/-- `nn_site` including the `site is None` branch -/
def Sq.nnSiteO (g : Sq) (s : Option Site) (d : Int × Int) : Option Site :=
  match s with
  | none => none
  | some s => g.nnSite s d

/-- `_sites`: column-major enumeration of the cell -/
def Sq.sites (g : Sq) : List Site :=
  (List.range g.Ny).flatMap fun (ny : Nat) => (List.range g.Nx).map fun (nx : Nat) => ((nx : Int), (ny : Int))

/-- bonds from each listed site to its neighbour in direction `d`, where that exists -/
def Sq.bondsTo (g : Sq) (d : Dir) (ss : List Site) : List Bond :=
  ss.filterMap fun s => (g.nnSite s d.vec).map fun s' => (s, s')

def Sq.bondsH (g : Sq) : List Bond := g.bondsTo .r g.sites
def Sq.bondsV (g : Sq) : List Bond := g.bondsTo .b g.sites

inductive BDir | lr | tb | rl | bt
deriving DecidableEq, Repr, Inhabited

def BDir.toString : BDir → String
  | .lr => "lr" | .tb => "tb" | .rl => "rl" | .bt => "bt"

/-- one test of `nn_bond_dirn`: `nn_site(s0, d) == s1 and nn_site(s1, opp d) == s0` -/
def Sq.isNN (g : Sq) (s0 s1 : Site) (d : Dir) : Bool :=
  g.nnSite s0 d.vec == some s1 && g.nnSite s1 d.opp.vec == some s0

/-- `nn_bond_dirn`; `none` = `YastnError` (not nearest neighbours) -/
def Sq.nnBondDirn (g : Sq) (s0 s1 : Site) : Option BDir :=
  if g.isNN s0 s1 .r then some .lr
  else if g.isNN s0 s1 .b then some .tb
  else if g.isNN s0 s1 .l then some .rl
  else if g.isNN s0 s1 .t then some .bt
  else none

/-- `f_ordered`: column first, then row -/
def fOrdered (s0 s1 : Site) : Bool :=
  decide (s0.2 < s1.2) || (decide (s0.2 = s1.2) && decide (s0.1 ≤ s1.1))

/-- `SquareLattice.site2index` -/
def Sq.site2index (g : Sq) (s : Site) : Site :=
  (if g.bd.px = .i ∨ g.bd.px = .p then s.1 % g.Nx else s.1,
   if g.bd.py = .i then s.2 % g.Ny else s.2)

/-! ### CheckerboardLattice -/

def cbBase : Sq := ⟨2, 2, .infinite⟩
def cbSites : List Site := [(0, 0), (0, 1)]
def cbBondsH : List Bond := [((0, 0), (0, 1)), ((0, 1), (0, 2))]
def cbBondsV : List Bond := [((0, 0), (1, 0)), ((0, 1), (1, 1))]
def cbIndex (s : Site) : Int := (s.1 + s.2) % 2

/-! ### RectangularUnitcell -/

inductive PatErr
  | indexError      -- `pattern[0]` on an empty sequence (uncaught IndexError)
  | valueError      -- empty dict: `min_row, min_col = map(min, zip())` (uncaught ValueError)
  | dictCover       -- YastnError: keys should cover a rectangle from (0, 0)
  | notMatrix       -- YastnError: rows of different length
  | neighbors       -- YastnError: each unique label should have the same neighbors
deriving DecidableEq, Repr, Inhabited

def PatErr.toString : PatErr → String
  | .indexError => "IndexError" | .valueError => "ValueError" | .dictCover => "dictCover"
  | .notMatrix => "notMatrix" | .neighbors => "neighbors"

abbrev Pattern := List (List Int)

def patGet (pat : Pattern) (x y : Nat) : Option Int := (pat[x]?).bind (·[y]?)

/-- `RectangularUnitcell.site2index`: `_site2index[x % Nx, y % Ny]`; `none` = KeyError -/
def patIndex (pat : Pattern) (Nx Ny : Nat) (s : Site) : Option Int :=
  patGet pat (s.1 % (Nx : Int)).toNat (s.2 % (Ny : Int)).toNat

/-- 4-neighbourhood `(top, left, bottom, right)` labels, as in the constructor -/
def patEnv (pat : Pattern) (Nx Ny : Nat) (s : Site) : List (Option Int) :=
  [patIndex pat Nx Ny (s.1 - 1, s.2), patIndex pat Nx Ny (s.1, s.2 - 1),
   patIndex pat Nx Ny (s.1 + 1, s.2), patIndex pat Nx Ny (s.1, s.2 + 1)]

/-- cells in the order of the constructor's double loop (row-major) -/
def patCells (Nx Ny : Nat) : List Site :=
  (List.range Nx).flatMap fun (nx : Nat) => (List.range Ny).map fun (ny : Nat) => ((nx : Int), (ny : Int))

/-- `d[k].append(v)` / `d[k] = [v]` on an insertion-ordered dict -/
def groupInsert {β} (k : Int) (v : β) : List (Int × List β) → List (Int × List β)
  | [] => [(k, [v])]
  | (k', vs) :: rest => if k' = k then (k', vs ++ [v]) :: rest else (k', vs) :: groupInsert k v rest

def groupAll {β} (kvs : List (Int × β)) : List (Int × List β) :=
  kvs.foldl (fun acc kv => groupInsert kv.1 kv.2 acc) []

/-- Python tuple order on sites -/
def siteLexLe (a b : Site) : Bool := decide (a.1 < b.1) || (decide (a.1 = b.1) && decide (a.2 ≤ b.2))

def minSite : List Site → Option Site
  | [] => none
  | s :: ss => some (ss.foldl (fun m x => if siteLexLe m x then m else x) s)

structure Rect where
  Nx : Nat
  Ny : Nat
  pat : Pattern
  sites : List Site
deriving DecidableEq, Repr, Inhabited

def Rect.base (r : Rect) : Sq := ⟨r.Nx, r.Ny, .infinite⟩

/-- labelled cells `(label, site)` of a rectangular pattern -/
def patLabelled (pat : Pattern) (Nx Ny : Nat) : List (Int × Site) :=
  (patCells Nx Ny).filterMap fun c => (patIndex pat Nx Ny c).map fun l => (l, c)

/-- `len(set(envs)) > 1` -/
def notAllEqual {β} [DecidableEq β] : List β → Bool
  | [] => false
  | e :: es => es.any (· ≠ e)

/-- `RectangularUnitcell.__init__` for a sequence-of-sequences pattern with integer labels -/
def Rect.mk? (pat : Pattern) : Except PatErr Rect :=
  match pat with
  | [] => .error .indexError
  | row0 :: _ =>
    let Nx := pat.length
    let Ny := row0.length
    if pat.any (fun row => row.length ≠ Ny) then .error .notMatrix
    else
      let lab := patLabelled pat Nx Ny
      let labelSites := groupAll lab
      let labelEnvs := groupAll (lab.map fun lc => (lc.1, patEnv pat Nx Ny lc.2))
      if labelEnvs.any (fun g => notAllEqual g.2) then .error .neighbors
      else
        .ok { Nx := Nx, Ny := Ny, pat := pat,
              sites := isort siteLexLe (labelSites.filterMap fun g => minSite g.2) }

/-- conversion of a dict pattern `{(r, c): label}` (given as association list with distinct keys) -/
def dictToPattern (d : List (Site × Int)) : Except PatErr Pattern :=
  match d with
  | [] => .error .valueError
  | (k0, _) :: rest =>
    let minR := rest.foldl (fun m kv => min m kv.1.1) k0.1
    let minC := rest.foldl (fun m kv => min m kv.1.2) k0.2
    let maxR := rest.foldl (fun m kv => max m kv.1.1) k0.1
    let maxC := rest.foldl (fun m kv => max m kv.1.2) k0.2
    if (minR, minC) ≠ (0, 0) then .error .dictCover
    else
      let rows := (List.range (maxR + 1).toNat).map fun (r : Nat) =>
        (List.range (maxC + 1).toNat).map fun (c : Nat) => d.lookup ((r : Int), (c : Int))
      if rows.any (fun row => row.any Option.isNone) then .error .dictCover
      else .ok (rows.map fun row => row.filterMap id)

def Rect.ofDict? (d : List (Site × Int)) : Except PatErr Rect := do
  let pat ← dictToPattern d
  Rect.mk? pat

def Rect.index (r : Rect) (s : Site) : Option Int := patIndex r.pat r.Nx r.Ny s
def Rect.bondsH (r : Rect) : List Bond := r.base.bondsTo .r r.sites
def Rect.bondsV (r : Rect) : List Bond := r.base.bondsTo .b r.sites

/-! ### TriangularLattice -/

structure Tri where
  base : Sq
  full : Bool
deriving DecidableEq, Repr, Inhabited

def triSites3 : List Site := [(0, 0), (0, 1), (0, 2)]
def triBondsH3 : List Bond := [((0, 0), (0, 1)), ((0, 1), (0, 2)), ((0, 2), (0, 3))]
def triBondsV3 : List Bond := [((0, 0), (1, 0)), ((0, 1), (1, 1)), ((0, 2), (1, 2))]
def triBondsD3 : List Bond := [((1, 0), (0, 1)), ((1, 1), (0, 2)), ((1, 2), (0, 3))]

def Tri.sites (t : Tri) : List Site := if t.full then t.base.sites else triSites3
def Tri.bondsH (t : Tri) : List Bond := if t.full then t.base.bondsH else triBondsH3
def Tri.bondsV (t : Tri) : List Bond := if t.full then t.base.bondsV else triBondsV3
/-- `_bonds_d`: for `full_patch` it is `Bond(nn_site(s,'b'), nn_site(s,'r'))` for every site where both neighbours exist -/
def Tri.bondsD (t : Tri) : List Bond :=
  if t.full then t.base.sites.filterMap fun s =>
    match t.base.nnSite s Dir.r.vec, t.base.nnSite s Dir.b.vec with
    | some sr, some sb => some (sb, sr)
    | _, _ => none
  else triBondsD3

def Tri.index (t : Tri) (s : Site) : Int :=
  if t.full then (s.1 % (t.base.Nx : Int)) * t.base.Ny + s.2 % (t.base.Ny : Int)
  else (s.2 - s.1) % 3

/-! ### all geometry classes behind one interface (what `Lattice` copies from its geometry) -/

inductive Geom
  | square (g : Sq)
  | checker
  | rect (r : Rect)
  | tri (t : Tri)
deriving DecidableEq, Repr, Inhabited

/-- value of `site2index`: a site (SquareLattice) or a label / integer index -/
inductive Index
  | site (s : Site)
  | lab (n : Int)
deriving DecidableEq, Repr, Inhabited

def Geom.base : Geom → Sq
  | .square g => g
  | .checker => cbBase
  | .rect r => r.base
  | .tri t => t.base

def Geom.sites : Geom → List Site
  | .square g => g.sites
  | .checker => cbSites
  | .rect r => r.sites
  | .tri t => t.sites

def Geom.bondsH : Geom → List Bond
  | .square g => g.bondsH
  | .checker => cbBondsH
  | .rect r => r.bondsH
  | .tri t => t.bondsH

def Geom.bondsV : Geom → List Bond
  | .square g => g.bondsV
  | .checker => cbBondsV
  | .rect r => r.bondsV
  | .tri t => t.bondsV

def Geom.nnSite (G : Geom) (s : Site) (d : Int × Int) : Option Site := G.base.nnSite s d
def Geom.nnBondDirn (G : Geom) (s0 s1 : Site) : Option BDir := G.base.nnBondDirn s0 s1

/-- `site2index`; `.error` = the Python call raises (KeyError for a degenerate pattern) -/
def Geom.site2index (G : Geom) (s : Site) : Except String Index :=
  match G with
  | .square g => .ok (.site (g.site2index s))
  | .checker => .ok (.lab (cbIndex s))
  | .rect r => match r.index s with
    | some l => .ok (.lab l)
    | none => .error "KeyError"
  | .tri t => .ok (.lab (t.index s))

/-- `bonds(dirn, reverse)`.  `dirn` is `some "h"`, `some "v"`, `some "d"` or anything else (treated like `None`).
`SquareLattice.bonds` knows only `'h'`/`'v'` (so `'d'` falls through to all bonds); `TriangularLattice.bonds` adds `'d'`. -/
def Geom.bonds (G : Geom) (dirn : Option String) (reverse : Bool) : List Bond :=
  let rev (l : List Bond) := if reverse then l.reverse else l
  let h := G.bondsH
  let v := G.bondsV
  match G with
  | .tri t =>
    if dirn = some "d" then rev t.bondsD
    else if dirn = some "v" then rev v
    else if dirn = some "h" then rev h
    else if reverse then t.bondsD.reverse ++ v.reverse ++ h.reverse else h ++ v ++ t.bondsD
  | _ =>
    if dirn = some "v" then rev v
    else if dirn = some "h" then rev h
    else if reverse then v.reverse ++ h.reverse else h ++ v

/-! ### Lattice container -/

abbrev Obj := Int

/-- insertion-ordered dict: update in place, else append -/
def alSet {κ ν} [DecidableEq κ] (k : κ) (v : ν) : List (κ × ν) → List (κ × ν)
  | [] => [(k, v)]
  | (k', v') :: rest => if k' = k then (k', v) :: rest else (k', v') :: alSet k v rest

def alGet {κ ν} [DecidableEq κ] (k : κ) : List (κ × ν) → Option ν
  | [] => none
  | (k', v') :: rest => if k' = k then some v' else alGet k rest

structure Lat where
  geom : Geom
  /-- `_site_data` -/
  data : List (Index × Option Obj)
  /-- `_patch` -/
  patch : List (Site × Option Obj)
deriving Repr, Inhabited

/-- `Lattice(geometry)` without objects -/
def Lat.new (G : Geom) : Except String Lat := do
  let mut data : List (Index × Option Obj) := []
  for s in G.sites do
    let i ← G.site2index s
    data := alSet i none data
  pure { geom := G, data := data, patch := [] }

/-- `__getitem__` -/
def Lat.get (c : Lat) (s : Site) : Except String (Option Obj) :=
  match alGet s c.patch with
  | some v => .ok v
  | none =>
    match c.geom.site2index s with
    | .error e => .error e
    | .ok i =>
      match alGet i c.data with
      | some v => .ok v
      | none => .error "KeyError"

/-- `__setitem__` -/
def Lat.set (c : Lat) (s : Site) (v : Option Obj) : Except String Lat :=
  match alGet s c.patch with
  | some _ => .ok { c with patch := alSet s v c.patch }
  | none =>
    match c.geom.site2index s with
    | .error e => .error e
    | .ok i => .ok { c with data := alSet i v c.data }

/-- loop of `apply_patch`: `_site_data[site2index(site)] = _patch.pop(site)` in insertion order -/
def applyPatchGo (G : Geom) : List (Site × Option Obj) → List (Index × Option Obj) → Except String (List (Index × Option Obj))
  | [], data => .ok data
  | (s, v) :: rest, data =>
    match G.site2index s with
    | .error e => .error e
    | .ok i => applyPatchGo G rest (alSet i v data)

/-- `apply_patch` -/
def Lat.applyPatch (c : Lat) : Except String Lat :=
  match applyPatchGo c.geom c.patch c.data with
  | .error e => .error e
  | .ok data => .ok { c with data := data, patch := [] }

/-- one iteration of `move_to_patch`: `_patch[site] = self[site].shallow_copy()`; `copy` models `shallow_copy()`;
an unset (`None`) entry raises AttributeError -/
def Lat.moveOne (copy : Obj → Obj) (c : Lat) (s : Site) : Except String Lat :=
  match c.get s with
  | .error e => .error e
  | .ok none => .error "AttributeError"
  | .ok (some o) => .ok { c with patch := alSet s (some (copy o)) c.patch }

/-- `move_to_patch(sites)` for a list of sites (a single site is the one-element list) -/
def Lat.moveToPatch (copy : Obj → Obj) (c : Lat) : List Site → Except String Lat
  | [] => .ok c
  | s :: rest =>
    match c.moveOne copy s with
    | .error e => .error e
    | .ok c' => c'.moveToPatch copy rest

/-- objects given to the constructor -/
inductive InitObjs
  | single (o : Obj)
  | dict (kvs : List (Site × Obj))
  | seq (rows : List (List Obj))

def seqToDict (rows : List (List Obj)) : List (Site × Obj) :=
  (rows.zipIdx).flatMap fun (row, nx) => (row.zipIdx).map fun (o, ny) => (((nx : Int), (ny : Int)), o)

/-- `Lattice(geometry, objects)`: errors are the YastnError kinds of the constructor -/
def Lat.init (G : Geom) (objs : InitObjs) : Except String Lat := do
  let c0 ← Lat.new G
  let kvs := match objs with
    | .single o => G.sites.map fun s => (s, o)
    | .dict kvs => kvs
    | .seq rows => seqToDict rows
  let mut c := c0
  for (s, o) in kvs do
    match c.get s with
    | .error _ => throw "outside"
    | .ok none =>
      match c.set s (some o) with
      | .error _ => throw "outside"
      | .ok c' => c := c'
    | .ok (some o') => if o' ≠ o then throw "non-unique"
  if c.data.any (fun kv => kv.2.isNone) then throw "not-all-assigned"
  pure c

end YModel.Geo
