/-!
# M13 — `truncation_mask` (yastn/tensor/linalg.py:637-735), `truncate_multiplets = False`

Executable model over exact arithmetic.

* A spectrum is a list of sectors `(t, values)`; `t` is the charge of the sector (what the real
  code uses as dictionary key, `t[:nsym]`), `values` the entries of the diagonal block in storage
  order.  Values are **integers**: the harness sends dyadic rationals scaled by a common power of
  two.  Every comparison in the algorithm is homogeneous (`v > tol * max`), so the common positive
  scale does not influence the mask.
* A tolerance is a non-negative rational `num/den` (`den > 0`); `v > tol*max` is evaluated as
  `num * max < v * den` – exact.
* `D_block` / `tol_block` are a constant or a per-sector dictionary.  Sectors missing from a
  dictionary get `D_block = 0` resp. `tol_block = 0` (`D_null`, `tol_null` in the source).
  `none` stands for `float('inf')`.
* Stage 1 (per block): `D_tol = #{v > tol_block·max|block|}`, `D_bl = min(D_block[t], D_tol)`, the
  `D_bl` largest entries of the block stay `True`.
  Stage 2 (global): `temp = S * mask` (masked entries become `0`), `D_tol = #{temp > tol·max|temp|}`,
  `D_total = min(D_total, D_tol)`, the `D_total` largest entries of `temp` keep their block-stage
  value, every other entry becomes `False`.
* The three source branches `0 < D_bl < Dp` (argsort), `D_bl == 0` (all `False`) and the implicit
  `D_bl == Dp` (untouched) are the cases `0 < D < n`, `D = 0`, `D ≥ n` of the single selection
  primitive `topSel` below (lemmas `topSel_zero`, `topSel_all` in `YProofs/Lemmas/TruncLemmas`).
* Ties: the real code uses `np.argsort` (unstable); the property leaves ties free.  The model
  breaks ties by storage order: among equal values the EARLIER entry is kept (selection of the
  first maximum, repeated), i.e. a stable descending sort.

`ValidA` is the specification (limits respected, exact count, maximality) as a decidable
predicate on an annotated spectrum; `judge` evaluates it on a mask produced by the real code.
-/
namespace YModel.Trunc

abbrev Sector := List Int

/-- non-negative rational `num/den` -/
structure Tol where
  num : Nat
  den : Nat
deriving Repr, DecidableEq

inductive PerSector (α : Type) where
  | const (a : α)
  | dict (d : List (Sector × α))

/-- `D_block[t] if (isinstance(D_block, dict) and t in D_block) else D_null` -/
def PerSector.get {α : Type} (dflt : α) : PerSector α → Sector → α
  | .const a, _ => a
  | .dict d, t => (d.lookup t).getD dflt

structure Limits where
  tol : Tol
  tolBlock : PerSector Tol
  /-- `none` = `float('inf')` -/
  dBlock : PerSector (Option Nat)
  dTotal : Option Nat

/-- dictionary default of `tol_block`: `tol_null = 0.` -/
def tolNull : Tol := ⟨0, 1⟩
/-- dictionary default of `D_block`: `D_null = 0` -/
def dNull : Option Nat := some 0

def Limits.tolB (L : Limits) (t : Sector) : Tol := L.tolBlock.get tolNull t
def Limits.dB (L : Limits) (t : Sector) : Option Nat := L.dBlock.get dNull t

/-- `min(D, n)` with `D = none` meaning infinity -/
def capBy : Option Nat → Nat → Nat
  | none, n => n
  | some d, n => min d n

/-- `backend.max_abs` (0 for empty data) -/
def maxAbs : List Int → Int
  | [] => 0
  | v :: r => max (v.natAbs : Int) (maxAbs r)

/-- `v > tol * mx` -/
def above (τ : Tol) (mx v : Int) : Bool := decide ((τ.num : Int) * mx < v * (τ.den : Int))

/-! ## selection of the `D` largest entries -/
section sel
variable {α : Type} (key : α → Int)

/-- largest key among the unmarked entries -/
def maxUnmarked : List (α × Bool) → Option Int
  | [] => none
  | (a, b) :: r =>
    if b then maxUnmarked r
    else match maxUnmarked r with
      | none => some (key a)
      | some m => some (if m ≤ key a then key a else m)

/-- mark the first unmarked entry whose key is `m` -/
def markFirst (m : Int) : List (α × Bool) → List (α × Bool)
  | [] => []
  | (a, b) :: r => if b = false ∧ key a = m then (a, true) :: r else (a, b) :: markFirst m r

/-- mark the first largest unmarked entry (nothing to do when everything is marked) -/
def pick (ps : List (α × Bool)) : List (α × Bool) :=
  match maxUnmarked key ps with
  | none => ps
  | some m => markFirst key m ps

def picks : Nat → List (α × Bool) → List (α × Bool)
  | 0, ps => ps
  | k + 1, ps => picks k (pick key ps)

/-- entries of `xs` paired with `true` for the `D` largest keys (all, when `D ≥ length`) -/
def topSel (D : Nat) (xs : List α) : List (α × Bool) :=
  picks key D (xs.map (fun a => (a, false)))

end sel

/-! ## the two stages -/

/-- stage 1 on one block: `(value, survives the block stage)` -/
def blockStage (L : Limits) (t : Sector) (vs : List Int) : List (Int × Bool) :=
  let mx := maxAbs vs
  let dtol := vs.countP (above (L.tolB t) mx)
  topSel id (capBy (L.dB t) dtol) vs

/-- `temp_data = S._data * Smask.data` -/
def temp (c : Int × Bool) : Int := if c.2 then c.1 else 0

/-- stage 2 on the flat block-masked data: `((value, block bit), selected globally)` -/
def globalStage (L : Limits) (cells : List (Int × Bool)) : List ((Int × Bool) × Bool) :=
  let tv := cells.map temp
  let mx := maxAbs tv
  let dtol := tv.countP (above L.tol mx)
  topSel temp (capBy L.dTotal dtol) cells

/-- one entry of the spectrum annotated with both decisions -/
structure Cell where
  val : Int
  /-- survives the block stage -/
  blk : Bool
  /-- final mask bit -/
  keep : Bool
deriving Repr, DecidableEq

/-- cut a flat list into consecutive pieces of the given lengths -/
def chunks {α : Type} : List Nat → List α → List (List α)
  | [], _ => []
  | n :: ns, xs => xs.take n :: chunks ns (xs.drop n)

abbrev Spectrum := List (Sector × List Int)
abbrev Annotated := List (Sector × List Cell)

/-- final bit: `Smask._data[inds[:-D_total]] = False` only ever clears bits of the block mask -/
def toCell (x : (Int × Bool) × Bool) : Cell := ⟨x.1.1, x.1.2, x.1.2 && x.2⟩

def blockMasks (L : Limits) (S : Spectrum) : List (List (Int × Bool)) :=
  S.map (fun s => blockStage L s.1 s.2)

/-- the model of `truncation_mask`: every entry annotated with block-stage and final decision -/
def truncate (L : Limits) (S : Spectrum) : Annotated :=
  let B := blockMasks L S
  let G := globalStage L B.flatten
  let N := chunks (B.map List.length) (G.map toCell)
  List.zipWith (fun s cs => (s.1, cs)) S N

/-- the mask, shaped like the spectrum -/
def truncMask (L : Limits) (S : Spectrum) : List (List Bool) :=
  (truncate L S).map (fun s => s.2.map Cell.keep)

/-! ## specification -/

def Annotated.cells (A : Annotated) : List Cell := (A.map (·.2)).flatten
def Annotated.spectrum (A : Annotated) : Spectrum := A.map (fun s => (s.1, s.2.map Cell.val))
def Annotated.mask (A : Annotated) : List (List Bool) := A.map (fun s => s.2.map Cell.keep)
def Annotated.survivors (A : Annotated) : List Int := (A.cells.filter Cell.blk).map Cell.val

/-- block-stage specification for one sector -/
structure ValidBlock (L : Limits) (t : Sector) (cs : List Cell) : Prop where
  /-- exactly `min(D_block[t], #{v > tol_block·max})` entries survive -/
  count : cs.countP Cell.blk
      = capBy (L.dB t) ((cs.map Cell.val).countP (above (L.tolB t) (maxAbs (cs.map Cell.val))))
  /-- every survivor is strictly above the block threshold -/
  tol : ∀ c ∈ cs, c.blk = true → above (L.tolB t) (maxAbs (cs.map Cell.val)) c.val = true
  /-- no entry discarded in the block exceeds a survivor of the block -/
  max : ∀ c ∈ cs, ∀ d ∈ cs, c.blk = true → d.blk = false → d.val ≤ c.val

/-- the specification of an annotated spectrum (annotation = block survivors + final mask) -/
structure ValidA (L : Limits) (A : Annotated) : Prop where
  /-- the final mask only keeps block survivors -/
  sub : ∀ c ∈ A.cells, c.keep = true → c.blk = true
  block : ∀ s ∈ A, ValidBlock L s.1 s.2
  /-- exactly `min(D_total, #{survivors > tol·max(survivors)})` entries are kept -/
  count : A.cells.countP Cell.keep
      = capBy L.dTotal (A.survivors.countP (above L.tol (maxAbs A.survivors)))
  /-- every kept entry is strictly above the global threshold -/
  tol : ∀ c ∈ A.cells, c.keep = true → above L.tol (maxAbs A.survivors) c.val = true
  /-- no block survivor that was discarded exceeds a kept entry -/
  max : ∀ c ∈ A.cells, ∀ d ∈ A.cells, c.keep = true → d.blk = true → d.keep = false → d.val ≤ c.val

/-- A mask `M` (shaped like `S`) is valid when some block-stage annotation makes it so. -/
def annotate (S : Spectrum) (B M : List (List Bool)) : Annotated :=
  List.zipWith (fun s bm => (s.1, List.zipWith (fun v (x : Bool × Bool) => Cell.mk v x.1 x.2) s.2 (bm.1.zip bm.2)))
    S (B.zip M)

def sameShape {α β : Type} (X : List (List α)) (Y : List (List β)) : Prop :=
  X.map List.length = Y.map List.length

/-- **the property as a predicate on a mask**: some choice of block survivors `B` explains `M` -/
def Valid (L : Limits) (S : Spectrum) (M : List (List Bool)) : Prop :=
  sameShape (S.map (·.2)) M ∧ ∃ B, sameShape M B ∧ ValidA L (annotate S B M)

/-! ### decidable form -/

def validBlockB (L : Limits) (t : Sector) (cs : List Cell) : Bool :=
  let vs := cs.map Cell.val
  let mx := maxAbs vs
  (cs.countP Cell.blk == capBy (L.dB t) (vs.countP (above (L.tolB t) mx)))
  && cs.all (fun c => !c.blk || above (L.tolB t) mx c.val)
  && cs.all (fun c => cs.all (fun d => !c.blk || d.blk || decide (d.val ≤ c.val)))

def validAB (L : Limits) (A : Annotated) : Bool :=
  let cs := A.cells
  let sv := A.survivors
  let mx := maxAbs sv
  cs.all (fun c => !c.keep || c.blk)
  && A.all (fun s => validBlockB L s.1 s.2)
  && (cs.countP Cell.keep == capBy L.dTotal (sv.countP (above L.tol mx)))
  && cs.all (fun c => !c.keep || above L.tol mx c.val)
  && cs.all (fun c => cs.all (fun d => !c.keep || !d.blk || d.keep || decide (d.val ≤ c.val)))

/-- greedy block-stage witness for a given final mask: start from the kept entries of the sector
and add largest remaining entries until the block count is reached -/
def witnessBlock (L : Limits) (t : Sector) (vs : List Int) (m : List Bool) : List Bool :=
  let mx := maxAbs vs
  let k := capBy (L.dB t) (vs.countP (above (L.tolB t) mx))
  (picks id (k - m.countP id) (vs.zip m)).map (·.2)

def witness (L : Limits) (S : Spectrum) (M : List (List Bool)) : List (List Bool) :=
  List.zipWith (fun s m => witnessBlock L s.1 s.2 m) S M

def shapeB {α β : Type} (X : List (List α)) (Y : List (List β)) : Bool :=
  X.map List.length == Y.map List.length

/-- evaluate the specification on a mask produced elsewhere (the real code) -/
def judge (L : Limits) (S : Spectrum) (M : List (List Bool)) : Bool :=
  shapeB (S.map (·.2)) M && shapeB M (witness L S M) && validAB L (annotate S (witness L S M) M)

end YModel.Trunc
