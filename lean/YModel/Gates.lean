/-!
# M11 — PEPS gates: integer structure matrices and the closed forms of `yastn/tn/fpeps/gates.py`

Executable model (core Lean only).  A gate of `gates.py` that is written as a *closed form* is a finite sum
`Σ_k f_k(arg_k(params)) · M_k` of fixed **integer** matrices `M_k` (in the Jordan–Wigner convention, the
dense matrices the real `fkron` produces) with scalar coefficients `f_k ∈ {1, cosh, cosh − 1, sinh, −sinh,
exp − 1}` evaluated at an arithmetic expression of the gate parameters.  This file fixes

* the integer matrices (`K`, `NH`, `XX`, `X`, `nOcc`, the three Coulomb projectors …) together with a
  list-based matrix algebra in which their algebraic relations are `decide`-able,
* the closed forms *as data* (`ClosedForm`): which matrix carries which coefficient function of which
  argument expression — the same data is evaluated in `Float` by the driver (`Drv/C11.lean`, correspondence
  with the real code) and over `ℝ`/`ℂ` by the theorems of `YProofs/Props/C11.lean`.

Basis conventions (dense index order of the real operator classes):
* one spinless-fermion site / one spin-1/2: `|0⟩, |1⟩` resp. `|↑⟩, |↓⟩`;
* two spinless sites: `|n₁ n₂⟩ = |00⟩, |01⟩, |10⟩, |11⟩`, site 1 first in the fermionic order
  (`c₁ = a ⊗ 1`, `c₂ = Z ⊗ a`);
* one spinful site: `|n↑ n↓⟩ = |00⟩, |01⟩, |10⟩, |11⟩`.
-/
namespace YModel.Gates

/-- integer matrices as lists of rows -/
abbrev IMat := List (List Int)

def entry (A : IMat) (i j : Nat) : Int := (A.getD i []).getD j 0

def ident (n : Nat) : IMat :=
  (List.range n).map fun i => (List.range n).map fun j => if i = j then 1 else 0

def zeros (n m : Nat) : IMat := List.replicate n (List.replicate m 0)

def isum (l : List Int) : Int := l.foldr (· + ·) 0

def dot (r c : List Int) : Int := isum (List.zipWith (· * ·) r c)

def ncols (B : IMat) : Nat := (B.headD []).length

def col (B : IMat) (j : Nat) : List Int := B.map (·.getD j 0)

/-- matrix product -/
def mmul (A B : IMat) : IMat :=
  A.map fun r => (List.range (ncols B)).map fun j => dot r (col B j)

def madd (A B : IMat) : IMat := List.zipWith (List.zipWith (· + ·)) A B
def msub (A B : IMat) : IMat := List.zipWith (List.zipWith (· - ·)) A B
def mscale (k : Int) (A : IMat) : IMat := A.map (·.map (k * ·))
def mtranspose (A : IMat) : IMat := (List.range (ncols A)).map (col A)

/-- Kronecker product, row index `(i, k) ↦ i * rows B + k` -/
def kron (A B : IMat) : IMat :=
  A.flatMap fun ra => B.map fun rb => ra.flatMap fun x => rb.map (x * ·)

def isSquare (n : Nat) (A : IMat) : Bool := A.length == n && A.all (·.length == n)

/-! ## one-site building blocks -/

/-- annihilation operator in the basis `|0⟩, |1⟩` -/
def a : IMat := [[0, 1], [0, 0]]
def adag : IMat := [[0, 0], [1, 0]]
/-- fermionic parity (Jordan–Wigner string) -/
def Z : IMat := [[1, 0], [0, -1]]
def I2 : IMat := [[1, 0], [0, 1]]
/-- Pauli X -/
def X : IMat := [[0, 1], [1, 0]]
/-- occupation `n = a† a` -/
def nOcc : IMat := [[0, 0], [0, 1]]
/-- hole `h = a a†` -/
def hOcc : IMat := [[1, 0], [0, 0]]

/-! ## two spinless-fermion sites (4×4) -/

def I4 : IMat := [[1, 0, 0, 0], [0, 1, 0, 0], [0, 0, 1, 0], [0, 0, 0, 1]]
/-- `c₁ = a ⊗ 1`, `c₂ = Z ⊗ a` (Jordan–Wigner) -/
def c1 : IMat := kron a I2
def c2 : IMat := kron Z a
def c1dag : IMat := kron adag I2
def c2dag : IMat := kron Z adag
/-- hopping `K = c₁† c₂ + c₂† c₁` -/
def K : IMat := [[0, 0, 0, 0], [0, 0, 1, 0], [0, 1, 0, 0], [0, 0, 0, 0]]
/-- `n₁ h₂ + h₁ n₂` -/
def NH : IMat := [[0, 0, 0, 0], [0, 1, 0, 0], [0, 0, 1, 0], [0, 0, 0, 0]]
/-- Ising coupling `X ⊗ X` -/
def XX : IMat := [[0, 0, 0, 1], [0, 0, 1, 0], [0, 1, 0, 0], [1, 0, 0, 0]]

/-! ## one spinful site (4×4, basis `|n↑ n↓⟩`) -/

def nUp : IMat := kron nOcc I2
def nDn : IMat := kron I2 nOcc
def nUpDn : IMat := mmul nUp nDn
/-- `n↓ − n↑n↓` : projector on `|01⟩` -/
def Pdn : IMat := [[0, 0, 0, 0], [0, 1, 0, 0], [0, 0, 0, 0], [0, 0, 0, 0]]
/-- `n↑ − n↑n↓` : projector on `|10⟩` -/
def Pup : IMat := [[0, 0, 0, 0], [0, 0, 0, 0], [0, 0, 1, 0], [0, 0, 0, 0]]
/-- `n↑n↓` : projector on `|11⟩` -/
def Pud : IMat := [[0, 0, 0, 0], [0, 0, 0, 0], [0, 0, 0, 0], [0, 0, 0, 1]]
/-- the complementary projector on `|00⟩` -/
def P00 : IMat := [[1, 0, 0, 0], [0, 0, 0, 0], [0, 0, 0, 0], [0, 0, 0, 0]]

/-! ## closed forms as data -/

/-- scalar coefficient functions used by `gates.py` -/
inductive Fn where
  | one      -- 1
  | cosh     -- np.cosh(x)
  | coshm1   -- np.cosh(x) - 1
  | sinh     -- np.sinh(x)
  | negsinh  -- - np.sinh(x)
  | expm1    -- np.exp(x) - 1
  deriving Repr, DecidableEq, Inhabited

def Fn.name : Fn → String
  | .one => "one" | .cosh => "cosh" | .coshm1 => "cosh-1" | .sinh => "sinh" | .negsinh => "-sinh"
  | .expm1 => "exp-1"

/-- argument expressions in the gate parameters `p 0, p 1, …` -/
inductive AExpr where
  | p (i : Nat)
  | mul (x y : AExpr)
  | add (x y : AExpr)
  | half (x : AExpr)
  deriving Repr, Inhabited

structure Term where
  fn : Fn
  arg : AExpr
  mat : IMat
  deriving Repr, Inhabited

structure ClosedForm where
  name : String
  /-- names of the parameters, in the order of `AExpr.p` -/
  params : List String
  dim : Nat
  terms : List Term
  /-- the Hamiltonian `H` with `G = exp(−step·H)` as `Σ coefficient-expression · matrix`; a coefficient is a
  signed parameter product, stored as `(sign, expression)` -/
  ham : List (Int × AExpr × IMat)
  /-- index of `step` among the parameters -/
  step : Nat
  deriving Repr, Inhabited

open AExpr in
/-- `gate_nn_hopping(t, step, I, c, cdag)`: `II + (cosh(t·step) − 1)(nh + hn) + sinh(t·step)·cc`,
`H = −t·K` -/
def hopping : ClosedForm :=
  { name := "hopping", params := ["t", "step"], dim := 4,
    terms := [⟨.one, mul (p 0) (p 1), I4⟩, ⟨.coshm1, mul (p 0) (p 1), NH⟩, ⟨.sinh, mul (p 0) (p 1), K⟩],
    ham := [(-1, p 0, K)], step := 1 }

open AExpr in
/-- `gate_nn_Ising(J, step, I, X)`: `cosh(J·step)·II − sinh(J·step)·XX`, `H = J·XX` -/
def ising : ClosedForm :=
  { name := "ising", params := ["J", "step"], dim := 4,
    terms := [⟨.cosh, mul (p 0) (p 1), I4⟩, ⟨.negsinh, mul (p 0) (p 1), XX⟩],
    ham := [(1, p 0, XX)], step := 1 }

open AExpr in
/-- `gate_local_field(h, step, I, X)`: `cosh(h·step)·I + sinh(h·step)·X`, `H = −h·X` -/
def field : ClosedForm :=
  { name := "field", params := ["h", "step"], dim := 2,
    terms := [⟨.cosh, mul (p 0) (p 1), I2⟩, ⟨.sinh, mul (p 0) (p 1), X⟩],
    ham := [(-1, p 0, X)], step := 1 }

open AExpr in
/-- `gate_local_occupation(mu, step, I, n)`: `I + n·(exp(mu·step) − 1)`, `H = −mu·n` -/
def occupation : ClosedForm :=
  { name := "occupation", params := ["mu", "step"], dim := 2,
    terms := [⟨.one, mul (p 0) (p 1), I2⟩, ⟨.expm1, mul (p 0) (p 1), nOcc⟩],
    ham := [(-1, p 0, nOcc)], step := 1 }

open AExpr in
/-- `gate_local_Coulomb(mu_up, mu_dn, U, step, I, n_up, n_dn)`:
`I + (n↓ − n↑n↓)(e^{step(mu_dn + U/2)} − 1) + (n↑ − n↑n↓)(e^{step(mu_up + U/2)} − 1) + n↑n↓(e^{step(mu_up + mu_dn)} − 1)`.
`H = U(n↑ − ½)(n↓ − ½) − mu_up n↑ − mu_dn n↓ − U/4 = U n↑n↓ − (mu_up + U/2) n↑ − (mu_dn + U/2) n↓`
(the constant `U/4` of the docstring is dropped by the source). -/
def coulomb : ClosedForm :=
  { name := "coulomb", params := ["mu_up", "mu_dn", "U", "step"], dim := 4,
    terms := [⟨.one, p 3, I4⟩,
              ⟨.expm1, mul (p 3) (add (p 1) (half (p 2))), Pdn⟩,
              ⟨.expm1, mul (p 3) (add (p 0) (half (p 2))), Pup⟩,
              ⟨.expm1, mul (p 3) (add (p 0) (p 1)), Pud⟩],
    ham := [(1, p 2, nUpDn), (-1, add (p 0) (half (p 2)), nUp), (-1, add (p 1) (half (p 2)), nDn)],
    step := 3 }

def allForms : List ClosedForm := [hopping, ising, field, occupation, coulomb]

/-! ## `Float` evaluation (driver only; complex numbers as pairs) -/

structure C where
  re : Float
  im : Float
  deriving Inhabited

namespace C
def ofFloat (x : Float) : C := ⟨x, 0⟩
def add (x y : C) : C := ⟨x.re + y.re, x.im + y.im⟩
def sub (x y : C) : C := ⟨x.re - y.re, x.im - y.im⟩
def neg (x : C) : C := ⟨-x.re, -x.im⟩
def mul (x y : C) : C := ⟨x.re * y.re - x.im * y.im, x.re * y.im + x.im * y.re⟩
def half (x : C) : C := ⟨x.re / 2, x.im / 2⟩
def cexp (x : C) : C := ⟨Float.exp x.re * Float.cos x.im, Float.exp x.re * Float.sin x.im⟩
def ccosh (x : C) : C := ⟨Float.cosh x.re * Float.cos x.im, Float.sinh x.re * Float.sin x.im⟩
def csinh (x : C) : C := ⟨Float.sinh x.re * Float.cos x.im, Float.cosh x.re * Float.sin x.im⟩
def scaleInt (k : Int) (x : C) : C := ⟨Float.ofInt k * x.re, Float.ofInt k * x.im⟩
end C

def AExpr.evalC (ps : List C) : AExpr → C
  | .p i => ps.getD i ⟨0, 0⟩
  | .mul x y => C.mul (x.evalC ps) (y.evalC ps)
  | .add x y => C.add (x.evalC ps) (y.evalC ps)
  | .half x => C.half (x.evalC ps)

def Fn.evalC : Fn → C → C
  | .one, _ => ⟨1, 0⟩
  | .cosh, x => C.ccosh x
  | .coshm1, x => C.sub (C.ccosh x) ⟨1, 0⟩
  | .sinh, x => C.csinh x
  | .negsinh, x => C.neg (C.csinh x)
  | .expm1, x => C.sub (C.cexp x) ⟨1, 0⟩

/-- coefficient of each term at complex parameter values -/
def ClosedForm.coefs (cf : ClosedForm) (ps : List C) : List C :=
  cf.terms.map fun t => t.fn.evalC (t.arg.evalC ps)

/-- dense value of the closed form, `dim × dim` complex entries -/
def ClosedForm.evalC (cf : ClosedForm) (ps : List C) : List (List C) :=
  let cs := cf.coefs ps
  (List.range cf.dim).map fun i => (List.range cf.dim).map fun j =>
    (List.zip cs cf.terms).foldl (fun acc ct => C.add acc (C.scaleInt (entry ct.2.mat i j) ct.1)) ⟨0, 0⟩

/-- dense Hamiltonian at complex parameter values -/
def ClosedForm.hamC (cf : ClosedForm) (ps : List C) : List (List C) :=
  (List.range cf.dim).map fun i => (List.range cf.dim).map fun j =>
    cf.ham.foldl (fun acc t => C.add acc (C.scaleInt (t.1 * entry t.2.2 i j) (t.2.1.evalC ps))) ⟨0, 0⟩

end YModel.Gates
