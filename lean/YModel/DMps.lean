/-!
# M10 `DMps` — dense, symmetry-agnostic model of MPS/MPO algebra (`yastn/tn/mps`)

A site tensor is an index function `a s t l r` (ket index `s < dk`, bra index `t < db`, left/right virtual
indices `l < Dl`, `r < Dr`); an MPS is an MPO whose bra dimension is `1`.  The state represented by a chain is

  `amp ψ c = factor · (e₀ · A₀[c₀] · A₁[c₁] ⋯ A_{N-1}[c_{N-1}])₀`

(`to_tensor`: contract left to right, remove the two dimension-one boundary legs, multiply by `factor`).
All algebra of `_mps_obc.py` / `_mps_parent.py` / `_env.py` is defined on this representation:
block direct sums for `add`, Kronecker-fused bonds for `multiply`, the modulus/phase split of `__mul__`,
`conj`, `transpose`, `conjugate_transpose`, `reverse_sites`, product states, `Env2` / `Env3` recursions.

The scalar type `K` is generic (only `Zero/One/Add/Mul` …); the driver instantiates it with exact Gaussian
rationals `GQ`, the theorems (YProofs/Props/C06.lean) hold over any commutative ring.  No Mathlib.
-/
namespace YModel.DMps

/-! ### exact Gaussian rationals -/

/-- `(re + i·im)/den`, `den > 0`, kept in lowest terms -/
structure GQ where
  re : Int
  im : Int
  den : Nat
deriving Repr, DecidableEq, Inhabited

namespace GQ

def mk' (re im : Int) (den : Nat) : GQ :=
  if den = 0 then ⟨0, 0, 1⟩
  else if den = 1 then ⟨re, im, 1⟩
  else
    let g := Nat.gcd (Nat.gcd re.natAbs im.natAbs) den
    if g ≤ 1 then ⟨re, im, den⟩ else ⟨re / (g : Int), im / (g : Int), den / g⟩

def ofInt (n : Int) : GQ := ⟨n, 0, 1⟩

instance : Zero GQ := ⟨⟨0, 0, 1⟩⟩
instance : One GQ := ⟨⟨1, 0, 1⟩⟩

def add (a b : GQ) : GQ :=
  if a.den = b.den then mk' (a.re + b.re) (a.im + b.im) a.den
  else mk' (a.re * b.den + b.re * a.den) (a.im * b.den + b.im * a.den) (a.den * b.den)

def mul (a b : GQ) : GQ :=
  mk' (a.re * b.re - a.im * b.im) (a.re * b.im + a.im * b.re) (a.den * b.den)

def neg (a : GQ) : GQ := ⟨-a.re, -a.im, a.den⟩

/-- `1/a`; `1/0 = 0` -/
def inv (a : GQ) : GQ :=
  let n := a.re * a.re + a.im * a.im
  if n = 0 then ⟨0, 0, 1⟩ else mk' (a.re * a.den) (-(a.im * a.den)) n.natAbs

instance : Add GQ := ⟨add⟩
instance : Mul GQ := ⟨mul⟩
instance : Neg GQ := ⟨neg⟩
instance : Sub GQ := ⟨fun a b => add a (neg b)⟩
instance : Div GQ := ⟨fun a b => mul a (inv b)⟩

def conj (a : GQ) : GQ := ⟨a.re, -a.im, a.den⟩

end GQ

/-- complex conjugation of the scalar type -/
class HasConj (K : Type) where
  conj : K → K

instance : HasConj GQ := ⟨GQ.conj⟩

section generic
variable {K : Type}

/-! ### finite sums and tabulation -/

/-- `Σ_{i<n} f i` -/
def sumN [Zero K] [Add K] : Nat → (Nat → K) → K
  | 0, _ => 0
  | n + 1, f => sumN n f + f n

/-- materialised vectors / matrices (arrays, so that the recursions below share their intermediate results) -/
abbrev Vec (K : Type) := Array K
abbrev Mat (K : Type) := Array (Array K)

/-- `(mkVec n f).get i = f i` for `i < n`, `0` outside -/
def mkVec (n : Nat) (f : Nat → K) : Vec K := Array.ofFn (n := n) (fun i => f i.val)
def Vec.get [Zero K] (v : Vec K) (i : Nat) : K := v.getD i 0

def mkMat (m n : Nat) (f : Nat → Nat → K) : Mat K := mkVec m (fun i => mkVec n (f i))
def Mat.get [Zero K] (E : Mat K) (i j : Nat) : K := Vec.get (E.getD i #[]) j

/-- Kronecker delta -/
def delta [Zero K] [One K] (i j : Nat) : K := if i = j then 1 else 0

/-! ### site tensors and chains -/

structure Site (K : Type) where
  dk : Nat
  db : Nat
  Dl : Nat
  Dr : Nat
  a : Nat → Nat → Nat → Nat → K

/-- MPS (`nrPhys = 1`, every `db = 1`) or MPO (`nrPhys = 2`) with open boundaries; `periodic` marks `MpoPBC` -/
structure State (K : Type) where
  nrPhys : Nat
  sites : List (Site K)
  factor : K
  periodic : Bool := false

abbrev Config := List (Nat × Nat)

variable [Zero K] [One K] [Add K] [Mul K]

/-- row vector times the matrix `A[s,t]` -/
def stepV (v : Vec K) (A : Site K) (s t : Nat) : Vec K :=
  mkVec A.Dr (fun r => sumN A.Dl (fun l => v.get l * A.a s t l r))

/-- propagate a boundary vector through the chain along the configuration `c` (missing entries read as `(0,0)`) -/
def run : List (Site K) → Config → Vec K → Vec K
  | [], _, v => v
  | A :: As, c, v => run As c.tail (stepV v A (c.headD (0, 0)).1 (c.headD (0, 0)).2)

/-- unit vector `e_α` of dimension `D` -/
def unitV (D α : Nat) : Vec K := mkVec D (fun i => delta i α)

/-- coefficient without `factor` (open boundaries) -/
def coef (ψ : State K) (c : Config) : K := (run ψ.sites c (unitV 1 0)).get 0

/-- first left bond dimension (the traced bond of a periodic MPO) -/
def firstDl (ψ : State K) : Nat := match ψ.sites with | [] => 1 | A :: _ => A.Dl

/-- coefficient of a periodic MPO: trace closure over the boundary bond -/
def coefPbc (ψ : State K) (c : Config) : K :=
  sumN (firstDl ψ) (fun α => (run ψ.sites c (unitV (firstDl ψ) α)).get α)

/-- the represented amplitude: `to_tensor()[c]` -/
def amp (ψ : State K) (c : Config) : K :=
  ψ.factor * (if ψ.periodic then coefPbc ψ c else coef ψ c)

def dims (ψ : State K) : List (Nat × Nat) := ψ.sites.map (fun A => (A.dk, A.db))

/-- all configurations in row-major order (the index order of `to_tensor().to_numpy().reshape(-1)`) -/
def configs : List (Nat × Nat) → List Config
  | [] => [[]]
  | (dk, db) :: ds =>
    (List.range dk).flatMap (fun s => (List.range db).flatMap (fun t => (configs ds).map (fun c => (s, t) :: c)))

/-- specification of the dense vector -/
def toVecSpec (ψ : State K) : List K := (configs (dims ψ)).map (amp ψ)

/-- dense vector with shared prefixes (what the driver evaluates; `toVec_eq_spec` in the proofs) -/
def vecFrom : List (Site K) → Vec K → (fin : Vec K → K) → List K
  | [], v, fin => [fin v]
  | A :: As, v, fin =>
    (List.range A.dk).flatMap (fun s => (List.range A.db).flatMap (fun t => vecFrom As (stepV v A s t) fin))

def addV : List K → List K → List K
  | x :: xs, y :: ys => (x + y) :: addV xs ys
  | xs, [] => xs
  | [], ys => ys

def toVec (ψ : State K) : List K :=
  if ψ.periodic then
    ((List.range (firstDl ψ)).foldl
      (fun acc α => addV acc (vecFrom ψ.sites (unitV (firstDl ψ) α) (fun v => v.get α))) []).map (ψ.factor * ·)
  else (vecFrom ψ.sites (unitV 1 0) (fun v => v.get 0)).map (ψ.factor * ·)

/-- dense matrix of an MPO: rows = ket configurations, columns = bra configurations -/
def toMat (ψ : State K) : List (List K) :=
  (configs (ψ.sites.map (fun A => (A.dk, 1)))).map (fun σ =>
    (configs (ψ.sites.map (fun A => (A.db, 1)))).map (fun τ =>
      amp ψ (List.zipWith (fun (x y : Nat × Nat) => (x.1, y.1)) σ τ)))

/-! ### scalar multiplication (`_MpsMpoParent.__mul__`) -/

def scaleSite (c : K) (A : Site K) : Site K := { A with a := fun s t l r => c * A.a s t l r }

/-- `ψ * c` where `am = |c|` is supplied (the modulus is not algebraic): modulus into `factor`, phase `c/am`
into the first tensor; `am = 0` only touches `factor`. -/
def smul [Div K] [DecidableEq K] (c am : K) (ψ : State K) : State K :=
  if am = 0 then { ψ with factor := am * ψ.factor }
  else
    { ψ with factor := am * ψ.factor,
             sites := match ψ.sites with
               | [] => []
               | A :: As => scaleSite (c / am) A :: As }

/-! ### addition (`mps.add`): direct sums via `block()` -/

/-- first site: blocks side by side along the right virtual leg (`common_legs=(0,1[,3])`) -/
def hcat : List (Site K) → Nat → Nat → Nat → Nat → K
  | [], _, _, _, _ => 0
  | A :: As, s, t, l, r => if r < A.Dr then A.a s t l r else hcat As s t l (r - A.Dr)

/-- last site: blocks stacked along the left virtual leg (`common_legs=(1,2[,3])`) -/
def vcat : List (Site K) → Nat → Nat → Nat → Nat → K
  | [], _, _, _, _ => 0
  | A :: As, s, t, l, r => if l < A.Dl then A.a s t l r else vcat As s t (l - A.Dl) r

/-- middle sites: block diagonal `(j,j)` (`common_legs=(1[,3])`) -/
def bdiag : List (Site K) → Nat → Nat → Nat → Nat → K
  | [], _, _, _, _ => 0
  | A :: As, s, t, l, r =>
    if l < A.Dl then (if r < A.Dr then A.a s t l r else 0)
    else (if r < A.Dr then 0 else bdiag As s t (l - A.Dl) (r - A.Dr))

/-- `N = 1`: plain weighted sum of tensors (`tensor_add`) -/
def sumA : List (Site K) → Nat → Nat → Nat → Nat → K
  | [], _, _, _, _ => 0
  | A :: As, s, t, l, r => A.a s t l r + sumA As s t l r

def totDl (As : List (Site K)) : Nat := (As.map (·.Dl)).sum
def totDr (As : List (Site K)) : Nat := (As.map (·.Dr)).sum

def headSite (As : List (Site K)) : Site K :=
  match As with
  | [] => ⟨0, 0, 0, 0, fun _ _ _ _ => 0⟩
  | A :: _ => A

def hcatSite (As : List (Site K)) : Site K :=
  { dk := (headSite As).dk, db := (headSite As).db, Dl := (headSite As).Dl, Dr := totDr As, a := hcat As }
def vcatSite (As : List (Site K)) : Site K :=
  { dk := (headSite As).dk, db := (headSite As).db, Dl := totDl As, Dr := (headSite As).Dr, a := vcat As }
def bdiagSite (As : List (Site K)) : Site K :=
  { dk := (headSite As).dk, db := (headSite As).db, Dl := totDl As, Dr := totDr As, a := bdiag As }
def sumSite (As : List (Site K)) : Site K :=
  { dk := (headSite As).dk, db := (headSite As).db, Dl := (headSite As).Dl, Dr := (headSite As).Dr, a := sumA As }

/-- the site tensors at the current position of every summand / the remaining chains -/
def heads (cols : List (List (Site K))) : List (Site K) := cols.map headSite
def tails (cols : List (List (Site K))) : List (List (Site K)) := cols.map List.tail

/-- sites `1 … N-1` of the sum: block diagonal, the last one stacked -/
def addTail : Nat → List (List (Site K)) → List (Site K)
  | 0, _ => []
  | 1, cols => [vcatSite (heads cols)]
  | n + 2, cols => bdiagSite (heads cols) :: addTail (n + 1) (tails cols)

/-- all sites of the sum; `cs` = amplitudes times factors, absorbed by the first site -/
def addSites (N : Nat) (cs : List K) (cols : List (List (Site K))) : List (Site K) :=
  match N with
  | 0 => []
  | 1 => [sumSite (List.zipWith scaleSite cs (heads cols))]
  | n + 2 => hcatSite (List.zipWith scaleSite cs (heads cols)) :: addTail (n + 1) (tails cols)

/-- `mps.add(*ψs, amplitudes=amps)` with its argument checks (in the order of the code) -/
def add (ψs : List (State K)) (amps : List K) : Except String (State K) :=
  if ψs.length ≠ amps.length then .error "amps"
  else match ψs with
    | [] => .error "empty"
    | ψ0 :: _ =>
      if ψs.any (fun ψ => ψ.periodic) then .error "type"
      else if ψs.any (fun ψ => ψ.sites.length != ψ0.sites.length) then .error "N"
      else if ψs.any (fun ψ => ψ.nrPhys != ψ0.nrPhys) then .error "nr_phys"
      else .ok { nrPhys := ψ0.nrPhys, factor := 1,
                 sites := addSites ψ0.sites.length (List.zipWith (fun c ψ => c * ψ.factor) amps ψs) (ψs.map (·.sites)) }

/-! ### products (`mps.multiply`, `@`) -/

/-- contract bra leg of `W` with ket leg of `A`; virtual legs Kronecker-fused: `l = lW * A.Dl + lA` -/
def mulSite (W A : Site K) : Site K :=
  { dk := W.dk, db := A.db, Dl := W.Dl * A.Dl, Dr := W.Dr * A.Dr,
    a := fun s t l r => sumN W.db (fun u => W.a s u (l / A.Dl) (r / A.Dr) * A.a u t (l % A.Dl) (r % A.Dr)) }

def multiply (a b : State K) : Except String (State K) :=
  if a.periodic || b.periodic then .error "type"
  else if a.sites.length ≠ b.sites.length then .error "N"
  else if a.nrPhys = 1 then .error "mps-left"
  else .ok { nrPhys := a.nrPhys + b.nrPhys - 2, factor := a.factor * b.factor,
             sites := List.zipWith mulSite a.sites b.sites }

/-! ### conj / transpose / reverse / product states -/

def conjSite [HasConj K] (A : Site K) : Site K := { A with a := fun s t l r => HasConj.conj (A.a s t l r) }
def transSite (A : Site K) : Site K := { A with dk := A.db, db := A.dk, a := fun s t l r => A.a t s l r }
def revSite (A : Site K) : Site K := { A with Dl := A.Dr, Dr := A.Dl, a := fun s t l r => A.a s t r l }

/-- `conj()`: every tensor conjugated, `factor` untouched (it is real by convention) -/
def conj [HasConj K] (ψ : State K) : State K := { ψ with sites := ψ.sites.map conjSite }

/-- `transpose()` / `.T`: for an MPS returns the state itself -/
def transpose (ψ : State K) : State K :=
  if ψ.nrPhys = 1 then ψ else { ψ with sites := ψ.sites.map transSite }

/-- `conjugate_transpose()` / `.H`: for an MPS `conj()` -/
def conjTranspose [HasConj K] (ψ : State K) : State K :=
  if ψ.nrPhys = 1 then conj ψ else { ψ with sites := ψ.sites.map (fun A => conjSite (transSite A)) }

/-- `reverse_sites()`: reversed order, virtual legs of every tensor swapped -/
def reverseSites (ψ : State K) : State K := { ψ with sites := (ψ.sites.reverse).map revSite }

/-- `product_mps` / `product_mpo`: bond dimension one -/
def product (nrPhys : Nat) (vs : List (Nat × Nat × (Nat → Nat → K))) : State K :=
  { nrPhys := nrPhys, factor := 1,
    sites := vs.map (fun v => ⟨v.1, v.2.1, 1, 1, fun s t _ _ => v.2.2 s t⟩) }

/-! ### environments (`Env2`, `EnvParent_3`) -/

variable [HasConj K]

/-- `Env2.update_env_to_last`: `E'(b',k') = Σ conj(B[s,t](b,b')) E(b,k) K[s,t](k,k')` -/
def envStepL (B Kt : Site K) (E : Mat K) : Mat K :=
  mkMat B.Dr Kt.Dr (fun b' k' =>
    sumN B.dk (fun s => sumN B.db (fun t => sumN B.Dl (fun b => sumN Kt.Dl (fun k =>
      HasConj.conj (B.a s t b b') * (E.get b k * Kt.a s t k k'))))))

def envL : List (Site K) → List (Site K) → Mat K → Mat K
  | B :: Bs, Kt :: Ks, E => envL Bs Ks (envStepL B Kt E)
  | _, _, E => E

/-- `Env2.update_env_to_first`: `E'(k,b) = Σ K[s,t](k,k') E(k',b') conj(B[s,t](b,b'))` -/
def envStepR (B Kt : Site K) (E : Mat K) : Mat K :=
  mkMat Kt.Dl B.Dl (fun k b =>
    sumN B.dk (fun s => sumN B.db (fun t => sumN Kt.Dr (fun k' => sumN B.Dr (fun b' =>
      Kt.a s t k k' * (E.get k' b' * HasConj.conj (B.a s t b b')))))))

/-- right environment of the given suffixes, starting from the identity on the last bond -/
def envR : List (Site K) → List (Site K) → Mat K
  | B :: Bs, Kt :: Ks => envStepR B Kt (envR Bs Ks)
  | _, _ => mkMat 1 1 delta

/-- bond dimension to the left of site `n` (`n = N`: right of the last site) -/
def bondDim (sites : List (Site K)) (n : Nat) : Nat :=
  match sites.drop n with
  | A :: _ => A.Dl
  | [] => match sites.getLast? with | some A => A.Dr | none => 1

/-- `Env2.measure(bd=(n-1,n))`: close left and right environments on the bond left of site `n`, times the factors
(the code multiplies `bra.factor` un-conjugated) -/
def overlapAt (n : Nat) (bra ket : State K) : K :=
  let L := envL (bra.sites.take n) (ket.sites.take n) (mkMat 1 1 delta)
  let R := envR (bra.sites.drop n) (ket.sites.drop n)
  bra.factor * ket.factor *
    sumN (bondDim bra.sites n) (fun b => sumN (bondDim ket.sites n) (fun k => L.get b k * R.get k b))

/-- `measure_overlap(bra, ket)` = `Env2.measure(bd=(-1, N))`: sweep the left environment through all sites -/
def overlap (bra ket : State K) : K := overlapAt bra.sites.length bra ket

/-- flattened pair index for the (op, ket) bonds of three-layer environments -/
def env3StepL (B W Kt : Site K) (E : Mat K) : Mat K :=
  mkMat B.Dr (W.Dr * Kt.Dr) (fun b' ok' =>
    sumN B.dk (fun s => sumN W.db (fun t => sumN B.db (fun x =>
      sumN B.Dl (fun b => sumN W.Dl (fun o => sumN Kt.Dl (fun k =>
        HasConj.conj (B.a s x b b') * (E.get b (o * Kt.Dl + k) * (W.a s t o (ok' / Kt.Dr) * Kt.a t x k (ok' % Kt.Dr))))))))))

def env3L : List (Site K) → List (Site K) → List (Site K) → Mat K → Mat K
  | B :: Bs, W :: Ws, Kt :: Ks, E => env3L Bs Ws Ks (env3StepL B W Kt E)
  | _, _, _, E => E

def env3StepR (B W Kt : Site K) (E : Mat K) : Mat K :=
  mkMat (W.Dl * Kt.Dl) B.Dl (fun ok b =>
    sumN B.dk (fun s => sumN W.db (fun t => sumN B.db (fun x =>
      sumN B.Dr (fun b' => sumN W.Dr (fun o' => sumN Kt.Dr (fun k' =>
        (W.a s t (ok / Kt.Dl) o' * Kt.a t x (ok % Kt.Dl) k') * (E.get (o' * Kt.Dr + k') b' * HasConj.conj (B.a s x b b')))))))))

/-- right three-layer environment; `β` = boundary index of the operator on its last bond (`0` for open MPOs) -/
def env3R (Dβ β : Nat) : List (Site K) → List (Site K) → List (Site K) → Mat K
  | B :: Bs, W :: Ws, Kt :: Ks => env3StepR B W Kt (env3R Dβ β Bs Ws Ks)
  | _, _, _ => mkMat Dβ 1 (fun ok b => delta ok β * delta b 0)

/-- `⟨bra|op|ket⟩` closed on the bond left of site `n` with operator boundary indices `α` (left) and `β` (right) -/
def measure3At (α β n : Nat) (bra op ket : State K) : K :=
  let D0 := bondDim op.sites 0 * bondDim ket.sites 0
  let DN := bondDim op.sites op.sites.length * bondDim ket.sites ket.sites.length
  let L := env3L (bra.sites.take n) (op.sites.take n) (ket.sites.take n) (mkMat 1 D0 (fun b ok => delta b 0 * delta ok α))
  let R := env3R DN β (bra.sites.drop n) (op.sites.drop n) (ket.sites.drop n)
  sumN (bondDim bra.sites n) (fun b => sumN (bondDim op.sites n * bondDim ket.sites n) (fun ok => L.get b ok * R.get ok b))

/-- `EnvParent_3.measure(bd=(n-1,n))` for one operator; a periodic operator is closed by the trace over its
boundary bond (`EnvParent_3_pbc`) -/
def measureMpoAt (n : Nat) (bra op ket : State K) : K :=
  bra.factor * op.factor * ket.factor *
    (if op.periodic then sumN (firstDl op) (fun α => measure3At (α * firstDl ket) (α * 1) n bra op ket)
     else measure3At 0 0 n bra op ket)

/-- `measure_mpo(bra, [op₁, op₂, …], ket)` (`Env_sum.measure`) -/
def measureMpoSumAt (n : Nat) (bra : State K) (ops : List (State K)) (ket : State K) : K :=
  ops.foldr (fun op acc => measureMpoAt n bra op ket + acc) 0

def measureMpo (bra op ket : State K) : K := measureMpoAt bra.sites.length bra op ket

end generic
end YModel.DMps
