import Lean.Data.Json
/-! Small JSON decoding helpers for the line-protocol driver. -/
namespace YModel.J
open Lean

abbrev R := Except String

def int (j : Json) : R Int := j.getInt?
def nat (j : Json) : R Nat := j.getNat?
def str (j : Json) : R String := j.getStr?
def bool (j : Json) : R Bool := j.getBool?
def arr (j : Json) : R (Array Json) := j.getArr?
def list {α} (f : Json → R α) (j : Json) : R (List α) := do
  let a ← j.getArr?
  a.toList.mapM f
def ints (j : Json) : R (List Int) := list int j
def nats (j : Json) : R (List Nat) := list nat j
def intss (j : Json) : R (List (List Int)) := list ints j
def field (j : Json) (k : String) : R Json := j.getObjVal? k
def fieldD (j : Json) (k : String) (d : Json) : Json := (j.getObjVal? k).toOption.getD d
def opt {α} (f : Json → R α) (j : Json) : R (Option α) := if j.isNull then pure none else some <$> f j

def ofInts (l : List Int) : Json := Json.arr (l.map (fun (i : Int) => (Json.num (JsonNumber.fromInt i)))).toArray
def ofNats (l : List Nat) : Json := Json.arr (l.map (fun (i : Nat) => (Json.num (JsonNumber.fromNat i)))).toArray
def ofIntss (l : List (List Int)) : Json := Json.arr (l.map ofInts).toArray
def ofList {α} (f : α → Json) (l : List α) : Json := Json.arr (l.map f).toArray
def ofInt (i : Int) : Json := Json.num (JsonNumber.fromInt i)
def ofNat (i : Nat) : Json := Json.num (JsonNumber.fromNat i)
def obj (kvs : List (String × Json)) : Json := Json.mkObj kvs

end YModel.J
