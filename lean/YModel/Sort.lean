/-! Structural insertion sort (reduces under `decide`, unlike `List.mergeSort`). -/
namespace YModel

def insertBy {α} (le : α → α → Bool) (x : α) : List α → List α
  | [] => [x]
  | y :: ys => if le x y then x :: y :: ys else y :: insertBy le x ys

def isort {α} (le : α → α → Bool) : List α → List α
  | [] => []
  | x :: xs => insertBy le x (isort le xs)

end YModel
