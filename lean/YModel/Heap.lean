/-!
M14 — heap / alias model for C15.

A program state is a heap (address ↦ data array) plus a list of objects (variables); an object is a
structure tag and the address of its data.  Every public yastn operation is classified by its *data effect*
(read off `yastn/tensor/__init__.py:_replace`, `backend_np.py`, `_single.py`, `_initialize.py`):
  * `alloc`     – returns a new object with freshly allocated data            (algebra, contractions, copy, clone …)
  * `share`     – returns a new object sharing the data array of an operand   (shallow_copy, transpose, conj of real data,
                                                                                flip_signature, add_leg, remove_leg, fuse (meta) …)
  * `setItem`   – in-place API `a[key] = x`: writes THROUGH the receiver's array (visible to objects sharing it)
  * `setBlock`  – in-place API `set_block`: re-binds the receiver to a fresh array (never visible to others)
-/
namespace YModel.Heap

-- addresses are natural numbers
abbrev Data := List Int

structure Obj where
  tag : Nat
  ref : Nat
deriving Repr, DecidableEq

structure State where
  heap : Nat → Option Data
  next : Nat
  env : List Obj

inductive Step where
  | alloc (src : Nat) (tag : Nat) (f : Data → Data)    -- result := new object, data f(src data) at a fresh address
  | share (src : Nat) (tag : Nat)                      -- result := new object on the same address
  | setItem (dst : Nat) (g : Data → Data)              -- write through dst's address
  | setBlock (dst : Nat) (g : Data → Data)             -- re-bind dst to a fresh address

def dataOf (s : State) (o : Obj) : Data := (s.heap o.ref).getD []

def upd (h : Nat → Option Data) (a : Nat) (d : Data) : Nat → Option Data := fun x => if x = a then some d else h x

def step (s : State) : Step → State
  | .alloc src tag f =>
    match s.env[src]? with
    | some o => { heap := upd s.heap s.next (f (dataOf s o)), next := s.next + 1, env := s.env ++ [⟨tag, s.next⟩] }
    | none => s
  | .share src tag =>
    match s.env[src]? with
    | some o => { s with env := s.env ++ [⟨tag, o.ref⟩] }
    | none => s
  | .setItem dst g =>
    match s.env[dst]? with
    | some o => { s with heap := upd s.heap o.ref (g (dataOf s o)) }
    | none => s
  | .setBlock dst g =>
    match s.env[dst]? with
    | some o => { heap := upd s.heap s.next (g (dataOf s o)), next := s.next + 1, env := s.env.set dst ⟨o.tag, s.next⟩ }
    | none => s

def run (s : State) (steps : List Step) : State := steps.foldl step s

/-- what can be observed of variable `i`: its structure tag and its data -/
def obs (s : State) (i : Nat) : Option (Nat × Data) := (s.env[i]?).map (fun o => (o.tag, dataOf s o))

/-- allocator invariant: every object points below the allocation frontier, nothing is stored beyond it -/
def Inv (s : State) : Prop := (∀ o ∈ s.env, o.ref < s.next) ∧ (∀ a, s.next ≤ a → s.heap a = none)

def Step.inPlace : Step → Bool
  | .setItem _ _ => true
  | .setBlock _ _ => true
  | _ => false

/-- the variable a step writes to (in-place steps) or reads from -/
def Step.target : Step → Nat
  | .alloc src _ _ => src
  | .share src _ => src
  | .setItem dst _ => dst
  | .setBlock dst _ => dst

end YModel.Heap
