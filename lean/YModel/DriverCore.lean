import Lean.Data.Json
import YModel.JsonUtil
/-! Line-protocol driver loop: one JSON request per input line, one JSON response per line.
Each property has its own executable (`drv_cXX`, root `YModel/Main/CXX.lean`) so that a model
file that stops compiling only affects the properties that depend on it. -/
namespace YModel
open Lean

abbrev Handler := Json → J.R Json

def handleLine (hs : List (String × Handler)) (line : String) : Json :=
  match Json.parse line with
  | .error e => J.obj [("ok", false), ("err", s!"parse: {e}")]
  | .ok j =>
    match j.getObjVal? "op" >>= Json.getStr? with
    | .error e => J.obj [("ok", false), ("err", s!"no op: {e}")]
    | .ok op =>
      match hs.lookup op with
      | none => J.obj [("ok", false), ("err", s!"unknown op {op}")]
      | some h =>
        match h j with
        | .ok r => r.setObjVal! "ok" true
        | .error e => J.obj [("ok", false), ("err", e)]

def runDriver (hs : List (String × Handler)) : IO Unit := do
  let stdin ← IO.getStdin
  let stdout ← IO.getStdout
  repeat
    let line ← stdin.getLine
    if line.isEmpty then break
    if line.trimAscii.isEmpty then continue
    stdout.putStrLn (Json.compress (handleLine hs line))
    stdout.flush

end YModel
