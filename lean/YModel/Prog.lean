import YModel.Ops
import YModel.Fusion
/-! Straight-line programs over the tensor model: what the driver executes and what `eval_wf` (C02)
quantifies over ("all finite sequences of public operations"). -/
namespace YModel
variable {R : Type}

inductive Step (R : Type) where
  | add (i j : Nat)
  | sub (i j : Nat)
  | smul (c : R) (i : Nat)
  | neg (i : Nat)
  | conj (i : Nat)
  | conjBlocks (i : Nat)
  | flipSignature (i : Nat)
  | transpose (σ : List Nat) (i : Nat)
  | tensordot (i j : Nat) (inA inB : List Nat)
  | trace (i : Nat) (in0 in1 : List Nat)
  | addLeg (i : Nat) (axis : Nat) (sl : Int) (t : Charge)
  | removeLeg (i : Nat) (axis : Nat)
  | broadcast (d i : Nat) (axis : Nat)
  | applyMask (m i : Nat) (axis : Nat)
  | diag (i : Nat)
  | fuse (i : Nat) (groups : List (List Nat))

def getVal (vals : List (Tensor R)) (i : Nat) : Except Err (Tensor R) :=
  match vals[i]? with
  | some t => .ok t
  | none => .error .other

def Step.run [Zero R] [Add R] [Mul R] [Neg R] [Conj R] [DecidableEq R] (vals : List (Tensor R)) : Step R → Except Err (Tensor R)
  | .add i j => do let a ← getVal vals i; let b ← getVal vals j; YModel.add a b
  | .sub i j => do let a ← getVal vals i; let b ← getVal vals j; YModel.sub a b
  | .smul c i => do let a ← getVal vals i; pure (YModel.smul c a)
  | .neg i => do let a ← getVal vals i; pure (YModel.neg a)
  | .conj i => do let a ← getVal vals i; pure (YModel.conj a)
  | .conjBlocks i => do let a ← getVal vals i; pure (YModel.conjBlocks a)
  | .flipSignature i => do let a ← getVal vals i; pure (YModel.flipSignature a)
  | .transpose σ i => do let a ← getVal vals i; YModel.transpose σ a
  | .tensordot i j inA inB => do let a ← getVal vals i; let b ← getVal vals j; YModel.tensordot a b inA inB
  | .trace i in0 in1 => do let a ← getVal vals i; YModel.trace a in0 in1
  | .addLeg i axis sl t => do let a ← getVal vals i; YModel.addLeg a axis sl t
  | .removeLeg i axis => do let a ← getVal vals i; YModel.removeLeg a axis
  | .broadcast d i axis => do let dd ← getVal vals d; let a ← getVal vals i; YModel.broadcast dd a axis
  | .applyMask m i axis => do let mm ← getVal vals m; let a ← getVal vals i; YModel.applyMask mm a axis
  | .diag i => do let a ← getVal vals i; YModel.diag a
  | .fuse i groups => do let a ← getVal vals i; YModel.fuseHard a groups

/-- run a program: every step appends its result to the list of values; the first rejected step aborts -/
def runProg [Zero R] [Add R] [Mul R] [Neg R] [Conj R] [DecidableEq R] (vals : List (Tensor R)) : List (Step R) → Except Err (List (Tensor R))
  | [] => .ok vals
  | st :: rest =>
    match st.run vals with
    | .ok t => runProg (vals ++ [t]) rest
    | .error e => .error e

end YModel
