import YModel.Sym
/-!
M8 `Swap`: fermionic signs of yastn.

* `Fermionic`            – the three shapes of `config.fermionic` (`True`, `False`, tuple of bools)
* `swapSign`             – `yastn/tensor/_auxiliary.py: swap_charges`
* `swapGateTp`/`swapGate`– `yastn/tensor/_contractions.py: swap_gate(axes=…)` → `_meta_swap_gate`
* `swapGateChargeTp`/`swapGateCharge` – `swap_gate(axes=…, charge=…)` → `_meta_swap_gate_charge`
* `signCanonicalOrder`   – `_auxiliary.py: sign_canonical_order` (the selection loop, line by line)
* `invSign`              – its closed form, the parity of the inversions weighted by `⟨nᵢ,nⱼ⟩_fss`

Everything works on *native* legs (after `_unpack_axes` and `a.trans`), one block at a time: a
block is given by the charges of its legs.  No Mathlib: this file is executable (driver `drv_c05`).

Not modelled (NumPy would raise `IndexError`): a boolean mask `fss` whose length differs from
`NSYM`; leg indices outside the tensor.  Here missing entries read as `0`/`false`.
-/
namespace YModel

/-- `config.fermionic` -/
inductive Fermionic where
  /-- `True` -/
  | all
  /-- `False` -/
  | none
  /-- a tuple with one bool per charge component -/
  | mask (m : List Bool)
deriving Repr, DecidableEq, Inhabited

/-- Python truthiness (`if not a.config.fermionic: return a`); the empty tuple is falsy. -/
def Fermionic.truthy : Fermionic → Bool
  | .all => true
  | .none => false
  | .mask m => !m.isEmpty

/-- `fss = (True,) * nsym if a.config.fermionic is True else a.config.fermionic` -/
def Fermionic.fss (nsym : Nat) : Fermionic → List Bool
  | .all => List.replicate nsym true
  | .none => []
  | .mask m => m

/-- `1 - 2 * (k % 2)`  (`%` is Euclidean, as `np.mod` / Python `%` for modulus 2) -/
def sgn (k : Int) : Int := 1 - 2 * (k % 2)

/-- the fermionic bilinear form `Σ_{j, fss[j]} a_j b_j` = `np.sum((a * b)[fss])` -/
def fdot (fss : List Bool) (a b : Charge) : Int :=
  ((List.range fss.length).map (fun j => if fss.getD j false then a.getD j 0 * b.getD j 0 else 0)).sum

/-- `np.sum(a * b)` over all components (the `fss is True` branch of `swap_charges`) -/
def dotAll (a b : Charge) : Int := (List.zipWith (· * ·) a b).sum

/-- componentwise `% 2` -/
def cmod2 (c : Charge) : Charge := c.map (· % 2)

/-- `parity fss c`: the parities of the components declared fermionic (others read 0). -/
def parity (fss : List Bool) (c : Charge) : Charge :=
  (List.range fss.length).map (fun j => if fss.getD j false then c.getD j 0 % 2 else 0)

/-- `swap_charges(charges_0, charges_1, fss)` where `fss` is `config.fermionic` itself. -/
def swapSign (f : Fermionic) (cs0 cs1 : List Charge) : Int :=
  match f with
  | .none => 1
  | .all => sgn (List.zipWith dotAll cs0 cs1).sum
  | .mask m => if m.isEmpty then 1 else sgn (List.zipWith (fdot m) cs0 cs1).sum

/-! ### swap_gate(axes) -/

/-- `np.sum(tset[b, g, :], axis=0)`: summed charge of a group of legs of one block -/
def groupCharge (nsym : Nat) (ts : List Charge) (g : List Nat) : Charge :=
  (List.range nsym).map (fun j => (g.map (fun l => (ts.getD l []).getD j 0)).sum)

/-- `zip(*(iaxes, iaxes))` on a list of even length; `none` for odd length. -/
def pairUp {α} : List α → Option (List (α × α))
  | [] => some []
  | [_] => none
  | a :: b :: rest => (pairUp rest).map ((a, b) :: ·)

/-- contribution of one declared pair: `np.sum(t1[fss] * t2[fss])` with `t = Σ charges % 2` -/
def pairTerm (nsym : Nat) (fss : List Bool) (ts : List Charge) (g : List Nat × List Nat) : Int :=
  fdot fss (cmod2 (groupCharge nsym ts g.1)) (cmod2 (groupCharge nsym ts g.2))

/-- `tp % 2` of one block for the declared pairs `ps` (1 = negate) -/
def swapGateTpOf (nsym : Nat) (fss : List Bool) (ps : List (List Nat × List Nat)) (ts : List Charge) : Int :=
  (ps.map (pairTerm nsym fss ts)).sum % 2

/-- `_meta_swap_gate` for one block: the value `tp % 2`, or the error raised for an odd number of groups. -/
def swapGateTp (nsym : Nat) (fss : List Bool) (axes : List (List Nat)) (ts : List Charge) : Except String Int :=
  match pairUp axes with
  | none => .error "Odd number of elements in axes. Elements of axes should come in pairs."
  | some ps => .ok (swapGateTpOf nsym fss ps ts)

/-- a block: charges of its native legs, and its (flattened) data -/
abbrev SBlock := List Charge × List Int

def SBlock.scale (s : Int) (b : SBlock) : SBlock := (b.1, b.2.map (s * ·))

/-- sign of a block from `tp % 2` -/
def tpSign (tp : Int) : Int := if tp = 0 then 1 else -1

/-- `swap_gate(a, axes)` on a tensor given as its list of blocks.  The error does not depend on
the blocks (`_meta_swap_gate` raises before looking at them). -/
def swapGate (f : Fermionic) (nsym : Nat) (axes : List (List Nat)) (a : List SBlock) : Except String (List SBlock) :=
  if !f.truthy then .ok a
  else match pairUp axes with
    | none => .error "Odd number of elements in axes. Elements of axes should come in pairs."
    | some ps => .ok (a.map (fun b => b.scale (tpSign (swapGateTpOf nsym (f.fss nsym) ps b.1))))

/-! ### swap_gate(axes, charge) -/

/-- `tp % 2` of one block for `swap_gate(axes, charge)`; `charges` flat, `nsym` entries per axis -/
def swapGateChargeTpOf (nsym : Nat) (fss : List Bool) (axes : List Nat) (charges : List Int) (ts : List Charge) : Int :=
  ((List.range axes.length).map (fun k =>
      fdot fss (ts.getD (axes.getD k 0) []) (cmod2 ((charges.drop (k * nsym)).take nsym)))).sum % 2

/-- `_meta_swap_gate_charge`: `charges` is the flat tuple built by `swap_gate`
(`charges += t * a.mfs[ax][0]`), reshaped to `(1, len(axes), nsym)` (error if the size differs). -/
def swapGateChargeTp (nsym : Nat) (fss : List Bool) (axes : List Nat) (charges : List Int) (ts : List Charge) :
    Except String Int :=
  if charges.length ≠ axes.length * nsym then
    .error "Length or number of charges does not match sym.NSYM or axes."
  else .ok (swapGateChargeTpOf nsym fss axes charges ts)

def swapGateCharge (f : Fermionic) (nsym : Nat) (axes : List Nat) (charges : List Int) (a : List SBlock) :
    Except String (List SBlock) :=
  if !f.truthy then .ok a
  else if charges.length ≠ axes.length * nsym then
    .error "Length or number of charges does not match sym.NSYM or axes."
  else .ok (a.map (fun b => b.scale (tpSign (swapGateChargeTpOf nsym (f.fss nsym) axes charges b.1))))

/-! ### sign_canonical_order -/

/-- the inner `for ind, site in enumerate(sites[1:], start=1)` loop: returns `first_ind`.
`le` is `f_ordered`. -/
def selectFirst {σ} (le : σ → σ → Bool) : Nat → σ → Nat → List σ → Nat
  | fi, _, _, [] => fi
  | fi, fs, i, s :: rest =>
    if le fs s then selectFirst le fi fs (i + 1) rest else selectFirst le i s (i + 1) rest

/-- the `while sites:` loop; returns the list of `(c0, c1)` appended to `charges_0`, `charges_1`.
`fuel` = number of remaining iterations (`len(sites)`). -/
def scoPairs {σ} (le : σ → σ → Bool) : Nat → List (σ × Charge) → List (Charge × Charge)
  | 0, _ => []
  | _ + 1, [] => []
  | n + 1, (s0, c0) :: rest =>
    let ops := (s0, c0) :: rest
    let k := selectFirst le 0 s0 1 (rest.map (·.1))
    let c1 := (ops.getD k (s0, c0)).2
    ((ops.take k).map (fun o => (o.2, c1))) ++ scoPairs le n (ops.eraseIdx k)

/-- `sign_canonical_order(*operators, sites, f_ordered)`; an operator is represented by its
site and its charge `op.n`; `f` is `operators[0].config.fermionic`. -/
def signCanonicalOrder {σ} (f : Fermionic) (le : σ → σ → Bool) (ops : List (σ × Charge)) : Int :=
  if ops.isEmpty || !f.truthy then 1
  else
    let ps := scoPairs le ops.length ops
    if ps.isEmpty then 1 else swapSign f (ps.map (·.1)) (ps.map (·.2))

/-- `Σ_{i<j, ¬ sᵢ ≤ sⱼ} w nᵢ nⱼ` : weighted number of inversions -/
def invCount {σ} (w : Charge → Charge → Int) (le : σ → σ → Bool) : List (σ × Charge) → Int
  | [] => 0
  | (s, n) :: rest => ((rest.filter (fun q => !le s q.1)).map (fun q => w n q.2)).sum + invCount w le rest

/-- weight used by `swap_charges` for a given `config.fermionic` -/
def Fermionic.weight : Fermionic → Charge → Charge → Int
  | .all => dotAll
  | .none => fun _ _ => 0
  | .mask m => fdot m

/-- closed form of `signCanonicalOrder`: `(−1)^{Σ_{i<j, siteᵢ > siteⱼ} ⟨nᵢ,nⱼ⟩_fss}` -/
def invSign {σ} (f : Fermionic) (le : σ → σ → Bool) (ops : List (σ × Charge)) : Int :=
  sgn (invCount f.weight le ops)

end YModel
