import YModel.Swap
import YModel.Sort
/-!
M9 `Ncon`: semantics of the command lists emitted by `yastn/tensor/_einsum.py:_meta_ncon`
(executed by `_execute_commands`) over *parity-labelled networks*.

A network is `inds : List (List Edge)` (the `inds` argument of `ncon`: one list of integer leg
labels per tensor; positive = contracted, non-positive = open).  A labelling `lab : Edge → Bool`
gives the parity (one fermionic charge component) of the charge that flows through every edge.
The parity of every tensor is then *determined* by conservation (sum of the parities of its
legs), so ranging over all labellings ranges over all conserved assignments, with tensors of
even and of odd parity.  With several fermionic components every command contributes the
product of the one-component signs (`sgn_add`), so one component is enough.

`run` executes a command list: `swap_gate` and `parity_sign` contribute signs,
`tensordot`, `trace`, `transpose` re-index legs (and are checked: contracted legs must carry the
same edge).  `specOdd` is what the caller asked for: `∏ (−1)^{p(e₁)·p(e₂)}` over the requested
swaps.  Signs are kept as `Bool` (`true` = −1).  No Mathlib: executable (driver `drv_c05`).
-/
namespace YModel.Ncon

abbrev Edge := Int

/-- a leg during execution: the edge of the original network it belongs to, and its parity -/
abbrev PLeg := Edge × Bool

structure Ten where
  legs : List PLeg
  /-- parity of the tensor charge `n` -/
  par : Bool
deriving Repr, DecidableEq, Inhabited

/-- the dict `ts` of `_execute_commands` -/
abbrev State := List (Nat × Ten)

inductive Cmd where
  /-- `('tensordot', tout, (t1, t2), (axes1, axes2))` -/
  | tensordot (tout t1 t2 : Nat) (ax1 ax2 : List Nat)
  /-- `('swap_gate', tout, tin, axes)`; `axes` flat, consecutive pairs -/
  | swapGate (tout tin : Nat) (axes : List Nat)
  /-- `('parity_sign', jumped_ten, d_ten, d_legs)` -/
  | paritySign (jumped d : Nat) (dlegs : List Nat)
  /-- `('trace', tout, tin, (axes1, axes2))` -/
  | trace (tout tin : Nat) (ax1 ax2 : List Nat)
  /-- `('transpose', tout, tin, axes)` -/
  | transpose (tout tin : Nat) (axes : List Nat)
deriving Repr, DecidableEq, Inhabited

def xorAll (l : List Bool) : Bool := l.foldr xor false

/-- initial tensors; parity fixed by conservation -/
def initTen (lab : Edge → Bool) (ls : List Edge) : Ten :=
  { legs := ls.map (fun e => (e, lab e)), par := xorAll (ls.map lab) }

def initStateAux (lab : Edge → Bool) : Nat → List (List Edge) → State
  | _, [] => []
  | i, ls :: rest => (i, initTen lab ls) :: initStateAux lab (i + 1) rest

def initState (lab : Edge → Bool) (inds : List (List Edge)) : State := initStateAux lab 0 inds

/-- `ts.pop(k)` -/
def pop (st : State) (k : Nat) : Except String (Ten × State) :=
  match st.lookup k with
  | some t => .ok (t, st.filter (fun p => p.1 != k))
  | none => .error s!"KeyError: tensor {k}"

def getLeg (t : Ten) (l : Nat) : Except String PLeg :=
  match t.legs[l]? with
  | some x => .ok x
  | none => .error s!"leg {l} out of range"

/-- legs that survive when the legs listed in `ax` are removed -/
def removeIdxsAux {α} (ax : List Nat) : Nat → List α → List α
  | _, [] => []
  | i, x :: xs => if ax.contains i then removeIdxsAux ax (i + 1) xs else x :: removeIdxsAux ax (i + 1) xs

def removeIdxs {α} (ax : List Nat) (l : List α) : List α := removeIdxsAux ax 0 l

/-- contracted legs must be the two ends of one edge -/
def checkMatch (a b : Ten) : List Nat → List Nat → Except String Unit
  | [], [] => .ok ()
  | x :: xs, y :: ys => do
    let p ← getLeg a x
    let q ← getLeg b y
    if p.1 != q.1 then throw s!"contracting legs of different edges {p.1} {q.1}"
    checkMatch a b xs ys
  | _, _ => .error "axes of different length"

/-- sign of `swap_gate(t, axes)` for the block with these leg parities: `true` = −1 -/
def swapOdd (t : Ten) (axes : List Nat) : Except String Bool :=
  match pairUp axes with
  | none => .error "Odd number of elements in axes."
  | some ps => ps.foldlM (fun acc (p : Nat × Nat) => do
      let a ← getLeg t p.1
      let b ← getLeg t p.2
      pure (xor acc (a.2 && b.2))) false

/-- sign of `swap_gate(t, axes=d_legs, charge=n)` where `n` has parity `pn` -/
def chargeOdd (t : Ten) (pn : Bool) (dlegs : List Nat) : Except String Bool :=
  dlegs.foldlM (fun acc l => do
    let a ← getLeg t l
    pure (xor acc (a.2 && pn))) false

def isPermOfRange (axes : List Nat) : Bool :=
  axes.all (· < axes.length) && (List.range axes.length).all (fun i => axes.contains i)

/-- one command of `_execute_commands`: returns the sign it contributes and the new dict -/
def step (st : State) : Cmd → Except String (Bool × State)
  | .tensordot tout t1 t2 ax1 ax2 => do
    let (a, st1) ← pop st t1
    let (b, st2) ← pop st1 t2
    checkMatch a b ax1 ax2
    let c : Ten := { legs := removeIdxs ax1 a.legs ++ removeIdxs ax2 b.legs, par := xor a.par b.par }
    pure (false, (tout, c) :: st2)
  | .swapGate tout tin axes => do
    let (a, st1) ← pop st tin
    let s ← swapOdd a axes
    pure (s, (tout, a) :: st1)
  | .paritySign jumped d dlegs => do
    let (j, _) ← pop st jumped
    let (a, _) ← pop st d
    let s ← chargeOdd a j.par dlegs
    pure (s, st)
  | .trace tout tin ax1 ax2 => do
    let (a, st1) ← pop st tin
    checkMatch a a ax1 ax2
    let c : Ten := { legs := removeIdxs (ax1 ++ ax2) a.legs, par := a.par }
    pure (false, (tout, c) :: st1)
  | .transpose tout tin axes => do
    let (a, st1) ← pop st tin
    if !(axes.length == a.legs.length && isPermOfRange axes) then throw "transpose: axes is not a permutation"
    let legs ← axes.mapM (getLeg a)
    pure (false, (tout, { a with legs := legs }) :: st1)

/-- run a command list; accumulated sign (`true` = −1) and final dict -/
def runFrom : Bool → State → List Cmd → Except String (Bool × State)
  | acc, st, [] => .ok (acc, st)
  | acc, st, c :: cs => do
    let (s, st') ← step st c
    runFrom (xor acc s) st' cs

/-- `∏ (−1)^{p(e₁) p(e₂)}` over the requested swaps -/
def specOdd (lab : Edge → Bool) (swaps : List (Edge × Edge)) : Bool :=
  xorAll (swaps.map (fun s => lab s.1 && lab s.2))

/-- open labels in the order of the legs of the result: `-0, -1, -2, …` (ascending `|label|`) -/
def expectedOut (inds : List (List Edge)) : List Edge :=
  isort (fun a b => decide (b ≤ a)) ((inds.flatten).filter (· ≤ 0))

/-- `execSign`: sign of the executed command list on this labelling; an error if a command is
ill-formed, the dict does not end with exactly one tensor, or the legs of the result are not the
open edges in the promised order. -/
def execOdd (inds : List (List Edge)) (cmds : List Cmd) (lab : Edge → Bool) : Except String Bool := do
  let (s, st) ← runFrom false (initState lab inds) cmds
  match st with
  | [(_, t)] =>
    if t.legs.map (·.1) == expectedOut inds then pure s
    else throw s!"legs of the result are {t.legs.map (·.1)}, expected {expectedOut inds}"
  | _ => throw s!"{st.length} tensors left"

/-- the command list realises the requested swaps on this labelling -/
def agrees (inds : List (List Edge)) (swaps : List (Edge × Edge)) (cmds : List Cmd) (lab : Edge → Bool) : Bool :=
  match execOdd inds cmds lab with
  | .ok s => s == specOdd lab swaps
  | .error _ => false

/-! ### all labellings of a finite network -/

def allBools : Nat → List (List Bool)
  | 0 => [[]]
  | n + 1 => (allBools n).flatMap (fun l => [false :: l, true :: l])

def labOf (edges : List Edge) (bs : List Bool) : Edge → Bool :=
  fun e => ((edges.zip bs).lookup e).getD false

def edgesOf (inds : List (List Edge)) : List Edge := inds.flatten.eraseDups

/-- judge a command list over ALL parity labellings of the network: `none` = agrees everywhere,
`some bs` = first labelling (parities of `edgesOf inds`) on which it does not. -/
def judge (inds : List (List Edge)) (swaps : List (Edge × Edge)) (cmds : List Cmd) : Option (List Bool) :=
  let edges := edgesOf inds
  if !(swaps.all (fun s => edges.contains s.1 && edges.contains s.2)) then some []
  else (allBools edges.length).find? (fun bs => !agrees inds swaps cmds (labOf edges bs))

end YModel.Ncon
