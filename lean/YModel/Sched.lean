import YModel.Consts
/-!
# M12 `Sched` — sweep schedules of `dmrg_` / `tdvp_`, environment freshness, TDVP time grid

Executable model (no Mathlib) of

* the **event traces** of `yastn/tn/mps/_dmrg.py` (`_dmrg_`, `_dmrg_sweep_1site_`, `_dmrg_sweep_2site_`)
  and `yastn/tn/mps/_tdvp.py` (`_tdvp_sweep_1site_/2site_/12site_`): which environment keys are
  read / written / dropped, which MPS sites are overwritten, which local problem is exponentiated
  with which coefficient sign;
* the **environment state machine** of `yastn/tn/mps/_env.py` (`EnvParent.update_env_`, `clear_site_`,
  `Heff0/1/2`, `measure`, and the derived keys of `Env_mps_mpo_mps_precompute`): every site carries a
  version number bumped on every write, every environment entry stores the versions of the sites it
  was contracted from (`Stamp`), an entry is *fresh* when its stamp equals the current versions;
* the **time-grid arithmetic** of `tdvp_` (`_tdvp.py:146-163`) over exact rationals.

Coordinates.  Sites are `0 … N-1`.  A bond `(m-1, m)` is named by `m ∈ 0 … N`.
Environment keys of the Python dictionary `env.F`:

* `L m`  = `F[(m-1, m)]`      left environment, contracted from sites `0 … m-1`     (`L 0` is the edge),
* `R m`  = `F[(m, m-1)]`      right environment, contracted from sites `m … N-1`    (`R N` is the edge),
* `DL m` = `F[(m-1, m, m)]`   precompute-derived from `L m` (`get_FL(m)`),
* `DR m` = `F[(m, m-1, m-1)]` precompute-derived from `R m` (`get_FR(m-1)`).
-/
namespace YModel.Sched

inductive Dir | first | last
  deriving DecidableEq, Repr, Inhabited

inductive Key
  | L (m : Nat) | R (m : Nat) | DL (m : Nat) | DR (m : Nat)
  deriving DecidableEq, Repr, Inhabited

/-- versions of the sites an environment was contracted from: `(site, version)` in site order -/
abbrev Stamp := List (Nat × Nat)

/-- sign of the exponent of a local TDVP update: `minus` = `-u·dt/2` (forward), `plus` = `+u·dt/2` (backward) -/
inductive Sgn | minus | plus
  deriving DecidableEq, Repr, Inhabited

inductive Gauge | left | right | none
  deriving DecidableEq, Repr, Inhabited

/-- events of a sweep (environment events, in-place MPS events, TDVP markers) -/
inductive Ev
  | upd (n : Nat) (to : Dir)       -- env.update_env_(n, to)
  | clr (ns : List Nat)            -- env.clear_site_(*ns)
  | h0 (m : Nat)                   -- env.Heff0(C, (m-1, m))      (collapsed Krylov iterations)
  | h1 (n : Nat)                   -- env.Heff1(A, n)
  | h2 (n : Nat)                   -- env.Heff2(AA, (n, n+1))
  | meas (m : Nat)                 -- env.measure((m-1, m))
  | w1 (n : Nat)                   -- psi.post_1site_(A, n)
  | w2 (n : Nat)                   -- psi.post_2site_(AA, (n, n+1), opts_svd)   (sets pC = (n, n+1))
  | orth (n : Nat) (to : Dir)      -- psi.orthogonalize_site_(n, to)
  | abs (to : Dir)                 -- psi.absorb_central_(to)
  | wC (m : Nat)                   -- psi.A[pC] = expmv(...)  with pC = (m-1, m)
  | mA (n : Nat) (s : Sgn)         -- _tdvp._update_A(env, n, s·u·dt/2)
  | mAA (n : Nat) (s : Sgn)        -- _tdvp._update_AA(env, (n, n+1), s·u·dt/2)
  | mC (m : Nat) (s : Sgn)         -- _tdvp._update_C(env, s·u·dt/2) with psi.pC = (m-1, m); no-op if m = 0 ∨ m = N
  | enl (m : Nat) (res : Bool)     -- env.enlarge_bond((m-1, m), opts_svd) returned `res`
  deriving DecidableEq, Repr, Inhabited

/-- observable effect of an event on the dictionary `env.F` -/
structure Eff where
  r : List Key := []     -- keys read  (`F[k]`)
  w : List Key := []     -- keys assigned (`F[k] = …`)
  p : List Key := []     -- keys removed (`F.pop(k)` of a present key)
  deriving Repr, DecidableEq, Inhabited

structure St where
  ver : Nat → Nat
  F : Key → Option Stamp
  pC : Option Nat
  g : Nat → Gauge

/-- sites an environment is contracted from -/
def Key.sites (N : Nat) : Key → List Nat
  | .L m | .DL m => List.range m
  | .R m | .DR m => List.range' m (N - m)

def expect (N : Nat) (ver : Nat → Nat) (k : Key) : Stamp := (k.sites N).map (fun s => (s, ver s))

def St.present (st : St) (k : Key) : Bool := (st.F k).isSome

def St.fresh (N : Nat) (st : St) (k : Key) : Bool := st.F k == some (expect N st.ver k)

def setF (F : Key → Option Stamp) (k : Key) (v : Option Stamp) : Key → Option Stamp :=
  fun k' => if k' = k then v else F k'

def bump (ver : Nat → Nat) (s : Nat) : Nat → Nat := fun s' => if s' = s then ver s + 1 else ver s'

def setG (g : Nat → Gauge) (s : Nat) (v : Gauge) : Nat → Gauge := fun s' => if s' = s then v else g s'

def St.write (st : St) (s : Nat) (gv : Gauge) : St := { st with ver := bump st.ver s, g := setG st.g s gv }

/-- the parent of a derived key -/
def Key.parent : Key → Option Key
  | .DL m => some (.L m)
  | .DR m => some (.R m)
  | _ => none

def keyStr : Key → String
  | .L m => s!"L{m}" | .R m => s!"R{m}" | .DL m => s!"DL{m}" | .DR m => s!"DR{m}"

/-- problems with the keys read: missing (`KeyError`) or stale -/
def checkReads (N : Nat) (st : St) (rs : List Key) : List String :=
  rs.filterMap (fun k => match st.F k with
    | none => some s!"missing {keyStr k}"
    | some s => if s == expect N st.ver k then none else some s!"stale {keyStr k}")

/-- site that absorbs the central block `(m-1, m)` in `absorb_central_(to)` (`_mps_obc.py:377`) -/
def absSite (N : Nat) (to : Dir) (m : Nat) : Nat :=
  if (to = .first ∧ 1 ≤ m) ∨ N ≤ m then m - 1 else m

def popAll (F : Key → Option Stamp) (ks : List Key) : Key → Option Stamp :=
  ks.foldl (fun F k => setF F k none) F

/-- derived keys written inside `get_FL/get_FR`: copy of the parent (stamp of the parent) -/
def writeDerived (st : St) (ks : List Key) : St × List String :=
  ks.foldl (fun (acc : St × List String) k =>
    match k.parent with
    | none => (acc.1, acc.2 ++ [s!"unexpected write {keyStr k}"])
    | some p => match acc.1.F p with
      | none => (acc.1, acc.2 ++ [s!"missing {keyStr p}"])
      | some s => ({ acc.1 with F := setF acc.1.F k (some s) }, acc.2)) (st, [])

/-- One event with *given* dictionary effects (taken from the real trace, or from `effOf` for the model):
new state and the list of problems (stale / missing reads, structural inconsistencies). -/
def applyRaw (N : Nat) (st : St) (ev : Ev) (eff : Eff) : St × List String :=
  match ev with
  | .upd n to =>
    let tgt := match to with | .last => Key.L (n + 1) | .first => Key.R n
    let allowed := match to with | .last => [Key.L n, Key.DL n] | .first => [Key.R (n + 1), Key.DR (n + 1)]
    match eff.r with
    | [src] =>
      let msgs := checkReads N st [src] ++ (if allowed.contains src then [] else [s!"upd reads {keyStr src}"])
        ++ (if eff.w == [tgt] then [] else ["upd writes unexpected key"])
      let s0 := (st.F src).getD []
      let stamp : Stamp := match to with | .last => s0 ++ [(n, st.ver n)] | .first => (n, st.ver n) :: s0
      ({ st with F := setF st.F tgt (some stamp) }, msgs)
    | _ => (st, ["upd must read exactly one key"])
  | .clr _ => ({ st with F := popAll st.F eff.p }, if eff.r.isEmpty && eff.w.isEmpty then [] else ["clr reads/writes"])
  | .h0 _ | .h1 _ | .h2 _ | .meas _ =>
    let (st1, m1) := writeDerived st eff.w
    (st1, m1 ++ checkReads N st1 eff.r)
  | .w1 n => (st.write n .none, if st.pC.isNone then [] else ["post_1site_ with central block"])
  | .w2 n => ({ (st.write n .left).write (n + 1) .right with pC := some (n + 1) },
      if st.pC.isNone then [] else ["post_2site_ with central block"])
  | .orth n to =>
    let st' := match to with
      | .first => { st.write n .right with pC := some n }
      | .last => { st.write n .left with pC := some (n + 1) }
    (st', if st.pC.isNone then [] else ["orthogonalize_site_ with central block (YastnError)"])
  | .abs to =>
    match st.pC with
    | none => (st, [])
    | some m =>
      let s := absSite N to m
      -- the edge blocks (m = 0, m = N) are 1×1 of modulus one: gauge unchanged
      let gv := if m = 0 ∨ m = N then st.g s else Gauge.none
      ({ st.write s gv with pC := none }, [])
  | .wC m => (st, if st.pC = some m then [] else ["central update without central block"])
  | .mA _ _ | .mAA _ _ => (st, if st.pC.isNone then [] else ["site update with central block"])
  | .mC m _ => (st, if st.pC = some m then [] else ["_update_C at unexpected bond"])
  | .enl _ _ => (st, [])

/-- dictionary effects of an event *according to the model of `_env.py`* in state `st`;
`pre` = the environment is an `Env_mps_mpo_mps_precompute`. -/
def effOf (pre : Bool) (st : St) : Ev → Eff
  | .upd n .last => { r := [if pre && st.present (.DL n) then Key.DL n else Key.L n], w := [.L (n + 1)] }
  | .upd n .first => { r := [if pre && st.present (.DR (n + 1)) then Key.DR (n + 1) else Key.R (n + 1)], w := [.R n] }
  | .clr ns =>
    { p := (ns.flatMap (fun n => if pre then [Key.R n, .L (n + 1), .DR n, .DL (n + 1)] else [Key.R n, .L (n + 1)])).filter st.present }
  | .h0 m => { r := [.L m, .R m] }
  | .meas m => { r := [.L m, .R m] }
  | .h1 n =>
    if pre then
      if st.present (.DR (n + 1)) then { r := [.L n, .DR (n + 1)] }
      else { r := [.L n, .R (n + 1), .DR (n + 1)], w := [.DR (n + 1)] }
    else { r := [.L n, .R (n + 1)] }
  | .h2 n =>
    if pre then
      let l : Eff := if st.present (.DL n) then { r := [.DL n] } else { r := [.L n, .DL n], w := [.DL n] }
      let r : Eff := if st.present (.DR (n + 2)) then { r := [.DR (n + 2)] } else { r := [.R (n + 2), .DR (n + 2)], w := [.DR (n + 2)] }
      { r := l.r ++ r.r, w := l.w ++ r.w }
    else { r := [.L n, .R (n + 2)] }
  | _ => {}

def next (N : Nat) (pre : Bool) (st : St) (ev : Ev) : St := (applyRaw N st ev (effOf pre st ev)).1
def okEv (N : Nat) (pre : Bool) (st : St) (ev : Ev) : Bool := (applyRaw N st ev (effOf pre st ev)).2.isEmpty

/-- run the model over a trace: final state, and whether every event was free of problems -/
def exec (N : Nat) (pre : Bool) : St → List Ev → St × Bool
  | st, [] => (st, true)
  | st, e :: es =>
    let r := exec N pre (next N pre st e) es
    (r.1, okEv N pre st e && r.2)

/-- verbose run for the driver: every event with its model effects, and all problems with their index -/
def execV (N : Nat) (pre : Bool) : St → Nat → List Ev → List (Ev × Eff) × List (Nat × String) × St
  | st, _, [] => ([], [], st)
  | st, i, e :: es =>
    let eff := effOf pre st e
    let (st', msgs) := applyRaw N st e eff
    let (a, b, c) := execV N pre st' (i + 1) es
    ((e, eff) :: a, msgs.map (fun m => (i, m)) ++ b, c)

/-- checker for a *real* trace (events with the dictionary effects observed at run time) -/
def checkRaw (N : Nat) : St → Nat → List (Ev × Eff) → List (Nat × String) × St
  | st, _, [] => ([], st)
  | st, i, (e, eff) :: es =>
    let (st', msgs) := applyRaw N st e eff
    let (b, c) := checkRaw N st' (i + 1) es
    (msgs.map (fun m => (i, m)) ++ b, c)

/-- state right after `Env(psi, [H, psi])` was constructed: only the two edge environments exist.
`canon = true`: the state is already right-canonical (`is_canonical(to='first')`). -/
def init (N : Nat) (canon : Bool) : St :=
  { ver := fun _ => 0
    F := fun k => if k = .L 0 ∨ k = .R N then some [] else none
    pC := none
    g := fun _ => if canon then .right else .none }

/-! ## Generators of event traces -/

/-- `psi.canonize_(to='first')` -/
def canonizeFirst (N : Nat) : List Ev :=
  .abs .first :: (List.range N).reverse.flatMap (fun n => [.orth n .first, .abs .first])

/-- `env.setup_(to='first')` -/
def setupFirst (N : Nat) : List Ev := (List.range N).reverse.map (fun n => .upd n .first)

inductive Method | one | two | onetwo
  deriving DecidableEq, Repr, Inhabited

/-- body of the loop of `_dmrg_sweep_1site_` (`_dmrg.py:213-221`) -/
def dmrg1Step (to : Dir) (n : Nat) : List Ev :=
  [.h1 n, .w1 n, .orth n to, .abs to, .clr [n], .upd n to]

def dmrg1Sweep (N : Nat) : List Ev :=
  (List.range N).flatMap (dmrg1Step .last) ++ (List.range N).reverse.flatMap (dmrg1Step .first)

/-- body of the loop of `_dmrg_sweep_2site_` (`_dmrg.py:238-247`); `dn = 0` towards last, `1` towards first -/
def dmrg2Step (to : Dir) (dn : Nat) (n : Nat) : List Ev :=
  [.h2 n, .w2 n, .abs to, .clr [n, n + 1], .upd (n + dn) to]

def dmrg2Sweep (N : Nat) : List Ev :=
  (List.range (N - 1)).flatMap (dmrg2Step .last 0) ++ (List.range (N - 1)).reverse.flatMap (dmrg2Step .first 1)
    ++ [.upd 0 .first]

def dmrgSweep : Method → Nat → List Ev
  | .one, N => dmrg1Sweep N
  | _, N => dmrg2Sweep N

/-- the whole of `_dmrg_` after the canonisation: `setup_`, initial `measure`, then per sweep the sweep and `measure` -/
def dmrgTrace (N : Nat) (methods : List Method) : List Ev :=
  setupFirst N ++ [.meas 0] ++ methods.flatMap (fun m => dmrgSweep m N ++ [.meas 0])

/-- `_update_C` : skipped outside of the chain (`_tdvp.py:271`) -/
def updC (N : Nat) (m : Nat) : List Ev :=
  if m = 0 ∨ m = N then [.mC m .plus] else [.mC m .plus, .h0 m, .wC m]

def updA (n : Nat) (s : Sgn) : List Ev := [.mA n s, .h1 n, .w1 n]
def updAA (n : Nat) (s : Sgn) : List Ev := [.mAA n s, .h2 n, .w2 n]

/-- bond `(m-1, m)` holding the central block after `orthogonalize_site_(n, to)` -/
def bondAfter (to : Dir) (n : Nat) : Nat := match to with | .last => n + 1 | .first => n

/-- body of the loop of `_tdvp_sweep_1site_` (`_tdvp.py:173-178`) -/
def tdvp1Step (N : Nat) (to : Dir) (n : Nat) : List Ev :=
  updA n .minus ++ [.orth n to, .clr [n], .upd n to] ++ updC N (bondAfter to n) ++ [.abs to]

def tdvp1Sweep (N : Nat) : List Ev :=
  (List.range N).flatMap (tdvp1Step N .last) ++ (List.range N).reverse.flatMap (tdvp1Step N .first) ++ [.upd 0 .first]

/-- body of the loop of `_tdvp_sweep_2site_` (`_tdvp.py:191-196`); `dn = 1` towards last, `0` towards first -/
def tdvp2Step (N : Nat) (to : Dir) (n : Nat) : List Ev :=
  let dn := match to with | .last => 1 | .first => 0
  let edge := match to with | .last => N - 1 | .first => 0
  updAA n .minus ++ [.abs to, .clr [n, n + 1], .upd (n + 1 - dn) to]
    ++ (if n + dn ≠ edge then updA (n + dn) .plus else [])

def tdvp2Sweep (N : Nat) : List Ev :=
  (List.range (N - 1)).flatMap (tdvp2Step N .last) ++ (List.range (N - 1)).reverse.flatMap (tdvp2Step N .first)
    ++ [.clr [0], .upd 0 .first]

/-- outcome of `enlarge_bond((m-1, m))`: `False` outside of the chain (`_env.py:241`), else the next oracle value
(`false` when the oracle is exhausted).  One oracle entry is consumed per call. -/
def enlOut (N : Nat) (m : Nat) (o : List Bool) : Bool × List Bool :=
  match o with
  | [] => (false, [])
  | b :: o' => (if m = 0 ∨ N ≤ m then false else b, o')

/-- forward half of `_tdvp_sweep_12site_` (`to='last'`, `dn = 1`): sites `n = N - k … N-1`. -/
def tdvp12Fwd (N : Nat) : (k : Nat) → (two : Bool) → List Bool → List Ev × List Bool
  | 0, _, o => ([], o)
  | k + 1, two, o =>
    let n := N - (k + 1)
    if !two then
      let (e, o1) := enlOut N (n + 1) o
      if e then
        let (rest, o2) := tdvp12Fwd N k true o1
        (.enl (n + 1) true :: rest, o2)
      else
        let (rest, o2) := tdvp12Fwd N k false o1
        (.enl (n + 1) false :: tdvp1Step N .last n ++ rest, o2)
    else
      let (e, o1) := enlOut N (n + 1) o
      let head := updAA (n - 1) .minus ++ [.abs .last, .clr [n - 1, n], .upd (n - 1) .last, .enl (n + 1) e]
      if e then
        let (rest, o2) := tdvp12Fwd N k true o1
        (head ++ updA n .plus ++ rest, o2)
      else
        let (rest, o2) := tdvp12Fwd N k false o1
        (head ++ [.orth n .last, .upd n .last] ++ updC N (n + 1) ++ [.abs .last] ++ rest, o2)

/-- backward half of `_tdvp_sweep_12site_` (`to='first'`, `dn = 0`): sites `n = k-1 … 0`. -/
def tdvp12Bwd (N : Nat) : (k : Nat) → (two : Bool) → List Bool → List Ev × List Bool
  | 0, _, o => ([], o)
  | k + 1, two, o =>
    let n := k
    if !two then
      let (e, o1) := enlOut N n o
      if e then
        let (rest, o2) := tdvp12Bwd N k true o1
        (.enl n true :: rest, o2)
      else
        let (rest, o2) := tdvp12Bwd N k false o1
        (.enl n false :: tdvp1Step N .first n ++ rest, o2)
    else
      let (e, o1) := enlOut N n o
      let head := updAA n .minus ++ [.abs .first, .clr [n, n + 1], .upd (n + 1) .first, .enl n e]
      if e then
        let (rest, o2) := tdvp12Bwd N k true o1
        (head ++ updA n .plus ++ rest, o2)
      else
        let (rest, o2) := tdvp12Bwd N k false o1
        (head ++ [.orth n .first, .upd n .first] ++ updC N n ++ [.abs .first] ++ rest, o2)

def tdvp12Sweep (N : Nat) (o : List Bool) : List Ev × List Bool :=
  let (a, o1) := tdvp12Fwd N N false o
  let (b, o2) := tdvp12Bwd N N false o1
  (a ++ b ++ [.clr [0], .upd 0 .first], o2)

/-- one sweep; for `'12site'` the oracle is the sequence of `enlarge_bond` outcomes -/
def tdvpSweep : Method → Nat → List Bool → List Ev × List Bool
  | .one, N, o => (tdvp1Sweep N, o)
  | .two, N, o => (tdvp2Sweep N, o)
  | .onetwo, N, o => tdvp12Sweep N o

def tdvpSweeps (m : Method) (N : Nat) : (k : Nat) → List Bool → List Ev
  | 0, _ => []
  | k + 1, o => let (a, o1) := tdvpSweep m N o; a ++ tdvpSweeps m N k o1

/-- lifetime of one environment in `tdvp_`: `_init_tdvp` builds it (`setup_(to='first')`), then `k` sweeps use it -/
def tdvpTrace (m : Method) (N : Nat) (k : Nat) (o : List Bool) : List Ev := setupFirst N ++ tdvpSweeps m N k o

/-! ## The overlap-chain structure of the local updates -/

/-- a local update: forward/backward on a site interval `[lo, hi]`, or on the bond `(m-1, m)` -/
inductive Upd
  | site (lo hi : Nat) (s : Sgn)
  | bond (m : Nat) (s : Sgn)
  deriving DecidableEq, Repr, Inhabited

/-- the local updates actually performed (skipped `_update_C` outside the chain removed) -/
def updsOf (N : Nat) : List Ev → List Upd
  | [] => []
  | .mA n s :: es => .site n n s :: updsOf N es
  | .mAA n s :: es => .site n (n + 1) s :: updsOf N es
  | .mC m s :: es => if m = 0 ∨ m = N then updsOf N es else .bond m s :: updsOf N es
  | _ :: es => updsOf N es

/-- `isChain lo hi us`: `us = f₁ b₁ f₂ … b_{k-1} f_k`, every `fᵢ` a forward (`minus`) update of a site interval of
one or two sites, `f₁` starts at `lo`, `f_k` ends at `hi`, consecutive intervals either share exactly one site `s`
(then `bᵢ` is the backward (`plus`) update of the site `s`) or are adjacent (then `bᵢ` is the backward update of the
bond between them). -/
def isChain (lo hi : Nat) : List Upd → Bool
  | .site a b .minus :: rest =>
    a == lo && (b == a || b == a + 1) &&
      (match rest with
       | [] => b == hi
       | .site c d .plus :: rest' => c == b && d == b && isChain b hi rest'
       | .bond m .plus :: rest' => m == b + 1 && isChain (b + 1) hi rest'
       | _ => false)
  | _ => false

/-- the same structure read downwards: `f₁` ends (upper end) at `hi`, the last `f` starts at `lo` -/
def isChainDown (hi lo : Nat) : List Upd → Bool
  | .site a b .minus :: rest =>
    b == hi && (b == a || b == a + 1) &&
      (match rest with
       | [] => a == lo
       | .site c d .plus :: rest' => c == a && d == a && isChainDown a lo rest'
       | .bond m .plus :: rest' => m == a && 1 ≤ a && isChainDown (a - 1) lo rest'
       | _ => false)
  | _ => false

/-- mirror image of a half sweep (the same updates in the opposite order) -/
def mirror (us : List Upd) : List Upd := us.reverse

/-- split the updates of a whole sweep after the first forward update that reaches the last site -/
def splitHalf (N : Nat) : List Upd → List Upd × List Upd
  | [] => ([], [])
  | .site lo hi .minus :: us =>
    if hi + 1 = N then ([.site lo hi .minus], us)
    else let r := splitHalf N us; (.site lo hi .minus :: r.1, r.2)
  | u :: us => let r := splitHalf N us; (u :: r.1, r.2)

/-- a whole sweep: the first half is an overlap chain `0 → N-1`, the second half is the mirror image of one -/
def sweepIsChain (N : Nat) (us : List Upd) : Bool :=
  let r := splitHalf N us
  isChain 0 (N - 1) r.1 && isChain 0 (N - 1) (mirror r.2)

/-! ## Krylov-size memory keys (`env._temp['expmv_ncv']`) -/

/-- the dictionary key under which each local problem remembers its Krylov size:
`_update_A` uses the int `n`, `_update_C` the tuple `bd = (m-1, m)`, `_update_AA` the tuple `ibd = (n+1, n)`. -/
inductive NcvKey
  | int (n : Int)
  | tup (a b : Int)
  deriving DecidableEq, Repr

def ncvKey : Upd → NcvKey
  | .site lo hi _ => if lo = hi then .int lo else .tup hi lo
  | .bond m _ => .tup ((m : Int) - 1) m

/-! ## Time grid of `tdvp_` over exact rationals (integer pairs) -/

structure Q where
  num : Int
  den : Nat
  deriving Repr, DecidableEq, Inhabited

namespace Q
def add (a b : Q) : Q := ⟨a.num * b.den + b.num * a.den, a.den * b.den⟩
def sub (a b : Q) : Q := ⟨a.num * b.den - b.num * a.den, a.den * b.den⟩
def mul (a b : Q) : Q := ⟨a.num * b.num, a.den * b.den⟩
def ofInt (i : Int) : Q := ⟨i, 1⟩
def divInt (a : Q) (k : Int) : Q := if 0 < k then ⟨a.num, a.den * k.toNat⟩ else ⟨-a.num, a.den * (-k).toNat⟩
def normalize (a : Q) : Q :=
  let g := Nat.gcd a.num.natAbs a.den
  if g = 0 then a else ⟨a.num / g, a.den / g⟩
end Q

/-- `1e-12` of `_tdvp.py:147` as an exact rational denominator (regenerated from the source) -/
def epsDen : Nat := Consts.epsDen

/-- `steps = int((t1 - t0 - 1e-12) // dt) + 1` for `T = t1 - t0 = Tn/Td`, `dt = dn/dd` (all positive):
floor division of exact rationals (`Int./` rounds down for a positive divisor). -/
def stepsQ (T dt : Q) : Int :=
  ((T.num * epsDen - T.den) * dt.den) / (T.den * epsDen * dt.num) + 1

/-- `ds = (t1 - t0) / steps` -/
def dsQ (T dt : Q) : Q := T.divInt (stepsQ T dt)

/-- linear form `c0 + c1·s2` with rational coefficients (how `_tdvp.py` writes the 4th-order coefficients) -/
structure Lin where
  c0 : Q
  c1 : Q
  deriving Repr, DecidableEq, Inhabited

def Lin.eval (l : Lin) (s : Q) : Q := l.c0.add (l.c1.mul s)

/-- the sub-steps `(mid-time offset / ds, length / ds)` of one time step of the given composition table at `s2 = s` -/
def subSteps (table : List (Lin × Lin)) (s : Q) : List (Q × Q) := table.map (fun p => (p.1.eval s, p.2.eval s))

def Q.ofRaw (r : Consts.RawQ) : Q := ⟨r.1, r.2⟩
def Lin.ofRaw (r : Consts.RawLin) : Lin := ⟨.ofRaw r.1, .ofRaw r.2⟩

/-- the literal `s2` of the source -/
def s2 : Q := ⟨Consts.s2Num, Consts.s2Den⟩
/-- composition tables regenerated from the source: `(mid, len)` per `routine(...)` call -/
def table2 : List (Lin × Lin) := Consts.second.map (fun p => (.ofRaw p.1, .ofRaw p.2))
def table4 : List (Lin × Lin) := Consts.fourth.map (fun p => (.ofRaw p.1, .ofRaw p.2))

end YModel.Sched
