import YModel.Sort
/-!
# Krylov solvers of yastn (`yastn/tensor/_krylov.py`, `yastn/krylov/_krylov.py`)

Executable model, GENERIC over a record of arithmetic operations `Arith K V` (scalars `K`, vectors `V`).
The same definitions are
* instantiated with `Float` / pairs of `Float` and dense arrays in `YModel/Drv/C18.lean` to RUN, and
* instantiated with the operations of a field and a module in `YProofs/Props/C18.lean` to be REASONED about.

Representation.  The Python dictionary `H` with keys `(i, j)` is kept column-wise: `cols[j][i] = H[(i, j)]`; a
missing key is the scalar zero (this is how `square_matrix_from_dict` reads the dictionary).  Column `j` is
produced by iteration `j` of `expand_krylov_space` and holds `j+2` entries (`H[(0..j+1, j)]`), or `j+1` entries
when the happy breakdown removed `H[(j+1, j)]` again (`H.pop`).
The small dense matrix functions (`backend.expm`, `backend.eig/eigh`, `backend.pinv`) are PARAMETERS of the model
(validated as numerical contracts by the harness); the step-size / Krylov-size heuristic of the Niesen–Wright
controller is a parameter too (`ctrl`), the model owns the bookkeeping around it.
-/
namespace YModel.Krylov

/-- arithmetic used by the Krylov routines.  `lt` compares (the real parts of) scalars, `sqrt` is applied to
non-negative real scalars only, `inner a b` is `a.vdot(b)` (conjugate-linear in `a`). -/
structure Arith (K : Type) (V : Type) where
  zero : K
  one : K
  ofNat : Nat → K
  add : K → K → K
  sub : K → K → K
  mul : K → K → K
  div : K → K → K
  neg : K → K
  abs : K → K
  re : K → K
  sqrt : K → K
  lt : K → K → Bool
  isZero : K → Bool
  vadd : V → V → V
  smul : K → V → V
  inner : V → V → K

variable {K V : Type}

/-- `w.norm()` -/
def norm (A : Arith K V) (w : V) : K := A.sqrt (A.inner w w)

/-- `a - b` on vectors (`backend.add` with amplitude −1) -/
def vsub (A : Arith K V) (a b : V) : V := A.vadd a (A.smul (A.neg A.one) b)

/-- `w.add(*vs, amplitudes=[1, *cs])`: left-to-right accumulation starting from `w` -/
def addAmp (A : Arith K V) (w : V) : List K → List V → V
  | c :: cs, v :: vs => addAmp A (A.vadd w (A.smul c v)) cs vs
  | _, _ => w

/-- `vs[0].add(*vs[1:], amplitudes=cs)`; `d` is returned for an empty list (never happens: `V` holds `v`) -/
def linComb (A : Arith K V) (d : V) : List K → List V → V
  | c :: cs, v :: vs => addAmp A (A.smul c v) cs vs
  | _, _ => d

/-- Krylov basis `V` and the dictionary `H`, column-wise -/
structure KS (K V : Type) where
  V : List V
  cols : List (List K)

/-- `H[(i, j)]`, zero if the key is absent -/
def hEntry (A : Arith K V) (cols : List (List K)) (i j : Nat) : K := (cols.getD j []).getD i A.zero

/-- one pass of the `for j` loop, Arnoldi branch: classical Gram–Schmidt against ALL basis vectors with the
overlaps taken with the un-orthogonalised `w`, then `w.add(*V, amplitudes=[1, -H[0,j], …, -H[j,j]])`. -/
def arnoldiStep (A : Arith K V) (f : V → V) (tol : K) (st : KS K V) : KS K V × Bool :=
  match st.V.getLast? with
  | none => (st, false)
  | some vj =>
    let w := f vj
    let hs := st.V.map (fun vi => A.inner vi w)
    let w' := addAmp A w (hs.map A.neg) st.V
    let h := norm A w'
    if A.lt h tol then ({ st with cols := st.cols ++ [hs] }, true)
    else ({ V := st.V ++ [A.smul (A.div A.one h) w'], cols := st.cols ++ [hs ++ [h]] }, false)

/-- Lanczos branch: `H[(j,j)] = V[j].vdot(w)`, `H[(j-1,j)] = H[(j,j-1)]` (copied, not conjugated),
three-term recurrence. -/
def lanczosStep (A : Arith K V) (f : V → V) (tol : K) (st : KS K V) : KS K V × Bool :=
  match st.V.getLast? with
  | none => (st, false)
  | some vj =>
    let j := st.V.length - 1
    let w := f vj
    let a := A.inner vj w
    let wc : V × List K :=
      if j = 0 then (addAmp A w [A.neg a] [vj], [a])
      else
        let b := hEntry A st.cols j (j - 1)
        (addAmp A w [A.neg b, A.neg a] [st.V.getD (j - 1) vj, vj], List.replicate (j - 1) A.zero ++ [b, a])
    let h := norm A wc.1
    if A.lt h tol then ({ st with cols := st.cols ++ [wc.2] }, true)
    else ({ V := st.V ++ [A.smul (A.div A.one h) wc.1], cols := st.cols ++ [wc.2 ++ [h]] }, false)

def step (A : Arith K V) (f : V → V) (tol : K) (herm : Bool) (st : KS K V) : KS K V × Bool :=
  if herm then lanczosStep A f tol st else arnoldiStep A f tol st

/-- the `for j in range(len(V)-1, ncv)` loop with its `break` on the happy breakdown -/
def expandLoop (A : Arith K V) (f : V → V) (tol : K) (herm : Bool) : Nat → KS K V → KS K V × Bool
  | 0, st => (st, false)
  | fuel + 1, st =>
    match step A f tol herm st with
    | (st', true) => (st', true)
    | (st', false) => expandLoop A f tol herm fuel st'

/-- `expand_krylov_space(f, tol, ncv, hermitian, V, H)` → `(V, H, happy)` -/
def expand (A : Arith K V) (f : V → V) (tol : K) (ncv : Nat) (herm : Bool) (st : KS K V) : KS K V × Bool :=
  expandLoop A f tol herm (ncv - (st.V.length - 1)) st

/-! ### eigs -/

/-- sort key of `backend.eigs_which`; every string other than LM/SM/LR is treated as SR (as the code does) -/
def whichKey (A : Arith K V) (which : String) (x : K) : K :=
  if which == "LM" then A.neg (A.abs x)
  else if which == "SM" then A.abs x
  else if which == "LR" then A.neg (A.re x)
  else A.re x

/-- `val[ind], vr[:, ind]` with `ind = eigs_which(val, which)` (stable ascending argsort of the key) -/
def orderPairs (A : Arith K V) (which : String) (pairs : List (K × List K)) : List (K × List K) :=
  isort (fun p q => !(A.lt (whichKey A which q.1) (whichKey A which p.1))) pairs

/-- `square_matrix_from_dict(H, m)` as a list of rows -/
def squareMatrix (A : Arith K V) (cols : List (List K)) (m : Nat) : List (List K) :=
  (List.range m).map (fun i => (List.range m).map (fun j => hEntry A cols i j))

inductive Err | zeroVector | index
  deriving Repr, DecidableEq

/-- `eigs(f, v0, k, which, ncv, hermitian=herm)`; `tolE` is the literal `1e-13`, `eig T` the eigen-pairs
`(val[i], vr[:, i])` of the small matrix (`backend.eigh` / `backend.eig`).  `vr[:, it]` for `it ≥ m` is an IndexError. -/
def eigs (A : Arith K V) (f : V → V) (eig : List (List K) → List (K × List K)) (tolE : K)
    (v0 : V) (k : Nat) (which : String) (ncv : Nat) (herm : Bool) : Except Err (List (K × V)) :=
  let normv := norm A v0
  if A.isZero normv then .error .zeroVector
  else
    let q0 := A.smul (A.div A.one normv) v0
    let r := expand A f tolE ncv herm { V := [q0], cols := [] }
    let m := if r.2 then r.1.V.length else r.1.V.length - 1
    let Vm := r.1.V.take m
    let T := squareMatrix A r.1.cols m
    let sorted := orderPairs A which (eig T)
    if sorted.length < k then .error .index
    else .ok ((sorted.take k).map (fun p => (p.1, linComb A q0 p.2 Vm)))

/-! ### lin_solver -/

/-- the `(m+1) × m` matrix `T[:(m+1), :m]` after `H[(m,m-1)] = tol` on a happy breakdown -/
def lsMatrix (A : Arith K V) (cols : List (List K)) (m : Nat) (happy : Bool) (tol : K) : List (List K) :=
  (List.range (m + 1)).map (fun i => (List.range m).map (fun j =>
    if happy && i == m && j + 1 == m then tol else hEntry A cols i j))

/-- `lin_solver(f, b, v0, ncv, tol, pinv_tol, hermitian)`; `lstsq T rhs` stands for `pinv(T, rcond=pinv_tol) @ rhs`.
Returns `(vf, res)`. -/
def linSolver (A : Arith K V) (f : V → V) (lstsq : List (List K) → List K → List K)
    (b v0 : V) (ncv : Nat) (tol : K) (herm : Bool) : Except Err (V × K) :=
  let q0 := vsub A b (f v0)
  let normv := norm A q0
  if A.isZero normv then .error .zeroVector
  else
    let r := expand A f tol ncv herm { V := [A.smul (A.div A.one normv) q0], cols := [] }
    let m := if r.2 then r.1.V.length else r.1.V.length - 1
    let Q := r.1.V.take m
    let T := lsMatrix A r.1.cols m r.2 tol
    let be1 := normv :: List.replicate m A.zero
    let y := lstsq T be1
    let vf := addAmp A v0 y Q
    .ok (vf, norm A (vsub A (f vf) b))

/-! ### expmv -/

def maxK (A : Arith K V) (a b : K) : K := if A.lt a b then b else a
def minK (A : Arith K V) (a b : K) : K := if A.lt b a then b else a

/-- what the step-size heuristic sees -/
structure CtrlIn (K : Type) where
  happy : Bool
  m : Nat
  ncv : Nat
  ncvMax : Nat
  tau : K
  err : K
  tNow : K
  tOut : K
  tol : K

/-- what it decides: `omega <= delta`, `tau_new`, `ncv_new` -/
structure CtrlOut (K : Type) where
  accept : Bool
  tauNew : K
  ncvNew : Nat

/-- loop state of `expmv`; `σ` is the private memory of the heuristic (`ncv_old, tau_old, omega, reject, …`);
`steps` (ghost) lists the exponents `sgn*tau` of the accepted steps, newest first; `errs` their error estimates. -/
structure ES (K V σ : Type) where
  tNow : K
  tau : K
  ncv : Nat
  ks : Option (KS K V)
  v : V
  normv : K
  mem : σ
  steps : List K
  nf : Nat

/-- `T = square_matrix_from_dict(H, m+1)` after `H.pop((m, m-1))` and `H[(0, m)] = 1`, scaled by `c = sgn*tau` -/
def expmvMatrix (A : Arith K V) (cols : List (List K)) (m : Nat) (c : K) : List (List K) :=
  (List.range (m + 1)).map (fun i => (List.range (m + 1)).map (fun j =>
    A.mul c (if j == m then (if i == 0 then A.one else A.zero)
             else if i == m then A.zero
             else hEntry A cols i j)))

def mEntry (A : Arith K V) (M : List (List K)) (i j : Nat) : K := (M.getD i []).getD j A.zero

/-- `backend.norm_matrix` of a coefficient vector -/
def normList (A : Arith K V) (xs : List K) : K :=
  A.sqrt (xs.foldl (fun s x => A.add s (A.mul (A.abs x) (A.abs x))) A.zero)

/-- `int(max(1, min(ncv_max, ceil(1.3333 m), max(floor(0.75 m), ncv_new))))` -/
def clampNcv (ncvMax m ncvNew : Nat) : Nat :=
  max 1 (min ncvMax (min ((13333 * m + 9999) / 10000) (max (3 * m / 4) ncvNew)))

/-- one pass of the `while t_now < t_out` loop -/
def expmvIter {σ : Type} (A : Arith K V) (f : V → V) (expm : List (List K) → List (List K))
    (ctrl : σ → CtrlIn K → CtrlOut K × σ) (tol : K) (herm : Bool) (ncvMax : Nat) (sgn tOut : K)
    (st : ES K V σ) : ES K V σ :=
  let ks0 := st.ks.getD { V := [st.v], cols := [] }
  let r := expand A f tol st.ncv herm ks0
  let happy := r.2
  let ks1 := r.1
  let tau := if happy then A.sub tOut st.tNow else st.tau
  let m := if happy then ks1.V.length else ks1.V.length - 1
  let h := if happy then A.zero else hEntry A ks1.cols m (m - 1)
  let c := A.mul sgn tau
  let F := expm (expmvMatrix A ks1.cols m c)
  let g := A.mul (mEntry A F (m - 1) m) h
  let err := A.abs g
  let d := ctrl st.mem { happy, m, ncv := st.ncv, ncvMax, tau, err, tNow := st.tNow, tOut, tol }
  let accept := happy || d.1.accept
  let nf := st.nf + (ks1.V.length - ks0.V.length) + (if happy then 1 else 0)
  let st' : ES K V σ :=
    if accept then
      let col := ((List.range m).map (fun i => mEntry A F i 0)) ++ (if happy then [] else [g])
      let normF := normList A col
      let amps := col.map (fun x => A.div x normF)
      { st with tNow := A.add st.tNow tau, ks := none, v := linComb A st.v amps ks1.V,
                normv := A.mul st.normv normF, steps := c :: st.steps, mem := d.2, nf }
    else { st with ks := some ks1, mem := d.2, nf }
  let fifth := A.div A.one (A.ofNat 5)
  let tau' := minK A (minK A (maxK A (A.mul fifth tau) d.1.tauNew) (A.sub tOut st'.tNow)) (A.mul (A.ofNat 2) tau)
  { st' with tau := tau', ncv := clampNcv ncvMax m d.1.ncvNew }

/-- the `while` loop; `none` = the fuel ran out (the real loop need not terminate) -/
def expmvLoop {σ : Type} (A : Arith K V) (f : V → V) (expm : List (List K) → List (List K))
    (ctrl : σ → CtrlIn K → CtrlOut K × σ) (tol : K) (herm : Bool) (ncvMax : Nat) (sgn tOut : K) :
    Nat → ES K V σ → Option (ES K V σ)
  | fuel, st =>
    if A.lt st.tNow tOut then
      match fuel with
      | 0 => none
      | fuel + 1 => expmvLoop A f expm ctrl tol herm ncvMax sgn tOut fuel
                      (expmvIter A f expm ctrl tol herm ncvMax sgn tOut st)
    else some st

structure ExpmvOut (K V : Type) where
  v : V
  steps : List K
  nf : Nat
  ncv : Nat

/-- `expmv(f, v, t, tol, ncv, hermitian, normalize)`; `size` is `v.size`.  `.error .zeroVector` is the
`YastnError` for a zero vector with `normalize=True`; `.error .index` stands for exhausted fuel. -/
def expmv {σ : Type} (A : Arith K V) (f : V → V) (expm : List (List K) → List (List K))
    (ctrl : σ → CtrlIn K → CtrlOut K × σ) (mem0 : σ) (fuel : Nat) (size : Nat)
    (v : V) (t tol : K) (ncv : Nat) (herm normalize : Bool) : Except Err (ExpmvOut K V) :=
  let ncv := max 1 ncv
  let ncvMax := min 30 size
  let tAbs := A.abs t
  let sgn := if A.lt A.zero tAbs then A.div t tAbs else A.zero
  let normv := norm A v
  if A.isZero normv && normalize then .error .zeroVector
  else
    let tOut := if A.isZero normv then A.zero else tAbs
    let v1 := if A.isZero normv then v else A.smul (A.div A.one normv) v
    let st0 : ES K V σ := { tNow := A.zero, tau := tAbs, ncv, ks := none, v := v1, normv, mem := mem0, steps := [], nf := 0 }
    match expmvLoop A f expm ctrl tol herm ncvMax sgn tOut fuel st0 with
    | none => .error .index
    | some st =>
      .ok { v := if normalize then st.v else A.smul st.normv st.v, steps := st.steps, nf := st.nf, ncv := st.ncv }

end YModel.Krylov
