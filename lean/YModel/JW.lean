import YModel.Swap
import YModel.Sort
/-!
M11 `JW`: dense graded operators on `k` sites in a declared fermionic order, over exact numbers.

* `K`                – the ring ℤ[√2, i]: `a + b√2 + (c + d√2)·i`; an operator of the generated tables is
                       `mat / den` with one natural denominator per operator (`SMat`)
* `OpDef`, `Family`  – the format of the generated `OpTables.lean`
* `zmat`             – the Jordan–Wigner string `Z^{n}` = diag `(−1)^{⟨t, n⟩_fss}` over the local basis
* `embed`            – `Z^{|A|} ⊗ … ⊗ A ⊗ 1 ⊗ …` (string on the sites that PRECEDE site `i` in the fermionic order
                       `fpos`), as a list of local factors (`embedFactors`) and as a dense matrix
* `userProduct`      – semantics of `Hterm(amplitude, positions, operators)`: amplitude × the product of the
                       embedded operators in the USER's order (last operator acts first)
* `mpoRule`          – what `generate_mpo` builds for one term (`_generate_mpo.py:156-206`): sign from
                       `signCanonicalOrder` on the f-mapped positions, same-site operators multiplied in the given
                       order, string charge `f_charge` = Σ charges of the operators later in the fermionic order,
                       applied to the ket leg (`swap_gate(axes=1, charge=f_charge)`)
* `parse2siteBonds`  – `_measure.py:_parse_2site_bonds`

No Mathlib: this file is executable (driver `drv_c07`).
-/
namespace YModel.JW
open YModel

/-! ### exact numbers -/

/-- `a + b√2 + (c + d√2) i` -/
structure K where
  a : Int
  b : Int
  c : Int
  d : Int
deriving DecidableEq, Repr, Inhabited

namespace K
def zero : K := ⟨0, 0, 0, 0⟩
def one : K := ⟨1, 0, 0, 0⟩
def ofInt (n : Int) : K := ⟨n, 0, 0, 0⟩
/-- the imaginary unit -/
def I : K := ⟨0, 0, 1, 0⟩
/-- `√2` -/
def sqrt2 : K := ⟨0, 1, 0, 0⟩
def add (x y : K) : K := ⟨x.a + y.a, x.b + y.b, x.c + y.c, x.d + y.d⟩
def neg (x : K) : K := ⟨-x.a, -x.b, -x.c, -x.d⟩
/-- `(a+b√2 + (c+d√2)i)(a'+b'√2 + (c'+d'√2)i)` -/
def mul (x y : K) : K :=
  ⟨x.a * y.a + 2 * (x.b * y.b) - (x.c * y.c + 2 * (x.d * y.d)),
   x.a * y.b + x.b * y.a - (x.c * y.d + x.d * y.c),
   x.a * y.c + 2 * (x.b * y.d) + (x.c * y.a + 2 * (x.d * y.b)),
   x.a * y.d + x.b * y.c + (x.c * y.b + x.d * y.a)⟩
instance : Add K := ⟨add⟩
instance : Mul K := ⟨mul⟩
instance : Neg K := ⟨neg⟩
instance : Zero K := ⟨zero⟩
instance : One K := ⟨one⟩
end K

/-! ### list matrices -/

abbrev Mat := List (List K)

def ksum (l : List K) : K := l.foldr (· + ·) 0

def transpose : Mat → Mat
  | [] => []
  | r :: rs =>
    match rs with
    | [] => r.map (fun x => [x])
    | _ => List.zipWith (· :: ·) r (transpose rs)

def dotK (r c : List K) : K := ksum (List.zipWith (· * ·) r c)

def matMul (A B : Mat) : Mat :=
  let Bt := transpose B
  A.map (fun r => Bt.map (fun c => dotK r c))

def matAdd (A B : Mat) : Mat := List.zipWith (List.zipWith (· + ·)) A B
def matScale (s : K) (A : Mat) : Mat := A.map (·.map (s * ·))
def matZero (r c : Nat) : Mat := List.replicate r (List.replicate c 0)
def ident (d : Nat) : Mat := (List.range d).map (fun i => (List.range d).map (fun j => if i = j then 1 else 0))
def diagMat (v : List K) : Mat :=
  (List.range v.length).map (fun i => (List.range v.length).map (fun j => if i = j then v.getD i 0 else 0))

/-- Kronecker product (row index of `A` is the slow one) -/
def kron (A B : Mat) : Mat :=
  A.flatMap (fun ra => B.map (fun rb => ra.flatMap (fun x => rb.map (x * ·))))

def kronAll : List Mat → Mat
  | [] => [[1]]
  | A :: rest => kron A (kronAll rest)

def isZeroMat (A : Mat) : Bool := A.all (·.all (· == 0))

/-! ### scaled matrices (the generated tables) -/

/-- `m / den`; `den = 0` marks an invalid/missing operator (never equivalent to anything) -/
structure SMat where
  den : Nat
  m : Mat
deriving DecidableEq, Repr, Inhabited

namespace SMat
def bad : SMat := ⟨0, []⟩
def mul (A B : SMat) : SMat := ⟨A.den * B.den, matMul A.m B.m⟩
def add (A B : SMat) : SMat := ⟨A.den * B.den, matAdd (matScale (K.ofInt B.den) A.m) (matScale (K.ofInt A.den) B.m)⟩
def neg (A : SMat) : SMat := ⟨A.den, matScale (K.ofInt (-1)) A.m⟩
def smulInt (s : Int) (A : SMat) : SMat := ⟨A.den, matScale (K.ofInt s) A.m⟩
def smulK (s : K) (A : SMat) : SMat := ⟨A.den, matScale s A.m⟩
/-- `A / k` -/
def divNat (A : SMat) (k : Nat) : SMat := ⟨A.den * k, A.m⟩
def transposeS (A : SMat) : SMat := ⟨A.den, transpose A.m⟩
instance : Mul SMat := ⟨mul⟩
instance : Add SMat := ⟨add⟩
instance : Neg SMat := ⟨neg⟩
instance : Sub SMat := ⟨fun A B => add A (neg B)⟩
def ofMat (m : Mat) : SMat := ⟨1, m⟩
def zeroOf (d : Nat) : SMat := ⟨1, matZero d d⟩
def identOf (d : Nat) : SMat := ⟨1, ident d⟩
/-- equality of the represented matrices `A.m / A.den = B.m / B.den` (both valid) -/
def eqv (A B : SMat) : Bool :=
  A.den != 0 && B.den != 0 && (matScale (K.ofInt B.den) A.m == matScale (K.ofInt A.den) B.m)
end SMat

/-! ### format of the generated operator tables -/

structure OpDef where
  name : String
  n : Charge
  den : Nat
  exact : Bool
  mat : Mat
deriving Repr, Inhabited

structure Family where
  cls : String
  sym : String
  ferm : Fermionic
  nsym : Nat
  basis : List Charge
  ops : List OpDef
deriving Repr, Inhabited

def Family.d (F : Family) : Nat := F.basis.length
def Family.fss (F : Family) : List Bool := F.ferm.fss F.nsym
def Family.find? (F : Family) (name : String) : Option OpDef := F.ops.find? (·.name == name)
/-- the operator as a scaled matrix; `SMat.bad` if absent or inexact -/
def Family.op (F : Family) (name : String) : SMat :=
  match F.find? name with
  | some o => if o.exact then ⟨o.den, o.mat⟩ else SMat.bad
  | none => SMat.bad
def Family.charge (F : Family) (name : String) : Charge :=
  match F.find? name with
  | some o => o.n
  | none => []

/-- every operator of the family is exact and `d × d` with `d = |basis| > 0` -/
def Family.wellFormed (F : Family) : Bool :=
  F.d != 0 && F.basis.all (·.length == F.nsym) &&
  F.ops.all (fun o => o.exact && o.den != 0 && o.n.length == F.nsym && o.mat.length == F.d && o.mat.all (·.length == F.d))

/-- charge conservation: `A[r][c] ≠ 0 → t_r − t_c ≡ n_A` on the fermionic components modulo 2 (parity-definite) -/
def Family.parityDefinite (F : Family) (o : OpDef) : Bool :=
  (List.range F.d).all (fun r => (List.range F.d).all (fun c =>
    ((o.mat.getD r []).getD c 0 == 0) ||
      (List.range F.nsym).all (fun j => !(F.fss.getD j false) ||
        (((F.basis.getD r []).getD j 0 - (F.basis.getD c []).getD j 0 - o.n.getD j 0) % 2 == 0))))

/-! ### Jordan–Wigner embedding -/

/-- diagonal of `Z^{n}` on the local basis: `(−1)^{⟨t, n⟩_fss}` -/
def zdiag (fss : List Bool) (basis : List Charge) (n : Charge) : List K :=
  basis.map (fun t => K.ofInt (sgn (fdot fss t n)))

def zmat (fss : List Bool) (basis : List Charge) (n : Charge) : Mat := diagMat (zdiag fss basis n)

/-- local space of a family: fermionic mask and sector-ordered basis charges -/
structure Local where
  fss : List Bool
  basis : List Charge
deriving Repr, Inhabited

def Local.d (L : Local) : Nat := L.basis.length
def Family.loc (F : Family) : Local := ⟨F.fss, F.basis⟩

/-- local factor at site `j` of `embed i A`, generic in the local algebra (`one`, string operator `z`):
`A` at `i`, `Z^{nA}` on the sites that precede `i` in the fermionic order, identity elsewhere.
`fpos j` = position of site `j` in the fermionic order (`f_map[j]`, default `j`). -/
def embedAt {L : Type} (one : L) (z : Charge → L) (fpos : Nat → Int) (i : Nat) (A : L) (nA : Charge) (j : Nat) : L :=
  if j = i then A else if fpos j < fpos i then z nA else one

/-- the `k` local factors of `embed k i A` over list matrices -/
def embedFactors (L : Local) (fpos : Nat → Int) (k i : Nat) (A : Mat) (nA : Charge) : List Mat :=
  (List.range k).map (embedAt (ident L.d) (zmat L.fss L.basis) fpos i A nA)

/-- `embed k i A` as a dense `d^k × d^k` matrix -/
def embed (L : Local) (fpos : Nat → Int) (k i : Nat) (A : Mat) (nA : Charge) : Mat :=
  kronAll (embedFactors L fpos k i A nA)

/-- one operator of a term: site, matrix, charge -/
structure TOp where
  site : Nat
  mat : Mat
  n : Charge
deriving Repr, Inhabited

/-- product of the embedded operators in the USER's order (matrix product = application order: last acts first) -/
def userProduct (L : Local) (fpos : Nat → Int) (k : Nat) : List TOp → Mat
  | [] => ident (L.d ^ k)
  | o :: rest => matMul (embed L fpos k o.site o.mat o.n) (userProduct L fpos k rest)

/-! ### generate_mpo's rule for one term -/

def chargeAdd (nsym : Nat) (a b : Charge) : Charge := (List.range nsym).map (fun j => a.getD j 0 + b.getD j 0)
def chargeSum (nsym : Nat) (cs : List Charge) : Charge := cs.foldr (chargeAdd nsym) (List.replicate nsym 0)

/-- `op = next(group)[1]; for el in group: op = op @ el[1]` for the operators at `site`, in the given order
(`sorted(..., key=itemgetter(0))` is stable); `none` if no operator acts there. -/
def onsiteProduct (ops : List TOp) (site : Nat) : Option Mat :=
  match ops.filter (·.site == site) with
  | [] => none
  | o :: rest => some (rest.foldl (fun acc p => matMul acc p.mat) o.mat)

/-- `f_charge` at site `n`: Σ charges of the operators at sites `st` with `f_map[n] < f_map[st]`
(for `f_map = None`: the accumulated charge `tr`/`tl` of all operators to the right) -/
def fCharge (nsym : Nat) (fpos : Nat → Int) (ops : List TOp) (n : Nat) : Charge :=
  chargeSum nsym ((ops.filter (fun o => fpos n < fpos o.site)).map (·.n))

/-- local factor of the MPO at site `n`: `(op or I).swap_gate(axes=1, charge=f_charge)` = `op · Z^{f_charge}` -/
def ruleFactor (L : Local) (nsym : Nat) (fpos : Nat → Int) (ops : List TOp) (n : Nat) : Mat :=
  matMul ((onsiteProduct ops n).getD (ident L.d)) (zmat L.fss L.basis (fCharge nsym fpos ops n))

/-- sign of the term: `sign_canonical_order(*operators, sites=f_positions, f_ordered=<=)` -/
def ruleSign (f : Fermionic) (fpos : Nat → Int) (ops : List TOp) : Int :=
  signCanonicalOrder f (fun (a b : Int) => decide (a ≤ b)) (ops.map (fun o => (fpos o.site, o.n)))

/-- dense matrix generate_mpo assigns to one term (amplitude 1) -/
def mpoRule (L : Local) (f : Fermionic) (nsym : Nat) (fpos : Nat → Int) (k : Nat) (ops : List TOp) : Mat :=
  matScale (K.ofInt (ruleSign f fpos ops)) (kronAll ((List.range k).map (ruleFactor L nsym fpos ops)))

/-- a term of `Hterm`s with amplitude in `K` -/
structure Term where
  amp : K
  ops : List TOp
deriving Repr, Inhabited

def sumTerms (dim : Nat) (f : Term → Mat) (ts : List Term) : Mat :=
  ts.foldl (fun acc t => matAdd acc (matScale t.amp (f t))) (matZero dim dim)

/-! ### `_parse_2site_bonds` -/

/-- `int(r)` restricted to `[+-]?[0-9]+` (Python additionally accepts blanks, `_` and non-ASCII digits) -/
def parseInt (s : List Char) : Option Int :=
  let digits (ds : List Char) : Option Nat :=
    if ds.isEmpty || !ds.all Char.isDigit then none
    else some (ds.foldl (fun acc c => acc * 10 + (c.toNat - '0'.toNat)) 0)
  match s with
  | '-' :: ds => (digits ds).map (fun n => -(n : Int))
  | '+' :: ds => (digits ds).map (fun n => (n : Int))
  | ds => (digits ds).map (fun n => (n : Int))

/-- `bonds.split('r')` on a list of characters -/
def splitOnR : List Char → List (List Char)
  | [] => [[]]
  | c :: cs =>
    match splitOnR cs with
    | [] => [[]]   -- unreachable
    | h :: t => if c = 'r' then [] :: h :: t else (c :: h) :: t

/-- the parsed pattern -/
structure Pattern where
  all : Bool
  lt : Bool
  eq : Bool
  gt : Bool
  pbc : Bool
  rs : List Int
deriving Repr, DecidableEq, Inhabited

/-- the scanning part of `_parse_2site_bonds`; `none` = `int(r)` raises `ValueError` -/
def parsePattern (s : String) : Option Pattern :=
  let cs := s.toList
  if cs.contains 'a' then some ⟨true, false, false, false, false, []⟩
  else
    let lt := cs.contains '<'
    let eq := cs.contains '='
    let gt := cs.contains '>'
    let pbc := cs.contains 'p'
    let rest := cs.filter (fun c => c != '<' && c != '=' && c != '>' && c != 'p')
    if rest.contains 'r' then
      match ((splitOnR rest).drop 1).mapM parseInt with
      | some rs => some ⟨false, lt, eq, gt, pbc, rs⟩
      | none => none
    else some ⟨false, lt, eq, gt, pbc, []⟩

def lexLe (a b : Int × Int) : Bool := decide (a.1 < b.1) || (decide (a.1 = b.1) && decide (a.2 ≤ b.2))

def dedupL {α} [BEq α] : List α → List α
  | [] => []
  | x :: xs => if xs.contains x then dedupL xs else x :: dedupL xs

/-- integers `0 … N-1` -/
def irange (N : Nat) : List Int := (List.range N).map (fun (i : Nat) => Int.ofNat i)

/-- the list `pairs` accumulated by `_parse_2site_bonds` before `sorted(set(pairs))` -/
def rawPairs (p : Pattern) (N : Nat) : List (Int × Int) :=
  if p.all then (irange N).flatMap (fun i => (irange N).map (fun j => (i, j)))
  else
    (if p.lt then (irange N).flatMap (fun i => ((irange N).filter (fun j => i < j)).map (fun j => (i, j))) else []) ++
    (if p.eq then (irange N).map (fun i => (i, i)) else []) ++
    (if p.gt then (irange N).flatMap (fun i => ((irange N).filter (fun j => j < i)).map (fun j => (i, j))) else []) ++
    p.rs.flatMap (fun r =>
      if p.pbc then (irange N).map (fun i => (i, (i + r) % (N : Int)))
      else ((irange N).filter (fun i => 0 ≤ i + r && i + r < (N : Int))).map (fun i => (i, i + r)))

/-- `sorted(set(pairs))` -/
def bondsOf (p : Pattern) (N : Nat) : List (Int × Int) := isort lexLe (dedupL (rawPairs p N))

/-- `_parse_2site_bonds(bonds, N)`; `none` = ValueError -/
def parse2siteBonds (s : String) (N : Nat) : Option (List (Int × Int)) :=
  (parsePattern s).map (fun p => bondsOf p N)

end YModel.JW
