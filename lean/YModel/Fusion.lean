import YModel.Ops
/-!
M6 — hard fusion of legs as a change of basis on the block model.

A group of legs is replaced by one leg whose sectors are the *effective charges*
`t_eff = fuse (charges of the group) (signatures of the group) (signature of the fused leg)`.
Inside a sector the *decompositions* (tuples of original charges, with their dimensions) are laid out
one after the other in ascending order of the charge tuple (`_leg_structure_merge`), each decomposition
in row-major order of the original indices.  The model states where every element goes; it does not
replay `_meta_fuse_hard`'s slicing code.
-/
namespace YModel
variable {R : Type}

/-- a decomposition: the charges of the legs of one group and their dimensions -/
abbrev Dec := List Charge × List Nat

def decLt (a b : Dec) : Bool := keyLt a.1 b.1 || (a.1 == b.1 && lexLt (a.2.map Int.ofNat) (b.2.map Int.ofNat))

/-- all combinations of one sector per leg space, in lexicographic order -/
def sectorProduct : List LegSpace → List Dec
  | [] => [([], [])]
  | L :: rest => L.flatMap (fun td => (sectorProduct rest).map (fun d => (td.1 :: d.1, td.2 :: d.2)))

/-- decompositions of group `g`: every combination of the sectors of its legs (`_leg_structure_combine_charges_prod`),
ascending in the charge tuple -/
def decomps (T : Tensor R) (g : List Nat) : List Dec :=
  sectorProduct (g.map (legSpace T))

/-- signature of the fused leg: the signature of the first leg of the group -/
def groupSig (T : Tensor R) (g : List Nat) : Int := T.s.getD (g.headD 0) 1

def teffOf (T : Tensor R) (g : List Nat) (combo : List Charge) : Charge :=
  T.sym.fuse combo (pick T.s g) (groupSig T g)

/-- decompositions of group `g` with effective charge `t`, in layout order -/
def sectorDecs (T : Tensor R) (g : List Nat) (t : Charge) : List Dec :=
  (decomps T g).filter (fun d => teffOf T g d.1 == t)

def decSize (d : Dec) : Nat := prodL d.2

def sectorDim (ds : List Dec) : Nat := (ds.map decSize).foldl (· + ·) 0

/-- offset of decomposition `d` inside its sector -/
def decOffset : List Dec → Dec → Nat
  | [], _ => 0
  | x :: xs, d => if x == d then 0 else decSize x + decOffset xs d

/-- locate a position of a fused sector: the decomposition it falls into and the position inside it -/
def locateDec : List Dec → Nat → Option (Dec × Nat)
  | [], _ => none
  | d :: rest, p => if p < decSize d then some (d, p) else locateDec rest (p - decSize d)

/-- key of the fused tensor for an original key -/
def fusedKey (T : Tensor R) (groups : List (List Nat)) (k : Key) : Key :=
  groups.map (fun g => teffOf T g (pick k g))

/-- **forward map**: position of the element `(k, idx)` of the original tensor in the fused tensor -/
def fusedIdx (T : Tensor R) (groups : List (List Nat)) (k : Key) (shape idx : List Nat) : List Nat :=
  groups.map (fun g =>
    decOffset (sectorDecs T g (teffOf T g (pick k g))) (pick k g, pick shape g) + ravel (pick shape g) (pick idx g))

/-- scatter the per-group data back to the original leg order -/
def scatter {α} [Inhabited α] (rank : Nat) (groups : List (List Nat)) (parts : List (List α)) : List α :=
  (List.range rank).map (fun p =>
    match (groups.zip parts).find? (fun gp => gp.1.contains p) with
    | some (g, part) => part.getD (g.idxOf p) default
    | none => default)

/-- **backward map** and value of the fused tensor at block `K`, index `J` -/
def fusedVal [Zero R] (T : Tensor R) (groups : List (List Nat)) (K : Key) (J : List Nat) : R :=
  let locs := (List.range groups.length).map (fun i =>
    locateDec (sectorDecs T (groups.getD i []) (K.getD i [])) (J.getD i 0))
  if locs.all Option.isSome then
    let ds := locs.map (fun o => (o.getD (([], []), 0)))
    let key := scatter T.rank groups (ds.map (fun d => d.1.1))
    let idx := scatter T.rank groups (ds.map (fun d => unravel d.1.2 d.2))
    match T.get? key with
    | some b => b.val idx
    | none => 0
  else 0

def isPartition (rank : Nat) (groups : List (List Nat)) : Bool := isPerm rank groups.flatten

/-- `fuse_legs(axes=groups, mode='hard')` -/
def fuseHard [Zero R] (T : Tensor R) (groups : List (List Nat)) : Except Err (Tensor R) :=
  if ¬ isPartition T.rank groups ∨ groups.any List.isEmpty then .error .axes
  else if T.isdiag then .error .diag
  else
    let keys := sortDedup keyLt (T.blocks.map (fun kb => fusedKey T groups kb.1))
    .ok { sym := T.sym, s := groups.map (groupSig T), n := T.n, isdiag := false,
          blocks := keys.map (fun K =>
            (K, ⟨(List.range groups.length).map (fun i => sectorDim (sectorDecs T (groups.getD i []) (K.getD i []))),
                 fusedVal T groups K⟩)) }

end YModel
