import YModel.DriverCore
import YModel.Drv.C06
def main : IO Unit := YModel.runDriver YModel.Drv.C06.handlers
