import YModel.DriverCore
import YModel.Drv.C08
def main : IO Unit := YModel.runDriver YModel.Drv.C08.handlers
