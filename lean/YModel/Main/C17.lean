import YModel.DriverCore
import YModel.Drv.C17
def main : IO Unit := YModel.runDriver YModel.Drv.C17.handlers
