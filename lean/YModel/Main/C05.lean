import YModel.DriverCore
import YModel.Drv.C05
def main : IO Unit := YModel.runDriver YModel.Drv.C05.handlers
