import YModel.DriverCore
import YModel.Drv.C04
def main : IO Unit := YModel.runDriver YModel.Drv.C04.handlers
