import YModel.DriverCore
import YModel.Drv.C01
def main : IO Unit := YModel.runDriver YModel.Drv.C01.handlers
