import YModel.DriverCore
import YModel.Drv.C03
def main : IO Unit := YModel.runDriver YModel.Drv.C03.handlers
