import YModel.DriverCore
import YModel.Drv.C07
def main : IO Unit := YModel.runDriver YModel.Drv.C07.handlers
