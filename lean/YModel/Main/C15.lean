import YModel.DriverCore
import YModel.Drv.C15
def main : IO Unit := YModel.runDriver YModel.Drv.C15.handlers
