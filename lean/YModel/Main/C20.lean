import YModel.DriverCore
import YModel.Drv.C20
def main : IO Unit := YModel.runDriver YModel.Drv.C20.handlers
