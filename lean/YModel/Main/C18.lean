import YModel.DriverCore
import YModel.Drv.C18
def main : IO Unit := YModel.runDriver YModel.Drv.C18.handlers
