import YModel.DriverCore
import YModel.Drv.C13
def main : IO Unit := YModel.runDriver YModel.Drv.C13.handlers
