import YModel.DriverCore
import YModel.Drv.C12
def main : IO Unit := YModel.runDriver YModel.Drv.C12.handlers
