import YModel.DriverCore
import YModel.Drv.C10
def main : IO Unit := YModel.runDriver YModel.Drv.C10.handlers
