import YModel.DriverCore
import YModel.Drv.C09
def main : IO Unit := YModel.runDriver YModel.Drv.C09.handlers
