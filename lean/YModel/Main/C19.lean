import YModel.DriverCore
import YModel.Drv.C19
def main : IO Unit := YModel.runDriver YModel.Drv.C19.handlers
