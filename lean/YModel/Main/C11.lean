import YModel.DriverCore
import YModel.Drv.C11
def main : IO Unit := YModel.runDriver YModel.Drv.C11.handlers
