import YModel.DriverCore
import YModel.Drv.C16
def main : IO Unit := YModel.runDriver YModel.Drv.C16.handlers
