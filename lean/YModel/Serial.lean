import YModel.Sort
/-!
# Serialisation model (C17)

* `Val` : the Python values occurring in `to_dict` dictionaries (nested dictionaries with `int`/`str`/flat-`tuple` keys,
  tuples/lists, scalars, data arrays).
* `split` / `combine` mirror `yastn/_split_combine_dict.py`: walk the dictionary in `sorted` key order (`canon`), pull out
  whatever is stored under the key `"data"`, recurse into values that are dictionaries (tuples/lists are leaves).
  `sorted` raising `TypeError` on keys that cannot be compared (e.g. `int` vs `tuple`) is the error branch `typeError`.
* `TRec`, `toDict`, `fromDict`: field-level codec of `Tensor.to_dict` / `Tensor.from_dict` (levels 0,1,2; `dict_ver` 1/2).
* `embed` / `unembed`: `to_dict(meta=…)` seen as a map block-dictionary → flat vector laid out by `meta`.
-/
namespace YModel.Serial

/-! ## values -/

inductive Atom
  | int (i : Int)
  | str (s : String)
  deriving DecidableEq, Repr, Inhabited

inductive Key
  | int (i : Int)
  | str (s : String)
  | tup (l : List Atom)
  deriving DecidableEq, Repr, Inhabited

inductive Val
  | int (i : Int)
  | str (s : String)
  | bool (b : Bool)
  | none
  | arr (a : List Int)
  | tuple (l : List Val)
  | dict (kvs : List (Key × Val))
  deriving Repr, Inhabited

abbrev KV := Key × Val

/-! ## key order (Python `<` on int / str / tuple) -/

def lexLe : List Int → List Int → Bool
  | [], _ => true
  | _ :: _, [] => false
  | a :: as, b :: bs => if a = b then lexLe as bs else decide (a ≤ b)

def codes (s : String) : List Int := s.toList.map (fun c => (c.toNat : Int))

def strLe (s t : String) : Bool := lexLe (codes s) (codes t)

def Atom.le : Atom → Atom → Bool
  | .int i, .int j => decide (i ≤ j)
  | .str s, .str t => strLe s t
  | .int _, .str _ => true
  | .str _, .int _ => false

def atomsLe : List Atom → List Atom → Bool
  | [], _ => true
  | _ :: _, [] => false
  | a :: as, b :: bs => if a = b then atomsLe as bs else a.le b

def Key.rank : Key → Nat
  | .int _ => 0
  | .str _ => 1
  | .tup _ => 2

/-- total order used to lay out a dictionary; coincides with Python's `<=` wherever Python can compare (`Key.cmpOk`) -/
def Key.le : Key → Key → Bool
  | .int i, .int j => decide (i ≤ j)
  | .str s, .str t => strLe s t
  | .tup a, .tup b => atomsLe a b
  | a, b => decide (a.rank ≤ b.rank)

def Atom.sameKind : Atom → Atom → Bool
  | .int _, .int _ => true
  | .str _, .str _ => true
  | _, _ => false

/-- Python compares tuples at the first position where they differ -/
def atomsCmpOk : List Atom → List Atom → Bool
  | a :: as, b :: bs => if a = b then atomsCmpOk as bs else a.sameKind b
  | _, _ => true

/-- `a < b` does not raise `TypeError` in Python -/
def Key.cmpOk : Key → Key → Bool
  | .int _, .int _ => true
  | .str _, .str _ => true
  | .tup a, .tup b => atomsCmpOk a b
  | _, _ => false

def kvLe (p q : KV) : Bool := Key.le p.1 q.1

def dataKey : Key := .str "data"

/-- all keys of one level can be compared pairwise (`sorted(d)` does not raise) -/
def levelOk (ks : List Key) : Bool := ks.all (fun a => ks.all (fun b => a.cmpOk b))

/-! ## canonical (sorted) form of a nested dictionary -/

mutual
/-- sort every dictionary level that `split`/`combine` walk through (values under `"data"` and tuples are leaves) -/
def canon : Val → Val
  | .dict kvs => .dict (isort kvLe (canonKVs kvs))
  | v => v
def canonKVs : List KV → List KV
  | [] => []
  | (k, v) :: t => (k, if k = dataKey then v else canon v) :: canonKVs t
end

mutual
/-- `sorted` succeeds at every level that is walked -/
def keysOk : Val → Bool
  | .dict kvs => levelOk (kvs.map Prod.fst) && keysOkKVs kvs
  | _ => true
def keysOkKVs : List KV → Bool
  | [] => true
  | (k, v) :: t => (if k = dataKey then true else keysOk v) && keysOkKVs t
end

/-! ## split / combine -/

inductive Err
  | typeError    -- keys cannot be sorted, or index that is not an int
  | notDict
  | indexError
  | rejected (why : String)
  deriving Repr, DecidableEq, Inhabited

mutual
/-- `_split_data_and_meta(d, data)` on a dictionary whose levels are already in sorted order;
returns `(meta, data')` -/
def splitV : Val → List Val → Val × List Val
  | .dict kvs, data => let r := splitKVs kvs data; (.dict r.1, r.2)
  | v, data => (v, data)
def splitKVs : List KV → List Val → List KV × List Val
  | [], data => ([], data)
  | (k, v) :: t, data =>
    if k = dataKey then
      let r := splitKVs t (data ++ [v])
      ((k, .int data.length) :: r.1, r.2)
    else
      let r1 := splitV v data
      let r2 := splitKVs t r1.2
      ((k, r1.1) :: r2.1, r2.2)
end

/-- `split_data_and_meta(d)` : `(data tuple, meta)`.  The walk is over the sorted form; `sorted` raising on keys that
cannot be compared is the `typeError` branch. -/
def split (d : Val) : Except Err (List Val × Val) :=
  match d with
  | .dict _ =>
    let c := canon d
    if keysOk c then
      let r := splitV c []
      .ok (r.2, r.1)
    else .error .typeError
  | _ => .error .notDict

/-- Python list indexing incl. negative indices -/
def pyIndex (data : List Val) (i : Int) : Except Err Val :=
  let j : Int := if 0 ≤ i then i else (data.length : Int) + i
  if 0 ≤ j then
    match data[j.toNat]? with
    | some v => .ok v
    | .none => .error .indexError
  else .error .indexError

mutual
def combineV (data : List Val) : Val → Except Err Val
  | .dict kvs => match combineKVs data kvs with
    | .ok r => .ok (.dict r)
    | .error e => .error e
  | v => .ok v
def combineKVs (data : List Val) : List KV → Except Err (List KV)
  | [] => .ok []
  | (k, v) :: t =>
    let head : Except Err Val :=
      if k = dataKey then
        match v with
        | .int i => pyIndex data i
        | _ => .error .typeError
      else combineV data v
    match head with
    | .error e => .error e
    | .ok hv => match combineKVs data t with
      | .ok r => .ok ((k, hv) :: r)
      | .error e => .error e
end

/-- `combine_data_and_meta(data, meta)` -/
def combine (data : List Val) (mt : Val) : Except Err Val :=
  match mt with
  | .dict _ =>
    let c := canon mt
    if keysOk c then combineV data c else .error .typeError
  | _ => .error .notDict

mutual
/-- forget the payloads stored under `"data"` (what remains is the key structure and the non-data leaves) -/
def erase : Val → Val
  | .dict kvs => .dict (eraseKVs kvs)
  | v => v
def eraseKVs : List KV → List KV
  | [] => []
  | (k, v) :: t => (k, if k = dataKey then Val.none else erase v) :: eraseKVs t
end

/-! ## `to_dict(meta=…)` : embedding of a block dictionary into the flat vector laid out by `meta` -/

abbrev Charge := List Int
/-- layout: ordered list of (block charges, block length); slices are contiguous in this order -/
abbrev Layout := List (Charge × Nat)
/-- tensor data: association list block charges ↦ flattened block -/
abbrev Blocks := List (Charge × List Int)

def zeros (n : Nat) : List Int := List.replicate n 0

/-- the block of `x` that goes to layout entry `e` (zeros if `x` does not have it) -/
def blockOf (x : Blocks) (e : Charge × Nat) : List Int :=
  match x.lookup e.1 with
  | some v => v
  | .none => zeros e.2

/-- every block of `x` has a slot of the right length in `meta` -/
def fits (lay : Layout) (x : Blocks) : Bool :=
  x.all (fun b => lay.lookup b.1 == some b.2.length)

def embed (lay : Layout) (x : Blocks) : Except Err (List Int) :=
  if fits lay x then .ok (lay.flatMap (blockOf x))
  else .error (.rejected "Tensor is inconsistent with meta")

def unembed : Layout → List Int → Blocks
  | [], _ => []
  | (t, n) :: m, v => (t, v.take n) :: unembed m (v.drop n)

def sumSq (l : List Int) : Int := (l.map (fun x => x * x)).sum
def normSq (x : Blocks) : Int := (x.map (fun b => sumSq b.2)).sum

/-! ## field-level codec of `Tensor.to_dict` / `Tensor.from_dict` -/

structure Cfg where
  backend : String
  sym : String
  fermionic : Bool
  deriving DecidableEq, Repr, Inhabited

structure Fusion where
  tree : List Int
  op : String
  s : List Int
  t : List (List Int)
  D : List (List Int)
  deriving DecidableEq, Repr, Inhabited

structure TRec where
  cfg : Cfg
  s : List Int
  n : List Int
  diag : Bool
  t : List (List Int)
  D : List (List Int)
  size : Int
  slices : List (List Int)
  trans : List Int
  mfs : List (List Int)
  hfs : List Fusion
  data : List Int
  deriving DecidableEq, Repr, Inhabited

def encInts (l : List Int) : Val := .tuple (l.map .int)
def encIntss (l : List (List Int)) : Val := .tuple (l.map encInts)

def decInt : Val → Option Int
  | .int i => some i
  | _ => .none
def decInts : Val → Option (List Int)
  | .tuple l => l.mapM decInt
  | _ => .none
def decIntss : Val → Option (List (List Int))
  | .tuple l => l.mapM decInts
  | _ => .none
def decStr : Val → Option String
  | .str s => some s
  | _ => .none
def decBool : Val → Option Bool
  | .bool b => some b
  | _ => .none
def decArr : Val → Option (List Int)
  | .arr a => some a
  | _ => .none

def sk (s : String) : Key := .str s

/-- level 0 keeps the NamedTuple (a tuple, fields by position); level ≥ 1 exports `_asdict()` -/
def encCfg (lvl : Nat) (c : Cfg) : Val :=
  if lvl = 0 then .tuple [.str c.backend, .str c.sym, .bool c.fermionic]
  else .dict [(sk "backend", .str c.backend), (sk "sym", .str c.sym), (sk "fermionic", .bool c.fermionic)]

def encStruct (lvl : Nat) (T : TRec) : Val :=
  if lvl = 0 then .tuple [encInts T.s, encInts T.n, .bool T.diag, encIntss T.t, encIntss T.D, .int T.size]
  else .dict [(sk "s", encInts T.s), (sk "n", encInts T.n), (sk "diag", .bool T.diag), (sk "t", encIntss T.t),
              (sk "D", encIntss T.D), (sk "size", .int T.size)]

def encFusion (lvl : Nat) (f : Fusion) : Val :=
  if lvl = 0 then .tuple [encInts f.tree, .str f.op, encInts f.s, encIntss f.t, encIntss f.D]
  else .dict [(sk "tree", encInts f.tree), (sk "op", .str f.op), (sk "s", encInts f.s), (sk "t", encIntss f.t),
              (sk "D", encIntss f.D)]

/-- `Tensor.to_dict(level)`; `ver = 1` is the older generation without the `trans` entry -/
def toDict (lvl ver : Nat) (T : TRec) : Val :=
  .dict ([(sk "type", .str "Tensor"), (sk "dict_ver", .int ver), (sk "level", .int lvl),
          (sk "config", encCfg lvl T.cfg), (sk "data", .arr T.data), (sk "struct", encStruct lvl T),
          (sk "slices", encIntss T.slices)] ++
         (if ver = 1 then [] else [(sk "trans", encInts T.trans)]) ++
         [(sk "isdiag", .bool T.diag), (sk "hfs", .tuple (T.hfs.map (encFusion lvl))), (sk "mfs", encIntss T.mfs)])

def getK (kvs : List KV) (k : String) : Option Val := kvs.lookup (sk k)

def decCfg : Val → Option Cfg
  | .tuple [b, s, f] => do pure ⟨← decStr b, ← decStr s, ← decBool f⟩
  | .dict kvs => do
    pure ⟨← decStr (← getK kvs "backend"), ← decStr (← getK kvs "sym"), ← decBool (← getK kvs "fermionic")⟩
  | _ => .none

def decFusion : Val → Option Fusion
  | .tuple [a, b, c, d, e] => do pure ⟨← decInts a, ← decStr b, ← decInts c, ← decIntss d, ← decIntss e⟩
  | .dict kvs => do
    pure ⟨← decInts (← getK kvs "tree"), ← decStr (← getK kvs "op"), ← decInts (← getK kvs "s"),
          ← decIntss (← getK kvs "t"), ← decIntss (← getK kvs "D")⟩
  | _ => .none

def decFusions : Val → Option (List Fusion)
  | .tuple l => l.mapM decFusion
  | _ => .none

structure StructF where
  s : List Int
  n : List Int
  diag : Bool
  t : List (List Int)
  D : List (List Int)
  size : Int

def decStruct : Val → Option StructF
  | .tuple [a, b, c, d, e, f] => do pure ⟨← decInts a, ← decInts b, ← decBool c, ← decIntss d, ← decIntss e, ← decInt f⟩
  | .dict kvs => do
    pure ⟨← decInts (← getK kvs "s"), ← decInts (← getK kvs "n"), ← decBool (← getK kvs "diag"),
          ← decIntss (← getK kvs "t"), ← decIntss (← getK kvs "D"), ← decInt (← getK kvs "size")⟩
  | _ => .none

def identityPerm (n : Nat) : List Int := (List.range n).map Int.ofNat

/-- the configuration the restored tensor gets: the stored one, or the supplied one after the symmetry / statistics checks -/
def checkCfg (stored : Cfg) : Option Cfg → Except Err Cfg
  | .none => .ok stored
  | some c =>
    if stored.sym ≠ c.sym then .error (.rejected "Symmetry rule in config does not match the one in stored in d.")
    else if stored.fermionic ≠ c.fermionic then .error (.rejected "Fermionic statistics in config does not match the one in stored in d.")
    else .ok c

/-- `dict_ver = 1` dictionaries have no `trans` entry: identity permutation -/
def transOf (kvs : List KV) (nlegs : Nat) : Option (List Int) :=
  match getK kvs "trans" with
  | .none => some (identityPerm nlegs)
  | some v => decInts v

/-- `Tensor.from_dict(d, config)` for the `dict_ver ∈ {1, 2}` branch -/
def fromDict (d : Val) (config : Option Cfg) : Except Err TRec :=
  match d with
  | .dict kvs =>
    match getK kvs "dict_ver" >>= decInt, getK kvs "type" >>= decStr, getK kvs "config" >>= decCfg,
          getK kvs "struct" >>= decStruct, getK kvs "slices" >>= decIntss, getK kvs "mfs" >>= decIntss,
          getK kvs "hfs" >>= decFusions, getK kvs "data" >>= decArr with
    | some ver, some ty, some stored, some st, some slices, some mfs, some hfs, some data =>
      if ver ≠ 1 ∧ ver ≠ 2 then .error (.rejected "dict_ver not supported")
      else if ty ≠ "Tensor" then .error (.rejected "type does not match")
      else match checkCfg stored config with
        | .error e => .error e
        | .ok cfg =>
          match transOf kvs st.s.length with
          | .none => .error .typeError
          | some trans =>
            .ok { cfg := cfg, s := st.s, n := st.n, diag := st.diag, t := st.t, D := st.D, size := st.size,
                  slices := slices, trans := trans, mfs := mfs, hfs := hfs, data := data }
    | _, _, _, _, _, _, _, _ => .error .typeError
  | _ => .error .notDict

end YModel.Serial
