/-!
# M12 `Gauge` — the gauge (central-block) state machine of `MpsMpoOBC` and the discarded-weight fold

Executable model (no Mathlib) of the *control* part of
`yastn/tn/mps/_mps_obc.py:245-497`:

* `orthogonalize_site_(n, to, normalize)`  (`:245`)   → `Call.orth`
* `diagonalize_central_(opts, normalize)`  (`:302`)   → `Call.diag`
* `remove_central_()`                      (`:354`)   → `Call.remove`
* `absorb_central_(to)`                    (`:360`)   → `Call.absorb`
* `canonize_(to, normalize)`               (`:390`)   → `Call.canonize`
* `truncate_(to, opts_svd, normalize)`     (`:453`)   → `Call.truncate`

The tensors themselves are abstracted away.  What is kept of an MPS/MPO of length `N`:

* `pC : Option (Int × Int)` — the attribute `self.pC`;
* `bonds : List (Int × Int)` — the *tuple* keys of the dictionary `self.A`.  No method listed
  above ever inserts or deletes an integer (site) key – `self.A[n] = …` is only executed after
  `self.A[n]` was read successfully – so the key set of `A` is `{0,…,N-1} ∪ bonds` throughout
  (`St.keys`);
* `gauge : Int → G` — per site, which isometry property is *guaranteed* by the QR/SVD contracts
  (`G.L`: `A†A = 1` over legs `(0,1[,3])`, the `to='last'` form; `G.R`: `A A† = 1` over legs
  `(1,2[,3])`, the `to='first'` form; `G.none`: nothing guaranteed).  Conservative abstraction:
  absorbing an interior centre forgets the gauge of the absorbing site; a centre *outside* the chain
  (`n1 < first` or `n2 > last`) is a normalised `1×1` block (a phase) for chains with trivial
  boundary legs, so absorbing it keeps the gauge;
* `unit : Bool` — `self.factor` is *known* to be the integer `1` (set by every step run with
  `normalize=True`; `false` = unknown, which is how a program starts since the caller may hold any factor).

Error branches are modelled as they exist: `Err.yastn` = `YastnError`, `Err.key` = `KeyError`
(reading `self.A[n]` for a site index outside `0…N-1`, or `self.A[self.pC]` when the key is
missing).  A step that raises may leave the object mutated (e.g. `orthogonalize_site_` assigns
`self.pC` *before* it reads `self.A[n]`); `prim` returns the state after the raise.
-/
namespace YModel.Gauge

/-- the `to` argument: `'first'`, `'last'`, or any other value -/
inductive Dir | first | last | bad
  deriving DecidableEq, Repr, Inhabited

inductive G | L | R | none
  deriving DecidableEq, Repr, Inhabited

inductive Err | yastn | key
  deriving DecidableEq, Repr, Inhabited

inductive Call
  | orth (n : Int) (to : Dir) (normalize : Bool)
  | diag (normalize : Bool)
  | absorb (to : Dir)
  | remove
  | canonize (to : Dir) (normalize : Bool)
  | truncate (to : Dir) (hasOpts : Bool) (normalize : Bool)
  deriving DecidableEq, Repr, Inhabited

structure St where
  N : Nat
  pC : Option (Int × Int)
  bonds : List (Int × Int)
  gauge : Int → G
  unit : Bool

def init (N : Nat) : St := { N := N, pC := none, bonds := [], gauge := fun _ => G.none, unit := false }

/-- `n` is an integer key of `self.A` -/
def St.isSite (s : St) (n : Int) : Bool := decide (0 ≤ n) && decide (n < (s.N : Int))

def St.setG (s : St) (n : Int) (g : G) : St := { s with gauge := fun i => if i = n then g else s.gauge i }

/-- gauge reached by a sweep `to` -/
def Dir.gauge : Dir → G
  | .first => G.R
  | .last => G.L
  | .bad => G.none

/-- `orthogonalize_site_` (`:279-300`) -/
def orth (s : St) (n : Int) (to : Dir) (nm : Bool) : St × Option Err :=
  if s.pC.isSome then (s, some .yastn)                     -- :279
  else match to with
    | .first =>
      let s1 := { s with pC := some (n - 1, n) }            -- :283, before the read of A[n]
      if s.isSite n then
        ({ (s1.setG n G.R) with bonds := (n - 1, n) :: s1.bonds, unit := nm }, none)   -- :288, :299, :300
      else (s1, some .key)
    | .last =>
      let s1 := { s with pC := some (n, n + 1) }            -- :290
      if s.isSite n then
        ({ (s1.setG n G.L) with bonds := (n, n + 1) :: s1.bonds, unit := nm }, none)   -- :295, :299, :300
      else (s1, some .key)
    | .bad => (s, some .yastn)                              -- :297

/-- conditional gauge update (keeps the record free of `if`s: all other fields are untouched by construction) -/
def St.updG (s : St) (c : Bool) (n : Int) (g : G) : St :=
  { s with gauge := fun i => if c = true ∧ i = n then g else s.gauge i }

def keepL : G → G | G.L => G.L | _ => G.none
def keepR : G → G | G.R => G.R | _ => G.none

/-- `diagonalize_central_` (`:325-352`).  `U` is pushed into site `n1` (keeps a left isometry a left
isometry since `U†U = 1`), `V` into site `n2` (keeps a right isometry), or into the centre at the ends.
`:342-346` reads `A[n1]` when `n1 ≥ first`; `:348-351` reads `A[n2]` when `n2 ≤ last` (only reached if the
first read did not raise). -/
def diag (s : St) (nm : Bool) : St × Option Err :=
  match s.pC with
  | none => (s, none)                                       -- :326, returns 0.
  | some (n1, n2) =>
    if (n1, n2) ∈ s.bonds then
      let s1 : St := { s with unit := nm }                  -- :337-338
      let e1 : Bool := decide (0 ≤ n1) && !s.isSite n1      -- KeyError at :344
      let s2 := s1.updG (decide (0 ≤ n1) && s.isSite n1) n1 (keepL (s1.gauge n1))
      let e2 : Bool := decide (n2 ≤ (s.N : Int) - 1) && !s.isSite n2   -- KeyError at :349
      let s3 := s2.updG (!e1 && decide (n2 ≤ (s.N : Int) - 1) && s.isSite n2) n2 (keepR (s2.gauge n2))
      (s3, if e1 || e2 then some .key else none)
    else (s, some .key)                                     -- :328 self.A[self.pC]

/-- `remove_central_` (`:356-358`) -/
def remove (s : St) : St × Option Err :=
  match s.pC with
  | none => (s, none)
  | some p =>
    if p ∈ s.bonds then ({ s with bonds := s.bonds.erase p, pC := none }, none)
    else (s, some .key)                                     -- `del` raises before pC is reset

/-- the site the centre `(n1, n2)` is contracted into (`:377`) -/
def absorbTarget (N : Nat) (to : Dir) (n1 n2 : Int) : Int :=
  if (to = Dir.first ∧ 0 ≤ n1) ∨ n2 > (N : Int) - 1 then n1 else n2

/-- `absorb_central_` (`:372-381`).  Any `to` other than `'first'` behaves as `'last'`.  A centre outside
the chain is a normalised `1×1` block: absorbing it keeps the gauge of the site. -/
def absorb (s : St) (to : Dir) : St × Option Err :=
  match s.pC with
  | none => (s, none)
  | some (n1, n2) =>
    if (n1, n2) ∈ s.bonds then
      let s1 : St := { s with bonds := s.bonds.erase (n1, n2), pC := none }   -- :373-375
      let outside : Bool := decide (n1 < 0) || decide (n2 > (s.N : Int) - 1)
      let tgt : Int := absorbTarget s.N to n1 n2
      (s1.updG (s.isSite tgt && !outside) tgt G.none, if s.isSite tgt then none else some .key)
    else (s, some .key)                                     -- :373 pop raises before pC is reset

/-- `self.sweep(to)` of `_mps_parent.py:70` with `df = dl = 0`; `none` = `YastnError` -/
def sweep (N : Nat) : Dir → Option (List Int)
  | .last => some ((List.range N).map (fun (i : Nat) => (i : Int)))
  | .first => some ((List.range N).reverse.map (fun (i : Nat) => (i : Int)))
  | .bad => none

/-- is the call one of the four primitive methods -/
def Call.isPrim : Call → Bool
  | .orth .. | .diag .. | .absorb .. | .remove => true
  | _ => false

/-- one primitive method call (composite calls are expanded by `expand` first) -/
def prim (s : St) : Call → St × Option Err
  | .orth n to nm => orth s n to nm
  | .diag nm => diag s nm
  | .absorb to => absorb s to
  | .remove => remove s
  | _ => (s, none)

/-- the sequence of primitive calls a method performs, and the exception it raises by itself after
they have all succeeded (`canonize_` with a bad `to` absorbs the centre first and then fails in `sweep`;
`truncate_` checks `opts_svd` and evaluates `sweep` before touching anything). -/
def expand (N : Nat) : Call → List Call × Option Err
  | .canonize to nm =>
    match sweep N to with
    | some ns => (Call.absorb to :: ns.flatMap (fun n => [Call.orth n to nm, Call.absorb to]), none)   -- :413-416
    | none => ([Call.absorb to], some .yastn)
  | .truncate to hasOpts nm =>
    if ¬ hasOpts then ([], some .yastn)                                                                -- :488
    else match sweep N to with
      | some ns => (ns.flatMap (fun n => [Call.orth n to nm, Call.diag nm, Call.absorb to]), none)     -- :491-496
      | none => ([], some .yastn)
  | c => ([c], none)

/-- run primitives until the first exception; returns the executed prefix as well -/
def runPrims (s : St) : List Call → St × Option Err × List Call
  | [] => (s, none, [])
  | p :: ps =>
    match prim s p with
    | (s1, some e) => (s1, some e, [p])
    | (s1, none) =>
      let (s2, e, tr) := runPrims s1 ps
      (s2, e, p :: tr)

/-- one public method call: state afterwards, exception (if any), trace of primitive calls entered -/
def step (s : St) (c : Call) : St × Option Err × List Call :=
  let (ps, e0) := expand s.N c
  let (s1, e, tr) := runPrims s ps
  (s1, (match e with | some x => some x | none => e0), tr)

/-- a program: the caller catches exceptions and continues with the (possibly mutated) object -/
def run (s : St) : List Call → St
  | [] => s
  | c :: cs => run (step s c).1 cs

/-- all intermediate results of a program -/
def runTrace (s : St) : List Call → List (St × Option Err × List Call)
  | [] => []
  | c :: cs => let r := step s c; r :: runTrace r.1 cs

/-- all site arguments are integer keys of `A` -/
def Call.inRange (N : Nat) : Call → Bool
  | .orth n _ _ => decide (0 ≤ n) && decide (n < (N : Int))
  | _ => true

/-! ## the discarded-weight fold of `truncate_` (`:487-497`) over exact rationals -/

/-- `discarded2_total = discarded2_local + discarded2_total - discarded2_total * discarded2_local`
with `discarded2_local = discarded_local ** 2`, starting from `0`; the argument lists the per-cut
`discarded_local` in sweep order; the result is `discarded2_total` (the method returns its square root). -/
def accumulateFrom (tot : Rat) (ds : List Rat) : Rat :=
  ds.foldl (fun tot d => d * d + tot - tot * (d * d)) tot

def accumulate (ds : List Rat) : Rat := accumulateFrom 0 ds

end YModel.Gauge
