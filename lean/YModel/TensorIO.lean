import YModel.GI
import YModel.SymGen
import YModel.JsonUtil
/-! JSON encoding of model tensors (exact Gaussian-integer data) for the line protocol. -/
namespace YModel.TIO
open Lean YModel YModel.J

def findSym (id : String) : R SymDef :=
  match SymGen.all.find? (·.id == id) with
  | some d => pure d
  | none => throw s!"unknown symmetry {id}"

/-- array-backed block (materialised) -/
def blockOfArray (shape : List Nat) (data : Array GI) : Block GI :=
  ⟨shape, fun idx => if inRange shape idx then data.getD (ravel shape idx) 0 else 0⟩

def Block.toArray (b : Block GI) : Array GI := ((allIdx b.shape).map b.val).toArray

def materialize (T : Tensor GI) : Tensor GI :=
  { T with blocks := T.blocks.map (fun kb => (kb.1, blockOfArray kb.2.shape (Block.toArray kb.2))) }

def blockOfJson (nsym : Nat) (j : Json) : R (Key × Block GI) := do
  let t ← intss (← field j "t")
  let D ← nats (← field j "D")
  let re ← ints (← field j "re")
  let im ← match (j.getObjVal? "im").toOption with
    | some x => if x.isNull then pure (re.map (fun _ => (0 : Int))) else ints x
    | none => pure (re.map (fun _ => (0 : Int)))
  if re.length ≠ prodL D then throw s!"block data length {re.length} ≠ prod {D}"
  if t.any (fun c => c.length ≠ nsym) then throw "charge length"
  pure (t, blockOfArray D ((List.zipWith (fun a b => (⟨a, b⟩ : GI)) re im).toArray))

def tensorOfJson (j : Json) : R (Tensor GI) := do
  let d ← findSym (← str (← field j "sym"))
  let s ← ints (← field j "s")
  let n ← ints (← field j "n")
  let diag ← bool (← field j "diag")
  let bs ← list (blockOfJson d.nsym) (← field j "blocks")
  pure { sym := d, s := s, n := n, isdiag := diag, blocks := bs }

def blockToJson (kb : Key × Block GI) : Json :=
  let arr := Block.toArray kb.2
  let im := arr.toList.map (·.im)
  obj ([("t", ofIntss kb.1), ("D", ofNats kb.2.shape), ("re", ofInts (arr.toList.map (·.re)))] ++
       (if im.all (· == 0) then [] else [("im", ofInts im)]))

def legToJson (L : LegSpace) : Json := obj [("t", ofIntss (L.map (·.1))), ("D", ofNats (L.map (·.2)))]

def tensorToJson (T : Tensor GI) : Json :=
  let ms := (T.sym.expr.moduli T.sym.nsym).getD []
  obj [("sym", T.sym.id), ("s", ofInts T.s), ("n", ofInts T.n), ("diag", T.isdiag),
       ("blocks", ofList blockToJson T.blocks),
       ("legs", ofList legToJson (legSpaces T)),
       ("wf", wfCheck ms T)]

def errStr : Err → String
  | .sym => "sym" | .signature => "signature" | .bondDim => "bondDim" | .axes => "axes"
  | .charge => "charge" | .diag => "diag" | .rank => "rank" | .other => "other"

def giOfJson (j : Json) : R GI := do
  let a ← ints j
  pure ⟨a.getD 0 0, a.getD 1 0⟩

def giToJson (x : GI) : Json := ofInts [x.re, x.im]

/-- dense array on given leg spaces, row-major -/
def denseOn (L : List LegSpace) (T : Tensor GI) : List GI :=
  (allIdx (L.map LegSpace.dim)).map (toDenseOn L T)

def legOfJson (j : Json) : R LegSpace := do
  let t ← intss (← field j "t")
  let D ← nats (← field j "D")
  pure (t.zip D)

end YModel.TIO
