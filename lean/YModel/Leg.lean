import YModel.Sym
import YModel.Sort
/-! M2 `Leg`: model of `yastn.Leg.__post_init__` / `conj` (`yastn/tensor/_legs.py:75-116`). -/
namespace YModel

/-- Python tuple order on charges -/
def lexLt : List Int → List Int → Bool
  | [], [] => false
  | [], _ :: _ => true
  | _ :: _, [] => false
  | a :: as, b :: bs => a < b || (a == b && lexLt as bs)

def lexLe (a b : List Int) : Bool := !lexLt b a

/-- linearised fusion tree of a leg (`_Fusion`): `tree`, `op`, signatures `s` -/
structure Fusion where
  tree : List Nat
  op : String
  s : List Int
deriving Repr, DecidableEq, Inhabited

def Fusion.conj (f : Fusion) : Fusion := { f with s := f.s.map (fun x => -x) }
def Fusion.trivial (s : Int) : Fusion := { tree := [1], op := "n", s := [s] }

inductive LegErr | signature | dims | count | range | repeated
deriving Repr, DecidableEq, Inhabited

structure Leg where
  sym : SymDef
  s : Int
  tD : List (Charge × Nat)
  hf : Fusion
deriving Repr, DecidableEq

def splitCharges (nsym lD : Nat) (t : List Int) : List Charge :=
  (List.range lD).map (fun i => (t.drop (i * nsym)).take nsym)

def tdLe (a b : Charge × Nat) : Bool := lexLe a.1 b.1

/-- `Leg(sym, s, t, D)` with `t`, `D` already flattened to integers -/
def Leg.mk? (d : SymDef) (s : Int) (t : List Int) (D : List Int) : Except LegErr Leg :=
  if ¬(s = 1 ∨ s = -1) then .error .signature
  else if ¬(∀ x ∈ D, 0 < x) then .error .dims
  else if ¬(D.length * d.nsym = t.length ∧ ¬(d.nsym = 0 ∧ 1 < D.length)) then .error .count
  else
    let old := splitCharges d.nsym D.length t
    let new := old.map (fun c => d.fuse [c] [s] s)
    if old ≠ new then .error .range
    else if ¬ new.Nodup then .error .repeated
    else .ok { sym := d, s := s, tD := isort tdLe (new.zip (D.map Int.toNat)), hf := Fusion.trivial s }

def Leg.conj (l : Leg) : Leg := { l with s := -l.s, hf := l.hf.conj }

def Leg.t (l : Leg) : List Charge := l.tD.map (·.1)
def Leg.D (l : Leg) : List Nat := l.tD.map (·.2)

end YModel
