import YProofs.Props.C19
import YProofs.Props.C19Leg
