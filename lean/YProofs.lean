import YProofs.Props.C01
import YProofs.Props.C05
import YProofs.Props.C13
import YProofs.Props.C13Error
import YProofs.Props.C19
import YProofs.Props.C19Leg
import YProofs.Props.C20
