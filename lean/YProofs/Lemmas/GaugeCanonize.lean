import YProofs.Lemmas.GaugeMachine
/-!
# `canonize_` on the gauge state machine: after the sweep the centre is gone and every site carries the
gauge of the sweep direction (induction over the sweep).
-/
namespace YModel.Gauge

/-- no central block -/
def Clean (s : St) : Prop := s.pC = none ∧ s.bonds = []

theorem runPrims_cons_none {s s1 : St} {p : Call} (ps : List Call) (h : prim s p = (s1, none)) :
    (runPrims s (p :: ps)).1 = (runPrims s1 ps).1 ∧ (runPrims s (p :: ps)).2.1 = (runPrims s1 ps).2.1 := by
  simp only [runPrims, h]
  exact ⟨trivial, trivial⟩

/-- `orthogonalize_site_(n, 'last')` followed by `absorb_central_('last')` on a centre-free chain -/
theorem orth_absorb_last {s : St} (hc : Clean s) (n : Int) (hn : 0 ≤ n ∧ n < (s.N : Int)) (nm : Bool) :
    (orth s n .last nm).2 = none ∧ (absorb (orth s n .last nm).1 .last).2 = none ∧
    Clean (absorb (orth s n .last nm).1 .last).1 ∧
    (absorb (orth s n .last nm).1 .last).1.N = s.N ∧
    (absorb (orth s n .last nm).1 .last).1.unit = nm ∧
    ∀ i, (absorb (orth s n .last nm).1 .last).1.gauge i =
      if i = n + 1 ∧ n + 1 ≤ (s.N : Int) - 1 then G.none else if i = n then G.L else s.gauge i := by
  obtain ⟨hp, hb⟩ := hc
  have hs : s.isSite n = true := (isSite_iff s n).2 hn
  have ho : orth s n .last nm =
      ({ N := s.N, pC := some (n, n + 1), bonds := [(n, n + 1)],
         gauge := fun i => if i = n then G.L else s.gauge i, unit := nm }, none) := by
    simp [orth, hp, hs, hb, St.setG]
  rw [ho]
  have ht : absorbTarget s.N Dir.last n (n + 1) = if n + 1 ≤ (s.N : Int) - 1 then n + 1 else n := by
    unfold absorbTarget
    by_cases c : n + 1 ≤ (s.N : Int) - 1
    · have : ¬ (n + 1 > (s.N : Int) - 1) := by omega
      simp [c, this]
    · have : (n + 1 > (s.N : Int) - 1) := by omega
      simp [c, this]
  refine ⟨rfl, ?_, ⟨?_, ?_⟩, ?_, ?_, fun i => ?_⟩
  · simp only [absorb, List.mem_singleton, if_true, ht, St.isSite]
    by_cases c : n + 1 ≤ (s.N : Int) - 1
    · have h1 : 0 ≤ n + 1 := by omega
      have h2 : n + 1 < (s.N : Int) := by omega
      simp [c, h1, h2]
    · simp [c, hn.1, hn.2]
  · simp [absorb, St.updG]
  · simp [absorb, St.updG]
  · simp [absorb, St.updG]
  · simp [absorb, St.updG]
  · simp only [absorb, List.mem_singleton, if_true, ht, St.isSite, St.updG]
    by_cases c : n + 1 ≤ (s.N : Int) - 1
    · have h1 : 0 ≤ n + 1 := by omega
      have h2 : n + 1 < (s.N : Int) := by omega
      have h3 : ¬ n < 0 := by omega
      have h4 : ¬ (n + 1 > (s.N : Int) - 1) := by omega
      simp [c, h1, h2, h3, h4]
    · have h4 : (n + 1 > (s.N : Int) - 1) := by omega
      simp [c, h4]

/-- `orthogonalize_site_(n, 'first')` followed by `absorb_central_('first')` on a centre-free chain -/
theorem orth_absorb_first {s : St} (hc : Clean s) (n : Int) (hn : 0 ≤ n ∧ n < (s.N : Int)) (nm : Bool) :
    (orth s n .first nm).2 = none ∧ (absorb (orth s n .first nm).1 .first).2 = none ∧
    Clean (absorb (orth s n .first nm).1 .first).1 ∧
    (absorb (orth s n .first nm).1 .first).1.N = s.N ∧
    (absorb (orth s n .first nm).1 .first).1.unit = nm ∧
    ∀ i, (absorb (orth s n .first nm).1 .first).1.gauge i =
      if i = n - 1 ∧ 1 ≤ n then G.none else if i = n then G.R else s.gauge i := by
  obtain ⟨hp, hb⟩ := hc
  have hs : s.isSite n = true := (isSite_iff s n).2 hn
  have ho : orth s n .first nm =
      ({ N := s.N, pC := some (n - 1, n), bonds := [(n - 1, n)],
         gauge := fun i => if i = n then G.R else s.gauge i, unit := nm }, none) := by
    simp [orth, hp, hs, hb, St.setG]
  rw [ho]
  have c0 : ¬ (n > (s.N : Int) - 1) := by omega
  have ht : absorbTarget s.N Dir.first (n - 1) n = if 1 ≤ n then n - 1 else n := by
    unfold absorbTarget
    by_cases c : 1 ≤ n
    · have : 0 ≤ n - 1 := by omega
      simp [c, this]
    · have : ¬ 0 ≤ n - 1 := by omega
      simp [c, this, c0]
  refine ⟨rfl, ?_, ⟨?_, ?_⟩, ?_, ?_, fun i => ?_⟩
  · simp only [absorb, List.mem_singleton, if_true, ht, St.isSite]
    by_cases c : 1 ≤ n
    · have h1 : 0 ≤ n - 1 := by omega
      have h2 : n - 1 < (s.N : Int) := by omega
      simp [c, h1, h2]
    · simp [c, hn.1, hn.2]
  · simp [absorb, St.updG]
  · simp [absorb, St.updG]
  · simp [absorb, St.updG]
  · simp [absorb, St.updG]
  · simp only [absorb, List.mem_singleton, if_true, ht, St.isSite, St.updG]
    by_cases c : 1 ≤ n
    · have h1 : 0 ≤ n - 1 := by omega
      have h2 : n - 1 < (s.N : Int) := by omega
      have h3 : ¬ n - 1 < 0 := by omega
      simp [c, h1, h2, h3, c0]
    · have h3 : n - 1 < 0 := by omega
      simp [c, h3]

def canonBody (to : Dir) (nm : Bool) : Int → List Call := fun n => [Call.orth n to nm, Call.absorb to]

theorem runPrims_body {s : St} {to : Dir} {nm : Bool} {n : Int} (rest : List Call)
    (h1 : (orth s n to nm).2 = none) (h2 : (absorb (orth s n to nm).1 to).2 = none) :
    (runPrims s (canonBody to nm n ++ rest)).1 = (runPrims (absorb (orth s n to nm).1 to).1 rest).1 ∧
    (runPrims s (canonBody to nm n ++ rest)).2.1 = (runPrims (absorb (orth s n to nm).1 to).1 rest).2.1 := by
  have e1 : prim s (Call.orth n to nm) = ((orth s n to nm).1, none) := Prod.ext rfl h1
  have e2 : prim (orth s n to nm).1 (Call.absorb to) = ((absorb (orth s n to nm).1 to).1, none) := Prod.ext rfl h2
  have a := runPrims_cons_none (Call.absorb to :: rest) e1
  have b := runPrims_cons_none rest e2
  simp only [canonBody, List.cons_append, List.nil_append]
  exact ⟨a.1.trans b.1, a.2.trans b.2⟩

/-- the `to='last'` sweep over sites `k, k+1, …, k+m-1 = N-1` -/
theorem loop_last (N : Nat) (nm : Bool) : ∀ (m k : Nat), k + m = N → ∀ s : St, s.N = N → Clean s →
    (∀ i : Int, 0 ≤ i → i < k → s.gauge i = G.L) →
    (runPrims s (((List.range' k m).map (fun (i : Nat) => (i : Int))).flatMap (canonBody .last nm))).2.1 = none ∧
    Clean (runPrims s (((List.range' k m).map (fun (i : Nat) => (i : Int))).flatMap (canonBody .last nm))).1 ∧
    (∀ i : Int, 0 ≤ i → i < N →
      (runPrims s (((List.range' k m).map (fun (i : Nat) => (i : Int))).flatMap (canonBody .last nm))).1.gauge i = G.L) ∧
    (0 < m → (runPrims s (((List.range' k m).map (fun (i : Nat) => (i : Int))).flatMap (canonBody .last nm))).1.unit = nm) := by
  intro m
  induction m with
  | zero =>
    intro k hk s _ hc hg
    simp only [List.range'_zero, List.map_nil, List.flatMap_nil, runPrims]
    exact ⟨trivial, hc, fun i h0 h1 => hg i h0 (by omega), fun h => absurd h (by omega)⟩
  | succ m ih =>
    intro k hk s hN hc hg
    have hn : 0 ≤ (k : Int) ∧ (k : Int) < (s.N : Int) := by omega
    obtain ⟨a1, a2, a3, a4, a5, a6⟩ := orth_absorb_last hc (k : Int) hn nm
    simp only [List.range'_succ, List.map_cons, List.flatMap_cons]
    obtain ⟨r1, r2⟩ := runPrims_body (((List.range' (k + 1) m).map (fun (i : Nat) => (i : Int))).flatMap (canonBody .last nm)) a1 a2
    rw [r1, r2]
    have hg' : ∀ i : Int, 0 ≤ i → i < ((k + 1 : Nat) : Int) → (absorb (orth s (k : Int) .last nm).1 .last).1.gauge i = G.L := by
      intro i h0 h1
      rw [a6 i]
      have : ¬ (i = (k : Int) + 1 ∧ (k : Int) + 1 ≤ (s.N : Int) - 1) := by omega
      rw [if_neg this]
      by_cases e : i = (k : Int)
      · rw [if_pos e]
      · rw [if_neg e]; exact hg i h0 (by omega)
    obtain ⟨b1, b2, b3, b4⟩ := ih (k + 1) (by omega) _ (a4.trans hN) a3 hg'
    refine ⟨b1, b2, b3, fun _ => ?_⟩
    rcases Nat.eq_zero_or_pos m with rfl | hm
    · simp only [List.range'_zero, List.map_nil, List.flatMap_nil, runPrims]; exact a5
    · exact b4 hm

/-- the `to='first'` sweep over sites `k-1, k-2, …, 0` -/
theorem loop_first (N : Nat) (nm : Bool) : ∀ (k : Nat), k ≤ N → ∀ s : St, s.N = N → Clean s →
    (∀ i : Int, (k : Int) ≤ i → i < N → s.gauge i = G.R) →
    (runPrims s (((List.range k).reverse.map (fun (i : Nat) => (i : Int))).flatMap (canonBody .first nm))).2.1 = none ∧
    Clean (runPrims s (((List.range k).reverse.map (fun (i : Nat) => (i : Int))).flatMap (canonBody .first nm))).1 ∧
    (∀ i : Int, 0 ≤ i → i < N →
      (runPrims s (((List.range k).reverse.map (fun (i : Nat) => (i : Int))).flatMap (canonBody .first nm))).1.gauge i = G.R) ∧
    (0 < k → (runPrims s (((List.range k).reverse.map (fun (i : Nat) => (i : Int))).flatMap (canonBody .first nm))).1.unit = nm) := by
  intro k
  induction k with
  | zero =>
    intro _ s _ hc hg
    simp only [List.range_zero, List.reverse_nil, List.map_nil, List.flatMap_nil, runPrims]
    exact ⟨trivial, hc, fun i h0 h1 => hg i (by omega) h1, fun h => absurd h (by omega)⟩
  | succ k ih =>
    intro hk s hN hc hg
    have hn : 0 ≤ (k : Int) ∧ (k : Int) < (s.N : Int) := by omega
    obtain ⟨a1, a2, a3, a4, a5, a6⟩ := orth_absorb_first hc (k : Int) hn nm
    simp only [List.range_succ, List.reverse_append, List.reverse_cons, List.reverse_nil, List.nil_append,
      List.singleton_append, List.map_cons, List.flatMap_cons]
    obtain ⟨r1, r2⟩ := runPrims_body (((List.range k).reverse.map (fun (i : Nat) => (i : Int))).flatMap (canonBody .first nm)) a1 a2
    rw [r1, r2]
    have hg' : ∀ i : Int, (k : Int) ≤ i → i < N → (absorb (orth s (k : Int) .first nm).1 .first).1.gauge i = G.R := by
      intro i h0 h1
      rw [a6 i]
      have : ¬ (i = (k : Int) - 1 ∧ 1 ≤ (k : Int)) := by omega
      rw [if_neg this]
      by_cases e : i = (k : Int)
      · rw [if_pos e]
      · rw [if_neg e]; exact hg i (by omega) h1
    obtain ⟨b1, b2, b3, b4⟩ := ih (by omega) _ (a4.trans hN) a3 hg'
    refine ⟨b1, b2, b3, fun _ => ?_⟩
    rcases Nat.eq_zero_or_pos k with rfl | hm
    · simp only [List.range_zero, List.reverse_nil, List.map_nil, List.flatMap_nil, runPrims]; exact a5
    · exact b4 hm

/-- **`canonize_`** from any state reachable with in-range arguments -/
theorem canonize_spec {s : St} (h : Good s) (to : Dir) (hto : to ≠ Dir.bad) (nm : Bool) :
    (step s (.canonize to nm)).2.1 = none ∧ Clean (step s (.canonize to nm)).1 ∧
    (∀ i : Int, 0 ≤ i → i < (s.N : Int) → (step s (.canonize to nm)).1.gauge i = to.gauge) ∧
    (0 < s.N → (step s (.canonize to nm)).1.unit = nm) := by
  obtain ⟨⟨g1, g2⟩, g3⟩ := absorb_good h to
  have gN := absorb_N s to
  have e0 : prim s (Call.absorb to) = ((absorb s to).1, none) := Prod.ext rfl g3
  cases to with
  | bad => exact absurd rfl hto
  | last =>
    have L := loop_last s.N nm s.N 0 (by omega) (absorb s .last).1 gN ⟨g1, g2⟩ (fun i h0 h1 => by omega)
    have c := runPrims_cons_none (((List.range' 0 s.N).map (fun (i : Nat) => (i : Int))).flatMap (canonBody .last nm)) e0
    simp only [step, expand, sweep, List.range_eq_range']
    change (match (runPrims s (Call.absorb Dir.last :: ((List.range' 0 s.N).map (fun (i : Nat) => (i : Int))).flatMap (canonBody .last nm))).2.1 with
      | some x => some x | none => none) = none ∧ _
    rw [c.2, L.1]
    refine ⟨rfl, ?_, ?_, ?_⟩
    · change Clean (runPrims s (Call.absorb Dir.last :: ((List.range' 0 s.N).map (fun (i : Nat) => (i : Int))).flatMap (canonBody .last nm))).1
      rw [c.1]; exact L.2.1
    · intro i h0 h1
      change (runPrims s (Call.absorb Dir.last :: ((List.range' 0 s.N).map (fun (i : Nat) => (i : Int))).flatMap (canonBody .last nm))).1.gauge i = _
      rw [c.1]; exact L.2.2.1 i h0 h1
    · intro hN
      change (runPrims s (Call.absorb Dir.last :: ((List.range' 0 s.N).map (fun (i : Nat) => (i : Int))).flatMap (canonBody .last nm))).1.unit = _
      rw [c.1]; exact L.2.2.2 hN
  | first =>
    have L := loop_first s.N nm s.N (Nat.le_refl _) (absorb s .first).1 gN ⟨g1, g2⟩ (fun i h0 h1 => by omega)
    have c := runPrims_cons_none (((List.range s.N).reverse.map (fun (i : Nat) => (i : Int))).flatMap (canonBody .first nm)) e0
    simp only [step, expand, sweep]
    change (match (runPrims s (Call.absorb Dir.first :: ((List.range s.N).reverse.map (fun (i : Nat) => (i : Int))).flatMap (canonBody .first nm))).2.1 with
      | some x => some x | none => none) = none ∧ _
    rw [c.2, L.1]
    refine ⟨rfl, ?_, ?_, ?_⟩
    · change Clean (runPrims s (Call.absorb Dir.first :: ((List.range s.N).reverse.map (fun (i : Nat) => (i : Int))).flatMap (canonBody .first nm))).1
      rw [c.1]; exact L.2.1
    · intro i h0 h1
      change (runPrims s (Call.absorb Dir.first :: ((List.range s.N).reverse.map (fun (i : Nat) => (i : Int))).flatMap (canonBody .first nm))).1.gauge i = _
      rw [c.1]; exact L.2.2.1 i h0 h1
    · intro hN
      change (runPrims s (Call.absorb Dir.first :: ((List.range s.N).reverse.map (fun (i : Nat) => (i : Int))).flatMap (canonBody .first nm))).1.unit = _
      rw [c.1]; exact L.2.2.2 hN

end YModel.Gauge
