import YModel.Tensor
import YProofs.Lemmas.LegLemmas
/-! Strict total order on block keys; `sortDedup` produces strictly ascending duplicate-free lists. -/
namespace YModel

theorem keyLt_irrefl (a : Key) : keyLt a a = false := by
  induction a with
  | nil => rfl
  | cons x xs ih => simp [keyLt, ih, lexLt_irrefl]

theorem keyLt_trichotomy (a b : Key) : keyLt a b = true ∨ a = b ∨ keyLt b a = true := by
  induction a generalizing b with
  | nil => cases b <;> simp [keyLt]
  | cons x xs ih =>
    cases b with
    | nil => simp [keyLt]
    | cons y ys =>
      simp only [keyLt, Bool.or_eq_true, Bool.and_eq_true, beq_iff_eq, List.cons.injEq]
      rcases lexLt_trichotomy x y with h | h | h
      · left; left; exact h
      · subst h
        rcases ih ys with h' | h' | h'
        · left; right; exact ⟨rfl, h'⟩
        · right; left; exact ⟨rfl, h'⟩
        · right; right; right; exact ⟨rfl, h'⟩
      · right; right; left; exact h

theorem keyLt_asymm (a b : Key) : keyLt a b = true → keyLt b a = false := by
  induction a generalizing b with
  | nil => cases b <;> simp [keyLt]
  | cons x xs ih =>
    cases b with
    | nil => simp [keyLt]
    | cons y ys =>
      simp only [keyLt, Bool.or_eq_true, Bool.and_eq_true, beq_iff_eq, Bool.or_eq_false_iff,
        Bool.and_eq_false_imp]
      rintro (h | ⟨h, h'⟩)
      · refine ⟨lexLt_asymm _ _ h, ?_⟩
        intro hyx; subst hyx
        rw [lexLt_irrefl] at h; cases h
      · subst h; exact ⟨lexLt_irrefl _, fun _ => ih ys h'⟩

theorem keyLt_trans (a b c : Key) : keyLt a b = true → keyLt b c = true → keyLt a c = true := by
  induction a generalizing b c with
  | nil => cases b <;> cases c <;> simp [keyLt]
  | cons x xs ih =>
    cases b with
    | nil => simp [keyLt]
    | cons y ys =>
      cases c with
      | nil => simp [keyLt]
      | cons z zs =>
        simp only [keyLt, Bool.or_eq_true, Bool.and_eq_true, beq_iff_eq]
        rintro (h1 | ⟨h1, h1'⟩) (h2 | ⟨h2, h2'⟩)
        · left; exact lexLt_trans _ _ _ h1 h2
        · subst h2; left; exact h1
        · subst h1; left; exact h2
        · subst h1; subst h2; right; exact ⟨rfl, ih ys zs h1' h2'⟩

theorem keyLt_ne {a b : Key} (h : keyLt a b = true) : a ≠ b := by
  intro hab; subst hab; rw [keyLt_irrefl] at h; cases h

/-! ### generic `sortDedup` facts for a strict total order -/

structure StrictTotal {α : Type} (lt : α → α → Bool) : Prop where
  irrefl : ∀ a, lt a a = false
  trans : ∀ a b c, lt a b = true → lt b c = true → lt a c = true
  tri : ∀ a b, lt a b = true ∨ a = b ∨ lt b a = true

theorem keyLt_strictTotal : StrictTotal keyLt := ⟨keyLt_irrefl, keyLt_trans, keyLt_trichotomy⟩

variable {α : Type} {lt : α → α → Bool}

theorem mem_insertSorted (h : StrictTotal lt) (x y : α) (l : List α) :
    y ∈ insertSorted lt x l ↔ y = x ∨ y ∈ l := by
  induction l with
  | nil => simp [insertSorted]
  | cons z zs ih =>
    unfold insertSorted
    split
    · simp
    · split
      · simp only [List.mem_cons, ih]; constructor
        · rintro (h1 | h1 | h1)
          · right; left; exact h1
          · left; exact h1
          · right; right; exact h1
        · rintro (h1 | h1 | h1)
          · right; left; exact h1
          · left; exact h1
          · right; right; exact h1
      · rename_i h1 h2
        have : x = z := by
          rcases h.tri x z with h' | h' | h'
          · exact absurd h' h1
          · exact h'
          · exact absurd h' h2
        subst this
        simp

theorem mem_sortDedup (h : StrictTotal lt) (y : α) (l : List α) : y ∈ sortDedup lt l ↔ y ∈ l := by
  induction l with
  | nil => simp [sortDedup]
  | cons x xs ih => simp [sortDedup, mem_insertSorted h, ih]

theorem pairwise_insertSorted (h : StrictTotal lt) (x : α) (l : List α)
    (hl : l.Pairwise (fun a b => lt a b = true)) : (insertSorted lt x l).Pairwise (fun a b => lt a b = true) := by
  induction l with
  | nil => simp [insertSorted]
  | cons z zs ih =>
    rw [List.pairwise_cons] at hl
    unfold insertSorted
    split
    · rename_i hxz
      refine List.Pairwise.cons ?_ (List.Pairwise.cons hl.1 hl.2)
      intro b hb
      rcases List.mem_cons.mp hb with rfl | hb
      · exact hxz
      · exact h.trans _ _ _ hxz (hl.1 b hb)
    · split
      · rename_i h1 hzx
        refine List.Pairwise.cons ?_ (ih hl.2)
        intro b hb
        rcases (mem_insertSorted h x b zs).mp hb with rfl | hb
        · exact hzx
        · exact hl.1 b hb
      · exact List.Pairwise.cons hl.1 hl.2

theorem pairwise_sortDedup (h : StrictTotal lt) (l : List α) :
    (sortDedup lt l).Pairwise (fun a b => lt a b = true) := by
  induction l with
  | nil => exact List.Pairwise.nil
  | cons x xs ih => exact pairwise_insertSorted h x _ ih

theorem nodup_of_pairwise_lt (h : StrictTotal lt) {l : List α} (hl : l.Pairwise (fun a b => lt a b = true)) : l.Nodup := by
  refine List.Pairwise.imp ?_ hl
  intro a b hab heq
  subst heq
  rw [h.irrefl] at hab; cases hab

/-- two strictly ascending lists with the same members are equal -/
theorem sorted_ext (h : StrictTotal lt) {l₁ l₂ : List α}
    (h₁ : l₁.Pairwise (fun a b => lt a b = true)) (h₂ : l₂.Pairwise (fun a b => lt a b = true))
    (hm : ∀ x, x ∈ l₁ ↔ x ∈ l₂) : l₁ = l₂ := by
  induction l₁ generalizing l₂ with
  | nil =>
    cases l₂ with
    | nil => rfl
    | cons y ys => exact absurd ((hm y).mpr (by simp)) (by simp)
  | cons x xs ih =>
    cases l₂ with
    | nil => exact absurd ((hm x).mp (by simp)) (by simp)
    | cons y ys =>
      rw [List.pairwise_cons] at h₁ h₂
      have hxy : x = y := by
        rcases h.tri x y with h' | h' | h'
        · -- x < y : x must be in y :: ys, so x ∈ ys, then y < x contradiction
          have hx := (hm x).mp (by simp)
          rcases List.mem_cons.mp hx with rfl | hx
          · rfl
          · have := h₂.1 x hx
            have := h.trans _ _ _ h' this
            rw [h.irrefl] at this; cases this
        · exact h'
        · have hy := (hm y).mpr (by simp)
          rcases List.mem_cons.mp hy with rfl | hy
          · rfl
          · have := h₁.1 y hy
            have := h.trans _ _ _ h' this
            rw [h.irrefl] at this; cases this
      subst hxy
      congr 1
      apply ih h₁.2 h₂.2
      intro z
      constructor
      · intro hz
        have := (hm z).mp (by simp [hz])
        rcases List.mem_cons.mp this with rfl | h'
        · have := h₁.1 z hz; rw [h.irrefl] at this; cases this
        · exact h'
      · intro hz
        have := (hm z).mpr (by simp [hz])
        rcases List.mem_cons.mp this with rfl | h'
        · have := h₂.1 z hz; rw [h.irrefl] at this; cases this
        · exact h'

end YModel
