import YModel.JW
