import YProofs.Props.C05
import YProofs.Lemmas.SortLemmas
import YModel.JW
import Mathlib.Data.Int.Cast.Lemmas
/-!
Sign algebra of the Jordan–Wigner embedding.

* `prodE_reorder`: in ANY ring, operators that satisfy the graded commutation rule for out-of-order pairs can be
  brought to the canonical (stably sorted) order at the price of exactly `invSign` = `signCanonicalOrder`.
* `KronSem`: what is used of the Kronecker product `dense : (site ↦ local factor) ↦ dense operator`:
  multiplicativity (mixed-product property) and homogeneity in one factor for integer signs.
* `embed_graded_commute`: the graded commutation rule for `embedAt` from parity-definiteness of the local operators.
-/
namespace YModel.JW
open YModel

theorem cast_sgn_mul_self {D : Type} [Ring D] (k : Int) : ((sgn k : Int) : D) * ((sgn k : Int) : D) = 1 := by
  rw [← Int.cast_mul, sgn_mul_self, Int.cast_one]

section reorder
variable {σ : Type} {D : Type} [Ring D]

/-- an embedded operator of a term: fermionic position, charge, dense operator -/
structure EOp (σ D : Type) where
  pos : σ
  n : Charge
  E : D

def EOp.key (o : EOp σ D) : σ × Charge := (o.pos, o.n)

/-- product in list order (application order: the last operator acts first) -/
def prodE : List (EOp σ D) → D
  | [] => 1
  | o :: rest => o.E * prodE rest

def leE (le : σ → σ → Bool) (a b : EOp σ D) : Bool := le a.pos b.pos

/-- `Σ_{y ∈ S, ¬ x ≤ y} w x y` -/
def crossW (w : Charge → Charge → Int) (le : σ → σ → Bool) (x : EOp σ D) (S : List (EOp σ D)) : Int :=
  ((S.filter (fun y => !le x.pos y.pos)).map (fun y => w x.n y.n)).sum

theorem insert_step (w : Charge → Charge → Int) {le : σ → σ → Bool} (hle : TotalPreorder le) (x : EOp σ D) :
    ∀ (S : List (EOp σ D)), S.Pairwise (fun a b => le a.pos b.pos = true) →
      (∀ y ∈ S, le x.pos y.pos = false → x.E * y.E = ((sgn (w x.n y.n) : Int) : D) * (y.E * x.E)) →
      x.E * prodE S = ((sgn (crossW w le x S) : Int) : D) * prodE (insertBy (leE le) x S) := by
  intro S
  induction S with
  | nil =>
    intro _ _
    simp [prodE, insertBy, crossW, sgn_zero]
  | cons y ys ih =>
    intro hS hgc
    rw [List.pairwise_cons] at hS
    obtain ⟨hy, hys⟩ := hS
    unfold insertBy
    by_cases hxy : le x.pos y.pos = true
    · have hall : ∀ z ∈ y :: ys, le x.pos z.pos = true := by
        intro z hz
        rcases List.mem_cons.mp hz with rfl | hz
        · exact hxy
        · exact hle.trans _ _ _ hxy (hy z hz)
      have hc : crossW w le x (y :: ys) = 0 := by
        unfold crossW
        rw [List.filter_eq_nil_iff.mpr (fun z hz => by simp [hall z hz])]
        rfl
      have : leE le x y = true := hxy
      rw [if_pos this, hc, sgn_zero, Int.cast_one, one_mul]
      rfl
    · have hxy' : le x.pos y.pos = false := by simpa using hxy
      have : ¬ (leE le x y = true) := hxy
      rw [if_neg this]
      have hc : crossW w le x (y :: ys) = w x.n y.n + crossW w le x ys := by
        unfold crossW
        rw [List.filter_cons]
        simp [hxy']
      have ih' := ih hys (fun z hz h => hgc z (List.mem_cons_of_mem _ hz) h)
      have h1 := hgc y (List.mem_cons_self) hxy'
      show x.E * (y.E * prodE ys) = _ * (y.E * prodE (insertBy (leE le) x ys))
      rw [← mul_assoc, h1, mul_assoc, mul_assoc, ih', hc, sgn_add, Int.cast_mul]
      rw [mul_assoc ((sgn (w x.n y.n) : Int) : D)]
      congr 1
      rw [← mul_assoc y.E, ← Int.cast_comm, mul_assoc]

/-- **reordering theorem**: if every out-of-order pair obeys the graded commutation rule, the product in the user's
order equals `invSign` (= `signCanonicalOrder`, C05) times the product in the canonical order (stable sort by
fermionic position; operators at the same position keep their order). -/
theorem prodE_reorder (f : Fermionic) {le : σ → σ → Bool} (hle : TotalPreorder le) :
    ∀ (ops : List (EOp σ D)),
      (∀ a ∈ ops, ∀ b ∈ ops, le a.pos b.pos = false → a.E * b.E = ((sgn (f.weight a.n b.n) : Int) : D) * (b.E * a.E)) →
      prodE ops = ((invSign f le (ops.map EOp.key) : Int) : D) * prodE (isort (leE le) ops) := by
  intro ops
  induction ops with
  | nil =>
    intro _
    simp [prodE, isort, invSign, invCount, sgn_zero]
  | cons x xs ih =>
    intro hgc
    have ih' := ih (fun a ha b hb => hgc a (List.mem_cons_of_mem _ ha) b (List.mem_cons_of_mem _ hb))
    have hsorted : (isort (leE le) xs).Pairwise (fun a b => le a.pos b.pos = true) :=
      isort_pairwise (leE le) (fun a b c => hle.trans a.pos b.pos c.pos)
        (fun a b => by
          rcases hle.total a.pos b.pos with h | h
          · simp [leE, h]
          · simp [leE, h]) xs
    have hstep := insert_step f.weight hle x (isort (leE le) xs) hsorted
      (fun y hy h => hgc x List.mem_cons_self y (List.mem_cons_of_mem _ ((isort_perm _ xs).mem_iff.mp hy)) h)
    have hcross : crossW f.weight le x (isort (leE le) xs) = crossW f.weight le x xs :=
      perm_sum_map _ ((isort_perm _ xs).filter _)
    have hinv : invCount f.weight le ((x :: xs).map EOp.key)
        = crossW f.weight le x xs + invCount f.weight le (xs.map EOp.key) := by
      simp only [List.map_cons, EOp.key, invCount]
      congr 1
      unfold crossW
      rw [List.filter_map, List.map_map]
      rfl
    show x.E * prodE xs = _ * prodE (insertBy (leE le) x (isort (leE le) xs))
    rw [ih', ← mul_assoc, ← Int.cast_comm, mul_assoc, hstep, hcross]
    unfold invSign
    rw [hinv, sgn_add, Int.cast_mul, ← mul_assoc, ← Int.cast_mul, ← Int.cast_mul, Int.mul_comm]

end reorder

/-! ### Kronecker semantics and graded commutation of embeddings -/

/-- the properties of the Kronecker product `⨂_{l<k} a l` used by the sign algebra -/
structure KronSem (L D : Type) [Ring L] [Ring D] (k : Nat) where
  dense : (Nat → L) → D
  /-- only the factors at the sites `< k` matter -/
  dense_congr : ∀ a b : Nat → L, (∀ l, l < k → a l = b l) → dense a = dense b
  /-- mixed-product property `(⨂ a)(⨂ b) = ⨂ (a·b)` -/
  dense_mul : ∀ a b : Nat → L, dense (fun l => a l * b l) = dense a * dense b
  /-- a sign on one factor is a sign on the product -/
  dense_sign : ∀ (a : Nat → L) (m : Nat) (s : Int), m < k →
    dense (Function.update a m ((s : L) * a m)) = (s : D) * dense a

section graded
variable {L D : Type} [Ring L] [Ring D] {k : Nat}

theorem weight_comm (f : Fermionic) (a b : Charge) : f.weight a b = f.weight b a := by
  cases f with
  | all =>
    simp only [Fermionic.weight, dotAll]
    congr 1
    induction a generalizing b with
    | nil => cases b <;> rfl
    | cons x xs ih =>
      cases b with
      | nil => rfl
      | cons y ys => simp only [List.zipWith_cons_cons, ih ys, Int.mul_comm]
  | none => rfl
  | mask m => exact fdot_comm m a b

/-- `A` is parity-definite of charge `nA` w.r.t. the string operators `z`: `Z^{m} A = (−1)^{⟨nA, m⟩} A Z^{m}` -/
def Graded (w : Charge → Charge → Int) (z : Charge → L) (A : L) (nA : Charge) : Prop :=
  ∀ m, z m * A = ((sgn (w nA m) : Int) : L) * (A * z m)

/-- one-sided statement: the operator placed EARLIER in the fermionic order meets the string of the later one -/
theorem embed_graded_commute_lt (S : KronSem L D k) (w : Charge → Charge → Int) (z : Charge → L) (fpos : Nat → Int)
    (hzz : ∀ a b, z a * z b = z b * z a)
    {i j : Nat} (hi : i < k) (hij : fpos i < fpos j) (hne : i ≠ j)
    (A B : L) (nA nB : Charge) (hA : Graded w z A nA) :
    S.dense (embedAt 1 z fpos j B nB) * S.dense (embedAt 1 z fpos i A nA)
      = ((sgn (w nA nB) : Int) : D) * (S.dense (embedAt 1 z fpos i A nA) * S.dense (embedAt 1 z fpos j B nB)) := by
  rw [← S.dense_mul, ← S.dense_mul]
  rw [← S.dense_sign _ i _ hi]
  apply S.dense_congr
  intro l _
  by_cases hl : l = i
  · subst hl
    simp only [Function.update_self, embedAt, if_true, if_neg hne, if_pos hij]
    exact hA nB
  · rw [Function.update_of_ne hl]
    simp only [embedAt, if_neg hl]
    by_cases hlj : l = j
    · subst hlj
      have : ¬ (fpos l < fpos i) := by omega
      simp only [if_true, if_neg this, one_mul, mul_one]
    · simp only [if_neg hlj]
      by_cases h1 : fpos l < fpos i <;> by_cases h2 : fpos l < fpos j <;>
        simp only [h1, h2, if_true, if_false, one_mul, mul_one, hzz]

end graded
end YModel.JW
