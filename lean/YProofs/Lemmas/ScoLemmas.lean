import YProofs.Lemmas.SwapLemmas
/-! The selection loop of `sign_canonical_order` extracts, in every round, the FIRST minimal site;
the pairs it records are exactly the inversions it removes. -/
namespace YModel
variable {σ : Type}

/-- `le` (= `f_ordered`) is a total preorder -/
structure TotalPreorder (le : σ → σ → Bool) : Prop where
  total : ∀ a b, le a b = true ∨ le b a = true
  trans : ∀ a b c, le a b = true → le b c = true → le a c = true

theorem TotalPreorder.refl {le : σ → σ → Bool} (h : TotalPreorder le) (a : σ) : le a a = true := by
  rcases h.total a a with h | h <;> exact h

/-- specification of the inner loop: the returned index splits the list at its first minimal element -/
theorem selectFirst_spec {le : σ → σ → Bool} (h : TotalPreorder le) :
    ∀ (rest pre : List σ) (cur : σ) (mid : List σ),
      (∀ p ∈ pre, le p cur = false) → (∀ q ∈ mid, le cur q = true) →
      ∃ pre' x post', pre ++ cur :: (mid ++ rest) = pre' ++ x :: post' ∧
        selectFirst le pre.length cur (pre.length + 1 + mid.length) rest = pre'.length ∧
        (∀ p ∈ pre', le p x = false) ∧ (∀ q ∈ post', le x q = true) := by
  intro rest
  induction rest with
  | nil =>
    intro pre cur mid hp hm
    exact ⟨pre, cur, mid, by simp, rfl, hp, hm⟩
  | cons s rest ih =>
    intro pre cur mid hp hm
    unfold selectFirst
    by_cases hcs : le cur s = true
    · rw [if_pos hcs]
      obtain ⟨pre', x, post', h1, h2, h3, h4⟩ := ih pre cur (mid ++ [s]) hp (by
        intro q hq
        rcases List.mem_append.mp hq with hq | hq
        · exact hm q hq
        · simp at hq; subst hq; exact hcs)
      refine ⟨pre', x, post', ?_, ?_, h3, h4⟩
      · rw [← h1]; simp
      · rw [← h2]; simp [Nat.add_assoc]
    · rw [if_neg hcs]
      have hcs' : le cur s = false := by simpa using hcs
      have hsc : le s cur = true := by
        rcases h.total cur s with h' | h'
        · exact absurd h' hcs
        · exact h'
      obtain ⟨pre', x, post', h1, h2, h3, h4⟩ := ih (pre ++ cur :: mid) s [] (by
        intro p hp'
        rcases List.mem_append.mp hp' with hp' | hp'
        · -- p ∈ pre : p > cur ≥ s
          cases hps : le p s with
          | false => rfl
          | true => have := h.trans p s cur hps hsc; rw [hp p hp'] at this; exact absurd this (by decide)
        · rcases List.mem_cons.mp hp' with rfl | hp'
          · exact hcs'
          · cases hps : le p s with
            | false => rfl
            | true => have := h.trans cur p s (hm p hp') hps; rw [hcs'] at this; exact absurd this (by decide))
        (by intro q hq; simp at hq)
      have e1 : (pre ++ cur :: mid).length = pre.length + 1 + mid.length := by simp; omega
      rw [e1] at h2
      refine ⟨pre', x, post', ?_, ?_, h3, h4⟩
      · rw [← h1]; simp
      · rw [← h2]; rfl

theorem selectFirst_spec0 {le : σ → σ → Bool} (h : TotalPreorder le) (s0 : σ) (rest : List σ) :
    ∃ pre x post, s0 :: rest = pre ++ x :: post ∧ selectFirst le 0 s0 1 rest = pre.length ∧
      (∀ p ∈ pre, le p x = false) ∧ (∀ q ∈ post, le x q = true) := by
  have := selectFirst_spec h rest [] s0 [] (by intro p hp; simp at hp) (by intro q hq; simp at hq)
  simpa using this

/-! ### inversions -/

theorem invCount_zero (w : Charge → Charge → Int) (hw : ∀ a b, w a b = 0) (le : σ → σ → Bool) :
    ∀ l : List (σ × Charge), invCount w le l = 0 := by
  intro l
  induction l with
  | nil => rfl
  | cons x xs ih =>
    obtain ⟨s, n⟩ := x
    unfold invCount
    rw [ih, sum_map_zero _ _ (fun q _ => hw _ _)]; rfl

/-- removing the first minimal element `x` removes exactly the inversions `(p, x)`, `p` in front of it -/
theorem invCount_extract (w : Charge → Charge → Int) (le : σ → σ → Bool) (x : σ × Charge) (post : List (σ × Charge))
    (hpost : ∀ q ∈ post, le x.1 q.1 = true) :
    ∀ pre : List (σ × Charge), (∀ p ∈ pre, le p.1 x.1 = false) →
      invCount w le (pre ++ x :: post) = (pre.map (fun p => w p.2 x.2)).sum + invCount w le (pre ++ post) := by
  intro pre
  induction pre with
  | nil =>
    intro _
    obtain ⟨s, n⟩ := x
    simp only [List.nil_append, List.map_nil, List.sum_nil, Int.zero_add, invCount]
    have : post.filter (fun q => !le s q.1) = [] := by
      rw [List.filter_eq_nil_iff]
      intro q hq
      simp [hpost q hq]
    rw [this]; simp
  | cons p pre ih =>
    intro hpre
    obtain ⟨sp, np⟩ := p
    have hpx : le sp x.1 = false := hpre (sp, np) (List.mem_cons_self ..)
    have ih' := ih (fun q hq => hpre q (List.mem_cons_of_mem _ hq))
    simp only [List.cons_append, List.map_cons, List.sum_cons, invCount]
    rw [ih']
    simp only [List.filter_append, List.map_append, List.sum_append, List.filter_cons, hpx, Bool.not_false,
      if_true, List.map_cons, List.sum_cons]
    omega

theorem getD_append_cons {α} (P : List α) (X : α) (Q : List α) (d : α) : (P ++ X :: Q).getD P.length d = X := by
  simp [List.getD_eq_getElem?_getD]

theorem take_append_cons {α} (P : List α) (X : α) (Q : List α) : (P ++ X :: Q).take P.length = P := by
  simp

theorem eraseIdx_append_cons {α} (P : List α) (X : α) (Q : List α) : (P ++ X :: Q).eraseIdx P.length = P ++ Q := by
  induction P with
  | nil => rfl
  | cons p P ih => simp [List.eraseIdx_cons_succ, ih]

/-- the pairs recorded by the `while` loop carry exactly the weight of all inversions -/
theorem scoPairs_sum (w : Charge → Charge → Int) {le : σ → σ → Bool} (h : TotalPreorder le) :
    ∀ (n : Nat) (ops : List (σ × Charge)), ops.length ≤ n →
      ((scoPairs le n ops).map (fun pr => w pr.1 pr.2)).sum = invCount w le ops := by
  intro n
  induction n with
  | zero =>
    intro ops hl
    have : ops = [] := List.eq_nil_of_length_eq_zero (by omega)
    subst this; rfl
  | succ n ih =>
    intro ops hl
    cases ops with
    | nil => rfl
    | cons o rest =>
      obtain ⟨s0, c0⟩ := o
      unfold scoPairs
      obtain ⟨pre, x, post, hsplit, hk, hpre, hpost⟩ := selectFirst_spec0 h s0 (rest.map (·.1))
      have hmap : ((s0, c0) :: rest).map (·.1) = pre ++ x :: post := by simpa using hsplit
      obtain ⟨P, R, hPR, hP, hR⟩ := List.map_eq_append_iff.mp hmap
      obtain ⟨X, Q, hXQ, hX, hQ⟩ := List.map_eq_cons_iff.mp hR
      subst hXQ
      have hlen : pre.length = P.length := by rw [← hP, List.length_map]
      simp only []
      rw [hk, hlen, hPR, getD_append_cons, take_append_cons, eraseIdx_append_cons]
      rw [List.map_append, List.sum_append, List.map_map]
      have hlen2 : (P ++ Q).length ≤ n := by
        have : (P ++ X :: Q).length ≤ n + 1 := by rw [← hPR]; exact hl
        simp at this ⊢; omega
      rw [ih (P ++ Q) hlen2]
      have hpre' : ∀ p ∈ P, le p.1 X.1 = false := by
        intro p hp
        rw [hX]
        exact hpre p.1 (by rw [← hP]; exact List.mem_map_of_mem hp)
      have hpost' : ∀ q ∈ Q, le X.1 q.1 = true := by
        intro q hq
        rw [hX]
        exact hpost q.1 (by rw [← hQ]; exact List.mem_map_of_mem hq)
      rw [invCount_extract w le X Q hpost' P hpre']
      rfl

theorem zipWith_map_fst_snd {α β γ} (g : α → β → γ) (ps : List (α × β)) :
    List.zipWith g (ps.map (·.1)) (ps.map (·.2)) = ps.map (fun pr => g pr.1 pr.2) := by
  induction ps with
  | nil => rfl
  | cons p ps ih => simp [ih]

/-- exchanging two adjacent operators at sites in the wrong order removes exactly their inversion -/
theorem invCount_swap_adjacent (w : Charge → Charge → Int) {le : σ → σ → Bool} (h : TotalPreorder le)
    (a b : σ × Charge) (hab : le a.1 b.1 = false) (post : List (σ × Charge)) :
    ∀ pre : List (σ × Charge),
      invCount w le (pre ++ a :: b :: post) = w a.2 b.2 + invCount w le (pre ++ b :: a :: post) := by
  have hba : le b.1 a.1 = true := by
    rcases h.total a.1 b.1 with h' | h'
    · rw [hab] at h'; exact absurd h' (by decide)
    · exact h'
  intro pre
  induction pre with
  | nil =>
    obtain ⟨sa, na⟩ := a
    obtain ⟨sb, nb⟩ := b
    simp only [List.nil_append]
    simp only at hab hba
    simp only [invCount, List.filter_cons, hab, hba, Bool.not_false, Bool.not_true, if_true, List.map_cons, List.sum_cons]
    simp
    omega
  | cons p pre ih =>
    obtain ⟨sp, np⟩ := p
    simp only [List.cons_append, invCount]
    rw [ih]
    simp only [List.filter_append, List.map_append, List.sum_append, List.filter_cons]
    by_cases h1 : le sp a.1 = true <;> by_cases h2 : le sp b.1 = true <;> simp [h1, h2] <;> omega

/-! ### helpers of the property theorems -/

theorem tpSign_sq (k : Int) : tpSign k * tpSign k = 1 := by
  unfold tpSign; split <;> decide

theorem scale_scale (s : Int) (hs : s * s = 1) (b : SBlock) : (b.scale s).scale s = b := by
  obtain ⟨ts, d⟩ := b
  simp only [SBlock.scale, List.map_map]
  congr 1
  conv => rhs; rw [← List.map_id d]
  apply List.map_congr_left
  intro x _
  simp only [Function.comp, id]
  rw [← Int.mul_assoc, hs, Int.one_mul]

theorem scale_one (b : SBlock) : b.scale 1 = b := by
  obtain ⟨ts, d⟩ := b
  simp [SBlock.scale]

theorem swapGateTpOf_bosonic (nsym : Nat) (fss : List Bool) (hf : ∀ x ∈ fss, x = false)
    (ps : List (List Nat × List Nat)) (ts : List Charge) : swapGateTpOf nsym fss ps ts = 0 := by
  unfold swapGateTpOf
  rw [sum_map_zero _ _ (fun g _ => by unfold pairTerm; exact fdot_allFalse _ _ _ hf)]; rfl

theorem groupCharge_getD (nsym : Nat) (ts : List Charge) (g : List Nat) (j : Nat) :
    (groupCharge nsym ts g).getD j 0 = if j < nsym then (g.map (fun l => (ts.getD l []).getD j 0)).sum else 0 := by
  unfold groupCharge
  by_cases h : j < nsym
  · rw [getD_lt _ _ (by simpa using h), if_pos h]; simp
  · rw [getD_ge _ _ (by simpa using Nat.le_of_not_lt h), if_neg h]

theorem perm_sum_map {α} (f : α → Int) {l l' : List α} (h : l.Perm l') : (l.map f).sum = (l'.map f).sum := by
  induction h with
  | nil => rfl
  | cons x _ ih => simp only [List.map_cons, List.sum_cons, ih]
  | swap x y l => simp only [List.map_cons, List.sum_cons]; omega
  | trans _ _ ih1 ih2 => rw [ih1, ih2]

theorem weight_falsy (f : Fermionic) (hf : f.truthy = false) (a b : Charge) : f.weight a b = 0 := by
  cases f with
  | all => simp [Fermionic.truthy] at hf
  | none => rfl
  | mask m =>
    simp only [Fermionic.truthy, Bool.not_eq_false', List.isEmpty_iff] at hf
    subst hf; rfl

theorem invCount_of_pairwise {σ : Type} (w : Charge → Charge → Int) (le : σ → σ → Bool) :
    ∀ ops : List (σ × Charge), ops.Pairwise (fun a b => le a.1 b.1 = true) → invCount w le ops = 0 := by
  intro ops
  induction ops with
  | nil => intro _; rfl
  | cons o rest ih =>
    intro h
    obtain ⟨s, n⟩ := o
    rw [List.pairwise_cons] at h
    simp only [invCount]
    have : rest.filter (fun q => !le s q.1) = [] := by
      rw [List.filter_eq_nil_iff]
      intro q hq
      simp [h.1 q hq]
    rw [this, ih h.2]; rfl

theorem sum_map_mul (l : List Int) (n : Int) : (l.map (· * n)).sum = l.sum * n := by
  induction l with
  | nil => simp
  | cons x xs ih => simp only [List.map_cons, List.sum_cons, ih, Int.add_mul]

end YModel
