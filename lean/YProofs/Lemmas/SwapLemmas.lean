import YModel.Swap
/-! Helper lemmas for C05 (signs, the fermionic bilinear form, the selection loop of
`sign_canonical_order`).  Core Lean only. -/
namespace YModel

theorem emod2 (k : Int) : k % 2 = 0 ∨ k % 2 = 1 := by omega

theorem getD_lt {α} (l : List α) (d : α) {i : Nat} (h : i < l.length) : l.getD i d = l[i] := by
  simp [List.getD_eq_getElem?_getD, h]

theorem getD_ge {α} (l : List α) (d : α) {i : Nat} (h : l.length ≤ i) : l.getD i d = d := by
  simp [List.getD_eq_getElem?_getD, h]

/-! ### `sgn` -/

theorem sgn_cases (k : Int) : sgn k = 1 ∨ sgn k = -1 := by
  unfold sgn
  rcases emod2 k with h | h <;> rw [h] <;> simp

theorem sgn_of_even {k : Int} (h : k % 2 = 0) : sgn k = 1 := by unfold sgn; rw [h]; rfl
theorem sgn_of_odd {k : Int} (h : k % 2 = 1) : sgn k = -1 := by unfold sgn; rw [h]; rfl

theorem sgn_zero : sgn 0 = 1 := by decide

theorem sgn_add (a b : Int) : sgn (a + b) = sgn a * sgn b := by
  unfold sgn
  rw [Int.add_emod a b 2]
  rcases emod2 a with ha | ha <;> rcases emod2 b with hb | hb <;>
    rw [ha, hb] <;> decide

theorem sgn_emod (k : Int) : sgn (k % 2) = sgn k := by
  unfold sgn
  rw [Int.emod_emod_of_dvd k (by decide : (2 : Int) ∣ 2)]

theorem sgn_congr {a b : Int} (h : a % 2 = b % 2) : sgn a = sgn b := by unfold sgn; rw [h]

theorem sgn_mul_self (k : Int) : sgn k * sgn k = 1 := by
  rcases sgn_cases k with h | h <;> rw [h] <;> decide

/-- toggling the same swap twice is a no-op (Z₂ structure) -/
theorem sgn_double (k : Int) : sgn (k + k) = 1 := by rw [sgn_add, sgn_mul_self]

theorem sgn_mul_parity (a b : Int) : sgn (a * b) = sgn ((a % 2) * (b % 2)) := by
  apply sgn_congr
  rw [Int.mul_emod a b 2]

theorem tpSign_emod (k : Int) : tpSign (k % 2) = sgn k := by
  unfold tpSign sgn
  rcases emod2 k with h | h <;> rw [h] <;> decide

/-- product of a list of signs -/
def sprod (l : List Int) : Int := l.foldr (· * ·) 1

theorem sgn_sum (l : List Int) : sgn l.sum = sprod (l.map sgn) := by
  induction l with
  | nil => decide
  | cons x xs ih => simp only [List.sum_cons, List.map_cons, sprod, List.foldr_cons] at *; rw [sgn_add, ih]

/-! ### sums -/

theorem sum_map_zero {α} (f : α → Int) (l : List α) (h : ∀ x ∈ l, f x = 0) : (l.map f).sum = 0 := by
  induction l with
  | nil => rfl
  | cons x xs ih =>
    simp only [List.map_cons, List.sum_cons]
    rw [h x (List.mem_cons_self ..), ih (fun y hy => h y (List.mem_cons_of_mem _ hy))]; rfl

theorem sum_map_congr {α} (f g : α → Int) (l : List α) (h : ∀ x ∈ l, f x = g x) : (l.map f).sum = (l.map g).sum := by
  rw [List.map_congr_left h]

theorem sum_map_emod_congr {α} (f g : α → Int) (l : List α) (h : ∀ x ∈ l, f x % 2 = g x % 2) :
    (l.map f).sum % 2 = (l.map g).sum % 2 := by
  induction l with
  | nil => rfl
  | cons x xs ih =>
    simp only [List.map_cons, List.sum_cons]
    rw [Int.add_emod, h x (List.mem_cons_self ..), ih (fun y hy => h y (List.mem_cons_of_mem _ hy)), ← Int.add_emod]

/-! ### `fdot` -/

theorem fdot_comm (fss : List Bool) (a b : Charge) : fdot fss a b = fdot fss b a := by
  unfold fdot
  apply sum_map_congr
  intro j _
  rw [Int.mul_comm]

theorem fdot_allFalse (fss : List Bool) (a b : Charge) (h : ∀ x ∈ fss, x = false) : fdot fss a b = 0 := by
  unfold fdot
  apply sum_map_zero
  intro j hj
  have hj' : j < fss.length := List.mem_range.mp hj
  have : fss.getD j false = false := by
    rw [getD_lt _ _ hj']
    exact h _ (List.getElem_mem hj')
  rw [this]; rfl

theorem fdot_nil (a b : Charge) : fdot [] a b = 0 := rfl

/-- only the components declared fermionic, and only their parities, enter `fdot … mod 2` -/
theorem fdot_emod_congr (fss : List Bool) (a b a' b' : Charge)
    (ha : ∀ j, fss.getD j false = true → a.getD j 0 % 2 = a'.getD j 0 % 2)
    (hb : ∀ j, fss.getD j false = true → b.getD j 0 % 2 = b'.getD j 0 % 2) :
    fdot fss a b % 2 = fdot fss a' b' % 2 := by
  unfold fdot
  apply sum_map_emod_congr
  intro j _
  by_cases hf : fss.getD j false = true
  · simp only [hf, if_true]
    rw [Int.mul_emod, ha j hf, hb j hf, ← Int.mul_emod]
  · simp only [hf]; rfl

theorem cmod2_getD (c : Charge) (j : Nat) : (cmod2 c).getD j 0 = c.getD j 0 % 2 := by
  unfold cmod2
  by_cases h : j < c.length
  · rw [getD_lt _ _ (by simpa using h), getD_lt _ _ h, List.getElem_map]
  · have h' : c.length ≤ j := Nat.le_of_not_lt h
    rw [getD_ge _ _ (by simpa using h'), getD_ge _ _ h']; rfl

theorem fdot_cmod2 (fss : List Bool) (a b : Charge) : fdot fss (cmod2 a) (cmod2 b) % 2 = fdot fss a b % 2 := by
  apply fdot_emod_congr <;> intro j _ <;> rw [cmod2_getD] <;> exact Int.emod_emod_of_dvd _ (by decide)

theorem fdot_cmod2_right (fss : List Bool) (a b : Charge) : fdot fss a (cmod2 b) % 2 = fdot fss a b % 2 := by
  apply fdot_emod_congr
  · intro j _; rfl
  · intro j _; rw [cmod2_getD]; exact Int.emod_emod_of_dvd _ (by decide)

/-- `fdot` with the all-true mask is the plain dot product (charges of length ≤ n) -/
theorem dotAll_eq_sum_range : ∀ (a b : Charge) (n : Nat), a.length ≤ n →
    dotAll a b = ((List.range n).map (fun j => a.getD j 0 * b.getD j 0)).sum := by
  intro a
  induction a with
  | nil =>
    intro b n _
    rw [sum_map_zero]
    · rfl
    · intro j _; simp
  | cons x xs ih =>
    intro b n hn
    cases b with
    | nil =>
      rw [sum_map_zero]
      · rfl
      · intro j _; simp
    | cons y ys =>
      cases n with
      | zero => simp at hn
      | succ n =>
        have hn' : xs.length ≤ n := by simpa using hn
        rw [List.range_succ_eq_map, List.map_cons, List.sum_cons, List.map_map]
        have := ih ys n hn'
        simp only [dotAll, List.zipWith_cons_cons, List.sum_cons] at this ⊢
        rw [this]
        simp [Function.comp_def]

theorem fdot_replicate_true (n : Nat) (a b : Charge) (h : a.length ≤ n) :
    fdot (List.replicate n true) a b = dotAll a b := by
  rw [dotAll_eq_sum_range a b n h]
  unfold fdot
  rw [List.length_replicate]
  apply sum_map_congr
  intro j hj
  have hj' : j < n := List.mem_range.mp hj
  rw [getD_lt _ _ (by simpa using hj')]
  simp

end YModel
