import YProofs.Lemmas.DenseIndex
/-! `tensordot a b [a.rank-1] [0]`: the outer/inner parts of keys and shapes in plain list form. -/
namespace YModel

theorem complement_last (n : Nat) : complementAxes (n + 1) [n] = List.range n := by
  unfold complementAxes
  rw [List.range_succ, List.filter_append]
  have h1 : (List.range n).filter (fun i => !([n].contains i)) = List.range n := by
    apply List.filter_eq_self.mpr
    intro i hi
    have := List.mem_range.mp hi
    simp; omega
  have h2 : [n].filter (fun i => !([n].contains i)) = [] := by simp
  rw [h1, h2, List.append_nil]

theorem complement_first (n : Nat) : complementAxes (n + 1) [0] = (List.range n).map (· + 1) := by
  unfold complementAxes
  rw [List.range_succ_eq_map, List.filter_cons]
  simp only [List.contains_cons, List.contains_nil, Bool.or_false, beq_self_eq_true, Bool.not_true, Bool.false_eq_true, if_false]
  apply List.filter_eq_self.mpr
  intro i hi
  obtain ⟨k, _, rfl⟩ := List.mem_map.mp hi
  simp

theorem pick_range_take {α} [Inhabited α] (l : List α) (n : Nat) (h : n ≤ l.length) : pick l (List.range n) = l.take n := by
  apply List.ext_getElem (by simp [pick_length]; omega)
  intro i h1 h2
  simp only [pick, List.getElem_map, List.getElem_range, List.getElem_take]
  have : i < l.length := by simp [List.length_take] at h2; omega
  simp [List.getD, this]

theorem pick_succ_tail {α} [Inhabited α] (l : List α) (n : Nat) (h : l.length = n + 1) :
    pick l ((List.range n).map (· + 1)) = l.tail := by
  cases l with
  | nil => simp at h
  | cons x xs =>
    simp only [List.tail_cons]
    simp only [List.length_cons, Nat.add_right_cancel_iff] at h
    apply List.ext_getElem (by simp [pick_length, h])
    intro i h1 h2
    simp only [pick, List.getElem_map, List.getElem_range]
    simp [List.getD, h2]

theorem pick_single {α} [Inhabited α] (l : List α) (n : Nat) : pick l [n] = [l.getD n default] := rfl

/-- a list of length `n+1` is its first `n` entries followed by its last one -/
theorem split_last {α} [Inhabited α] (l : List α) (n : Nat) (h : l.length = n + 1) :
    l = l.take n ++ [l.getD n default] := by
  conv_lhs => rw [← List.take_append_drop n l]
  congr 1
  apply List.ext_getElem (by simp [h])
  intro i h1 h2
  simp at h2; subst h2
  simp [List.getD, (by omega : n < l.length)]

theorem split_first {α} [Inhabited α] (l : List α) (n : Nat) (h : l.length = n + 1) :
    l = l.getD 0 default :: l.tail := by
  cases l with
  | nil => simp at h
  | cons x xs => simp [List.getD]

/-- assembling the index of the left operand: outer part followed by the contracted position -/
theorem assemble_last (n : Nat) (i : List Nat) (m : Nat) (hi : i.length = n) :
    assemble (n + 1) (List.range n) i [n] [m] = i ++ [m] := by
  unfold assemble
  apply List.ext_getElem (by simp [hi])
  intro p h1 h2
  simp only [List.getElem_map, List.getElem_range, List.length_range]
  simp only [List.length_map, List.length_range] at h1
  by_cases hp : p < n
  · have hidx : (List.range n).idxOf p = p := by
      have := List.Nodup.idxOf_getElem (List.nodup_range (n := n)) p (by simpa using hp)
      simpa using this
    rw [hidx, if_pos hp]
    rw [List.getElem_append_left (by omega)]
    simp [List.getD, hi, hp]
  · have hpn : p = n := by omega
    subst hpn
    have hidx : (List.range p).idxOf p = p := by
      have := List.idxOf_eq_length (a := p) (l := List.range p) (by simp)
      simpa using this
    rw [hidx, if_neg (by omega)]
    rw [List.getElem_append_right (by omega)]
    simp [hi]

/-- assembling the index of the right operand: contracted position followed by the outer part -/
theorem assemble_first (n : Nat) (j : List Nat) (m : Nat) (hj : j.length = n) :
    assemble (n + 1) ((List.range n).map (· + 1)) j [0] [m] = m :: j := by
  unfold assemble
  apply List.ext_getElem (by simp [hj])
  intro p h1 h2
  simp only [List.getElem_map, List.getElem_range, List.length_map, List.length_range]
  simp only [List.length_map, List.length_range] at h1
  cases p with
  | zero =>
    have hidx : ((List.range n).map (· + 1)).idxOf 0 = n := by
      have := List.idxOf_eq_length (a := 0) (l := (List.range n).map (· + 1)) (by simp)
      simpa using this
    rw [hidx, if_neg (by omega)]
    simp
  | succ q =>
    have hq : q < n := by omega
    have hidx : ((List.range n).map (· + 1)).idxOf (q + 1) = q := by
      have hnd : ((List.range n).map (· + 1)).Nodup := List.Nodup.map (fun a b h => by omega) List.nodup_range
      have := List.Nodup.idxOf_getElem hnd q (by simpa using hq)
      simpa using this
    rw [hidx, if_pos hq]
    simp [List.getD, hj, hq]

end YModel
