import YModel.Cache
/-! Single-step lemmas about the LRU model (`YModel/Cache.lean`). -/
namespace YModel
variable {α β : Type} [DecidableEq α]

namespace LRU

/-- every stored value is the value of the function at its key -/
def Coherent (f : α → β) (c : LRU α β) : Prop := ∀ p ∈ c.entries, p.2 = f p.1

/-- the table respects its capacity -/
def Bounded (c : LRU α β) : Prop := c.size ≤ c.cap

/-- no key is stored twice -/
def KeysNodup (c : LRU α β) : Prop := c.keys.Nodup

theorem find?_some {c : LRU α β} {x : α} {y : β} (h : c.find? x = some y) : (x, y) ∈ c.entries := by
  unfold find? at h
  split at h
  · rename_i p hp
    have h1 := List.find?_some hp
    have h2 := List.mem_of_find?_eq_some hp
    simp only [decide_eq_true_eq] at h1
    cases h
    rw [← h1]
    exact h2
  · cases h

theorem find?_none {c : LRU α β} {x : α} : c.find? x = none ↔ x ∉ c.keys := by
  unfold find? keys
  constructor
  · intro h
    split at h
    · cases h
    · rename_i hn
      rw [List.find?_eq_none] at hn
      intro hx
      obtain ⟨p, hp, hpx⟩ := List.mem_map.mp hx
      exact hn p hp (by simpa using hpx)
  · intro h
    split
    · rename_i p hp
      exfalso
      have h1 := List.find?_some hp
      have h2 := List.mem_of_find?_eq_some hp
      simp only [decide_eq_true_eq] at h1
      exact h (List.mem_map.mpr ⟨p, h2, h1⟩)
    · rfl

theorem find?_isSome_iff {c : LRU α β} {x : α} : (c.find? x).isSome = true ↔ x ∈ c.keys := by
  cases h : c.find? x with
  | none => simp [find?_none.mp h]
  | some y =>
    simp only [Option.isSome_some, true_iff]
    exact List.mem_map.mpr ⟨(x, y), find?_some h, rfl⟩

/-- the hit flag of a call: hit iff the key is among the entries -/
theorem call_hit_iff (f : α → β) (c : LRU α β) (x : α) : (c.call f x).2.2 = true ↔ x ∈ c.keys := by
  unfold call
  cases h : c.find? x with
  | none => simp [find?_none.mp h]
  | some y =>
    simp only [true_iff]
    exact List.mem_map.mpr ⟨(x, y), find?_some h, rfl⟩

/-- a call does not change the capacity -/
theorem call_cap (f : α → β) (c : LRU α β) (x : α) : (c.call f x).1.cap = c.cap := by
  unfold call; split <;> rfl

/-- a call on a coherent table returns `f x` -/
theorem call_value (f : α → β) {c : LRU α β} (hc : c.Coherent f) (x : α) : (c.call f x).2.1 = f x := by
  unfold call
  cases h : c.find? x with
  | none => rfl
  | some y => exact hc (x, y) (find?_some h)

/-- a call preserves coherence -/
theorem call_coherent (f : α → β) {c : LRU α β} (hc : c.Coherent f) (x : α) : (c.call f x).1.Coherent f := by
  unfold call
  cases h : c.find? x with
  | none =>
    intro p hp
    have hp' := List.mem_of_mem_take hp
    rcases List.mem_cons.mp hp' with rfl | hp''
    · rfl
    · exact hc p hp''
  | some y =>
    intro p hp
    rcases List.mem_cons.mp hp with rfl | hp''
    · exact hc (x, y) (find?_some h)
    · exact hc p (List.mem_filter.mp hp'').1

/-- a call preserves the capacity bound -/
theorem call_bounded (f : α → β) {c : LRU α β} (hc : c.Bounded) (x : α) : (c.call f x).1.Bounded := by
  unfold Bounded size at *
  unfold call
  cases h : c.find? x with
  | none =>
    simp only [List.length_take]
    exact Nat.min_le_left _ _
  | some y =>
    simp only [List.length_cons]
    have hmem := find?_some h
    have hlt : (c.entries.filter (fun p => p.1 ≠ x)).length < c.entries.length := by
      apply List.length_filter_lt_length_iff_exists.mpr
      exact ⟨(x, y), hmem, by simp⟩
    omega

/-- a call preserves uniqueness of keys -/
theorem call_keysNodup (f : α → β) {c : LRU α β} (hc : c.KeysNodup) (x : α) : (c.call f x).1.KeysNodup := by
  unfold KeysNodup keys at *
  unfold call
  cases h : c.find? x with
  | none =>
    have hx : x ∉ c.entries.map (·.1) := find?_none.mp h
    have hnd : (((x, f x) :: c.entries).map (·.1)).Nodup := by
      simp only [List.map_cons, List.nodup_cons]
      exact ⟨hx, hc⟩
    exact List.Nodup.sublist (List.Sublist.map _ (List.take_sublist _ _)) hnd
  | some y =>
    simp only [List.map_cons, List.nodup_cons]
    constructor
    · intro hx
      obtain ⟨p, hp, hpx⟩ := List.mem_map.mp hx
      have := (List.mem_filter.mp hp).2
      simp only [ne_eq, decide_not, Bool.not_eq_eq_eq_not, Bool.not_true, decide_eq_false_iff_not] at this
      exact this hpx
    · exact List.Nodup.sublist (List.Sublist.map _ List.filter_sublist) hc

/-- size after a call, with unique keys: a hit keeps the size, a miss adds one entry up to the capacity -/
theorem call_size (f : α → β) {c : LRU α β} (hn : c.KeysNodup) (x : α) :
    (c.call f x).1.size = if x ∈ c.keys then c.size else min c.cap (c.size + 1) := by
  unfold size
  unfold call
  cases h : c.find? x with
  | none =>
    have hx : x ∉ c.keys := find?_none.mp h
    simp only [hx, if_false, List.length_take, List.length_cons]
  | some y =>
    have hmem := find?_some h
    have hx : x ∈ c.keys := List.mem_map.mpr ⟨(x, y), hmem, rfl⟩
    simp only [hx, if_true, List.length_cons]
    -- exactly one entry carries key x
    have hcount : ∀ (l : List (α × β)), (l.map (·.1)).Nodup → x ∈ l.map (·.1) →
        (l.filter (fun p => p.1 ≠ x)).length + 1 = l.length := by
      intro l
      induction l with
      | nil => intro _ hx; cases hx
      | cons q l ih =>
        intro hnd hx
        simp only [List.map_cons, List.nodup_cons] at hnd
        by_cases hq : q.1 = x
        · have hnot : x ∉ l.map (·.1) := hq ▸ hnd.1
          have hall : l.filter (fun p => p.1 ≠ x) = l := by
            apply List.filter_eq_self.mpr
            intro p hp
            have : p.1 ≠ x := fun hpx => hnot (List.mem_map.mpr ⟨p, hp, hpx⟩)
            exact decide_eq_true this
          rw [List.filter_cons_of_neg (by simp [hq]), hall, List.length_cons]
        · have hx' : x ∈ l.map (·.1) := by
            rw [List.map_cons] at hx
            rcases List.mem_cons.mp hx with h1 | h1
            · exact absurd h1.symm hq
            · exact h1
          have := ih hnd.2 hx'
          rw [List.filter_cons_of_pos (by simp [hq]), List.length_cons, List.length_cons, this]
    exact hcount c.entries hn hx

omit [DecidableEq α] in
theorem empty_coherent (f : α → β) (n : Nat) : (empty n : LRU α β).Coherent f := by
  intro p hp; cases hp

omit [DecidableEq α] in
theorem empty_bounded (n : Nat) : (empty n : LRU α β).Bounded := Nat.zero_le _

omit [DecidableEq α] in
theorem empty_keysNodup (n : Nat) : (empty n : LRU α β).KeysNodup := List.nodup_nil

/-- capacity 0 stores nothing -/
theorem call_cap_zero (f : α → β) {c : LRU α β} (h0 : c.cap = 0) (he : c.entries = []) (x : α) :
    (c.call f x).1.entries = [] ∧ (c.call f x).2.2 = false := by
  unfold call find?
  simp [he, h0]

end LRU

namespace Cache

/-! ### generic: an invariant of the table that is preserved by every event holds along every history -/

theorem step_lru_call (f : α → β) (c : Cache α β) (x : α) :
    (c.step f (.call x)).1.lru = (c.lru.call f x).1 ∧ (c.step f (.call x)).2 = some (c.lru.call f x).2 := by
  unfold step
  constructor
  · dsimp only; split <;> rfl
  · rfl

theorem step_preserves {P : LRU α β → Prop} (f : α → β)
    (hcall : ∀ c x, P c → P (c.call f x).1) (hempty : ∀ n, P (LRU.empty n))
    (hclear : ∀ c : LRU α β, P c.clear) (c : Cache α β) (hc : P c.lru) (e : Ev α) : P (c.step f e).1.lru := by
  cases e with
  | call x => rw [(step_lru_call f c x).1]; exact hcall _ _ hc
  | clear => exact hclear _
  | resize n => exact hempty n

theorem trace_preserves {P : LRU α β → Prop} (f : α → β)
    (hcall : ∀ c x, P c → P (c.call f x).1) (hempty : ∀ n, P (LRU.empty n))
    (hclear : ∀ c : LRU α β, P c.clear) (c : Cache α β) (hc : P c.lru) (evs : List (Ev α)) :
    (∀ p ∈ c.trace f evs, P p.1.lru) ∧ P (c.final f evs).lru := by
  induction evs generalizing c with
  | nil => exact ⟨fun p hp => (by cases hp), hc⟩
  | cons e es ih =>
    have h1 := step_preserves f hcall hempty hclear c hc e
    obtain ⟨ih1, ih2⟩ := ih (c.step f e).1 h1
    refine ⟨?_, ih2⟩
    intro p hp
    unfold trace at hp
    rcases List.mem_cons.mp hp with rfl | hp'
    · exact h1
    · exact ih1 p hp'

theorem trace_append (f : α → β) (c : Cache α β) (a b : List (Ev α)) :
    c.trace f (a ++ b) = c.trace f a ++ (c.final f a).trace f b := by
  induction a generalizing c with
  | nil => rfl
  | cons e es ih => simp only [List.cons_append, trace, final, ih]

theorem trace_length (f : α → β) (c : Cache α β) (evs : List (Ev α)) : (c.trace f evs).length = evs.length := by
  induction evs generalizing c with
  | nil => rfl
  | cons e es ih => simp only [trace, List.length_cons, ih]

end Cache


end YModel
