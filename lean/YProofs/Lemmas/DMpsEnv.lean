import YProofs.Lemmas.DMpsBasic
/-! Two-layer environments (`Env2`): the left recursion started from a rank-one boundary computes the inner
product of the two represented vectors. -/
namespace YModel.DMps
open Finset
variable {K : Type} [CommRing K] [HasConj K]

/-- function-level `Env2.update_env_to_last` -/
def envStepLF (B Kt : Site K) (E : Nat → Nat → K) : Nat → Nat → K := fun b' k' =>
  if b' < B.Dr ∧ k' < Kt.Dr then
    ∑ s ∈ range B.dk, ∑ t ∈ range B.db, ∑ b ∈ range B.Dl, ∑ k ∈ range Kt.Dl,
      HasConj.conj (B.a s t b b') * (E b k * Kt.a s t k k')
  else 0

def envLF : List (Site K) → List (Site K) → (Nat → Nat → K) → (Nat → Nat → K)
  | B :: Bs, Kt :: Ks, E => envLF Bs Ks (envStepLF B Kt E)
  | _, _, E => E

theorem Mat_get_fun (m n : Nat) (f : Nat → Nat → K) :
    (mkMat m n f).get = fun i j => if i < m ∧ j < n then f i j else 0 := by
  funext i j; exact mkMat_get m n f i j

theorem envStepL_get (B Kt : Site K) (E : Mat K) : (envStepL B Kt E).get = envStepLF B Kt E.get := by
  unfold envStepL envStepLF
  rw [Mat_get_fun]
  funext b' k'
  simp only [sumN_eq]

theorem envL_get (Bs Ks : List (Site K)) (E : Mat K) : (envL Bs Ks E).get = envLF Bs Ks E.get := by
  induction Bs generalizing Ks E with
  | nil => cases Ks <;> rfl
  | cons B Bs ih =>
    cases Ks with
    | nil => rfl
    | cons Kt Ks => simp only [envL, envLF]; rw [ih, envStepL_get]

theorem envStepLF_add (B Kt : Site K) (E F : Nat → Nat → K) :
    envStepLF B Kt (fun b k => E b k + F b k) = fun b k => envStepLF B Kt E b k + envStepLF B Kt F b k := by
  funext b' k'
  unfold envStepLF
  by_cases h : b' < B.Dr ∧ k' < Kt.Dr
  · simp only [h, and_self, if_true, add_mul, mul_add, sum_add_distrib]
  · simp [h]

theorem envStepLF_zero (B Kt : Site K) : envStepLF B Kt (fun _ _ => (0 : K)) = fun _ _ => 0 := by
  funext b' k'; unfold envStepLF; simp

theorem envLF_add (Bs Ks : List (Site K)) (E F : Nat → Nat → K) :
    envLF Bs Ks (fun b k => E b k + F b k) = fun b k => envLF Bs Ks E b k + envLF Bs Ks F b k := by
  induction Bs generalizing Ks E F with
  | nil => cases Ks <;> rfl
  | cons B Bs ih =>
    cases Ks with
    | nil => rfl
    | cons Kt Ks => simp only [envLF]; rw [envStepLF_add, ih]

theorem envLF_zero (Bs Ks : List (Site K)) (h : Bs.length = Ks.length) :
    envLF Bs Ks (fun _ _ => (0 : K)) = fun _ _ => 0 := by
  induction Bs generalizing Ks with
  | nil => cases Ks <;> rfl
  | cons B Bs ih =>
    cases Ks with
    | nil => rfl
    | cons Kt Ks => simp only [envLF]; rw [envStepLF_zero, ih Ks (by simpa using h)]

theorem envLF_sum {ι : Type} (S : Finset ι) (Bs Ks : List (Site K)) (h : Bs.length = Ks.length) (E : ι → Nat → Nat → K) :
    envLF Bs Ks (fun b k => ∑ j ∈ S, E j b k) = fun b k => ∑ j ∈ S, envLF Bs Ks (E j) b k := by
  classical
  induction S using Finset.induction_on with
  | empty => simp only [sum_empty]; exact envLF_zero Bs Ks h
  | insert a S ha ih =>
    simp only [sum_insert ha]
    rw [envLF_add, ih]

/-- the laws of complex conjugation (a ring homomorphism) -/
structure ConjLaws (K : Type) [CommRing K] [HasConj K] : Prop where
  add : ∀ a b : K, HasConj.conj (a + b) = HasConj.conj a + HasConj.conj b
  mul : ∀ a b : K, HasConj.conj (a * b) = HasConj.conj a * HasConj.conj b
  zero : HasConj.conj (0 : K) = 0
  one : HasConj.conj (1 : K) = 1

theorem conj_sum (hc : ConjLaws K) (n : Nat) (f : Nat → K) :
    HasConj.conj (∑ i ∈ range n, f i) = ∑ i ∈ range n, HasConj.conj (f i) := by
  induction n with
  | zero => simp [hc.zero]
  | succ n ih => rw [sum_range_succ, sum_range_succ, hc.add, ih]

/-- rank-one boundary `conj(vb) ⊗ vk` -/
def rank1 (vb vk : Nat → K) : Nat → Nat → K := fun b k => HasConj.conj (vb b) * vk k

theorem envStepLF_rank1 (hc : ConjLaws K) (B Kt : Site K) (vb vk : Nat → K) :
    envStepLF B Kt (rank1 vb vk)
      = fun b' k' => ∑ s ∈ range B.dk, ∑ t ∈ range B.db, rank1 (stepF vb B s t) (stepF vk Kt s t) b' k' := by
  funext b' k'
  unfold envStepLF rank1 stepF
  by_cases h : b' < B.Dr ∧ k' < Kt.Dr
  · simp only [h, and_self, if_true]
    apply sum_congr rfl; intro s _
    apply sum_congr rfl; intro t _
    rw [conj_sum hc, sum_mul_sum]
    apply sum_congr rfl; intro b _
    apply sum_congr rfl; intro k _
    rw [hc.mul]; ring
  · simp only [h, if_false]
    symm
    apply sum_eq_zero; intro s _
    apply sum_eq_zero; intro t _
    by_cases h1 : b' < B.Dr
    · have h2 : ¬ k' < Kt.Dr := fun h' => h ⟨h1, h'⟩
      simp [h2]
    · simp [h1, hc.zero]

/-- sum over all configurations of a list of `(ket, bra)` dimensions -/
def sumCfg : List (Nat × Nat) → (Config → K) → K
  | [], f => f []
  | d :: ds, f => ∑ s ∈ range d.1, ∑ t ∈ range d.2, sumCfg ds (fun c => f ((s, t) :: c))

theorem envLF_rank1 (hc : ConjLaws K) : ∀ (Bs Ks : List (Site K)) (vb vk : Nat → K), Bs.length = Ks.length →
    envLF Bs Ks (rank1 vb vk) 0 0
      = sumCfg (Bs.map (fun A => (A.dk, A.db))) (fun c => HasConj.conj (runF Bs c vb 0) * runF Ks c vk 0)
  | [], [], vb, vk, _ => by simp [envLF, sumCfg, runF, rank1]
  | [], _ :: _, _, _, h => by simp at h
  | _ :: _, [], _, _, h => by simp at h
  | B :: Bs, Kt :: Ks, vb, vk, h => by
    have h' : Bs.length = Ks.length := by simpa using h
    simp only [envLF, List.map_cons, sumCfg]
    rw [envStepLF_rank1 hc, envLF_sum _ _ _ h']
    simp only
    apply sum_congr rfl; intro s _
    rw [envLF_sum _ _ _ h']
    simp only
    apply sum_congr rfl; intro t _
    rw [envLF_rank1 hc Bs Ks _ _ h']
    simp only [runF, List.headD_cons, List.tail_cons]

end YModel.DMps
