import YProofs.Lemmas.DMpsBasic
/-! Kronecker-fused bonds: the transfer step through `mulSite W A` factorises. -/
namespace YModel.DMps
open Finset
variable {K : Type} [CommRing K]

theorem sum_range_mul' (m n : Nat) (f : Nat → K) :
    ∑ l ∈ range (m * n), f l = ∑ i ∈ range m, ∑ j ∈ range n, f (i * n + j) := by
  induction m with
  | zero => simp
  | succ m ih => rw [Nat.succ_mul, sum_range_add, ih, sum_range_succ]

/-- fused boundary vector `l = la * D + lb` -/
def kron (D : Nat) (va vb : Nat → K) : Nat → K := fun l => va (l / D) * vb (l % D)

theorem lt_mul_iff (r m n : Nat) : r < m * n ↔ r / n < m ∧ r % n < n := by
  rcases Nat.eq_zero_or_pos n with h | h
  · subst h; simp
  · constructor
    · intro hr
      exact ⟨(Nat.div_lt_iff_lt_mul h).mpr hr, Nat.mod_lt _ h⟩
    · intro ⟨h1, _⟩
      exact (Nat.div_lt_iff_lt_mul h).mp h1

theorem stepF_mulSite (W A : Site K) (va vb : Nat → K) (s t : Nat) :
    stepF (kron A.Dl va vb) (mulSite W A) s t
      = fun r => ∑ u ∈ range W.db, kron A.Dr (stepF va W s u) (stepF vb A u t) r := by
  funext r
  unfold stepF kron
  simp only [mulSite, sumN_eq]
  by_cases hr : r < W.Dr * A.Dr
  · obtain ⟨h1, h2⟩ := (lt_mul_iff r W.Dr A.Dr).mp hr
    simp only [hr, h1, h2, if_true]
    rw [sum_range_mul']
    have : ∀ i ∈ range W.Dl, ∀ j ∈ range A.Dl,
        va ((i * A.Dl + j) / A.Dl) * vb ((i * A.Dl + j) % A.Dl) *
          ∑ u ∈ range W.db, W.a s u ((i * A.Dl + j) / A.Dl) (r / A.Dr) * A.a u t ((i * A.Dl + j) % A.Dl) (r % A.Dr)
        = ∑ u ∈ range W.db, (va i * W.a s u i (r / A.Dr)) * (vb j * A.a u t j (r % A.Dr)) := by
      intro i _ j hj
      have hj' := mem_range.mp hj
      have hpos : 0 < A.Dl := by omega
      have e1 : (i * A.Dl + j) / A.Dl = i := by
        rw [Nat.add_comm, Nat.add_mul_div_right _ _ hpos, Nat.div_eq_of_lt hj', Nat.zero_add]
      have e2 : (i * A.Dl + j) % A.Dl = j := by
        rw [Nat.add_comm, Nat.add_mul_mod_self_right, Nat.mod_eq_of_lt hj']
      rw [e1, e2, mul_sum]
      exact sum_congr rfl (fun u _ => by ring)
    rw [sum_congr rfl (fun i hi => sum_congr rfl (fun j hj => this i hi j hj))]
    rw [sum_congr rfl (fun i _ => sum_comm)]
    rw [sum_comm]
    apply sum_congr rfl
    intro u _
    rw [sum_mul_sum]
  · have hr' : ¬ (r / A.Dr < W.Dr ∧ r % A.Dr < A.Dr) := fun h => hr ((lt_mul_iff r W.Dr A.Dr).mpr h)
    simp only [hr, if_false]
    symm
    apply sum_eq_zero
    intro u _
    by_cases h1 : r / A.Dr < W.Dr
    · have h2 : ¬ r % A.Dr < A.Dr := fun h => hr' ⟨h1, h⟩
      simp [h2]
    · simp [h1]

/-- sum over the contracted physical indices, one per site -/
def sumU : List Nat → (List Nat → K) → K
  | [], f => f []
  | d :: ds, f => ∑ u ∈ range d, sumU ds (fun us => f (u :: us))

/-- configurations of the two factors for the intermediate indices `us` -/
def cfgA : Config → List Nat → Config
  | st :: σ, u :: us => (st.1, u) :: cfgA σ us
  | _, _ => []
def cfgB : Config → List Nat → Config
  | st :: σ, u :: us => (u, st.2) :: cfgB σ us
  | _, _ => []

/-- matching bonds inside the right factor -/
def Matching : List (Site K) → Prop
  | [] => True
  | [_] => True
  | A :: B :: rest => A.Dr = B.Dl ∧ Matching (B :: rest)

theorem runF_mul : ∀ (Ws As : List (Site K)) (σ : Config) (va vb : Nat → K),
    Ws.length = As.length → σ.length = As.length → Matching As →
    runF (List.zipWith mulSite Ws As) σ (kron (headSite As).Dl va vb) 0
      = sumU (Ws.map (·.db)) (fun us => runF Ws (cfgA σ us) va 0 * runF As (cfgB σ us) vb 0)
  | [], [], _, va, vb, _, _, _ => by simp [runF, sumU, kron]
  | [], _ :: _, _, _, _, h, _, _ => by simp at h
  | _ :: _, [], _, _, _, h, _, _ => by simp at h
  | _ :: _, _ :: _, [], _, _, _, h, _ => by simp at h
  | W :: Ws, A :: As, st :: σ, va, vb, hl, hs, hm => by
    simp only [List.zipWith_cons_cons, runF, List.headD_cons, List.tail_cons, headSite, List.map_cons, sumU]
    rw [stepF_mulSite, runF_sum]
    apply sum_congr rfl
    intro u _
    have hl' : Ws.length = As.length := by simpa using hl
    have hs' : σ.length = As.length := by simpa using hs
    have hm' : Matching As := by
      cases As with
      | nil => trivial
      | cons B rest => exact hm.2
    have hD : A.Dr = (headSite As).Dl ∨ As = [] := by
      cases As with
      | nil => right; rfl
      | cons B rest => left; exact hm.1
    rcases hD with hD | hD
    · rw [hD, runF_mul Ws As σ _ _ hl' hs' hm']
      simp only [cfgA, cfgB, runF, List.headD_cons, List.tail_cons]
    · subst hD
      have : Ws = [] := by cases Ws with | nil => rfl | cons _ _ => simp at hl'
      subst this
      simp [runF, sumU, kron, cfgA, cfgB]

end YModel.DMps
