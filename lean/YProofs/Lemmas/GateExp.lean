import Mathlib.Analysis.Normed.Algebra.MatrixExponential
import Mathlib.Analysis.SpecialFunctions.Exponential
/-!
# Exponentials of linear combinations of orthogonal idempotents

Everything the closed-form gates of `yastn/tn/fpeps/gates.py` need, in an arbitrary complete normed
`𝕂`-algebra (`𝕂 = ℝ` or `ℂ`), proved directly from the exponential series:

* `exp_sum_orth_idem` : `exp (Σ_{i∈s} aᵢ • Eᵢ) = 1 + Σ_{i∈s} (exp aᵢ − 1) • Eᵢ` for pairwise orthogonal idempotents;
* `exp_spectral`      : … `= Σ_i exp aᵢ • Eᵢ` when moreover `Σ Eᵢ = 1`;
* `exp_smul_idem`, `exp_smul_of_sq_one`, `exp_smul_of_cube_eq`.
-/
open NormedSpace

namespace YModel.GateExp

variable {𝕂 𝔸 : Type*} [RCLike 𝕂] [NormedRing 𝔸] [NormedAlgebra 𝕂 𝔸] [CompleteSpace 𝔸]

omit [CompleteSpace 𝔸] in
/-- powers of `Σ aᵢ Eᵢ` for pairwise orthogonal idempotents -/
theorem pow_sum_orth_idem {ι : Type*} [DecidableEq ι] (s : Finset ι) (E : ι → 𝔸) (a : ι → 𝕂)
    (hidem : ∀ i ∈ s, E i * E i = E i) (horth : ∀ i ∈ s, ∀ j ∈ s, i ≠ j → E i * E j = 0)
    (n : ℕ) (hn : 0 < n) : (∑ i ∈ s, a i • E i) ^ n = ∑ i ∈ s, a i ^ n • E i := by
  induction n with
  | zero => omega
  | succ k ih =>
    rcases Nat.eq_zero_or_pos k with h | h
    · subst h; simp
    · rw [pow_succ, ih h, Finset.sum_mul_sum]
      refine Finset.sum_congr rfl (fun i hi => ?_)
      rw [Finset.sum_eq_single i]
      · rw [smul_mul_smul_comm, hidem i hi, pow_succ]
      · intro j hj hji
        rw [smul_mul_smul_comm, horth i hi j hj (Ne.symm hji), smul_zero]
      · intro h'; exact absurd hi h'

/-- **Exponential of a combination of pairwise orthogonal idempotents** (no completeness of the family needed). -/
theorem exp_sum_orth_idem {ι : Type*} [DecidableEq ι] (s : Finset ι) (E : ι → 𝔸) (a : ι → 𝕂)
    (hidem : ∀ i ∈ s, E i * E i = E i) (horth : ∀ i ∈ s, ∀ j ∈ s, i ≠ j → E i * E j = 0) :
    exp (∑ i ∈ s, a i • E i) = 1 + ∑ i ∈ s, (exp (a i) - 1) • E i := by
  have hs := NormedSpace.exp_series_hasSum_exp' (𝕂 := 𝕂) (∑ i ∈ s, a i • E i)
  have hr : ∀ i, HasSum (fun n : ℕ => ((n.factorial : 𝕂)⁻¹ • a i ^ n)) (exp (a i)) :=
    fun i => NormedSpace.exp_series_hasSum_exp' (𝕂 := 𝕂) (a i)
  have hd : HasSum (fun n : ℕ => if n = 0 then (1 : 𝕂) else 0) 1 := by
    simpa using hasSum_ite_eq (0 : ℕ) (1 : 𝕂)
  have hdA : HasSum (fun n : ℕ => if n = 0 then (1 : 𝔸) else 0) 1 := by
    simpa using hasSum_ite_eq (0 : ℕ) (1 : 𝔸)
  have h2 : HasSum (fun n : ℕ => ∑ i ∈ s,
      (((n.factorial : 𝕂)⁻¹ • a i ^ n) - (if n = 0 then 1 else 0)) • E i)
      (∑ i ∈ s, (exp (a i) - 1) • E i) :=
    hasSum_sum (fun i _ => ((hr i).sub hd).smul_const (E i))
  have h3 := hdA.add h2
  have h1 : ∀ n : ℕ, ((n.factorial : 𝕂)⁻¹ • (∑ i ∈ s, a i • E i) ^ n)
      = (if n = 0 then (1 : 𝔸) else 0)
        + ∑ i ∈ s, (((n.factorial : 𝕂)⁻¹ • a i ^ n) - (if n = 0 then 1 else 0)) • E i := by
    intro n
    rcases Nat.eq_zero_or_pos n with h | h
    · subst h; simp
    · have hn : n ≠ 0 := by omega
      rw [pow_sum_orth_idem s E a hidem horth n h, Finset.smul_sum]
      simp [hn, smul_smul]
  rw [funext h1] at hs
  exact hs.unique h3

/-- **Spectral form**: for a complete family (`Σ Eᵢ = 1`) of pairwise orthogonal idempotents,
`exp (Σ aᵢ Eᵢ) = Σ exp(aᵢ) Eᵢ`. -/
theorem exp_spectral {ι : Type*} [Fintype ι] [DecidableEq ι] (E : ι → 𝔸) (a : ι → 𝕂)
    (hidem : ∀ i, E i * E i = E i) (horth : ∀ i j, i ≠ j → E i * E j = 0) (hsum : ∑ i, E i = 1) :
    exp (∑ i, a i • E i) = ∑ i, exp (a i) • E i := by
  rw [exp_sum_orth_idem Finset.univ E a (fun i _ => hidem i) (fun i _ j _ h => horth i j h)]
  simp only [sub_smul, one_smul, Finset.sum_sub_distrib, hsum]
  abel

/-- a single idempotent: `exp (a • P) = 1 + (exp a − 1) • P` -/
theorem exp_smul_idem (P : 𝔸) (hP : P * P = P) (a : 𝕂) : exp (a • P) = 1 + (exp a - 1) • P := by
  have := exp_sum_orth_idem (𝕂 := 𝕂) ({()} : Finset Unit) (fun _ => P) (fun _ => a) (fun _ _ => hP)
    (fun i _ j _ h => absurd (Subsingleton.elim i j) h)
  simpa using this

/-- two orthogonal idempotents -/
theorem exp_two_orth_idem (P Q : 𝔸) (hP : P * P = P) (hQ : Q * Q = Q) (hPQ : P * Q = 0) (hQP : Q * P = 0)
    (a b : 𝕂) : exp (a • P + b • Q) = 1 + ((exp a - 1) • P + (exp b - 1) • Q) := by
  have := exp_sum_orth_idem (𝕂 := 𝕂) (Finset.univ : Finset (Fin 2)) ![P, Q] ![a, b]
    (by intro i _; fin_cases i <;> simp [hP, hQ])
    (by intro i _ j _ h; fin_cases i <;> fin_cases j <;> simp_all)
  simpa [Fin.sum_univ_two] using this

/-- involution: `X² = 1 ⇒ exp (θ • X) = ((e^θ + e^{−θ})/2) • 1 + ((e^θ − e^{−θ})/2) • X` -/
theorem exp_smul_of_sq_one (X : 𝔸) (hX : X * X = 1) (θ : 𝕂) :
    exp (θ • X) = ((exp θ + exp (-θ)) / 2) • (1 : 𝔸) + ((exp θ - exp (-θ)) / 2) • X := by
  have h2 : (2 : 𝕂) ≠ 0 := two_ne_zero
  set P : 𝔸 := (2⁻¹ : 𝕂) • (1 + X) with hPdef
  set Q : 𝔸 := (2⁻¹ : 𝕂) • (1 - X) with hQdef
  have hP : P * P = P := by
    simp only [hPdef, smul_mul_smul_comm, mul_add, add_mul, mul_one, one_mul, hX]
    rw [show (1 : 𝔸) + X + (X + 1) = (2 : 𝕂) • (1 + X) by rw [two_smul]; abel, smul_smul]
    congr 1; field_simp
  have hQ : Q * Q = Q := by
    simp only [hQdef, smul_mul_smul_comm, mul_sub, sub_mul, mul_one, one_mul, hX]
    rw [show (1 : 𝔸) - X - (X - 1) = (2 : 𝕂) • (1 - X) by rw [two_smul]; abel, smul_smul]
    congr 1; field_simp
  have hPQ : P * Q = 0 := by
    simp only [hPdef, hQdef, smul_mul_smul_comm, mul_sub, add_mul, mul_one, one_mul, hX]
    rw [show (1 : 𝔸) + X - (X + 1) = 0 by abel, smul_zero]
  have hQP : Q * P = 0 := by
    simp only [hPdef, hQdef, smul_mul_smul_comm, mul_add, sub_mul, mul_one, one_mul, hX]
    rw [show (1 : 𝔸) - X + (X - 1) = 0 by abel, smul_zero]
  have hx : θ • X = θ • P + (-θ) • Q := by
    simp only [hPdef, hQdef, smul_smul, smul_add, smul_sub]
    match_scalars <;> field_simp <;> ring
  rw [hx, exp_two_orth_idem P Q hP hQ hPQ hQP]
  simp only [hPdef, hQdef, smul_smul, smul_add, smul_sub]
  match_scalars <;> field_simp <;> ring

/-- tripotent: `K³ = K ⇒ exp (θ • K) = 1 + ((e^θ + e^{−θ})/2 − 1) • K² + ((e^θ − e^{−θ})/2) • K` -/
theorem exp_smul_of_cube_eq (K : 𝔸) (hK : K * K * K = K) (θ : 𝕂) :
    exp (θ • K) = 1 + ((exp θ + exp (-θ)) / 2 - 1) • (K * K) + ((exp θ - exp (-θ)) / 2) • K := by
  have h2 : (2 : 𝕂) ≠ 0 := two_ne_zero
  have hK4 : K * K * (K * K) = K * K := by rw [← mul_assoc, hK]
  have hK3' : K * (K * K) = K := by rw [← mul_assoc, hK]
  set P : 𝔸 := (2⁻¹ : 𝕂) • (K * K + K) with hPdef
  set Q : 𝔸 := (2⁻¹ : 𝕂) • (K * K - K) with hQdef
  have hP : P * P = P := by
    simp only [hPdef, smul_mul_smul_comm, mul_add, add_mul, hK4, hK, hK3']
    rw [show K * K + K + (K + K * K) = (2 : 𝕂) • (K * K + K) by rw [two_smul]; abel, smul_smul]
    congr 1; field_simp
  have hQ : Q * Q = Q := by
    simp only [hQdef, smul_mul_smul_comm, mul_sub, sub_mul, hK4, hK, hK3']
    rw [show K * K - K - (K - K * K) = (2 : 𝕂) • (K * K - K) by rw [two_smul]; abel, smul_smul]
    congr 1; field_simp
  have hPQ : P * Q = 0 := by
    simp only [hPdef, hQdef, smul_mul_smul_comm, mul_sub, add_mul, hK4, hK, hK3']
    rw [show K * K + K - (K + K * K) = 0 by abel, smul_zero]
  have hQP : Q * P = 0 := by
    simp only [hPdef, hQdef, smul_mul_smul_comm, mul_add, sub_mul, hK4, hK, hK3']
    rw [show K * K - K + (K - K * K) = 0 by abel, smul_zero]
  have hx : θ • K = θ • P + (-θ) • Q := by
    simp only [hPdef, hQdef, smul_smul, smul_add, smul_sub]
    match_scalars <;> field_simp <;> ring
  rw [hx, exp_two_orth_idem P Q hP hQ hPQ hQP]
  simp only [hPdef, hQdef, smul_smul, smul_add, smul_sub]
  match_scalars <;> field_simp <;> ring

end YModel.GateExp
