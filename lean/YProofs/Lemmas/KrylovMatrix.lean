import Mathlib.Data.Matrix.Mul
import Mathlib.Algebra.Polynomial.AlgebraMap
import Mathlib.LinearAlgebra.Matrix.Polynomial
/-!
# Abstract exactness lemmas behind C18: a basis `V` with `f V = V T`

For `f : Module.End K E`, `V : Fin m → E`, `T : Matrix (Fin m) (Fin m) K` with
`hFV : ∀ j, f (V j) = ∑ i, T i j • V i` (the span of `V` is `f`-invariant and `T` is the matrix of `f` on it; `V`
need NOT be linearly independent or orthonormal) every polynomial of `f` acts on `V y := ∑ j, y j • V j`
through the same polynomial of the small matrix `T`.
-/
namespace YModel.Krylov

variable {K E : Type} [Field K] [AddCommGroup E] [Module K E] {m : Nat}

/-- `V y = Σ_j y_j V_j` -/
def comb (V : Fin m → E) (y : Fin m → K) : E := ∑ j, y j • V j

theorem comb_add (V : Fin m → E) (y z : Fin m → K) : comb V (y + z) = comb V y + comb V z := by
  simp [comb, add_smul, Finset.sum_add_distrib]

theorem comb_smul (V : Fin m → E) (a : K) (y : Fin m → K) : comb V (a • y) = a • comb V y := by
  simp [comb, Finset.smul_sum, smul_smul]

/-- `f (V y) = V (T y)` -/
theorem apply_comb (f : Module.End K E) (V : Fin m → E) (T : Matrix (Fin m) (Fin m) K)
    (hFV : ∀ j, f (V j) = ∑ i, T i j • V i) (y : Fin m → K) :
    f (comb V y) = comb V (T.mulVec y) := by
  unfold comb
  rw [map_sum]
  simp only [map_smul, hFV, Finset.smul_sum, smul_smul, Matrix.mulVec, dotProduct, Finset.sum_smul]
  rw [Finset.sum_comm]
  refine Finset.sum_congr rfl (fun i _ => Finset.sum_congr rfl (fun j _ => ?_))
  rw [mul_comm]

theorem pow_apply_comb (f : Module.End K E) (V : Fin m → E) (T : Matrix (Fin m) (Fin m) K)
    (hFV : ∀ j, f (V j) = ∑ i, T i j • V i) (k : Nat) (y : Fin m → K) :
    (f ^ k) (comb V y) = comb V ((T ^ k).mulVec y) := by
  induction k generalizing y with
  | zero => simp
  | succ k ih =>
    rw [pow_succ, Module.End.mul_apply, apply_comb f V T hFV, ih, Matrix.mulVec_mulVec, pow_succ]

theorem aeval_apply_comb (f : Module.End K E) (V : Fin m → E) (T : Matrix (Fin m) (Fin m) K)
    (hFV : ∀ j, f (V j) = ∑ i, T i j • V i) (p : Polynomial K) (y : Fin m → K) :
    (Polynomial.aeval f p) (comb V y) = comb V ((Polynomial.aeval T p).mulVec y) := by
  induction p using Polynomial.induction_on' with
  | add p q hp hq =>
    rw [map_add, map_add, LinearMap.add_apply, hp, hq, Matrix.add_mulVec, comb_add]
  | monomial n a =>
    rw [Polynomial.aeval_monomial, Polynomial.aeval_monomial, Module.End.mul_apply,
      pow_apply_comb f V T hFV, Module.algebraMap_end_apply, Matrix.algebraMap_eq_diagonal]
    rw [← Matrix.mulVec_mulVec]
    rw [← comb_smul]
    congr 1
    ext i
    simp [Matrix.mulVec_diagonal]

end YModel.Krylov
