import YProofs.Lemmas.GeoSquare
/-! Lemmas about listed bonds of the square lattice (C20). Core Lean only. -/
namespace YModel.Geo

theorem Sq.isNN_of_nn {g : Sq} (hx : 0 < g.Nx) {s0 s1 : Site} {d : Dir} (hc : g.inCell s0)
    (h : g.nnSite s0 d.vec = some s1) : g.isNN s0 s1 d = true := by
  unfold Sq.isNN
  have h2 := g.nnSite_inverse_shift hx s0 s1 d.vec (Sq.inLattice_of_inCell hc) h
  rw [← Dir.opp_vec, Sq.canon_of_inCell hc] at h2
  rw [h, h2]
  simp

theorem Sq.isNN_false_of_snd {g : Sq} {s0 s1 : Site} {d : Dir} (h : s1.2 ≠ s0.2 + d.vec.2) :
    g.isNN s0 s1 d = false := by
  unfold Sq.isNN
  cases hn : g.nnSite s0 d.vec with
  | none => simp
  | some s' =>
    have := Sq.nnSite_snd hn
    have hne : s' ≠ s1 := fun e => h (by rw [← e]; exact this)
    simp [hne]

/-- the neighbour below a site of the cell: next row; on the last row the row `Nx` (infinite),
row `0` (cylinder: across the seam) or nothing (obc) -/
theorem Sq.nnSite_b_cell {g : Sq} (hx : 0 < g.Nx) {s s' : Site} (hc : g.inCell s)
    (h : g.nnSite s Dir.b.vec = some s') :
    s'.2 = s.2 ∧ ((s.1 + 1 < g.Nx ∧ s'.1 = s.1 + 1) ∨ (s.1 + 1 = g.Nx ∧ g.bd = .infinite ∧ s'.1 = g.Nx) ∨
      (s.1 + 1 = g.Nx ∧ g.bd = .cylinder ∧ s'.1 = 0)) := by
  obtain ⟨h1, h2, h3, h4⟩ := hc
  have hv : Dir.b.vec = (1, 0) := rfl
  rw [hv] at h
  cases hb : g.bd with
  | infinite =>
    rw [Sq.nnSite_infinite hb] at h
    cases h
    refine ⟨by simp, ?_⟩
    simp only []
    by_cases hlt : s.1 + 1 < g.Nx
    · exact Or.inl ⟨hlt, by trivial⟩
    · exact Or.inr (Or.inl ⟨by omega, by trivial, by omega⟩)
  | obc =>
    rw [Sq.nnSite_obc hb] at h
    split at h
    · rename_i hh
      cases h
      refine ⟨by simp, Or.inl ⟨?_, rfl⟩⟩
      simp only [] at hh
      omega
    · exact absurd h (by simp)
  | cylinder =>
    rw [Sq.nnSite_cylinder hb hx] at h
    split at h
    · cases h
      refine ⟨by simp, ?_⟩
      simp only []
      by_cases hlt : s.1 + 1 < g.Nx
      · left
        exact ⟨hlt, Int.emod_eq_of_lt (by omega) hlt⟩
      · right; right
        have : s.1 + 1 = (g.Nx : Int) := by omega
        refine ⟨this, trivial, ?_⟩
        rw [this, Int.emod_self]
    · exact absurd h (by simp)

/-- listed vertical bond across the seam of a cylinder -/
def Sq.crossesSeam (g : Sq) (b : Bond) : Prop :=
  g.bd = .cylinder ∧ b.1.1 = (g.Nx : Int) - 1 ∧ b.2.1 = 0

instance (g : Sq) (b : Bond) : Decidable (g.crossesSeam b) := by unfold Sq.crossesSeam; infer_instance

end YModel.Geo
