import YModel.Fusion
/-! Row-major index arithmetic: `ravel`/`unravel` are mutually inverse; sector layout by offsets. -/
namespace YModel

theorem inRange_cons {d : Nat} {ds : List Nat} {i : Nat} {is : List Nat} :
    inRange (d :: ds) (i :: is) = true ↔ i < d ∧ inRange ds is = true := by
  simp only [inRange, List.length_cons, List.zipWith_cons_cons, List.all_cons, Bool.and_eq_true, beq_iff_eq,
    decide_eq_true_eq, id]
  constructor
  · rintro ⟨h1, h2, h3⟩; exact ⟨h2, by omega, h3⟩
  · rintro ⟨h1, h2, h3⟩; exact ⟨by omega, h1, h3⟩

theorem inRange_nil_left {idx : List Nat} : inRange [] idx = true ↔ idx = [] := by
  cases idx <;> simp [inRange]

theorem inRange_cons_nil {d : Nat} {ds : List Nat} : inRange (d :: ds) [] = false := by
  simp [inRange]

/-- an in-range multi-index ravels to a position inside the block -/
theorem ravel_lt (shape idx : List Nat) (h : inRange shape idx = true) : ravel shape idx < prodL shape := by
  induction shape generalizing idx with
  | nil => simp [ravel, prodL]
  | cons d ds ih =>
    cases idx with
    | nil => simp [inRange_cons_nil] at h
    | cons i is =>
      obtain ⟨hi, hr⟩ := inRange_cons.mp h
      have := ih is hr
      simp only [ravel, prodL]
      calc i * prodL ds + ravel ds is < i * prodL ds + prodL ds := by omega
        _ = (i + 1) * prodL ds := by rw [Nat.add_mul, Nat.one_mul]
        _ ≤ d * prodL ds := Nat.mul_le_mul_right _ hi

/-- `unravel ∘ ravel = id` on in-range multi-indices -/
theorem unravel_ravel (shape idx : List Nat) (h : inRange shape idx = true) : unravel shape (ravel shape idx) = idx := by
  induction shape generalizing idx with
  | nil => rw [inRange_nil_left.mp h]; rfl
  | cons d ds ih =>
    cases idx with
    | nil => simp [inRange_cons_nil] at h
    | cons i is =>
      obtain ⟨_, hr⟩ := inRange_cons.mp h
      have hlt := ravel_lt ds is hr
      have hpos : 0 < prodL ds := by omega
      simp only [ravel, unravel]
      have h1 : (i * prodL ds + ravel ds is) / prodL ds = i := by
        rw [Nat.add_comm, Nat.add_mul_div_right _ _ hpos, Nat.div_eq_of_lt hlt, Nat.zero_add]
      have h2 : (i * prodL ds + ravel ds is) % prodL ds = ravel ds is := by
        rw [Nat.add_comm, Nat.add_mul_mod_self_right, Nat.mod_eq_of_lt hlt]
      rw [h1, h2, ih is hr]

/-- `ravel ∘ unravel = id` on positions inside the block, and the unravelled index is in range -/
theorem ravel_unravel (shape : List Nat) (p : Nat) (h : p < prodL shape) :
    ravel shape (unravel shape p) = p ∧ inRange shape (unravel shape p) = true := by
  induction shape generalizing p with
  | nil => simp [prodL] at h; subst h; simp [ravel, unravel, inRange]
  | cons d ds ih =>
    simp only [prodL] at h
    have hpos : 0 < prodL ds := by
      rcases Nat.eq_zero_or_pos (prodL ds) with h0 | h0
      · rw [h0] at h; omega
      · exact h0
    have hm := ih (p % prodL ds) (Nat.mod_lt _ hpos)
    simp only [unravel, ravel]
    refine ⟨?_, inRange_cons.mpr ⟨?_, hm.2⟩⟩
    · rw [hm.1]; exact Nat.div_add_mod' p (prodL ds)
    · exact (Nat.div_lt_iff_lt_mul hpos).mpr h

/-! ### layout of the decompositions inside a fused sector -/

theorem decOffset_cons_ne {x d : Dec} (xs : List Dec) (h : x ≠ d) :
    decOffset (x :: xs) d = decSize x + decOffset xs d := by
  have hne : (x == d) = false := by simpa using h
  simp [decOffset, hne]

theorem decOffset_cons_eq (x : Dec) (xs : List Dec) : decOffset (x :: xs) x = 0 := by
  simp [decOffset]

theorem locateDec_offset (ds : List Dec) (d : Dec) (p : Nat) (hd : d ∈ ds) (hp : p < decSize d) :
    locateDec ds (decOffset ds d + p) = some (d, p) := by
  induction ds with
  | nil => cases hd
  | cons x xs ih =>
    by_cases hx : x = d
    · subst hx
      rw [decOffset_cons_eq]
      simp [locateDec, hp]
    · rw [decOffset_cons_ne xs hx]
      have hd' : d ∈ xs := by
        rcases List.mem_cons.mp hd with h | h
        · exact absurd h.symm hx
        · exact h
      have hnlt : ¬ (decSize x + decOffset xs d + p < decSize x) := by omega
      have e : decSize x + decOffset xs d + p - decSize x = decOffset xs d + p := by omega
      simp only [locateDec, hnlt, if_false, e]
      exact ih hd'

theorem locateDec_some {ds : List Dec} (hnd : ds.Nodup) {q : Nat} {d : Dec} {p : Nat}
    (h : locateDec ds q = some (d, p)) : d ∈ ds ∧ p < decSize d ∧ q = decOffset ds d + p := by
  induction ds generalizing q with
  | nil => simp [locateDec] at h
  | cons x xs ih =>
    rw [List.nodup_cons] at hnd
    simp only [locateDec] at h
    split at h
    · rename_i hq
      simp only [Option.some.injEq, Prod.mk.injEq] at h
      obtain ⟨rfl, rfl⟩ := h
      exact ⟨by simp, hq, by simp [decOffset]⟩
    · rename_i hq
      obtain ⟨h1, h2, h3⟩ := ih hnd.2 h
      have hne : (x == d) = false := by
        rw [beq_eq_false_iff_ne]; intro hxd; subst hxd; exact hnd.1 h1
      refine ⟨List.mem_cons_of_mem _ h1, h2, ?_⟩
      have hxd : x ≠ d := by simpa using hne
      rw [decOffset_cons_ne xs hxd]
      omega

theorem foldl_add_start (l : List Nat) (a : Nat) : l.foldl (· + ·) a = a + l.foldl (· + ·) 0 := by
  induction l generalizing a with
  | nil => simp
  | cons x xs ih => simp only [List.foldl_cons]; rw [ih (a + x), ih (0 + x)]; omega

/-- every decomposition lies inside its sector: offsets plus sizes stay below the sector dimension -/
theorem decOffset_lt (ds : List Dec) (d : Dec) (p : Nat) (hd : d ∈ ds) (hp : p < decSize d) :
    decOffset ds d + p < sectorDim ds := by
  induction ds with
  | nil => cases hd
  | cons x xs ih =>
    have hs : sectorDim (x :: xs) = decSize x + sectorDim xs := by
      simp only [sectorDim, List.map_cons, List.foldl_cons]
      rw [foldl_add_start]; omega
    rw [hs]
    by_cases hx : x = d
    · subst hx; rw [decOffset_cons_eq]; omega
    · rw [decOffset_cons_ne xs hx]
      have hd' : d ∈ xs := by
        rcases List.mem_cons.mp hd with h | h
        · exact absurd h.symm hx
        · exact h
      have := ih hd'
      omega

/-- … and every position of the sector belongs to some decomposition -/
theorem locateDec_of_lt (ds : List Dec) (q : Nat) (h : q < sectorDim ds) : ∃ d p, locateDec ds q = some (d, p) := by
  induction ds generalizing q with
  | nil => simp [sectorDim] at h
  | cons x xs ih =>
    simp only [locateDec]
    by_cases hq : q < decSize x
    · exact ⟨x, q, by simp [hq]⟩
    · simp only [hq, if_false]
      apply ih
      simp only [sectorDim, List.map_cons, List.foldl_cons] at h
      rw [foldl_add_start] at h
      simp only [sectorDim]
      omega

end YModel
