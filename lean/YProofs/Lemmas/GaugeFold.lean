import YModel.Gauge
import Mathlib.Tactic.Ring
import Mathlib.Tactic.Linarith
import Mathlib.Algebra.BigOperators.Group.List.Basic
import Mathlib.Algebra.Order.Field.Rat
/-!
# The discarded-weight fold of `truncate_` in closed form

`d² ← d²_loc + d² − d²·d²_loc` is `1 − (1 − d²)(1 − d²_loc)`, so the fold computes `1 − ∏ (1 − d_k²)`.
Generic over commutative rings (`foldDisc`), instantiated for the executable model over `ℚ`.
-/
namespace YModel.Gauge

/-- the fold of `_mps_obc.py:494-495` over an arbitrary commutative ring -/
def foldDisc {K : Type*} [CommRing K] (tot : K) (ds : List K) : K :=
  ds.foldl (fun tot d => d * d + tot - tot * (d * d)) tot

theorem foldDisc_eq {K : Type*} [CommRing K] (tot : K) (ds : List K) :
    foldDisc tot ds = 1 - (1 - tot) * (ds.map (fun d => 1 - d ^ 2)).prod := by
  induction ds generalizing tot with
  | nil => simp [foldDisc]
  | cons d ds ih =>
    have : foldDisc tot (d :: ds) = foldDisc (d * d + tot - tot * (d * d)) ds := rfl
    rw [this, ih, List.map_cons, List.prod_cons]
    ring

theorem accumulateFrom_eq_foldDisc (tot : ℚ) (ds : List ℚ) : accumulateFrom tot ds = foldDisc tot ds := rfl

theorem prod_unit_interval {K : Type*} [CommRing K] [LinearOrder K] [IsStrictOrderedRing K] (l : List K)
    (h : ∀ x ∈ l, 0 ≤ x ∧ x ≤ 1) : 0 ≤ l.prod ∧ l.prod ≤ 1 := by
  induction l with
  | nil => simp
  | cons a l ih =>
    obtain ⟨h0, h1⟩ := ih (fun x hx => h x (List.mem_cons_of_mem _ hx))
    obtain ⟨a0, a1⟩ := h a (List.mem_cons_self ..)
    rw [List.prod_cons]
    constructor
    · exact mul_nonneg a0 h0
    · calc a * l.prod ≤ 1 * 1 := mul_le_mul a1 h1 h0 (by linarith)
        _ = 1 := by ring

end YModel.Gauge
