import YProofs.Lemmas.DenseSum
/-! Index lemmas for dense multi-indices over appended leg-space lists (matrix-product form of tensordot). -/
namespace YModel

theorem getD_append_left' {α} (l₁ l₂ : List α) (i : Nat) (d : α) (h : i < l₁.length) : (l₁ ++ l₂).getD i d = l₁.getD i d := by
  simp [List.getD, List.getElem?_append_left h]

theorem getD_append_right' {α} (l₁ l₂ : List α) (i : Nat) (d : α) (h : l₁.length ≤ i) :
    (l₁ ++ l₂).getD i d = l₂.getD (i - l₁.length) d := by
  simp [List.getD, List.getElem?_append_right h]

theorem locAt_append_left (L₁ L₂ : List LegSpace) (i₁ i₂ : List Nat) (k : Nat) (hl : L₁.length = i₁.length) (hk : k < L₁.length) :
    locAt (L₁ ++ L₂) (i₁ ++ i₂) k = locAt L₁ i₁ k := by
  unfold locAt
  rw [getD_append_left' _ _ _ _ hk, getD_append_left' _ _ _ _ (by omega)]

theorem locAt_append_right (L₁ L₂ : List LegSpace) (i₁ i₂ : List Nat) (k : Nat) (hl : L₁.length = i₁.length) :
    locAt (L₁ ++ L₂) (i₁ ++ i₂) (L₁.length + k) = locAt L₂ i₂ k := by
  unfold locAt
  rw [getD_append_right' _ _ _ _ (by omega), getD_append_right' _ _ _ _ (by omega)]
  congr 2 <;> omega

theorem keyAt_append (L₁ L₂ : List LegSpace) (i₁ i₂ : List Nat) (n₂ : Nat) (hl : L₁.length = i₁.length) :
    keyAt (L₁ ++ L₂) (i₁ ++ i₂) (L₁.length + n₂) = keyAt L₁ i₁ L₁.length ++ keyAt L₂ i₂ n₂ := by
  unfold keyAt
  rw [List.range_add, List.map_append, List.map_map]
  congr 1
  · apply List.map_congr_left
    intro k hk
    rw [locAt_append_left _ _ _ _ _ hl (List.mem_range.mp hk)]
  · apply List.map_congr_left
    intro k _
    simp only [Function.comp]
    rw [locAt_append_right _ _ _ _ _ hl]

theorem posAt_append (L₁ L₂ : List LegSpace) (i₁ i₂ : List Nat) (n₂ : Nat) (hl : L₁.length = i₁.length) :
    posAt (L₁ ++ L₂) (i₁ ++ i₂) (L₁.length + n₂) = posAt L₁ i₁ L₁.length ++ posAt L₂ i₂ n₂ := by
  unfold posAt
  rw [List.range_add, List.map_append, List.map_map]
  congr 1
  · apply List.map_congr_left
    intro k hk
    rw [locAt_append_left _ _ _ _ _ hl (List.mem_range.mp hk)]
  · apply List.map_congr_left
    intro k _
    simp only [Function.comp]
    rw [locAt_append_right _ _ _ _ _ hl]

theorem allLoc_append (L₁ L₂ : List LegSpace) (i₁ i₂ : List Nat) (n₂ : Nat) (hl : L₁.length = i₁.length) :
    (List.range (L₁.length + n₂)).all (fun k => (locAt (L₁ ++ L₂) (i₁ ++ i₂) k).isSome)
      = ((List.range L₁.length).all (fun k => (locAt L₁ i₁ k).isSome) &&
         (List.range n₂).all (fun k => (locAt L₂ i₂ k).isSome)) := by
  rw [Bool.eq_iff_iff]
  simp only [Bool.and_eq_true, List.all_eq_true, List.mem_range]
  constructor
  · intro h
    refine ⟨?_, ?_⟩
    · intro k hk
      have := h k (by omega)
      rwa [locAt_append_left _ _ _ _ _ hl hk] at this
    · intro k hk
      have := h (L₁.length + k) (by omega)
      rwa [locAt_append_right _ _ _ _ _ hl] at this
  · rintro ⟨h1, h2⟩ k hk
    by_cases hkl : k < L₁.length
    · rw [locAt_append_left _ _ _ _ _ hl hkl]; exact h1 k hkl
    · have : k = L₁.length + (k - L₁.length) := by omega
      rw [this, locAt_append_right _ _ _ _ _ hl]
      exact h2 _ (by omega)

/-- one-leg lists -/
theorem keyAt_single (M : LegSpace) (m : Nat) : keyAt [M] [m] 1 = [((locate M m).getD ([], 0)).1] := by
  simp [keyAt, locAt, List.range_one]
theorem posAt_single (M : LegSpace) (m : Nat) : posAt [M] [m] 1 = [((locate M m).getD ([], 0)).2] := by
  simp [posAt, locAt, List.range_one]
theorem allLoc_single (M : LegSpace) (m : Nat) :
    (List.range 1).all (fun k => (locAt [M] [m] k).isSome) = (locate M m).isSome := by
  simp [locAt, List.range_one]

end YModel
