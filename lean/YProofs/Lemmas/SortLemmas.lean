import YModel.Sort
namespace YModel
variable {α : Type} (le : α → α → Bool)

theorem insertBy_perm (x : α) (l : List α) : (insertBy le x l).Perm (x :: l) := by
  induction l with
  | nil => exact List.Perm.refl _
  | cons y ys ih =>
    unfold insertBy
    split
    · exact List.Perm.refl _
    · exact (List.Perm.cons y ih).trans (List.Perm.swap x y ys)

theorem isort_perm (l : List α) : (isort le l).Perm l := by
  induction l with
  | nil => exact List.Perm.refl _
  | cons x xs ih => exact (insertBy_perm le x _).trans (List.Perm.cons x ih)

theorem insertBy_pairwise (htr : ∀ a b c, le a b = true → le b c = true → le a c = true)
    (htot : ∀ a b, (le a b || le b a) = true) (x : α) (l : List α)
    (h : l.Pairwise (fun a b => le a b = true)) : (insertBy le x l).Pairwise (fun a b => le a b = true) := by
  induction l with
  | nil => simp [insertBy]
  | cons y ys ih =>
    unfold insertBy
    rw [List.pairwise_cons] at h
    split
    · rename_i hxy
      refine List.Pairwise.cons ?_ (List.Pairwise.cons h.1 h.2)
      intro b hb
      rcases List.mem_cons.mp hb with rfl | hb
      · exact hxy
      · exact htr _ _ _ hxy (h.1 b hb)
    · rename_i hxy
      have hyx : le y x = true := by
        have := htot x y
        simp only [Bool.or_eq_true] at this
        rcases this with h' | h'
        · exact absurd h' hxy
        · exact h'
      refine List.Pairwise.cons ?_ (ih h.2)
      intro b hb
      have := (insertBy_perm le x ys).mem_iff.mp hb
      rcases List.mem_cons.mp this with rfl | hb
      · exact hyx
      · exact h.1 b hb

theorem isort_pairwise (htr : ∀ a b c, le a b = true → le b c = true → le a c = true)
    (htot : ∀ a b, (le a b || le b a) = true) (l : List α) :
    (isort le l).Pairwise (fun a b => le a b = true) := by
  induction l with
  | nil => exact List.Pairwise.nil
  | cons x xs ih => exact insertBy_pairwise le htr htot x _ ih

end YModel
