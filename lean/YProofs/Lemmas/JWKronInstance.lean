import YProofs.Lemmas.JWReorder
import Mathlib.LinearAlgebra.Matrix.Kronecker
/-! `KronSem` is satisfied by Mathlib's Kronecker product (mixed-product property `mul_kronecker_mul`,
`smul_kronecker`, `kronecker_smul`): the hypotheses of the sign theorems of C07 are those of the real tensor product. -/
namespace YModel.JW
open Matrix Kronecker

/-- a genuine (non-commutative) instance of `KronSem`: Mathlib's Kronecker product of two `2 × 2` integer matrices -/
def kronMat2 : KronSem (Matrix (Fin 2) (Fin 2) ℤ) (Matrix (Fin 2 × Fin 2) (Fin 2 × Fin 2) ℤ) 2 where
  dense a := a 0 ⊗ₖ a 1
  dense_congr a b h := by rw [h 0 (by omega), h 1 (by omega)]
  dense_mul a b := Matrix.mul_kronecker_mul _ _ _ _
  dense_sign a m s hm := by
    have : m = 0 ∨ m = 1 := by omega
    rcases this with rfl | rfl
    · simp only [Function.update_self, ne_eq, one_ne_zero, not_false_eq_true, Function.update_of_ne]
      rw [← zsmul_eq_mul, ← zsmul_eq_mul, Matrix.smul_kronecker]
    · simp only [Function.update_self, ne_eq, zero_ne_one, not_false_eq_true, Function.update_of_ne]
      rw [← zsmul_eq_mul, ← zsmul_eq_mul, Matrix.kronecker_smul]
end YModel.JW
