import YModel.JW
import YProofs.Lemmas.SortLemmas
/-! `_parse_2site_bonds`: membership, order and uniqueness of `sorted(set(pairs))` for all `N`. -/
namespace YModel.JW
open YModel

theorem mem_irange (N : Nat) (x : Int) : x ∈ irange N ↔ 0 ≤ x ∧ x < (N : Int) := by
  unfold irange
  simp only [List.mem_map, List.mem_range]
  constructor
  · rintro ⟨i, hi, rfl⟩
    simp only [Int.ofNat_eq_natCast]
    omega
  · rintro ⟨h0, h1⟩
    refine ⟨x.toNat, by omega, ?_⟩
    simp only [Int.ofNat_eq_natCast]
    omega

theorem mem_dedupL {α} [BEq α] [LawfulBEq α] (l : List α) (x : α) : x ∈ dedupL l ↔ x ∈ l := by
  induction l with
  | nil => simp [dedupL]
  | cons y ys ih =>
    unfold dedupL
    by_cases h : ys.contains y = true
    · rw [if_pos h, ih]
      have hy : y ∈ ys := List.contains_iff_mem.mp h
      constructor
      · intro hx; exact List.mem_cons_of_mem _ hx
      · intro hx
        rcases List.mem_cons.mp hx with rfl | hx
        · exact hy
        · exact hx
    · rw [if_neg h, List.mem_cons, List.mem_cons, ih]

theorem nodup_dedupL {α} [BEq α] [LawfulBEq α] (l : List α) : (dedupL l).Nodup := by
  induction l with
  | nil => simp [dedupL]
  | cons y ys ih =>
    unfold dedupL
    by_cases h : ys.contains y = true
    · rw [if_pos h]; exact ih
    · rw [if_neg h]
      refine List.nodup_cons.mpr ⟨?_, ih⟩
      intro hy
      exact h (List.contains_iff_mem.mpr ((mem_dedupL ys y).mp hy))

/-- strict lexicographic order on pairs -/
def lexLt (a b : Int × Int) : Prop := a.1 < b.1 ∨ (a.1 = b.1 ∧ a.2 < b.2)

theorem lexLe_trans (a b c : Int × Int) : lexLe a b = true → lexLe b c = true → lexLe a c = true := by
  unfold lexLe
  simp only [Bool.or_eq_true, Bool.and_eq_true, decide_eq_true_eq]
  omega

theorem lexLe_total (a b : Int × Int) : (lexLe a b || lexLe b a) = true := by
  unfold lexLe
  simp only [Bool.or_eq_true, Bool.and_eq_true, decide_eq_true_eq]
  omega

theorem lexLt_of_le_ne {a b : Int × Int} (h : lexLe a b = true) (hne : a ≠ b) : lexLt a b := by
  unfold lexLe at h
  unfold lexLt
  simp only [Bool.or_eq_true, Bool.and_eq_true, decide_eq_true_eq] at h
  rcases h with h | ⟨h1, h2⟩
  · exact Or.inl h
  · right
    refine ⟨h1, ?_⟩
    rcases Int.lt_or_eq_of_le h2 with h3 | h3
    · exact h3
    · exact absurd (Prod.ext h1 h3) hne

/-- `sorted(set(l))` is strictly increasing and has exactly the members of `l` -/
theorem sortedSet_spec (l : List (Int × Int)) :
    (∀ x, x ∈ isort lexLe (dedupL l) ↔ x ∈ l) ∧ (isort lexLe (dedupL l)).Pairwise lexLt := by
  constructor
  · intro x
    rw [(isort_perm lexLe (dedupL l)).mem_iff, mem_dedupL]
  · have hp := isort_pairwise lexLe lexLe_trans lexLe_total (dedupL l)
    have hn : (isort lexLe (dedupL l)).Nodup := (isort_perm lexLe (dedupL l)).nodup_iff.mpr (nodup_dedupL l)
    have := List.Pairwise.and hp hn
    exact this.imp (fun ⟨h1, h2⟩ => lexLt_of_le_ne h1 h2)

/-- the pairs the documentation of `measure_2site` assigns to a pattern: `'a'` all `i, j`; `'<'` `i < j`; `'='` `i = j`;
`'>'` `i > j`; `'rX'` the pairs `(i, i+X)` inside the chain (OBC), with `'p'` the pairs `(i, (i+X) mod N)` -/
def inPattern (p : Pattern) (N : Nat) (x : Int × Int) : Prop :=
  (0 ≤ x.1 ∧ x.1 < (N : Int)) ∧ (0 ≤ x.2 ∧ x.2 < (N : Int)) ∧
  (p.all = true ∨ (p.lt = true ∧ x.1 < x.2) ∨ (p.eq = true ∧ x.1 = x.2) ∨ (p.gt = true ∧ x.2 < x.1) ∨
    ∃ r ∈ p.rs, x.2 = if p.pbc = true then (x.1 + r) % (N : Int) else x.1 + r)

theorem mem_rawPairs (p : Pattern) (N : Nat) (x : Int × Int) : x ∈ rawPairs p N ↔ inPattern p N x := by
  obtain ⟨i, j⟩ := x
  unfold rawPairs inPattern
  by_cases ha : p.all = true
  · simp only [ha, if_true, List.mem_flatMap, List.mem_map, mem_irange, Prod.mk.injEq, true_or, and_true]
    constructor
    · rintro ⟨a, ha1, b, hb1, rfl, rfl⟩; exact ⟨ha1, hb1⟩
    · rintro ⟨h1, h2⟩; exact ⟨i, h1, j, h2, rfl, rfl⟩
  · have ha' : p.all = false := by simpa using ha
    simp only [ha', Bool.false_eq_true, if_false, false_or, List.mem_append, List.mem_flatMap]
    constructor
    · rintro (((h | h) | h) | h)
      · by_cases hl : p.lt = true
        · simp only [hl, if_true, List.mem_flatMap, List.mem_map, List.mem_filter, mem_irange, Prod.mk.injEq, decide_eq_true_eq] at h
          obtain ⟨a, ha1, b, ⟨hb1, hab⟩, rfl, rfl⟩ := h
          exact ⟨ha1, hb1, Or.inl ⟨hl, hab⟩⟩
        · simp [hl] at h
      · by_cases hl : p.eq = true
        · simp only [hl, if_true, List.mem_map, mem_irange, Prod.mk.injEq] at h
          obtain ⟨a, ha1, rfl, rfl⟩ := h
          exact ⟨ha1, ha1, Or.inr (Or.inl ⟨hl, rfl⟩)⟩
        · simp [hl] at h
      · by_cases hl : p.gt = true
        · simp only [hl, if_true, List.mem_flatMap, List.mem_map, List.mem_filter, mem_irange, Prod.mk.injEq, decide_eq_true_eq] at h
          obtain ⟨a, ha1, b, ⟨hb1, hab⟩, rfl, rfl⟩ := h
          exact ⟨ha1, hb1, Or.inr (Or.inr (Or.inl ⟨hl, hab⟩))⟩
        · simp [hl] at h
      · obtain ⟨r, hr, h⟩ := h
        by_cases hp : p.pbc = true
        · simp only [hp, if_true, List.mem_map, mem_irange, Prod.mk.injEq] at h
          obtain ⟨a, ha1, rfl, rfl⟩ := h
          have hN : (0 : Int) < N := by omega
          refine ⟨ha1, ⟨Int.emod_nonneg _ (by omega), Int.emod_lt_of_pos _ hN⟩, ?_⟩
          exact Or.inr (Or.inr (Or.inr ⟨r, hr, by simp [hp]⟩))
        · simp only [hp, Bool.false_eq_true, if_false, List.mem_map, List.mem_filter, mem_irange, Prod.mk.injEq,
            Bool.and_eq_true, decide_eq_true_eq] at h
          obtain ⟨a, ⟨ha1, hb1⟩, rfl, rfl⟩ := h
          refine ⟨ha1, hb1, ?_⟩
          exact Or.inr (Or.inr (Or.inr ⟨r, hr, by simp [hp]⟩))
    · rintro ⟨h1, h2, h⟩
      rcases h with ⟨hl, hlt⟩ | ⟨hl, heq⟩ | ⟨hl, hgt⟩ | ⟨r, hr, h⟩
      · left; left; left
        simp only [hl, if_true, List.mem_flatMap, List.mem_map, List.mem_filter, mem_irange, Prod.mk.injEq, decide_eq_true_eq]
        exact ⟨i, h1, j, ⟨h2, hlt⟩, rfl, rfl⟩
      · left; left; right
        simp only [hl, if_true, List.mem_map, mem_irange, Prod.mk.injEq]
        exact ⟨i, h1, rfl, heq⟩
      · left; right
        simp only [hl, if_true, List.mem_flatMap, List.mem_map, List.mem_filter, mem_irange, Prod.mk.injEq, decide_eq_true_eq]
        exact ⟨i, h1, j, ⟨h2, hgt⟩, rfl, rfl⟩
      · right
        refine ⟨r, hr, ?_⟩
        by_cases hp : p.pbc = true
        · simp only [hp, if_true] at h
          simp only [hp, if_true, List.mem_map, mem_irange, Prod.mk.injEq]
          exact ⟨i, h1, rfl, h.symm⟩
        · simp only [hp, Bool.false_eq_true, if_false] at h
          simp only [hp, Bool.false_eq_true, if_false, List.mem_map, List.mem_filter, mem_irange, Prod.mk.injEq,
            Bool.and_eq_true, decide_eq_true_eq]
          subst h
          exact ⟨i, ⟨h1, h2⟩, rfl, rfl⟩

end YModel.JW
