import YModel.Sched
/-! Lemmas for `dmrg_reads_fresh` / `tdvp_reads_fresh` (C09, C10): a Hoare-style calculus for the environment state machine.

`G N pre a b ad bd ver F`: every left environment `L m`, `m < a`, and every right environment `R m`, `b ≤ m ≤ N`, is present
and fresh; the derived keys `DL m`, `m < ad`, and `DR m`, `bd ≤ m ≤ N`, are fresh or absent; the edges are always fresh;
without precompute there are no derived keys. -/
set_option linter.unusedSimpArgs false
set_option linter.unusedVariables false

namespace YModel.Sched

def FreshK (N : Nat) (ver : Nat → Nat) (F : Key → Option Stamp) (k : Key) : Prop := F k = some (expect N ver k)

structure G (N : Nat) (pre : Bool) (a b ad bd : Nat) (ver : Nat → Nat) (F : Key → Option Stamp) : Prop where
  l : ∀ m, m < a → FreshK N ver F (.L m)
  r : ∀ m, b ≤ m → m ≤ N → FreshK N ver F (.R m)
  dl : ∀ m, m < ad → F (.DL m) ≠ none → FreshK N ver F (.DL m)
  dr : ∀ m, bd ≤ m → m ≤ N → F (.DR m) ≠ none → FreshK N ver F (.DR m)
  l0 : FreshK N ver F (.L 0)
  rN : FreshK N ver F (.R N)
  dl0 : F (.DL 0) ≠ none → FreshK N ver F (.DL 0)
  drN : F (.DR N) ≠ none → FreshK N ver F (.DR N)
  nod : pre = false → ∀ m, F (.DL m) = none ∧ F (.DR m) = none

theorem expect_L_bump (N : Nat) (ver : Nat → Nat) (s m : Nat) (h : m ≤ s) :
    expect N (bump ver s) (.L m) = expect N ver (.L m) := by
  simp only [expect, Key.sites]
  apply List.map_congr_left
  intro x hx
  have : x < m := by simpa using hx
  have : x ≠ s := by omega
  simp [bump, this]

theorem expect_DL_bump (N : Nat) (ver : Nat → Nat) (s m : Nat) (h : m ≤ s) :
    expect N (bump ver s) (.DL m) = expect N ver (.DL m) := expect_L_bump N ver s m h

theorem expect_R_bump (N : Nat) (ver : Nat → Nat) (s m : Nat) (h : s < m) :
    expect N (bump ver s) (.R m) = expect N ver (.R m) := by
  simp only [expect, Key.sites]
  apply List.map_congr_left
  intro x hx
  have : m ≤ x := by
    have := List.mem_range'_1.mp hx
    omega
  have : x ≠ s := by omega
  simp [bump, this]

theorem expect_DR_bump (N : Nat) (ver : Nat → Nat) (s m : Nat) (h : s < m) :
    expect N (bump ver s) (.DR m) = expect N ver (.DR m) := expect_R_bump N ver s m h

theorem expect_L_succ (N : Nat) (ver : Nat → Nat) (n : Nat) :
    expect N ver (.L (n + 1)) = expect N ver (.L n) ++ [(n, ver n)] := by
  simp [expect, Key.sites, List.range_succ]

theorem expect_R_pred (N : Nat) (ver : Nat → Nat) (n : Nat) (h : n < N) :
    expect N ver (.R n) = (n, ver n) :: expect N ver (.R (n + 1)) := by
  simp only [expect, Key.sites]
  have : N - n = (N - (n + 1)) + 1 := by omega
  rw [this, List.range'_succ]
  simp

theorem expect_L_zero (N : Nat) (ver : Nat → Nat) : expect N ver (.L 0) = [] := by simp [expect, Key.sites]
theorem expect_R_N (N : Nat) (ver : Nat → Nat) : expect N ver (.R N) = [] := by simp [expect, Key.sites]
theorem expect_DL (N : Nat) (ver : Nat → Nat) (m : Nat) : expect N ver (.DL m) = expect N ver (.L m) := rfl
theorem expect_DR (N : Nat) (ver : Nat → Nat) (m : Nat) : expect N ver (.DR m) = expect N ver (.R m) := rfl

/-- a write to site `s` keeps everything that does not contain `s` -/
theorem G.bump {N pre a b ad bd ver F} (h : G N pre a b ad bd ver F) (s : Nat) :
    G N pre (min a (s + 1)) (max b (s + 1)) (min ad (s + 1)) (max bd (s + 1)) (bump ver s) F := by
  constructor
  · intro m hm; unfold FreshK; rw [expect_L_bump N ver s m (by omega)]; exact h.l m (by omega)
  · intro m hm hN; unfold FreshK; rw [expect_R_bump N ver s m (by omega)]; exact h.r m (by omega) hN
  · intro m hm hp; unfold FreshK; rw [expect_DL_bump N ver s m (by omega)]; exact h.dl m (by omega) hp
  · intro m hm hN hp; unfold FreshK; rw [expect_DR_bump N ver s m (by omega)]; exact h.dr m (by omega) hN hp
  · unfold FreshK; rw [expect_L_zero]; have := h.l0; unfold FreshK at this; rw [expect_L_zero] at this; exact this
  · unfold FreshK; rw [expect_R_N]; have := h.rN; unfold FreshK at this; rw [expect_R_N] at this; exact this
  · intro hp; unfold FreshK; rw [expect_DL, expect_L_zero]; have := h.dl0 hp; unfold FreshK at this
    rw [expect_DL, expect_L_zero] at this; exact this
  · intro hp; unfold FreshK; rw [expect_DR, expect_R_N]; have := h.drN hp; unfold FreshK at this
    rw [expect_DR, expect_R_N] at this; exact this
  · exact h.nod

theorem G.mono {N pre a b ad bd a' b' ad' bd' ver F} (h : G N pre a b ad bd ver F) (ha : a' ≤ a) (hb : b ≤ b')
    (had : ad' ≤ ad) (hbd : bd ≤ bd') : G N pre a' b' ad' bd' ver F :=
  ⟨fun m hm => h.l m (by omega), fun m hm hN => h.r m (by omega) hN, fun m hm => h.dl m (by omega),
   fun m hm hN => h.dr m (by omega) hN, h.l0, h.rN, h.dl0, h.drN, h.nod⟩

/-- derived keys known to be absent extend the fresh-or-absent ranges -/
theorem G.extend {N pre a b ad bd ad' bd' ver F} (h : G N pre a b ad bd ver F)
    (hl : ∀ m, ad ≤ m → m < ad' → F (.DL m) = none) (hr : ∀ m, bd' ≤ m → m < bd → F (.DR m) = none) :
    G N pre a b ad' bd' ver F :=
  ⟨h.l, h.r,
   fun m hm hp => by
     by_cases e : m < ad
     · exact h.dl m e hp
     · exact absurd (hl m (by omega) hm) hp,
   fun m hm hN hp => by
     by_cases e : bd ≤ m
     · exact h.dr m e hN hp
     · exact absurd (hr m hm (by omega)) hp,
   h.l0, h.rN, h.dl0, h.drN, h.nod⟩

abbrev GS (N : Nat) (pre : Bool) (a b ad bd : Nat) (st : St) : Prop := G N pre a b ad bd st.ver st.F

/-! ### events that do not touch the dictionary -/

theorem E_w1 (N pre st n) : okEv N pre st (.w1 n) = st.pC.isNone ∧ (next N pre st (.w1 n)).ver = bump st.ver n ∧
    (next N pre st (.w1 n)).F = st.F ∧ (next N pre st (.w1 n)).pC = st.pC := by
  refine ⟨?_, rfl, rfl, rfl⟩
  simp only [okEv, applyRaw, effOf]
  cases st.pC <;> simp

theorem E_w2 (N pre st n) : okEv N pre st (.w2 n) = st.pC.isNone ∧
    (next N pre st (.w2 n)).ver = bump (bump st.ver n) (n + 1) ∧
    (next N pre st (.w2 n)).F = st.F ∧ (next N pre st (.w2 n)).pC = some (n + 1) := by
  refine ⟨?_, rfl, rfl, rfl⟩
  simp only [okEv, applyRaw, effOf]
  cases st.pC <;> simp

theorem E_orth (N pre st n to) : okEv N pre st (.orth n to) = st.pC.isNone ∧
    (next N pre st (.orth n to)).ver = bump st.ver n ∧
    (next N pre st (.orth n to)).F = st.F ∧ (next N pre st (.orth n to)).pC = some (bondAfter to n) := by
  cases to <;> (refine ⟨?_, rfl, rfl, rfl⟩; simp only [okEv, applyRaw, effOf]; cases st.pC <;> simp)

theorem E_abs (N pre st to m) (h : st.pC = some m) : okEv N pre st (.abs to) = true ∧
    (next N pre st (.abs to)).ver = bump st.ver (absSite N to m) ∧
    (next N pre st (.abs to)).F = st.F ∧ (next N pre st (.abs to)).pC = none := by
  simp [okEv, next, applyRaw, effOf, h, St.write]

theorem E_marker (N pre st) (e : Ev) (h : (∃ n s, e = .mA n s) ∨ (∃ n s, e = .mAA n s) ∨ (∃ m r, e = .enl m r)) :
    next N pre st e = st := by
  rcases h with ⟨n, s, rfl⟩ | ⟨n, s, rfl⟩ | ⟨m, r, rfl⟩ <;> rfl

theorem E_mA_ok (N pre st n s) (h : st.pC = none) : okEv N pre st (.mA n s) = true := by
  simp [okEv, applyRaw, effOf, h]
theorem E_mAA_ok (N pre st n s) (h : st.pC = none) : okEv N pre st (.mAA n s) = true := by
  simp [okEv, applyRaw, effOf, h]
theorem E_enl_ok (N pre st m r) : okEv N pre st (.enl m r) = true := by
  simp [okEv, applyRaw, effOf]
theorem E_mC (N pre st m s) (h : st.pC = some m) : okEv N pre st (.mC m s) = true ∧ next N pre st (.mC m s) = st := by
  simp [okEv, next, applyRaw, effOf, h]
theorem E_wC (N pre st m) (h : st.pC = some m) : okEv N pre st (.wC m) = true ∧ next N pre st (.wC m) = st := by
  simp [okEv, next, applyRaw, effOf, h]

/-! ### dictionary events -/

theorem checkReads_nil_of_fresh (N : Nat) (st : St) (ks : List Key) (h : ∀ k ∈ ks, FreshK N st.ver st.F k) :
    checkReads N st ks = [] := by
  unfold checkReads
  rw [List.filterMap_eq_nil_iff]
  intro k hk
  have := h k hk
  unfold FreshK at this
  simp [this]

theorem setF_same (F k v) : setF F k v k = v := by simp [setF]
theorem setF_other (F k v k') (h : k' ≠ k) : setF F k v k' = F k' := by simp [setF, h]

theorem G.setL {N pre a b ad bd ver F} (h : G N pre a b ad bd ver F) (n : Nat) (hn : n < a) :
    G N pre (max a (n + 2)) b ad bd ver (setF F (.L (n + 1)) (some (expect N ver (.L (n + 1))))) := by
  constructor
  · intro m hm
    unfold FreshK
    by_cases e : m = n + 1
    · subst e; rw [setF_same]
    · rw [setF_other _ _ _ _ (by simp [e])]; exact h.l m (by omega)
  · intro m hm hN; unfold FreshK; rw [setF_other _ _ _ _ (by simp)]; exact h.r m hm hN
  · intro m hm hp
    unfold FreshK
    rw [setF_other _ _ _ _ (by simp)] at hp ⊢
    exact h.dl m hm hp
  · intro m hm hN hp; unfold FreshK; rw [setF_other _ _ _ _ (by simp)] at hp ⊢; exact h.dr m hm hN hp
  · unfold FreshK; rw [setF_other _ _ _ _ (by simp)]; exact h.l0
  · unfold FreshK; rw [setF_other _ _ _ _ (by simp)]; exact h.rN
  · intro hp; unfold FreshK; rw [setF_other _ _ _ _ (by simp)] at hp ⊢; exact h.dl0 hp
  · intro hp; unfold FreshK; rw [setF_other _ _ _ _ (by simp)] at hp ⊢; exact h.drN hp
  · intro hpre m; rw [setF_other _ _ _ _ (by simp), setF_other _ _ _ _ (by simp)]; exact h.nod hpre m

theorem G.setR {N pre a b ad bd ver F} (h : G N pre a b ad bd ver F) (n : Nat) (hn : b ≤ n + 1) (hN : n < N) :
    G N pre a (min b n) ad bd ver (setF F (.R n) (some (expect N ver (.R n)))) := by
  constructor
  · intro m hm; unfold FreshK; rw [setF_other _ _ _ _ (by simp)]; exact h.l m hm
  · intro m hm hN'
    unfold FreshK
    by_cases e : m = n
    · subst e; rw [setF_same]
    · rw [setF_other _ _ _ _ (by simp [e])]; exact h.r m (by omega) hN'
  · intro m hm hp; unfold FreshK; rw [setF_other _ _ _ _ (by simp)] at hp ⊢; exact h.dl m hm hp
  · intro m hm hN' hp
    unfold FreshK
    rw [setF_other _ _ _ _ (by simp)] at hp ⊢
    exact h.dr m hm hN' hp
  · unfold FreshK; rw [setF_other _ _ _ _ (by simp)]; exact h.l0
  · unfold FreshK; rw [setF_other _ _ _ _ (by simp; omega)]; exact h.rN
  · intro hp; unfold FreshK; rw [setF_other _ _ _ _ (by simp)] at hp ⊢; exact h.dl0 hp
  · intro hp; unfold FreshK; rw [setF_other _ _ _ _ (by simp)] at hp ⊢; exact h.drN hp
  · intro hpre m; rw [setF_other _ _ _ _ (by simp), setF_other _ _ _ _ (by simp)]; exact h.nod hpre m

/-- `update_env_(n, to='last')` reads a fresh source (the derived key if the precompute environment holds one) -/
theorem E_updLast {N pre a b ad bd st} (h : GS N pre a b ad bd st) (n : Nat) (hn : n < a) (hnd : n < ad) :
    okEv N pre st (.upd n .last) = true ∧ (next N pre st (.upd n .last)).ver = st.ver ∧
    (next N pre st (.upd n .last)).pC = st.pC ∧
    (next N pre st (.upd n .last)).F = setF st.F (.L (n + 1)) (some (expect N st.ver (.L (n + 1)))) := by
  have hL := h.l n hn
  unfold FreshK at hL
  by_cases hp : (pre && st.present (.DL n)) = true
  · have hpres : st.F (.DL n) ≠ none := by
      simp only [Bool.and_eq_true, St.present] at hp
      intro e; rw [e] at hp; simp at hp
    have hD := h.dl n hnd hpres
    unfold FreshK at hD
    simp [okEv, next, applyRaw, effOf, hp, checkReads, hD, expect_DL, expect_L_succ]
  · simp only [Bool.not_eq_true] at hp
    simp [okEv, next, applyRaw, effOf, hp, checkReads, hL, expect_L_succ]

theorem E_updFirst {N pre a b ad bd st} (h : GS N pre a b ad bd st) (n : Nat) (hn : b ≤ n + 1) (hnd : bd ≤ n + 1) (hN : n < N) :
    okEv N pre st (.upd n .first) = true ∧ (next N pre st (.upd n .first)).ver = st.ver ∧
    (next N pre st (.upd n .first)).pC = st.pC ∧
    (next N pre st (.upd n .first)).F = setF st.F (.R n) (some (expect N st.ver (.R n))) := by
  have hR := h.r (n + 1) hn (by omega)
  unfold FreshK at hR
  by_cases hp : (pre && st.present (.DR (n + 1))) = true
  · have hpres : st.F (.DR (n + 1)) ≠ none := by
      simp only [Bool.and_eq_true, St.present] at hp
      intro e; rw [e] at hp; simp at hp
    have hD := h.dr (n + 1) hnd (by omega) hpres
    unfold FreshK at hD
    simp [okEv, next, applyRaw, effOf, hp, checkReads, hD, expect_DR, expect_R_pred N st.ver n hN]
  · simp only [Bool.not_eq_true] at hp
    simp [okEv, next, applyRaw, effOf, hp, checkReads, hR, expect_R_pred N st.ver n hN]

theorem popAll_apply (F : Key → Option Stamp) (ks : List Key) (k : Key) :
    popAll F ks k = if k ∈ ks then none else F k := by
  induction ks generalizing F with
  | nil => simp [popAll]
  | cons x xs ih =>
    have := ih (setF F x none)
    simp only [popAll, List.foldl_cons] at this ⊢
    rw [this]
    by_cases hx : k = x
    · subst hx; simp [setF]
    · simp [setF, hx]

theorem popAll_filter_apply (st : St) (ks : List Key) (k : Key) :
    popAll st.F (ks.filter st.present) k = if k ∈ ks then none else st.F k := by
  rw [popAll_apply]
  by_cases hk : k ∈ ks
  · by_cases hp : st.present k = true
    · simp [hk, hp]
    · simp only [List.mem_filter, hk, hp, and_false, ↓reduceIte, Bool.false_eq_true]
      simp only [St.present, Bool.not_eq_true, Option.isSome_eq_false_iff, Option.isNone_iff_eq_none] at hp
      exact hp
  · simp [hk]

/-- keys dropped by `clear_site_(*ns)` -/
def clrKeys (pre : Bool) (ns : List Nat) : List Key :=
  ns.flatMap (fun n => if pre then [Key.R n, .L (n + 1), .DR n, .DL (n + 1)] else [Key.R n, .L (n + 1)])

theorem E_clr (N pre st ns) : okEv N pre st (.clr ns) = true ∧ (next N pre st (.clr ns)).ver = st.ver ∧
    (next N pre st (.clr ns)).pC = st.pC ∧
    (∀ k, (next N pre st (.clr ns)).F k = if k ∈ clrKeys pre ns then none else st.F k) := by
  refine ⟨by simp [okEv, applyRaw, effOf], rfl, rfl, ?_⟩
  intro k
  simp only [next, applyRaw, effOf]
  exact popAll_filter_apply st _ k

theorem G.pop {N pre a b ad bd ver F} (h : G N pre a b ad bd ver F) (F' : Key → Option Stamp) (K : List Key)
    (hF : ∀ k, F' k = if k ∈ K then none else F k)
    (hL : ∀ m, Key.L m ∈ K → a ≤ m ∧ m ≠ 0) (hR : ∀ m, Key.R m ∈ K → m < b ∧ m ≠ N) :
    G N pre a b ad bd ver F' := by
  have keep : ∀ k, F' k ≠ none → F' k = F k := by
    intro k hk; rw [hF] at hk ⊢; split <;> simp_all
  constructor
  · intro m hm; unfold FreshK; rw [hF]
    have : Key.L m ∉ K := fun hc => by have := (hL m hc).1; omega
    simp [this]; exact h.l m hm
  · intro m hm hN; unfold FreshK; rw [hF]
    have : Key.R m ∉ K := fun hc => by have := (hR m hc).1; omega
    simp [this]; exact h.r m hm hN
  · intro m hm hp; unfold FreshK; have e := keep _ hp; rw [e] at hp ⊢; exact h.dl m hm hp
  · intro m hm hN hp; unfold FreshK; have e := keep _ hp; rw [e] at hp ⊢; exact h.dr m hm hN hp
  · unfold FreshK; rw [hF]
    have : Key.L 0 ∉ K := fun hc => (hL 0 hc).2 rfl
    simp [this]; exact h.l0
  · unfold FreshK; rw [hF]
    have : Key.R N ∉ K := fun hc => (hR N hc).2 rfl
    simp [this]; exact h.rN
  · intro hp; unfold FreshK; have e := keep _ hp; rw [e] at hp ⊢; exact h.dl0 hp
  · intro hp; unfold FreshK; have e := keep _ hp; rw [e] at hp ⊢; exact h.drN hp
  · intro hpre m
    have := h.nod hpre m
    rw [hF, hF]; constructor <;> (split <;> simp_all)

theorem G.setDR {N a b ad bd ver F} (h : G N true a b ad bd ver F) (m : Nat) :
    G N true a b ad bd ver (setF F (.DR m) (some (expect N ver (.R m)))) := by
  constructor
  · intro k hk; unfold FreshK; rw [setF_other _ _ _ _ (by simp)]; exact h.l k hk
  · intro k hk hN'; unfold FreshK; rw [setF_other _ _ _ _ (by simp)]; exact h.r k hk hN'
  · intro k hk hp; unfold FreshK; rw [setF_other _ _ _ _ (by simp)] at hp ⊢; exact h.dl k hk hp
  · intro k hk hN' hp
    unfold FreshK
    by_cases e : k = m
    · subst e; rw [setF_same]; rfl
    · rw [setF_other _ _ _ _ (by simp [e])] at hp ⊢; exact h.dr k hk hN' hp
  · unfold FreshK; rw [setF_other _ _ _ _ (by simp)]; exact h.l0
  · unfold FreshK; rw [setF_other _ _ _ _ (by simp)]; exact h.rN
  · intro hp; unfold FreshK; rw [setF_other _ _ _ _ (by simp)] at hp ⊢; exact h.dl0 hp
  · intro hp
    unfold FreshK
    by_cases e : N = m
    · subst e; rw [setF_same]; rfl
    · rw [setF_other _ _ _ _ (by simp [e])] at hp ⊢; exact h.drN hp
  · intro hpre; cases hpre

theorem G.setDL {N a b ad bd ver F} (h : G N true a b ad bd ver F) (m : Nat) :
    G N true a b ad bd ver (setF F (.DL m) (some (expect N ver (.L m)))) := by
  constructor
  · intro k hk; unfold FreshK; rw [setF_other _ _ _ _ (by simp)]; exact h.l k hk
  · intro k hk hN'; unfold FreshK; rw [setF_other _ _ _ _ (by simp)]; exact h.r k hk hN'
  · intro k hk hp
    unfold FreshK
    by_cases e : k = m
    · subst e; rw [setF_same]; rfl
    · rw [setF_other _ _ _ _ (by simp [e])] at hp ⊢; exact h.dl k hk hp
  · intro k hk hN' hp; unfold FreshK; rw [setF_other _ _ _ _ (by simp)] at hp ⊢; exact h.dr k hk hN' hp
  · unfold FreshK; rw [setF_other _ _ _ _ (by simp)]; exact h.l0
  · unfold FreshK; rw [setF_other _ _ _ _ (by simp)]; exact h.rN
  · intro hp
    unfold FreshK
    by_cases e : 0 = m
    · subst e; rw [setF_same]; rfl
    · rw [setF_other _ _ _ _ (by simp [e])] at hp ⊢; exact h.dl0 hp
  · intro hp; unfold FreshK; rw [setF_other _ _ _ _ (by simp)] at hp ⊢; exact h.drN hp
  · intro hpre; cases hpre

theorem present_iff (st : St) (k : Key) : st.present k = true ↔ st.F k ≠ none := by
  simp [St.present, Option.isSome_iff_ne_none]

theorem E_h0 {N pre a b ad bd st} (h : GS N pre a b ad bd st) (m : Nat) (ha : m < a) (hb : b ≤ m) (hN : m ≤ N) :
    okEv N pre st (.h0 m) = true ∧ next N pre st (.h0 m) = st := by
  have hL := h.l m ha
  have hR := h.r m hb hN
  unfold FreshK at hL hR
  simp [okEv, next, applyRaw, effOf, writeDerived, checkReads, hL, hR]

theorem E_meas {N pre a b ad bd st} (h : GS N pre a b ad bd st) (m : Nat) (ha : m < a) (hb : b ≤ m) (hN : m ≤ N) :
    okEv N pre st (.meas m) = true ∧ next N pre st (.meas m) = st := by
  have hL := h.l m ha
  have hR := h.r m hb hN
  unfold FreshK at hL hR
  simp [okEv, next, applyRaw, effOf, writeDerived, checkReads, hL, hR]

theorem E_h1 {N pre a b ad bd st} (h : GS N pre a b ad bd st) (n : Nat) (ha : n < a) (hb : b ≤ n + 1) (hbd : bd ≤ n + 1)
    (hN : n + 1 ≤ N) :
    okEv N pre st (.h1 n) = true ∧ (next N pre st (.h1 n)).ver = st.ver ∧ (next N pre st (.h1 n)).pC = st.pC ∧
    GS N pre a b ad bd (next N pre st (.h1 n)) := by
  have hL := h.l n ha
  have hR := h.r (n + 1) hb hN
  unfold FreshK at hL hR
  cases pre with
  | false =>
    have : next N false st (.h1 n) = st := by simp [next, applyRaw, effOf, writeDerived]
    rw [this]
    exact ⟨by simp [okEv, applyRaw, effOf, writeDerived, checkReads, hL, hR], rfl, rfl, h⟩
  | true =>
    by_cases hp : st.present (.DR (n + 1)) = true
    · have hD := h.dr (n + 1) hbd hN ((present_iff _ _).mp hp)
      unfold FreshK at hD
      have : next N true st (.h1 n) = st := by simp [next, applyRaw, effOf, writeDerived, hp]
      rw [this]
      exact ⟨by simp [okEv, applyRaw, effOf, writeDerived, checkReads, hL, hD, hp], rfl, rfl, h⟩
    · simp only [Bool.not_eq_true] at hp
      have hF : (next N true st (.h1 n)).F = setF st.F (.DR (n + 1)) (some (expect N st.ver (.R (n + 1)))) := by
        simp [next, applyRaw, effOf, writeDerived, hp, Key.parent, hR]
      refine ⟨?_, ?_, ?_, ?_⟩
      · simp [okEv, applyRaw, effOf, writeDerived, checkReads, hp, Key.parent, hR, hL, setF, expect_DR]
      · simp [next, applyRaw, effOf, writeDerived, hp, Key.parent, hR]
      · simp [next, applyRaw, effOf, writeDerived, hp, Key.parent, hR]
      · unfold GS
        rw [hF]
        have hv : (next N true st (.h1 n)).ver = st.ver := by
          simp [next, applyRaw, effOf, writeDerived, hp, Key.parent, hR]
        rw [hv]
        exact G.setDR h (n + 1)

theorem E_h2 {N pre a b ad bd st} (h : GS N pre a b ad bd st) (n : Nat) (ha : n < a) (had : n < ad) (hb : b ≤ n + 2)
    (hbd : bd ≤ n + 2) (hN : n + 2 ≤ N) :
    okEv N pre st (.h2 n) = true ∧ (next N pre st (.h2 n)).ver = st.ver ∧ (next N pre st (.h2 n)).pC = st.pC ∧
    GS N pre a b ad bd (next N pre st (.h2 n)) := by
  have hL := h.l n ha
  have hR := h.r (n + 2) hb hN
  unfold FreshK at hL hR
  cases pre with
  | false =>
    have : next N false st (.h2 n) = st := by simp [next, applyRaw, effOf, writeDerived]
    rw [this]
    exact ⟨by simp [okEv, applyRaw, effOf, writeDerived, checkReads, hL, hR], rfl, rfl, h⟩
  | true =>
    by_cases hpl : st.present (.DL n) = true <;> by_cases hpr : st.present (.DR (n + 2)) = true
    · have hDL := h.dl n had ((present_iff _ _).mp hpl)
      have hDR := h.dr (n + 2) hbd hN ((present_iff _ _).mp hpr)
      unfold FreshK at hDL hDR
      have : next N true st (.h2 n) = st := by simp [next, applyRaw, effOf, writeDerived, hpl, hpr]
      rw [this]
      exact ⟨by simp [okEv, applyRaw, effOf, writeDerived, checkReads, hDL, hDR, hpl, hpr], rfl, rfl, h⟩
    · have hDL := h.dl n had ((present_iff _ _).mp hpl)
      unfold FreshK at hDL
      simp only [Bool.not_eq_true] at hpr
      have hF : (next N true st (.h2 n)).F = setF st.F (.DR (n + 2)) (some (expect N st.ver (.R (n + 2)))) := by
        simp [next, applyRaw, effOf, writeDerived, hpl, hpr, Key.parent, hR]
      have hv : (next N true st (.h2 n)).ver = st.ver := by
        simp [next, applyRaw, effOf, writeDerived, hpl, hpr, Key.parent, hR]
      refine ⟨?_, hv, ?_, ?_⟩
      · simp [okEv, applyRaw, effOf, writeDerived, checkReads, hpl, hpr, Key.parent, hR, hDL, setF, expect_DR]
      · simp [next, applyRaw, effOf, writeDerived, hpl, hpr, Key.parent, hR]
      · unfold GS; rw [hF, hv]; exact G.setDR h (n + 2)
    · have hDR := h.dr (n + 2) hbd hN ((present_iff _ _).mp hpr)
      unfold FreshK at hDR
      simp only [Bool.not_eq_true] at hpl
      have hF : (next N true st (.h2 n)).F = setF st.F (.DL n) (some (expect N st.ver (.L n))) := by
        simp [next, applyRaw, effOf, writeDerived, hpl, hpr, Key.parent, hL]
      have hv : (next N true st (.h2 n)).ver = st.ver := by
        simp [next, applyRaw, effOf, writeDerived, hpl, hpr, Key.parent, hL]
      refine ⟨?_, hv, ?_, ?_⟩
      · simp [okEv, applyRaw, effOf, writeDerived, checkReads, hpl, hpr, Key.parent, hL, hDR, setF, expect_DL]
      · simp [next, applyRaw, effOf, writeDerived, hpl, hpr, Key.parent, hL]
      · unfold GS; rw [hF, hv]; exact G.setDL h n
    · simp only [Bool.not_eq_true] at hpl hpr
      have hF : (next N true st (.h2 n)).F =
          setF (setF st.F (.DL n) (some (expect N st.ver (.L n)))) (.DR (n + 2)) (some (expect N st.ver (.R (n + 2)))) := by
        simp [next, applyRaw, effOf, writeDerived, hpl, hpr, Key.parent, hL, hR, setF]
      have hv : (next N true st (.h2 n)).ver = st.ver := by
        simp [next, applyRaw, effOf, writeDerived, hpl, hpr, Key.parent, hL, hR, setF]
      refine ⟨?_, hv, ?_, ?_⟩
      · simp [okEv, applyRaw, effOf, writeDerived, checkReads, hpl, hpr, Key.parent, hL, hR, setF, expect_DL, expect_DR]
      · simp [next, applyRaw, effOf, writeDerived, hpl, hpr, Key.parent, hL, hR, setF]
      · unfold GS; rw [hF, hv]; exact G.setDR (G.setDL h n) (n + 2)

/-! ### Hoare layer -/

/-- state predicate of the calculus: the freshness ranges and the position of the central block -/
def S (N : Nat) (pre : Bool) (a b ad bd : Nat) (c : Option Nat) (st : St) : Prop := GS N pre a b ad bd st ∧ st.pC = c

def Ev1 (N : Nat) (pre : Bool) (P : St → Prop) (e : Ev) (Q : St → Prop) : Prop :=
  ∀ st, P st → okEv N pre st e = true ∧ Q (next N pre st e)

/-- `Tr P es Q`: from any state satisfying `P` the trace `es` runs without a stale / missing read and ends in `Q` -/
def Tr (N : Nat) (pre : Bool) (P : St → Prop) (es : List Ev) (Q : St → Prop) : Prop :=
  ∀ st, P st → (exec N pre st es).2 = true ∧ Q (exec N pre st es).1

theorem Tr.nil {N pre} {P Q : St → Prop} (h : ∀ st, P st → Q st) : Tr N pre P [] Q := fun st hp => ⟨rfl, h st hp⟩

theorem Tr.cons {N pre} {P R Q : St → Prop} {e : Ev} {es : List Ev} (h1 : Ev1 N pre P e R) (h2 : Tr N pre R es Q) :
    Tr N pre P (e :: es) Q := by
  intro st hp
  obtain ⟨ok1, hr⟩ := h1 st hp
  obtain ⟨ok2, hq⟩ := h2 _ hr
  simp only [exec, ok1, ok2, Bool.and_self]
  exact ⟨trivial, hq⟩

theorem exec_append (N pre) (st : St) (a b : List Ev) :
    exec N pre st (a ++ b) = ((exec N pre (exec N pre st a).1 b).1, (exec N pre st a).2 && (exec N pre (exec N pre st a).1 b).2) := by
  induction a generalizing st with
  | nil => simp [exec]
  | cons e es ih => simp only [List.cons_append, exec, ih, Bool.and_assoc]

theorem Tr.append {N pre} {P R Q : St → Prop} {a b : List Ev} (h1 : Tr N pre P a R) (h2 : Tr N pre R b Q) :
    Tr N pre P (a ++ b) Q := by
  intro st hp
  obtain ⟨ok1, hr⟩ := h1 st hp
  obtain ⟨ok2, hq⟩ := h2 _ hr
  rw [exec_append]
  simp only [ok1, ok2, Bool.and_self]
  exact ⟨trivial, hq⟩

theorem Tr.weaken {N pre} {P P' Q Q' : St → Prop} {es : List Ev} (h : Tr N pre P es Q) (hp : ∀ st, P' st → P st)
    (hq : ∀ st, Q st → Q' st) : Tr N pre P' es Q' := fun st h' => ⟨(h st (hp st h')).1, hq _ (h st (hp st h')).2⟩

/-- ascending loop -/
theorem Tr.loopUp {N pre} (I : Nat → St → Prop) (f : Nat → List Ev) :
    ∀ (k n : Nat), (∀ i, n ≤ i → i < n + k → Tr N pre (I i) (f i) (I (i + 1))) →
      Tr N pre (I n) ((List.range' n k).flatMap f) (I (n + k)) := by
  intro k
  induction k with
  | zero => intro n _; exact Tr.nil (fun st h => h)
  | succ k ih =>
    intro n h
    rw [List.range'_succ, List.flatMap_cons]
    have h1 := h n (Nat.le_refl _) (by omega)
    have h2 := ih (n + 1) (fun i hi hi' => h i (by omega) (by omega))
    have e : n + 1 + k = n + (k + 1) := by omega
    rw [e] at h2
    exact Tr.append h1 h2

/-- descending loop -/
theorem Tr.loopDown {N pre} (I : Nat → St → Prop) (f : Nat → List Ev) :
    ∀ (k : Nat), (∀ i, i < k → Tr N pre (I (i + 1)) (f i) (I i)) →
      Tr N pre (I k) ((List.range k).reverse.flatMap f) (I 0) := by
  intro k
  induction k with
  | zero => intro _; exact Tr.nil (fun st h => h)
  | succ k ih =>
    intro h
    rw [List.range_succ, List.reverse_append, List.reverse_singleton, List.singleton_append, List.flatMap_cons]
    exact Tr.append (h k (by omega)) (ih (fun i hi => h i (by omega)))

section rules
variable {N : Nat} {pre : Bool} {a b ad bd : Nat}

theorem T_h1 (c : Option Nat) (n : Nat) (ha : n < a) (hb : b ≤ n + 1) (hbd : bd ≤ n + 1) (hN : n + 1 ≤ N) :
    Ev1 N pre (S N pre a b ad bd c) (.h1 n) (S N pre a b ad bd c) := by
  intro st ⟨hg, hc⟩
  obtain ⟨ok, _, hp, hg'⟩ := E_h1 hg n ha hb hbd hN
  exact ⟨ok, hg', by rw [hp, hc]⟩

theorem T_h2 (c : Option Nat) (n : Nat) (ha : n < a) (had : n < ad) (hb : b ≤ n + 2) (hbd : bd ≤ n + 2) (hN : n + 2 ≤ N) :
    Ev1 N pre (S N pre a b ad bd c) (.h2 n) (S N pre a b ad bd c) := by
  intro st ⟨hg, hc⟩
  obtain ⟨ok, _, hp, hg'⟩ := E_h2 hg n ha had hb hbd hN
  exact ⟨ok, hg', by rw [hp, hc]⟩

theorem T_h0 (c : Option Nat) (m : Nat) (ha : m < a) (hb : b ≤ m) (hN : m ≤ N) :
    Ev1 N pre (S N pre a b ad bd c) (.h0 m) (S N pre a b ad bd c) := by
  intro st ⟨hg, hc⟩
  obtain ⟨ok, e⟩ := E_h0 hg m ha hb hN
  rw [e]; exact ⟨ok, hg, hc⟩

theorem T_meas (c : Option Nat) (m : Nat) (ha : m < a) (hb : b ≤ m) (hN : m ≤ N) :
    Ev1 N pre (S N pre a b ad bd c) (.meas m) (S N pre a b ad bd c) := by
  intro st ⟨hg, hc⟩
  obtain ⟨ok, e⟩ := E_meas hg m ha hb hN
  rw [e]; exact ⟨ok, hg, hc⟩

theorem T_w1 (n : Nat) {a' b' ad' bd' : Nat} (h1 : a' ≤ min a (n + 1)) (h2 : max b (n + 1) ≤ b')
    (h3 : ad' ≤ min ad (n + 1)) (h4 : max bd (n + 1) ≤ bd') :
    Ev1 N pre (S N pre a b ad bd none) (.w1 n) (S N pre a' b' ad' bd' none) := by
  intro st ⟨hg, hc⟩
  obtain ⟨ok, hv, hF, hp⟩ := E_w1 N pre st n
  refine ⟨by rw [ok, hc]; rfl, ?_, by rw [hp, hc]⟩
  unfold GS; rw [hv, hF]; exact (hg.bump n).mono h1 h2 h3 h4

theorem T_orth (n : Nat) (to : Dir) {a' b' ad' bd' : Nat} (h1 : a' ≤ min a (n + 1)) (h2 : max b (n + 1) ≤ b')
    (h3 : ad' ≤ min ad (n + 1)) (h4 : max bd (n + 1) ≤ bd') :
    Ev1 N pre (S N pre a b ad bd none) (.orth n to) (S N pre a' b' ad' bd' (some (bondAfter to n))) := by
  intro st ⟨hg, hc⟩
  obtain ⟨ok, hv, hF, hp⟩ := E_orth N pre st n to
  refine ⟨by rw [ok, hc]; rfl, ?_, hp⟩
  unfold GS; rw [hv, hF]; exact (hg.bump n).mono h1 h2 h3 h4

theorem T_w2 (n : Nat) {a' b' ad' bd' : Nat} (h1 : a' ≤ min a (n + 1)) (h2 : max b (n + 2) ≤ b')
    (h3 : ad' ≤ min ad (n + 1)) (h4 : max bd (n + 2) ≤ bd') :
    Ev1 N pre (S N pre a b ad bd none) (.w2 n) (S N pre a' b' ad' bd' (some (n + 1))) := by
  intro st ⟨hg, hc⟩
  obtain ⟨ok, hv, hF, hp⟩ := E_w2 N pre st n
  refine ⟨by rw [ok, hc]; rfl, ?_, hp⟩
  unfold GS; rw [hv, hF]
  exact ((hg.bump n).bump (n + 1)).mono (by omega) (by omega) (by omega) (by omega)

theorem T_abs (to : Dir) (m : Nat) {a' b' ad' bd' : Nat} (h1 : a' ≤ min a (absSite N to m + 1))
    (h2 : max b (absSite N to m + 1) ≤ b') (h3 : ad' ≤ min ad (absSite N to m + 1))
    (h4 : max bd (absSite N to m + 1) ≤ bd') :
    Ev1 N pre (S N pre a b ad bd (some m)) (.abs to) (S N pre a' b' ad' bd' none) := by
  intro st ⟨hg, hc⟩
  obtain ⟨ok, hv, hF, hp⟩ := E_abs N pre st to m hc
  refine ⟨ok, ?_, hp⟩
  unfold GS; rw [hv, hF]; exact (hg.bump _).mono h1 h2 h3 h4

theorem T_mA (n : Nat) (s : Sgn) : Ev1 N pre (S N pre a b ad bd none) (.mA n s) (S N pre a b ad bd none) := by
  intro st ⟨hg, hc⟩
  exact ⟨E_mA_ok N pre st n s hc, hg, hc⟩

theorem T_mAA (n : Nat) (s : Sgn) : Ev1 N pre (S N pre a b ad bd none) (.mAA n s) (S N pre a b ad bd none) := by
  intro st ⟨hg, hc⟩
  exact ⟨E_mAA_ok N pre st n s hc, hg, hc⟩

theorem T_enl (c : Option Nat) (m : Nat) (r : Bool) : Ev1 N pre (S N pre a b ad bd c) (.enl m r) (S N pre a b ad bd c) := by
  intro st ⟨hg, hc⟩
  exact ⟨E_enl_ok N pre st m r, hg, hc⟩

theorem T_mC (m : Nat) (s : Sgn) : Ev1 N pre (S N pre a b ad bd (some m)) (.mC m s) (S N pre a b ad bd (some m)) := by
  intro st ⟨hg, hc⟩
  obtain ⟨ok, e⟩ := E_mC N pre st m s hc
  rw [e]; exact ⟨ok, hg, hc⟩

theorem T_wC (m : Nat) : Ev1 N pre (S N pre a b ad bd (some m)) (.wC m) (S N pre a b ad bd (some m)) := by
  intro st ⟨hg, hc⟩
  obtain ⟨ok, e⟩ := E_wC N pre st m hc
  rw [e]; exact ⟨ok, hg, hc⟩

theorem T_updLast (c : Option Nat) (n : Nat) {a' : Nat} (hn : n < a) (hnd : n < ad) (ha' : a' ≤ max a (n + 2)) :
    Ev1 N pre (S N pre a b ad bd c) (.upd n .last) (S N pre a' b ad bd c) := by
  intro st ⟨hg, hc⟩
  obtain ⟨ok, hv, hp, hF⟩ := E_updLast hg n hn hnd
  refine ⟨ok, ?_, by rw [hp, hc]⟩
  unfold GS; rw [hv, hF]
  exact (hg.setL n hn).mono ha' (Nat.le_refl _) (Nat.le_refl _) (Nat.le_refl _)

theorem T_updFirst (c : Option Nat) (n : Nat) {b' : Nat} (hn : b ≤ n + 1) (hnd : bd ≤ n + 1) (hN : n < N)
    (hb' : min b n ≤ b') :
    Ev1 N pre (S N pre a b ad bd c) (.upd n .first) (S N pre a b' ad bd c) := by
  intro st ⟨hg, hc⟩
  obtain ⟨ok, hv, hp, hF⟩ := E_updFirst hg n hn hnd hN
  refine ⟨ok, ?_, by rw [hp, hc]⟩
  unfold GS; rw [hv, hF]
  exact (hg.setR n hn hN).mono (Nat.le_refl _) hb' (Nat.le_refl _) (Nat.le_refl _)

theorem mem_clrKeys_L {pre : Bool} {ns : List Nat} {m : Nat} : Key.L m ∈ clrKeys pre ns ↔ ∃ x ∈ ns, m = x + 1 := by
  cases pre <;> simp [clrKeys, eq_comm]

theorem mem_clrKeys_R {pre : Bool} {ns : List Nat} {m : Nat} : Key.R m ∈ clrKeys pre ns ↔ m ∈ ns := by
  cases pre <;> simp [clrKeys, eq_comm]

theorem mem_clrKeys_DL {ns : List Nat} {m : Nat} : Key.DL m ∈ clrKeys true ns ↔ ∃ x ∈ ns, m = x + 1 := by
  simp [clrKeys, eq_comm]

theorem mem_clrKeys_DR {ns : List Nat} {m : Nat} : Key.DR m ∈ clrKeys true ns ↔ m ∈ ns := by
  simp [clrKeys, eq_comm]

theorem T_clr (c : Option Nat) (ns : List Nat) {ad' bd' : Nat}
    (h : ∀ x ∈ ns, a ≤ x + 1 ∧ x < b ∧ x < N)
    (hl : ∀ m, ad ≤ m → m < ad' → ∃ x ∈ ns, m = x + 1) (hr : ∀ m, bd' ≤ m → m < bd → m ∈ ns) :
    Ev1 N pre (S N pre a b ad bd c) (.clr ns) (S N pre a b ad' bd' c) := by
  intro st ⟨hg, hc⟩
  obtain ⟨ok, hv, hp, hF⟩ := E_clr N pre st ns
  refine ⟨ok, ?_, by rw [hp, hc]⟩
  unfold GS; rw [hv]
  have g1 : G N pre a b ad bd st.ver (next N pre st (.clr ns)).F := by
    apply hg.pop _ (clrKeys pre ns) hF
    · intro m hm
      obtain ⟨x, hx, rfl⟩ := mem_clrKeys_L.mp hm
      exact ⟨(h x hx).1, by omega⟩
    · intro m hm
      have := h m (mem_clrKeys_R.mp hm)
      exact ⟨this.2.1, by omega⟩
  apply g1.extend
  · intro m h1 h2
    rw [hF]
    cases pre with
    | true => simp [mem_clrKeys_DL.mpr (hl m h1 h2)]
    | false =>
      split
      · rfl
      · exact (hg.nod rfl m).1
  · intro m h1 h2
    rw [hF]
    cases pre with
    | true => simp [mem_clrKeys_DR.mpr (hr m h1 h2)]
    | false =>
      split
      · rfl
      · exact (hg.nod rfl m).2

end rules

end YModel.Sched
