import YProofs.Lemmas.KrylovLemmas
import Mathlib.Algebra.Order.Field.Basic
import Mathlib.Tactic.Linarith
/-!
# Time bookkeeping of `expmv` (C18): the adaptive loop never overshoots and the accepted steps sum to `t`

Ordered field `K`, `lt a b := decide (a < b)`, `abs := |·|`; the operator `f`, the dense `expm`, the controller
`ctrl` (accept/reject decisions and its proposals `tauNew`, `ncvNew`), `ip`, `sq`, `rp` are ARBITRARY.
-/
namespace YModel.Krylov

variable {K E σ : Type} [Field K] [LinearOrder K] [IsStrictOrderedRing K] [AddCommGroup E] [Module K E]

/-- the model's arithmetic over an ordered field -/
abbrev ordArith (ip : E → E → K) (sq rp : K → K) : Arith K E :=
  fieldArith ip sq (fun x => |x|) rp (fun a b => decide (a < b))

variable (ip : E → E → K) (sq rp : K → K)

omit [IsStrictOrderedRing K] in
theorem minK_eq (a b : K) : minK (ordArith ip sq rp) a b = min a b := by
  show (if decide (b < a) = true then b else a) = min a b
  by_cases h : b < a
  · simp [h, min_eq_right h.le]
  · simp [h, min_eq_left (not_lt.mp h)]

omit [IsStrictOrderedRing K] in
theorem maxK_eq (a b : K) : maxK (ordArith ip sq rp) a b = max a b := by
  show (if decide (a < b) = true then b else a) = max a b
  by_cases h : a < b
  · simp [h, max_eq_right h.le]
  · simp [h, max_eq_left (not_lt.mp h)]

omit [IsStrictOrderedRing K] in
/-- what one pass of the `while` loop does to `t_now`, `tau` and the ghost list of exponents, whatever
`f`, `expm`, `ctrl` return -/
theorem expmvIter_time (f : E → E) (expm : List (List K) → List (List K))
    (ctrl : σ → CtrlIn K → CtrlOut K × σ) (tol : K) (herm : Bool) (ncvMax : Nat) (sgn tOut : K) (st : ES K E σ) :
    ∃ (accept happy : Bool) (tauNew : K), (happy = true → accept = true) ∧
      (expmvIter (ordArith ip sq rp) f expm ctrl tol herm ncvMax sgn tOut st).tNow
        = (if accept then st.tNow + (if happy then tOut - st.tNow else st.tau) else st.tNow) ∧
      (expmvIter (ordArith ip sq rp) f expm ctrl tol herm ncvMax sgn tOut st).steps
        = (if accept then sgn * (if happy then tOut - st.tNow else st.tau) :: st.steps else st.steps) ∧
      (expmvIter (ordArith ip sq rp) f expm ctrl tol herm ncvMax sgn tOut st).tau
        = min (min (max (1 / 5 * (if happy then tOut - st.tNow else st.tau)) tauNew)
            (tOut - (expmvIter (ordArith ip sq rp) f expm ctrl tol herm ncvMax sgn tOut st).tNow))
            (2 * (if happy then tOut - st.tNow else st.tau)) := by
  unfold expmvIter
  dsimp only
  generalize expand (ordArith ip sq rp) f tol st.ncv herm (st.ks.getD { V := [st.v], cols := [] }) = r
  generalize hd : ctrl st.mem _ = d
  refine ⟨r.2 || d.1.accept, r.2, d.1.tauNew, fun h => by simp [h], ?_, ?_, ?_⟩
  · cases r.2 <;> cases d.1.accept <;> rfl
  · cases r.2 <;> cases d.1.accept <;> rfl
  · rw [minK_eq, minK_eq, maxK_eq]
    cases r.2 <;> cases d.1.accept <;> simp [fieldArith]

/-- time invariant of the `while t_now < t_out` loop.  `taus` are the accepted step sizes, newest first. -/
structure TInv (sgn tOut : K) (st : ES K E σ) : Prop where
  le : st.tNow ≤ tOut
  tau : st.tNow < tOut → 0 < st.tau ∧ st.tau ≤ tOut - st.tNow
  steps : ∃ taus : List K, st.steps = taus.map (fun τ => sgn * τ) ∧ (∀ τ ∈ taus, 0 < τ) ∧ taus.sum = st.tNow

/-- one pass preserves the invariant; an accepted pass advances `t_now` by some `0 < τ ≤ t_out - t_now` and
records `sgn * τ`, a rejected pass leaves `t_now` and the record alone -/
theorem expmvIter_inv (f : E → E) (expm : List (List K) → List (List K))
    (ctrl : σ → CtrlIn K → CtrlOut K × σ) (tol : K) (herm : Bool) (ncvMax : Nat) (sgn tOut : K) (st : ES K E σ)
    (hinv : TInv sgn tOut st) (hlt : st.tNow < tOut) :
    TInv sgn tOut (expmvIter (ordArith ip sq rp) f expm ctrl tol herm ncvMax sgn tOut st) ∧
    (((expmvIter (ordArith ip sq rp) f expm ctrl tol herm ncvMax sgn tOut st).tNow = st.tNow ∧
      (expmvIter (ordArith ip sq rp) f expm ctrl tol herm ncvMax sgn tOut st).steps = st.steps) ∨
     ∃ τ, 0 < τ ∧ τ ≤ tOut - st.tNow ∧
      (expmvIter (ordArith ip sq rp) f expm ctrl tol herm ncvMax sgn tOut st).tNow = st.tNow + τ ∧
      (expmvIter (ordArith ip sq rp) f expm ctrl tol herm ncvMax sgn tOut st).steps = sgn * τ :: st.steps) := by
  obtain ⟨accept, happy, tauNew, _, h1, h2, h3⟩ := expmvIter_time ip sq rp f expm ctrl tol herm ncvMax sgn tOut st
  generalize expmvIter (ordArith ip sq rp) f expm ctrl tol herm ncvMax sgn tOut st = st' at h1 h2 h3 ⊢
  obtain ⟨ht0, ht1⟩ := hinv.tau hlt
  obtain ⟨taus, hs1, hs2, hs3⟩ := hinv.steps
  -- the step size actually used
  have hτ : 0 < (if happy then tOut - st.tNow else st.tau) ∧
      (if happy then tOut - st.tNow else st.tau) ≤ tOut - st.tNow := by
    cases happy
    · exact ⟨ht0, ht1⟩
    · exact ⟨by simp only [if_true]; linarith, by simp⟩
  generalize (if happy then tOut - st.tNow else st.tau) = τ at h1 h2 h3 hτ
  have hle : st'.tNow ≤ tOut := by
    rw [h1]; cases accept
    · exact hinv.le
    · simp only [if_true]; linarith [hτ.2]
  refine ⟨⟨hle, ?_, ?_⟩, ?_⟩
  · intro hlt'
    rw [h3]
    have h5 : (0 : K) < 1 / 5 * τ := by have := hτ.1; positivity
    refine ⟨?_, le_trans (min_le_left _ _) (min_le_right _ _)⟩
    refine lt_min (lt_min (lt_of_lt_of_le h5 (le_max_left _ _)) (by linarith)) (by linarith [hτ.1])
  · cases accept
    · exact ⟨taus, by rw [h2]; exact hs1, hs2, by rw [h1]; exact hs3⟩
    · refine ⟨τ :: taus, by rw [h2]; simp [hs1], ?_, by rw [h1]; simp [hs3]; ring⟩
      intro x hx
      rcases List.mem_cons.mp hx with rfl | hx
      · exact hτ.1
      · exact hs2 x hx
  · cases accept
    · left; exact ⟨by rw [h1]; rfl, by rw [h2]; rfl⟩
    · right; exact ⟨τ, hτ.1, hτ.2, by rw [h1]; rfl, by rw [h2]; rfl⟩

/-- the loop: if it returns, `t_now = t_out` exactly and the invariant holds -/
theorem expmvLoop_inv (f : E → E) (expm : List (List K) → List (List K))
    (ctrl : σ → CtrlIn K → CtrlOut K × σ) (tol : K) (herm : Bool) (ncvMax : Nat) (sgn tOut : K)
    (fuel : Nat) (st st' : ES K E σ) (hinv : TInv sgn tOut st)
    (h : expmvLoop (ordArith ip sq rp) f expm ctrl tol herm ncvMax sgn tOut fuel st = some st') :
    TInv sgn tOut st' ∧ st'.tNow = tOut := by
  induction fuel generalizing st with
  | zero =>
    rw [expmvLoop] at h
    by_cases hlt : st.tNow < tOut
    · rw [if_pos (by show decide (st.tNow < tOut) = true; simpa using hlt)] at h
      exact absurd h (by simp)
    · rw [if_neg (by show ¬ decide (st.tNow < tOut) = true; simpa using hlt)] at h
      obtain rfl : st = st' := by simpa using h
      exact ⟨hinv, le_antisymm hinv.le (not_lt.mp hlt)⟩
  | succ fuel ih =>
    rw [expmvLoop] at h
    by_cases hlt : st.tNow < tOut
    · rw [if_pos (by show decide (st.tNow < tOut) = true; simpa using hlt)] at h
      exact ih _ (expmvIter_inv ip sq rp f expm ctrl tol herm ncvMax sgn tOut st hinv hlt).1 h
    · rw [if_neg (by show ¬ decide (st.tNow < tOut) = true; simpa using hlt)] at h
      obtain rfl : st = st' := by simpa using h
      exact ⟨hinv, le_antisymm hinv.le (not_lt.mp hlt)⟩

omit [IsStrictOrderedRing K] in
/-- when `t_now < t_out` is false at the start the body never runs -/
theorem expmvLoop_done (f : E → E) (expm : List (List K) → List (List K))
    (ctrl : σ → CtrlIn K → CtrlOut K × σ) (tol : K) (herm : Bool) (ncvMax : Nat) (sgn tOut : K)
    (fuel : Nat) (st : ES K E σ) (h : ¬ st.tNow < tOut) :
    expmvLoop (ordArith ip sq rp) f expm ctrl tol herm ncvMax sgn tOut fuel st = some st := by
  cases fuel <;> rw [expmvLoop, if_neg (by show ¬ decide (st.tNow < tOut) = true; simpa using h)]

/-- positive steps summing to `tOut`: every step fits into the time that was left before it -/
theorem steps_fit {tOut : K} {taus : List K} (hpos : ∀ τ ∈ taus, 0 < τ) (hsum : taus.sum = tOut)
    (newer older : List K) (τ : K) (hsplit : taus = newer ++ τ :: older) :
    0 < τ ∧ τ ≤ tOut - older.sum := by
  subst hsplit
  refine ⟨hpos τ (by simp), ?_⟩
  have : 0 ≤ newer.sum := List.sum_nonneg (fun x hx => (hpos x (by simp [hx])).le)
  rw [List.sum_append, List.sum_cons] at hsum
  linarith

/-- the model's `sgn` (`t/|t|`, or `0` when `|t| = 0`) is `t / |t|` with the field's convention `0/0 = 0` -/
theorem expmv_sgn_eq (t : K) :
    (if (ordArith ip sq rp).lt (ordArith ip sq rp).zero ((ordArith ip sq rp).abs t) then
      (ordArith ip sq rp).div t ((ordArith ip sq rp).abs t) else (ordArith ip sq rp).zero) = t / |t| := by
  show (if decide ((0 : K) < |t|) = true then t / |t| else 0) = t / |t|
  by_cases h : (0 : K) < |t|
  · simp [h]
  · have : t = 0 := by simpa using h
    simp [this]

/-- `expmv` for a vector of non-zero norm: the loop runs from `t_now = 0`, `tau = |t|` to `t_out = |t|` -/
theorem expmv_eq_of_ne (f : E → E) (expm : List (List K) → List (List K))
    (ctrl : σ → CtrlIn K → CtrlOut K × σ) (mem0 : σ) (fuel size : Nat) (v : E) (t tol : K) (ncv : Nat)
    (herm normalize : Bool) (hv : sq (ip v v) ≠ 0) :
    expmv (ordArith ip sq rp) f expm ctrl mem0 fuel size v t tol ncv herm normalize =
      match expmvLoop (ordArith ip sq rp) f expm ctrl tol herm (min 30 size) (t / |t|) |t| fuel
        { tNow := 0, tau := |t|, ncv := max 1 ncv, ks := none, v := ((1 : K) / sq (ip v v)) • v,
          normv := sq (ip v v), mem := mem0, steps := [], nf := 0 } with
      | none => .error .index
      | some st => .ok { v := if normalize then st.v else st.normv • st.v, steps := st.steps, nf := st.nf,
                         ncv := st.ncv } := by
  have hz : (ordArith ip sq rp).isZero (norm (ordArith ip sq rp) v) = false := by
    show decide (sq (ip v v) = 0) = false
    simpa using hv
  unfold expmv
  dsimp only
  rw [hz, expmv_sgn_eq]
  simp only [Bool.false_and, Bool.false_eq_true, if_false]
  rfl

/-- `expmv` for a vector of zero norm: `t_out = 0` -/
theorem expmv_eq_of_zero (f : E → E) (expm : List (List K) → List (List K))
    (ctrl : σ → CtrlIn K → CtrlOut K × σ) (mem0 : σ) (fuel size : Nat) (v : E) (t tol : K) (ncv : Nat)
    (herm normalize : Bool) (hv : sq (ip v v) = 0) :
    expmv (ordArith ip sq rp) f expm ctrl mem0 fuel size v t tol ncv herm normalize =
      if normalize then .error .zeroVector else
      match expmvLoop (ordArith ip sq rp) f expm ctrl tol herm (min 30 size) (t / |t|) 0 fuel
        { tNow := 0, tau := |t|, ncv := max 1 ncv, ks := none, v := v,
          normv := sq (ip v v), mem := mem0, steps := [], nf := 0 } with
      | none => .error .index
      | some st => .ok { v := if normalize then st.v else st.normv • st.v, steps := st.steps, nf := st.nf,
                         ncv := st.ncv } := by
  have hz : (ordArith ip sq rp).isZero (norm (ordArith ip sq rp) v) = true := by
    show decide (sq (ip v v) = 0) = true
    simpa using hv
  unfold expmv
  dsimp only
  rw [hz, expmv_sgn_eq]
  simp only [Bool.true_and, if_true]
  rfl

end YModel.Krylov
