import YProofs.Lemmas.TruncStage
/-! Helpers for "ties are the only freedom": lists of integers with the same number of entries above
every bound are permutations of each other. -/
namespace YModel.Trunc

theorem count_add_countP_gt (l : List Int) (a : Int) :
    l.count a + l.countP (fun v => decide (a < v)) = l.countP (fun v => decide (a - 1 < v)) := by
  induction l with
  | nil => rfl
  | cons x r ih =>
    simp only [List.count_cons, List.countP_cons, beq_iff_eq]
    by_cases h1 : x = a
    · subst h1
      have h2 : ¬ (x < x) := by omega
      have h3 : x - 1 < x := by omega
      simp only [h2, h3, decide_true, decide_false, if_true, Bool.false_eq_true, if_false]
      omega
    · by_cases h2 : a < x
      · have h3 : a - 1 < x := by omega
        simp only [h1, h2, h3, decide_true, if_true, if_false]
        omega
      · have h3 : ¬ (a - 1 < x) := by omega
        simp only [h1, h2, h3, decide_false, Bool.false_eq_true, if_false]
        omega

/-- equal counting functions ⇒ equal multisets -/
theorem perm_of_countP_gt {l l' : List Int}
    (h : ∀ b : Int, l.countP (fun v => decide (b < v)) = l'.countP (fun v => decide (b < v))) : l.Perm l' := by
  rw [List.perm_iff_count]
  intro a
  have h1 := count_add_countP_gt l a
  have h2 := count_add_countP_gt l' a
  have h3 := h a
  have h4 := h (a - 1)
  omega

theorem maxAbs_perm {l l' : List Int} (h : l.Perm l') : maxAbs l = maxAbs l' := by
  induction h with
  | nil => rfl
  | cons x _ ih => simp only [maxAbs, ih]
  | swap x y l => simp only [maxAbs]; omega
  | trans _ _ ih1 ih2 => exact ih1.trans ih2

theorem cells_cons (s : Sector × List Cell) (r : Annotated) :
    Annotated.cells (s :: r) = s.2 ++ Annotated.cells r := by
  simp [Annotated.cells]

end YModel.Trunc
