import YModel.Sched
import Mathlib.Data.Rat.Floor
import Mathlib.Tactic.Ring
import Mathlib.Tactic.NormNum
import Mathlib.Tactic.Linarith
import Mathlib.Tactic.FieldSimp
import Mathlib.Tactic.Positivity
/-!
# Time grid of `tdvp_` (`_tdvp.py:146-163`) over exact rationals

Interpretation of the integer-pair model `YModel.Sched.Q` in `ℚ` and the arithmetic facts about

* `steps = int((t1 - t0 - 1e-12) // dt) + 1`   (`stepsQ`),
* `ds = (t1 - t0) / steps`                      (`dsQ`),
* the 2nd / 4th order composition tables (`table2`, `table4`, `s2`), which are regenerated from the
  Python source into `YModel/Consts.lean`; every proof below unfolds the generated definitions, so a
  changed digit / coefficient in the source breaks the build of this file.
-/
namespace YModel.Sched

/-- value of an integer pair in `ℚ` (`x / 0 = 0`) -/
def Q.toRat (a : Q) : ℚ := (a.num : ℚ) / (a.den : ℚ)

/-- value of a linear form `c0 + c1·s` at a rational `s` -/
def Lin.evalRat (l : Lin) (s : ℚ) : ℚ := l.c0.toRat + l.c1.toRat * s

/-- the `1e-12` of the source as an exact rational -/
def eps : ℚ := 1 / (epsDen : ℚ)

/-! ## helpers -/

theorem epsDen_pos : 0 < epsDen := by decide

theorem eps_pos : 0 < eps := by
  have : (0 : ℚ) < (epsDen : ℚ) := by exact_mod_cast epsDen_pos
  unfold eps; positivity

theorem floor_intCast_div_intCast (a b : ℤ) (hb : 0 < b) : ⌊((a : ℚ) / (b : ℚ))⌋ = a / b := by
  obtain ⟨n, rfl⟩ := Int.eq_ofNat_of_zero_le hb.le
  exact_mod_cast Rat.floor_intCast_div_natCast a n

theorem Q.toRat_pos (a : Q) (hd : 0 < a.den) (hn : 0 < a.num) : 0 < a.toRat := by
  have h1 : (0 : ℚ) < (a.den : ℚ) := by exact_mod_cast hd
  have h2 : (0 : ℚ) < (a.num : ℚ) := by exact_mod_cast hn
  unfold Q.toRat; positivity

/-- the quotient whose floor `stepsQ` takes, as a quotient of the two integers used by the model -/
theorem quot_eq (T dt : Q) (hT : 0 < T.den) (hd : 0 < dt.den) (hn : 0 < dt.num) :
    (T.toRat - eps) / dt.toRat
      = (((T.num * epsDen - T.den) * dt.den : ℤ) : ℚ) / ((T.den * epsDen * dt.num : ℤ) : ℚ) := by
  have h1 : (T.den : ℚ) ≠ 0 := by exact_mod_cast hT.ne'
  have h2 : (dt.den : ℚ) ≠ 0 := by exact_mod_cast hd.ne'
  have h3 : (dt.num : ℚ) ≠ 0 := by exact_mod_cast hn.ne'
  have h4 : (epsDen : ℚ) ≠ 0 := by exact_mod_cast epsDen_pos.ne'
  unfold Q.toRat eps
  push_cast
  field_simp

/-! ## 1–4: the step count -/

theorem stepsQ_eq_floor (T dt : Q) (hT : 0 < T.den) (hd : 0 < dt.den) (hn : 0 < dt.num) :
    stepsQ T dt = ⌊(T.toRat - eps) / dt.toRat⌋ + 1 := by
  have hb : (0 : ℤ) < T.den * epsDen * dt.num := by
    have h1 : (0 : ℤ) < T.den := by exact_mod_cast hT
    have h2 : (0 : ℤ) < epsDen := by exact_mod_cast epsDen_pos
    positivity
  rw [quot_eq T dt hT hd hn, floor_intCast_div_intCast _ _ hb]
  rfl

theorem steps_pos (T dt : Q) (hT : 0 < T.den) (hd : 0 < dt.den) (hn : 0 < dt.num)
    (h : eps ≤ T.toRat) : 1 ≤ stepsQ T dt := by
  rw [stepsQ_eq_floor T dt hT hd hn]
  have hp := Q.toRat_pos dt hd hn
  have : 0 ≤ ⌊(T.toRat - eps) / dt.toRat⌋ :=
    Int.floor_nonneg.mpr (div_nonneg (sub_nonneg.mpr h) hp.le)
  omega

theorem steps_bracket (T dt : Q) (hT : 0 < T.den) (hd : 0 < dt.den) (hn : 0 < dt.num) :
    ((stepsQ T dt : ℚ) - 1) * dt.toRat ≤ T.toRat - eps ∧
      T.toRat - eps < (stepsQ T dt : ℚ) * dt.toRat := by
  have hp := Q.toRat_pos dt hd hn
  rw [stepsQ_eq_floor T dt hT hd hn]
  push_cast
  constructor
  · have := Int.floor_le ((T.toRat - eps) / dt.toRat)
    rw [le_div_iff₀ hp] at this
    linarith
  · have := Int.lt_floor_add_one ((T.toRat - eps) / dt.toRat)
    rwa [div_lt_iff₀ hp] at this

theorem steps_minimal (T dt : Q) (hT : 0 < T.den) (hd : 0 < dt.den) (hn : 0 < dt.num)
    (k : ℤ) (hk : T.toRat - eps < (k : ℚ) * dt.toRat) : stepsQ T dt ≤ k := by
  have hp := Q.toRat_pos dt hd hn
  rw [stepsQ_eq_floor T dt hT hd hn]
  have : ⌊(T.toRat - eps) / dt.toRat⌋ < k := Int.floor_lt.mpr ((div_lt_iff₀ hp).mpr hk)
  omega

/-! ## 5–7: the effective step `ds` -/

theorem Q.divInt_toRat (a : Q) (k : ℤ) (hk : 0 < k) : (a.divInt k).toRat = a.toRat / (k : ℚ) := by
  unfold Q.divInt Q.toRat
  rw [if_pos hk]
  have : ((k.toNat : ℕ) : ℚ) = (k : ℚ) := by
    have := Int.toNat_of_nonneg hk.le
    exact_mod_cast this
  push_cast
  rw [this, div_div]

theorem steps_mul_ds (T dt : Q) (hT : 0 < T.den) (hd : 0 < dt.den) (hn : 0 < dt.num)
    (h : eps ≤ T.toRat) : (stepsQ T dt : ℚ) * (dsQ T dt).toRat = T.toRat := by
  have hs := steps_pos T dt hT hd hn h
  have hs' : (0 : ℚ) < (stepsQ T dt : ℚ) := by exact_mod_cast hs
  unfold dsQ
  rw [Q.divInt_toRat _ _ (by omega)]
  field_simp

theorem ds_lt (T dt : Q) (hT : 0 < T.den) (hd : 0 < dt.den) (hn : 0 < dt.num)
    (h : eps ≤ T.toRat) : (dsQ T dt).toRat < dt.toRat + eps / (stepsQ T dt : ℚ) := by
  have hs := steps_pos T dt hT hd hn h
  have hs' : (0 : ℚ) < (stepsQ T dt : ℚ) := by exact_mod_cast hs
  have hb := (steps_bracket T dt hT hd hn).2
  unfold dsQ
  rw [Q.divInt_toRat _ _ (by omega), div_lt_iff₀ hs', add_mul, div_mul_cancel₀ _ hs'.ne']
  linarith

theorem ds_le_dt (T dt : Q) (hT : 0 < T.den) (hd : 0 < dt.den) (hn : 0 < dt.num)
    (h : eps ≤ T.toRat)
    (hgap : ¬ ∃ k : ℤ, (k : ℚ) * dt.toRat < T.toRat ∧ T.toRat < (k : ℚ) * dt.toRat + eps) :
    (dsQ T dt).toRat ≤ dt.toRat := by
  have hs := steps_pos T dt hT hd hn h
  have hs' : (0 : ℚ) < (stepsQ T dt : ℚ) := by exact_mod_cast hs
  have hb := (steps_bracket T dt hT hd hn).2
  have hle : T.toRat ≤ (stepsQ T dt : ℚ) * dt.toRat := by
    by_contra hc
    exact hgap ⟨stepsQ T dt, not_le.mp hc, by linarith⟩
  unfold dsQ
  rw [Q.divInt_toRat _ _ (by omega), div_le_iff₀ hs']
  linarith

/-- `ds ≤ dt` is false without `hgap`: `T = 1`, `dt = 1 - 5e-13` gives one step of length `1 > dt`. -/
example : stepsQ ⟨1, 1⟩ ⟨1999999999999, 2000000000000⟩ = 1 := by decide

example : ¬ ((dsQ ⟨1, 1⟩ ⟨1999999999999, 2000000000000⟩).toRat
    ≤ (⟨1999999999999, 2000000000000⟩ : Q).toRat) := by
  have h : stepsQ ⟨1, 1⟩ ⟨1999999999999, 2000000000000⟩ = 1 := by decide
  unfold dsQ
  rw [h]
  norm_num [Q.divInt, Q.toRat]

/-! ## 8: a step that divides the interval is kept -/

theorem steps_exact_of_dvd_le (T dt : Q) (hT : 0 < T.den) (hd : 0 < dt.den) (hn : 0 < dt.num)
    (k : ℤ) (hT' : T.toRat = k * dt.toRat) (hbig : eps ≤ dt.toRat) : stepsQ T dt = k := by
  have hp := Q.toRat_pos dt hd hn
  apply le_antisymm
  · apply steps_minimal T dt hT hd hn
    have := eps_pos
    linarith
  · have hb := (steps_bracket T dt hT hd hn).2
    have h1 : ((k : ℚ) - 1) * dt.toRat < (stepsQ T dt : ℚ) * dt.toRat := by
      rw [hT'] at hb; linarith
    have h2 : (k : ℚ) - 1 < (stepsQ T dt : ℚ) := lt_of_mul_lt_mul_right h1 hp.le
    have h3 : k - 1 < stepsQ T dt := by exact_mod_cast h2
    omega

theorem steps_exact_of_dvd (T dt : Q) (hT : 0 < T.den) (hd : 0 < dt.den) (hn : 0 < dt.num)
    (k : ℤ) (hk : 1 ≤ k) (hT' : T.toRat = k * dt.toRat) (hbig : eps < dt.toRat) :
    stepsQ T dt = k := by
  have _ := hk
  exact steps_exact_of_dvd_le T dt hT hd hn k hT' hbig.le

/-- in that case `ds = dt` exactly -/
theorem ds_eq_dt_of_dvd (T dt : Q) (hT : 0 < T.den) (hd : 0 < dt.den) (hn : 0 < dt.num)
    (k : ℤ) (hk : 1 ≤ k) (hT' : T.toRat = k * dt.toRat) (hbig : eps < dt.toRat) :
    (dsQ T dt).toRat = dt.toRat := by
  have hs := steps_exact_of_dvd T dt hT hd hn k hk hT' hbig
  have hk' : (0 : ℚ) < (k : ℚ) := by exact_mod_cast hk
  unfold dsQ
  rw [hs, Q.divInt_toRat _ _ (by omega), hT']
  field_simp

/-! ## 9: the composition tables (for every value of `s2`) -/

theorem fourth_weights (s : ℚ) :
    table4.map (fun p => p.2.evalRat s) = [s, s, 1 - 4 * s, s, s] := by
  simp only [table4, Consts.fourth, List.map, Lin.ofRaw, Q.ofRaw, Lin.evalRat, Q.toRat,
    List.cons.injEq, and_true]
  refine ⟨?_, ?_, ?_, ?_, ?_⟩ <;> (push_cast; ring)

theorem fourth_mids (s : ℚ) :
    table4.map (fun p => p.1.evalRat s) = [s / 2, 3 * s / 2, 1 / 2, 1 - 3 * s / 2, 1 - s / 2] := by
  simp only [table4, Consts.fourth, List.map, Lin.ofRaw, Q.ofRaw, Lin.evalRat, Q.toRat,
    List.cons.injEq, and_true]
  refine ⟨?_, ?_, ?_, ?_, ?_⟩ <;> (push_cast; ring)

theorem fourth_sum_one (s : ℚ) : (table4.map (fun p => p.2.evalRat s)).sum = 1 := by
  rw [fourth_weights]
  simp only [List.sum_cons, List.sum_nil]
  ring

theorem fourth_palindromic (s : ℚ) :
    (table4.map (fun p => p.2.evalRat s)).reverse = table4.map (fun p => p.2.evalRat s) := by
  rw [fourth_weights]
  rfl

theorem fourth_mid_is_midpoint (s : ℚ) (i : Nat) (hi : i < 5) :
    (table4.map (fun p => p.1.evalRat s)).getD i 0
      = ((table4.map (fun p => p.2.evalRat s)).take i).sum
        + (table4.map (fun p => p.2.evalRat s)).getD i 0 / 2 := by
  rw [fourth_weights, fourth_mids]
  rcases i with _ | _ | _ | _ | _ | i
  · simp
  · simp; ring
  · simp; ring
  · simp; ring
  · simp; ring
  · omega

theorem fourth_mids_mirror (s : ℚ) (i : Nat) (hi : i < 5) :
    (table4.map (fun p => p.1.evalRat s)).getD i 0
      + (table4.map (fun p => p.1.evalRat s)).getD (4 - i) 0 = 1 := by
  rw [fourth_mids]
  rcases i with _ | _ | _ | _ | _ | i
  · simp
  · simp
  · simp; ring
  · simp
  · simp
  · omega

theorem second_table (s : ℚ) :
    table2.map (fun p => (p.1.evalRat s, p.2.evalRat s)) = [(1 / 2, 1)] := by
  simp only [table2, Consts.second, List.map, Lin.ofRaw, Q.ofRaw, Lin.evalRat, Q.toRat]
  norm_num

theorem second_sum_one (s : ℚ) : (table2.map (fun p => p.2.evalRat s)).sum = 1 := by
  simp only [table2, Consts.second, List.map, Lin.ofRaw, Q.ofRaw, Lin.evalRat, Q.toRat]
  norm_num

theorem second_mid_is_midpoint (s : ℚ) :
    table2.map (fun p => p.1.evalRat s) = table2.map (fun p => p.2.evalRat s / 2) := by
  simp only [table2, Consts.second, List.map, Lin.ofRaw, Q.ofRaw, Lin.evalRat, Q.toRat]
  norm_num

/-! ## 10: the literal `s2` -/

/-- the literal satisfies the 4th-order condition `4 s³ + (1 - 4 s)³ = 0` to 19 digits -/
theorem s2_bound : |4 * s2.toRat ^ 3 + (1 - 4 * s2.toRat) ^ 3| < 1 / 10 ^ 19 := by
  rw [abs_lt]
  constructor <;> norm_num [s2, Q.toRat, Consts.s2Num, Consts.s2Den]

/-- sharper: to 20 digits (a change of the last digit of the literal moves the residual by `6e-20`) -/
theorem s2_bound_tight : |4 * s2.toRat ^ 3 + (1 - 4 * s2.toRat) ^ 3| < 1 / 10 ^ 20 := by
  rw [abs_lt]
  constructor <;> norm_num [s2, Q.toRat, Consts.s2Num, Consts.s2Den]

/-- the literal is the correctly rounded 20-digit value of the root of `4 s³ + (1 - 4 s)³`:
the polynomial changes sign within half a unit of the last digit on either side -/
theorem s2_root_bracket :
    0 < 4 * (s2.toRat - 1 / (2 * 10 ^ 20)) ^ 3 + (1 - 4 * (s2.toRat - 1 / (2 * 10 ^ 20))) ^ 3 ∧
      4 * (s2.toRat + 1 / (2 * 10 ^ 20)) ^ 3 + (1 - 4 * (s2.toRat + 1 / (2 * 10 ^ 20))) ^ 3 < 0 := by
  constructor <;> norm_num [s2, Q.toRat, Consts.s2Num, Consts.s2Den]

theorem s2_range : 0 < s2.toRat ∧ s2.toRat < 1 / 2 := by
  constructor <;> norm_num [s2, Q.toRat, Consts.s2Num, Consts.s2Den]

/-! ## 11: the shape of the source formulas recognised by the generator -/

theorem source_shapes :
    Consts.stepsShape = "floor" ∧ Consts.dsShape = "T/steps" ∧ Consts.advanceShape = "t+ds" ∧
      Consts.epsDen = 10 ^ 12 := by decide

/-! ## 12: the integer-pair evaluation of the driver agrees with the rational one -/

theorem Q.add_toRat (a b : Q) (ha : a.den ≠ 0) (hb : b.den ≠ 0) :
    (a.add b).toRat = a.toRat + b.toRat := by
  have h1 : (a.den : ℚ) ≠ 0 := by exact_mod_cast ha
  have h2 : (b.den : ℚ) ≠ 0 := by exact_mod_cast hb
  unfold Q.add Q.toRat
  push_cast
  field_simp

theorem Q.mul_toRat (a b : Q) : (a.mul b).toRat = a.toRat * b.toRat := by
  unfold Q.mul Q.toRat
  push_cast
  rw [div_mul_div_comm]

theorem Lin_eval_toRat (l : Lin) (s : Q) (h0 : l.c0.den ≠ 0) (h1 : l.c1.den ≠ 0)
    (hs : s.den ≠ 0) : (l.eval s).toRat = l.evalRat s.toRat := by
  unfold Lin.eval Lin.evalRat
  rw [Q.add_toRat _ _ h0 (by simp [Q.mul, h1, hs]), Q.mul_toRat]

/-- the `(mid, len)` pairs computed by the driver (`subSteps`) are the rational ones -/
theorem subSteps_toRat (table : List (Lin × Lin)) (s : Q) (hs : s.den ≠ 0)
    (h : ∀ p ∈ table, p.1.c0.den ≠ 0 ∧ p.1.c1.den ≠ 0 ∧ p.2.c0.den ≠ 0 ∧ p.2.c1.den ≠ 0) :
    (subSteps table s).map (fun q => (q.1.toRat, q.2.toRat))
      = table.map (fun p => (p.1.evalRat s.toRat, p.2.evalRat s.toRat)) := by
  unfold subSteps
  rw [List.map_map]
  apply List.map_congr_left
  intro p hp
  obtain ⟨a, b, c, d⟩ := h p hp
  simp only [Function.comp, Lin_eval_toRat _ _ a b hs, Lin_eval_toRat _ _ c d hs]

theorem table4_dens :
    ∀ p ∈ table4, p.1.c0.den ≠ 0 ∧ p.1.c1.den ≠ 0 ∧ p.2.c0.den ≠ 0 ∧ p.2.c1.den ≠ 0 := by decide

theorem table2_dens :
    ∀ p ∈ table2, p.1.c0.den ≠ 0 ∧ p.1.c1.den ≠ 0 ∧ p.2.c0.den ≠ 0 ∧ p.2.c1.den ≠ 0 := by decide

theorem s2_den_ne_zero : s2.den ≠ 0 := by decide

end YModel.Sched
