import YProofs.Lemmas.NestedProjection
import Mathlib.Analysis.InnerProductSpace.PiL2
/-! Coordinate truncations of ℝ³: a concrete nested family of orthogonal projections (non-vacuity of C08). -/
open scoped RealInnerProductSpace
namespace YModel.Gauge

/-- coordinate projection of ℝ³ keeping the coordinates `i < c` -/
noncomputable def coordProj (c : ℕ) : EuclideanSpace ℝ (Fin 3) →ₗ[ℝ] EuclideanSpace ℝ (Fin 3) where
  toFun x := WithLp.toLp 2 (fun i => if i.val < c then x i else 0)
  map_add' x y := by ext i; simp only [PiLp.add_apply]; split <;> simp
  map_smul' r x := by ext i; simp only [PiLp.smul_apply, RingHom.id_apply]; split <;> simp

theorem coordProj_apply (c : ℕ) (x : EuclideanSpace ℝ (Fin 3)) (i : Fin 3) :
    coordProj c x i = if i.val < c then x i else 0 := rfl

theorem coordProj_isOrthProj (c : ℕ) : IsOrthProj (coordProj c) where
  idem x := by ext i; simp only [coordProj_apply]; split <;> rfl
  symm x y := by
    simp only [PiLp.inner_apply]
    refine Finset.sum_congr rfl (fun i _ => ?_)
    change ⟪coordProj c x i, y i⟫ = ⟪x i, coordProj c y i⟫
    simp only [coordProj_apply]; split <;> simp

theorem coordProj_nested {a b : ℕ} (h : b ≤ a) (x : EuclideanSpace ℝ (Fin 3)) :
    coordProj a (coordProj b x) = coordProj b x := by
  ext i; simp only [coordProj_apply]
  by_cases h1 : i.val < b
  · have : i.val < a := by omega
    simp [h1, this]
  · simp [h1]

end YModel.Gauge
