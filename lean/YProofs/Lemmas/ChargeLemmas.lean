import YProofs.Props.C19
import YModel.Ops
/-! Charge bookkeeping lemmas used by C02: negated signatures, permutations, splitting. -/
namespace YModel
open Int

theorem rawComp_neg_sigs (cs : List Charge) (ss : List Int) (j : Nat) :
    rawComp cs (ss.map (fun x => -x)) j = - rawComp cs ss j := by
  induction cs generalizing ss with
  | nil => simp [rawComp]
  | cons c cs ih =>
    cases ss with
    | nil => simp [rawComp]
    | cons s ss =>
      simp only [List.map_cons, rawComp_cons, ih]
      ring

section
variable {d : SymDef} {ms : List Nat} (hd : WSym d ms)
include hd

/-- negating all signatures = fusing with the opposite new signature -/
theorem fuse_neg_sigs (cs : List Charge) (ss : List Int) :
    d.fuse cs (ss.map (fun x => -x)) 1 = d.fuse cs ss (-1) := by
  apply charge_ext _ _ (by rw [fuse_length hd, fuse_length hd])
  intro j hj
  rw [fuse_length hd] at hj
  rw [fuse_eq_canon d ms hd, fuse_eq_canon d ms hd, canonFuse_getD, canonFuse_getD, if_pos hj, if_pos hj]
  unfold canonComp
  rw [rawComp_neg_sigs]; congr 1; ring

/-- the inverse of a fused charge is the fusion with the opposite new signature -/
theorem negCharge_fuse (cs : List Charge) (ss : List Int) (h : cs.length = ss.length) :
    negCharge d (d.fuse cs ss 1) = d.fuse cs ss (-1) := by
  unfold negCharge
  have := fuse_grouping hd [⟨cs, ss, 1⟩] (by intro g hg; simp at hg; subst hg; exact ⟨h, Or.inl rfl⟩) (-1)
  simpa using this

theorem conj_rule (k : Key) (s : List Int) (h : k.length = s.length) :
    chargeOfKey d (s.map (fun x => -x)) k = negCharge d (chargeOfKey d s k) := by
  unfold chargeOfKey
  rw [fuse_neg_sigs hd, negCharge_fuse hd _ _ h]

theorem negCharge_canonical (t : Charge) : isCanonical ms (negCharge d t) = true := fuse_range hd _ _ _

end

/-! ### permutations -/

theorem perm_sum_int {l₁ l₂ : List Int} (h : l₁.Perm l₂) : l₁.sum = l₂.sum := by
  induction h with
  | nil => rfl
  | cons _ _ ih => simp [ih]
  | swap => simp only [List.sum_cons]; omega
  | trans _ _ ih₁ ih₂ => rw [ih₁, ih₂]

theorem rawComp_eq_sum_range (cs : List Charge) (ss : List Int) (j : Nat) (h : cs.length = ss.length) :
    rawComp cs ss j = ((List.range cs.length).map (fun i => ss.getD i 0 * (cs.getD i []).getD j 0)).sum := by
  induction cs generalizing ss with
  | nil => simp [rawComp]
  | cons c cs ih =>
    cases ss with
    | nil => simp at h
    | cons s ss =>
      simp only [List.length_cons, Nat.add_right_cancel_iff] at h
      rw [rawComp_cons, ih ss h, List.length_cons, List.range_succ_eq_map, List.map_cons, List.sum_cons, List.map_map]
      simp [Function.comp_def]

theorem rawComp_pick (cs : List Charge) (ss : List Int) (pos : List Nat) (j : Nat) :
    rawComp (pick cs pos) (pick ss pos) j = (pos.map (fun i => ss.getD i 0 * (cs.getD i []).getD j 0)).sum := by
  unfold pick
  induction pos with
  | nil => simp [rawComp]
  | cons p ps ih =>
    simp only [List.map_cons, rawComp_cons, List.sum_cons, ih]
    rfl

/-- fusing is invariant under a simultaneous permutation of charges and signatures -/
theorem rawComp_perm (cs : List Charge) (ss : List Int) (σ : List Nat) (j : Nat)
    (h : cs.length = ss.length) (hσ : σ.Perm (List.range cs.length)) :
    rawComp (pick cs σ) (pick ss σ) j = rawComp cs ss j := by
  rw [rawComp_pick, rawComp_eq_sum_range cs ss j h]
  exact perm_sum_int (hσ.map _)

theorem fuse_perm {d : SymDef} (cs : List Charge) (ss : List Int) (σ : List Nat) (sn : Int)
    (h : cs.length = ss.length) (hσ : σ.Perm (List.range cs.length)) :
    d.fuse (pick cs σ) (pick ss σ) sn = d.fuse cs ss sn := by
  unfold SymDef.fuse SymExpr.eval
  apply List.map_congr_left
  intro j _
  induction d.expr with
  | base => simp [SymExpr.comp, rawComp_perm cs ss σ j h hσ]
  | baseNoScale => simp [SymExpr.comp, rawComp_perm cs ss σ j h hσ]
  | modAll e k ih => simp [SymExpr.comp, ih]
  | modCol e i k ih => simp [SymExpr.comp, ih]
  | unknown s => simp [SymExpr.comp]

end YModel
