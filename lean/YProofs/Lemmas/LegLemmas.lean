import YModel.Leg
/-! order lemmas for the Python tuple order on charges -/
namespace YModel

theorem lexLt_irrefl (a : List Int) : lexLt a a = false := by
  induction a with
  | nil => rfl
  | cons x xs ih => simp [lexLt, ih]

theorem lexLt_trichotomy (a b : List Int) : lexLt a b = true ∨ a = b ∨ lexLt b a = true := by
  induction a generalizing b with
  | nil => cases b <;> simp [lexLt]
  | cons x xs ih =>
    cases b with
    | nil => simp [lexLt]
    | cons y ys =>
      simp only [lexLt, Bool.or_eq_true, decide_eq_true_eq, Bool.and_eq_true, beq_iff_eq, List.cons.injEq]
      rcases Int.lt_trichotomy x y with h | h | h
      · left; left; exact h
      · subst h
        rcases ih ys with h' | h' | h'
        · left; right; exact ⟨rfl, h'⟩
        · right; left; exact ⟨rfl, h'⟩
        · right; right; right; exact ⟨rfl, h'⟩
      · right; right; left; exact h

theorem lexLt_asymm (a b : List Int) : lexLt a b = true → lexLt b a = false := by
  induction a generalizing b with
  | nil => cases b <;> simp [lexLt]
  | cons x xs ih =>
    cases b with
    | nil => simp [lexLt]
    | cons y ys =>
      simp only [lexLt, Bool.or_eq_true, decide_eq_true_eq, Bool.and_eq_true, beq_iff_eq, Bool.or_eq_false_iff,
        decide_eq_false_iff_not, Bool.and_eq_false_imp]
      rintro (h | ⟨h, h'⟩)
      · exact ⟨by omega, by intro; omega⟩
      · subst h; exact ⟨by omega, fun _ => ih ys h'⟩

theorem lexLt_trans (a b c : List Int) : lexLt a b = true → lexLt b c = true → lexLt a c = true := by
  induction a generalizing b c with
  | nil => cases b <;> cases c <;> simp [lexLt]
  | cons x xs ih =>
    cases b with
    | nil => simp [lexLt]
    | cons y ys =>
      cases c with
      | nil => simp [lexLt]
      | cons z zs =>
        simp only [lexLt, Bool.or_eq_true, decide_eq_true_eq, Bool.and_eq_true, beq_iff_eq]
        rintro (h1 | ⟨h1, h1'⟩) (h2 | ⟨h2, h2'⟩)
        · left; omega
        · left; omega
        · left; omega
        · right; exact ⟨by omega, ih ys zs h1' h2'⟩

theorem lexLe_total (a b : List Int) : (lexLe a b || lexLe b a) = true := by
  unfold lexLe
  rcases lexLt_trichotomy a b with h | h | h
  · simp [lexLt_asymm _ _ h]
  · subst h; simp [lexLt_irrefl]
  · simp [lexLt_asymm _ _ h]

theorem lexLe_trans (a b c : List Int) : lexLe a b = true → lexLe b c = true → lexLe a c = true := by
  unfold lexLe
  simp only [Bool.not_eq_true', ]
  intro h1 h2
  rcases lexLt_trichotomy c a with h | h | h
  · -- c < a, ¬ b < a, ¬ c < b : so a ≤ b ≤ c < a contradiction
    rcases lexLt_trichotomy a b with h' | h' | h'
    · have := lexLt_trans _ _ _ h h'; rw [this] at h2; cases h2
    · subst h'; rw [h] at h2; cases h2
    · rw [h'] at h1; cases h1
  · subst h; exact lexLt_irrefl _
  · exact lexLt_asymm _ _ h

theorem lexLt_of_le_ne {a b : List Int} (h : lexLe a b = true) (hne : a ≠ b) : lexLt a b = true := by
  unfold lexLe at h
  rcases lexLt_trichotomy a b with h' | h' | h'
  · exact h'
  · exact absurd h' hne
  · rw [h'] at h; cases h

end YModel
