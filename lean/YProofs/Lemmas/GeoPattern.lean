import YModel.Geometry
/-! Lemmas about the grouping dictionaries used by `RectangularUnitcell.__init__` (C20). Core Lean only. -/
namespace YModel.Geo

variable {β : Type} [DecidableEq β]

/-- first group stored under key `k` -/
def glook (k : Int) : List (Int × List β) → Option (List β)
  | [] => none
  | (k', vs) :: rest => if k' = k then some vs else glook k rest

/-- values of key `k` in insertion order -/
def grp (k : Int) (kvs : List (Int × β)) : List β := (kvs.filter (fun kv => kv.1 = k)).map (·.2)

omit [DecidableEq β] in
theorem glook_groupInsert (k k' : Int) (v : β) (acc : List (Int × List β)) :
    glook k' (groupInsert k v acc) = if k' = k then some ((glook k acc).getD [] ++ [v]) else glook k' acc := by
  induction acc with
  | nil =>
    simp only [groupInsert, glook]
    by_cases h : k = k'
    · subst h; simp
    · have : ¬ k' = k := fun e => h e.symm
      simp [h, this]
  | cons e rest ih =>
    obtain ⟨k0, vs0⟩ := e
    simp only [groupInsert]
    by_cases h0 : k0 = k
    · subst h0
      simp only [if_true, glook]
      by_cases h1 : k0 = k'
      · subst h1; simp
      · have : ¬ k' = k0 := fun e => h1 e.symm
        simp [h1, this]
    · simp only [h0, if_false, glook]
      by_cases h1 : k0 = k'
      · subst h1
        have : ¬ k0 = k := h0
        simp [this]
      · simp only [h1, if_false]
        exact ih

/-- some group holds two different values (`any(len(set(envs)) > 1 …)`) -/
def anyConflict (acc : List (Int × List β)) : Bool := acc.any (fun g => notAllEqual g.2)

theorem notAllEqual_append (vs : List β) (v : β) :
    notAllEqual (vs ++ [v]) = (notAllEqual vs || match vs with | [] => false | h :: _ => decide (v ≠ h)) := by
  cases vs with
  | nil => simp [notAllEqual]
  | cons h t => simp [notAllEqual, List.any_append]

theorem anyConflict_groupInsert (k : Int) (v : β) (acc : List (Int × List β)) :
    anyConflict (groupInsert k v acc) =
      (anyConflict acc || match glook k acc with | some (h :: _) => decide (v ≠ h) | _ => false) := by
  induction acc with
  | nil => simp [groupInsert, anyConflict, glook, notAllEqual]
  | cons e rest ih =>
    obtain ⟨k0, vs0⟩ := e
    simp only [groupInsert]
    by_cases h0 : k0 = k
    · subst h0
      simp only [if_true, glook]
      unfold anyConflict
      simp only [List.any_cons, notAllEqual_append]
      cases vs0 with
      | nil => simp [Bool.or_comm]
      | cons h t =>
        simp only [Bool.or_assoc]
        congr 1
        rw [Bool.or_comm]
    · simp only [h0, if_false, glook]
      unfold anyConflict at ih ⊢
      simp only [List.any_cons, ih, Bool.or_assoc]

/-- two entries with one key and different values -/
def Conflict (kvs : List (Int × β)) : Prop := ∃ k e1 e2, (k, e1) ∈ kvs ∧ (k, e2) ∈ kvs ∧ e1 ≠ e2

omit [DecidableEq β] in
theorem mem_grp {k : Int} {e : β} {kvs : List (Int × β)} : e ∈ grp k kvs ↔ (k, e) ∈ kvs := by
  unfold grp
  simp only [List.mem_map, List.mem_filter, decide_eq_true_eq]
  constructor
  · rintro ⟨⟨k', e'⟩, ⟨hm, hk⟩, rfl⟩
    simp only at hk
    subst hk
    exact hm
  · intro h
    exact ⟨(k, e), ⟨h, rfl⟩, rfl⟩

omit [DecidableEq β] in
theorem grp_append (k k' : Int) (v : β) (kvs : List (Int × β)) :
    grp k' (kvs ++ [(k, v)]) = grp k' kvs ++ (if k = k' then [v] else []) := by
  unfold grp
  rw [List.filter_append, List.map_append]
  congr 1
  by_cases h : k = k' <;> simp [h]

omit [DecidableEq β] in
theorem conflict_append (k : Int) (v : β) (kvs : List (Int × β)) :
    Conflict (kvs ++ [(k, v)]) ↔ Conflict kvs ∨ ∃ e, (k, e) ∈ kvs ∧ e ≠ v := by
  unfold Conflict
  constructor
  · rintro ⟨k', e1, e2, h1, h2, hne⟩
    rw [List.mem_append, List.mem_singleton] at h1 h2
    rcases h1 with h1 | h1 <;> rcases h2 with h2 | h2
    · exact Or.inl ⟨k', e1, e2, h1, h2, hne⟩
    · cases h2; exact Or.inr ⟨e1, h1, hne⟩
    · cases h1; exact Or.inr ⟨e2, h2, fun e => hne e.symm⟩
    · cases h1; cases h2; exact absurd rfl hne
  · rintro (⟨k', e1, e2, h1, h2, hne⟩ | ⟨e, h, hne⟩)
    · exact ⟨k', e1, e2, List.mem_append_left _ h1, List.mem_append_left _ h2, hne⟩
    · exact ⟨k, e, v, List.mem_append_left _ h, List.mem_append_right _ (List.mem_singleton.mpr rfl), hne⟩

/-- invariant of the grouping loop after the entries `kvs` -/
structure GInv (acc : List (Int × List β)) (kvs : List (Int × β)) : Prop where
  look : ∀ k, glook k acc = if grp k kvs = [] then none else some (grp k kvs)
  conf : anyConflict acc = true ↔ Conflict kvs

theorem GInv.step {acc : List (Int × List β)} {kvs : List (Int × β)} (h : GInv acc kvs) (k : Int) (v : β) :
    GInv (groupInsert k v acc) (kvs ++ [(k, v)]) := by
  constructor
  · intro k'
    rw [glook_groupInsert, grp_append]
    by_cases hk : k' = k
    · subst hk
      rw [h.look k']
      by_cases hg : grp k' kvs = []
      · simp [hg]
      · simp [hg]
    · have : ¬ k = k' := fun e => hk e.symm
      simp only [hk, this, if_false, List.append_nil]
      exact h.look k'
  · rw [anyConflict_groupInsert, Bool.or_eq_true, h.conf, conflict_append, h.look k]
    constructor
    · rintro (hc | hm)
      · exact Or.inl hc
      · by_cases hg : grp k kvs = []
        · simp [hg] at hm
        · simp only [hg, if_false] at hm
          cases hgv : grp k kvs with
          | nil => exact absurd hgv hg
          | cons hd tl =>
            rw [hgv] at hm
            simp only [decide_eq_true_eq] at hm
            have : hd ∈ grp k kvs := by rw [hgv]; exact List.mem_cons_self
            exact Or.inr ⟨hd, mem_grp.mp this, fun e => hm e.symm⟩
    · rintro (hc | ⟨e, he, hne⟩)
      · exact Or.inl hc
      · have hmem : e ∈ grp k kvs := mem_grp.mpr he
        cases hgv : grp k kvs with
        | nil => rw [hgv] at hmem; exact absurd hmem (by simp)
        | cons hd tl =>
          by_cases hv : v = hd
          · left
            refine ⟨k, e, hd, he, mem_grp.mp (by rw [hgv]; exact List.mem_cons_self), ?_⟩
            rw [← hv]; exact hne
          · right
            simp [hv]

theorem GInv.foldl (kvs : List (Int × β)) : ∀ (acc : List (Int × List β)) (pre : List (Int × β)), GInv acc pre →
    GInv (kvs.foldl (fun acc kv => groupInsert kv.1 kv.2 acc) acc) (pre ++ kvs) := by
  induction kvs with
  | nil => intro acc pre h; simpa using h
  | cons kv rest ih =>
    intro acc pre h
    simp only [List.foldl_cons]
    have := ih _ _ (h.step kv.1 kv.2)
    simpa [List.append_assoc] using this

/-- **grouping characterisation**: some group of `groupAll kvs` holds two different values iff two entries
of `kvs` have the same key and different values -/
theorem anyConflict_groupAll (kvs : List (Int × β)) : anyConflict (groupAll kvs) = true ↔ Conflict kvs := by
  have h0 : GInv ([] : List (Int × List β)) ([] : List (Int × β)) := by
    constructor
    · intro k; simp [glook, grp]
    · simp [anyConflict, Conflict]
  have := (GInv.foldl kvs [] [] h0).conf
  simpa [groupAll] using this

end YModel.Geo
