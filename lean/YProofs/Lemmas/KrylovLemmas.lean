import YModel.Krylov
import Mathlib.LinearAlgebra.Span.Basic
import Mathlib.Algebra.BigOperators.Group.List.Basic
import Mathlib.Tactic.Ring
import Mathlib.Tactic.Abel
import Mathlib.Data.Matrix.Basic
import Mathlib.Algebra.BigOperators.Fin
/-!
# Helper lemmas for C18 (Krylov solvers): the model's arithmetic over a field and a module

`fieldArith` instantiates the record `Arith K E` of `YModel/Krylov.lean` with the operations of a field `K`
and a `K`-module `E`; the inner product `ip`, `sqrt`, `abs`, `re` and the comparison `lt` stay ARBITRARY
functions (nothing about them is needed for the Arnoldi/Lanczos relations).

Main results of this file
* `addAmp_eq`, `linComb_eq` : `w.add(*vs, amplitudes=[1,*cs]) = w + lc cs vs`,
* `step_eq_genStep` : both branches of one pass of the `for j` loop are an instance of `genStep` with a
  column `c` of length `len(V)` and a remainder `w'` such that `f V[-1] = lc c V + w'`,
* `genStep_false`, `genStep_true` : what `genStep` does to the invariant `KInv`,
* `expandLoop_relation` : the loop invariant of `expand_krylov_space`.
-/
namespace YModel.Krylov

variable {K E : Type} [Field K] [AddCommGroup E] [Module K E]

/-- the model's arithmetic over a field `K` and a `K`-module `E`; `ip`, `sq`, `ab`, `rp`, `lt` arbitrary -/
def fieldArith [DecidableEq K] (ip : E → E → K) (sq ab rp : K → K) (lt : K → K → Bool) : Arith K E where
  zero := 0
  one := 1
  ofNat := fun n => (n : K)
  add := (· + ·)
  sub := (· - ·)
  mul := (· * ·)
  div := (· / ·)
  neg := Neg.neg
  abs := ab
  re := rp
  sqrt := sq
  lt := lt
  isZero := fun x => decide (x = 0)
  vadd := (· + ·)
  smul := (· • ·)
  inner := ip

/-- linear combination `Σ_i cs[i] • vs[i]` (truncated to the shorter list) -/
def lc (cs : List K) (vs : List E) : E := ((cs.zip vs).map (fun p => p.1 • p.2)).sum

section lc

@[simp] theorem lc_nil_left (vs : List E) : lc ([] : List K) vs = 0 := by simp [lc]
@[simp] theorem lc_nil_right (cs : List K) : lc cs ([] : List E) = 0 := by simp [lc]
@[simp] theorem lc_cons (c : K) (cs : List K) (v : E) (vs : List E) :
    lc (c :: cs) (v :: vs) = c • v + lc cs vs := by simp [lc]

theorem lc_append (cs ds : List K) (vs us : List E) (h : cs.length = vs.length) :
    lc (cs ++ ds) (vs ++ us) = lc cs vs + lc ds us := by
  induction cs generalizing vs with
  | nil => cases vs <;> simp_all
  | cons c cs ih =>
    cases vs with
    | nil => simp at h
    | cons v vs =>
      simp only [List.cons_append, lc_cons]
      rw [ih vs (by simpa using h), add_assoc]

/-- vectors beyond the length of the coefficient list do not matter (`zip` truncates) -/
theorem lc_append_right (cs : List K) (vs us : List E) (h : cs.length ≤ vs.length) :
    lc cs (vs ++ us) = lc cs vs := by
  induction cs generalizing vs with
  | nil => simp
  | cons c cs ih =>
    cases vs with
    | nil => simp at h
    | cons v vs =>
      simp only [List.cons_append, lc_cons]
      rw [ih vs (by simpa using h)]

theorem lc_map_neg (cs : List K) (vs : List E) : lc (cs.map Neg.neg) vs = - lc cs vs := by
  induction cs generalizing vs with
  | nil => simp
  | cons c cs ih =>
    cases vs with
    | nil => simp
    | cons v vs => simp only [List.map_cons, lc_cons, ih, neg_smul, neg_add]

theorem lc_replicate_zero (n : Nat) (cs : List K) (vs : List E) :
    lc (List.replicate n (0 : K) ++ cs) vs = lc cs (vs.drop n) := by
  induction n generalizing vs with
  | zero => simp
  | succ n ih =>
    cases vs with
    | nil => simp
    | cons v vs => simp [List.replicate_succ, ih]

/-- `lc` as a finite sum over the positions of the vector list; absent coefficients are zero -/
theorem lc_eq_sum_range (cs : List K) (vs : List E) :
    lc cs vs = ∑ i ∈ Finset.range vs.length, cs.getD i 0 • vs.getD i 0 := by
  induction vs generalizing cs with
  | nil => simp
  | cons v vs ih =>
    cases cs with
    | nil => simp
    | cons c cs =>
      rw [lc_cons, List.length_cons, Finset.sum_range_succ', ih, add_comm]
      simp

theorem lc_mem_span (cs : List K) (vs : List E) : lc cs vs ∈ Submodule.span K {v | v ∈ vs} := by
  induction vs generalizing cs with
  | nil => simp
  | cons v vs ih =>
    cases cs with
    | nil => simp
    | cons c cs =>
      rw [lc_cons]
      refine Submodule.add_mem _ (Submodule.smul_mem _ _ (Submodule.subset_span (by simp))) ?_
      exact Submodule.span_mono (fun x hx => by simp at hx ⊢; exact Or.inr hx) (ih cs)

theorem lc_mem (S : Submodule K E) (cs : List K) (vs : List E) (h : ∀ v ∈ vs, v ∈ S) : lc cs vs ∈ S :=
  (Submodule.span_le.mpr (fun _ hv => h _ hv)) (lc_mem_span cs vs)

end lc

section arith
variable [DecidableEq K] (ip : E → E → K) (sq ab rp : K → K) (lt : K → K → Bool)

theorem addAmp_eq (w : E) (cs : List K) (vs : List E) :
    addAmp (fieldArith ip sq ab rp lt) w cs vs = w + lc cs vs := by
  induction cs generalizing w vs with
  | nil => simp [addAmp]
  | cons c cs ih =>
    cases vs with
    | nil => simp [addAmp]
    | cons v vs =>
      rw [addAmp, ih, lc_cons, ← add_assoc]
      rfl

theorem linComb_eq (d : E) (cs : List K) (vs : List E) (h : cs ≠ [] ∧ vs ≠ []) :
    linComb (fieldArith ip sq ab rp lt) d cs vs = lc cs vs := by
  cases cs with
  | nil => exact absurd rfl h.1
  | cons c cs =>
    cases vs with
    | nil => exact absurd rfl h.2
    | cons v vs => rw [linComb, addAmp_eq, lc_cons]; rfl

theorem norm_eq (w : E) : norm (fieldArith ip sq ab rp lt) w = sq (ip w w) := rfl

theorem vsub_eq (a b : E) : vsub (fieldArith ip sq ab rp lt) a b = a - b := by
  show a + (-(1 : K)) • b = a - b
  rw [neg_smul, one_smul, sub_eq_add_neg]

theorem hEntry_eq (cols : List (List K)) (i j : Nat) :
    hEntry (fieldArith ip sq ab rp lt : Arith K E) cols i j = (cols.getD j []).getD i 0 := rfl

end arith

/-! ### one pass of the loop in a uniform shape -/

/-- both branches of the loop body end like this: `c` is the column without `H[(j+1,j)]`, `w'` the remainder -/
def genStep (A : Arith K E) (tol : K) (st : KS K E) (c : List K) (w' : E) : KS K E × Bool :=
  if A.lt (norm A w') tol then ({ st with cols := st.cols ++ [c] }, true)
  else ({ V := st.V ++ [A.smul (A.div A.one (norm A w')) w'], cols := st.cols ++ [c ++ [norm A w']] }, false)

section step
variable [DecidableEq K] (ip : E → E → K) (sq ab rp : K → K) (lt : K → K → Bool)

omit [Field K] [AddCommGroup E] [Module K E] [DecidableEq K] in
theorem drop_two_of_getLast {vs : List E} {vj : E} (hl : vs.getLast? = some vj) (h2 : 2 ≤ vs.length) :
    vs.drop (vs.length - 1 - 1) = [vs.getD (vs.length - 1 - 1) vj, vj] := by
  obtain ⟨ys, rfl⟩ := List.getLast?_eq_some_iff.mp hl
  rcases List.eq_nil_or_concat ys with rfl | ⟨zs, u, rfl⟩
  · simp at h2
  · simp [List.getD]

/-- Arnoldi and Lanczos passes are instances of `genStep` whose column `c` and remainder `w'` satisfy
`f V[-1] = lc c V + w'` – no assumption on `f`, `ip`, `sq`, `lt`. -/
theorem step_eq_genStep (f : E → E) (tol : K) (herm : Bool) (st : KS K E) (vj : E)
    (hl : st.V.getLast? = some vj) :
    ∃ (c : List K) (w' : E), c.length = st.V.length ∧ f vj = lc c st.V + w' ∧
      step (fieldArith ip sq ab rp lt) f tol herm st = genStep (fieldArith ip sq ab rp lt) tol st c w' ∧
      (herm = true → (∀ i, i + 1 < st.V.length - 1 → c.getD i 0 = 0) ∧
        (1 ≤ st.V.length - 1 → c.getD (st.V.length - 1 - 1) 0 =
          hEntry (fieldArith ip sq ab rp lt : Arith K E) st.cols (st.V.length - 1) (st.V.length - 1 - 1))) := by
  cases herm with
  | false =>
    refine ⟨st.V.map (fun vi => ip vi (f vj)),
      addAmp (fieldArith ip sq ab rp lt) (f vj) ((st.V.map (fun vi => ip vi (f vj))).map Neg.neg) st.V,
      by simp, ?_, ?_, by intro h; cases h⟩
    · rw [addAmp_eq, lc_map_neg]; abel
    · simp only [step, Bool.false_eq_true, if_false, arnoldiStep, hl, genStep]
      rfl
  | true =>
    by_cases hj : st.V.length - 1 = 0
    · refine ⟨[ip vj (f vj)], addAmp (fieldArith ip sq ab rp lt) (f vj) [-(ip vj (f vj))] [vj], ?_, ?_, ?_,
        fun _ => ⟨fun i hi => by omega, fun h1 => by omega⟩⟩
      · have : st.V ≠ [] := by intro h; rw [h] at hl; simp at hl
        have := List.length_pos_iff.mpr this
        simp; omega
      · obtain ⟨ys, hys⟩ := List.getLast?_eq_some_iff.mp hl
        have : ys = [] := by
          rw [hys] at hj; simp at hj; exact hj
        rw [hys, this, addAmp_eq]; simp
      · simp only [step, if_true, lanczosStep, hl, genStep, hj]
        rfl
    · have h2 : 2 ≤ st.V.length := by omega
      refine ⟨List.replicate (st.V.length - 1 - 1) 0 ++
          [hEntry (fieldArith ip sq ab rp lt : Arith K E) st.cols (st.V.length - 1) (st.V.length - 1 - 1), ip vj (f vj)],
        addAmp (fieldArith ip sq ab rp lt) (f vj)
          [-(hEntry (fieldArith ip sq ab rp lt : Arith K E) st.cols (st.V.length - 1) (st.V.length - 1 - 1)), -(ip vj (f vj))]
          [st.V.getD (st.V.length - 1 - 1) vj, vj], ?_, ?_, ?_, fun _ => ⟨fun i hi => ?_, fun _ => ?_⟩⟩
      · simp; omega
      · rw [lc_replicate_zero, drop_two_of_getLast hl h2, addAmp_eq]
        simp only [lc_cons, lc_nil_left, neg_smul]
        abel
      · simp only [step, if_true, lanczosStep, hl, genStep, hj, if_false]
        rfl
      · have hi' : i < st.V.length - 1 - 1 := by omega
        rw [List.getD_eq_getElem?_getD, List.getElem?_append_left (by simpa using hi')]
        simp [hi']
      · rw [List.getD_eq_getElem?_getD, List.getElem?_append_right (by simp)]
        simp

end step

/-! ### the invariant of `expand_krylov_space` -/

/-- invariant of the pair `(V, H)`: one more vector than columns, column `j` holds `H[(0..j+1, j)]`, and
`f V[j] = Σ_i H[(i,j)] V[i]` for every built column. -/
structure KInv (f : E → E) (st : KS K E) : Prop where
  len : st.cols.length + 1 = st.V.length
  rel : ∀ j c v, st.cols[j]? = some c → st.V[j]? = some v → c.length = j + 2 ∧ f v = lc c st.V

/-- state after a happy breakdown: as many columns as vectors, all columns but the last satisfy the relation
exactly, the last one (which lost `H[(j+1,j)]`) up to the dropped remainder `w'`. -/
structure HappyInv (f : E → E) (st : KS K E) (w' : E) : Prop where
  len : st.cols.length = st.V.length
  pos : 0 < st.V.length
  rel : ∀ j c v, st.cols[j]? = some c → st.V[j]? = some v → j + 1 < st.V.length →
    c.length = j + 2 ∧ f v = lc c st.V
  last : ∀ c v, st.cols[st.V.length - 1]? = some c → st.V[st.V.length - 1]? = some v →
    c.length = st.V.length ∧ f v = lc c st.V + w'

omit [Field K] [AddCommGroup E] [Module K E] in
theorem getElem?_concat_cases {α : Type} {xs : List α} {a b : α} {j : Nat} (h : (xs ++ [a])[j]? = some b) :
    (j < xs.length ∧ xs[j]? = some b) ∨ (j = xs.length ∧ a = b) := by
  rcases Nat.lt_trichotomy j xs.length with hj | hj | hj
  · left; exact ⟨hj, by rwa [List.getElem?_append_left hj] at h⟩
  · right; subst hj; simpa using h
  · exfalso
    have : (xs ++ [a]).length ≤ j := by simp; omega
    rw [List.getElem?_eq_none this] at h
    exact absurd h (by simp)

theorem kinv_init (f : E → E) (q0 : E) : KInv f ({ V := [q0], cols := [] } : KS K E) :=
  ⟨rfl, by intro j c v h; simp at h⟩

section genstep
variable [DecidableEq K] (ip : E → E → K) (sq ab rp : K → K) (lt : K → K → Bool)

theorem genStep_false (f : E → E) (tol : K) (st : KS K E) (vj : E) (c : List K) (w' : E)
    (hinv : KInv f st) (hl : st.V.getLast? = some vj) (hc : c.length = st.V.length)
    (hw : f vj = lc c st.V + w') (hlt : lt (sq (ip w' w')) tol = false) (hne : sq (ip w' w') ≠ 0) :
    (genStep (fieldArith ip sq ab rp lt) tol st c w').2 = false ∧
    KInv f (genStep (fieldArith ip sq ab rp lt) tol st c w').1 ∧
    (genStep (fieldArith ip sq ab rp lt) tol st c w').1.V.length = st.V.length + 1 ∧
    (∃ a : K, (genStep (fieldArith ip sq ab rp lt) tol st c w').1.V = st.V ++ [a • w']) := by
  have hg : genStep (fieldArith ip sq ab rp lt) tol st c w' =
      ({ V := st.V ++ [((1 : K) / sq (ip w' w')) • w'], cols := st.cols ++ [c ++ [sq (ip w' w')]] }, false) := by
    unfold genStep
    rw [if_neg (by rw [norm_eq]; show ¬ lt (sq (ip w' w')) tol = true; rw [hlt]; simp)]
    rfl
  rw [hg]
  refine ⟨rfl, ⟨by simp [hinv.len], ?_⟩, by simp, ⟨_, rfl⟩⟩
  intro j c' v hcj hvj
  dsimp only at hcj hvj ⊢
  rcases getElem?_concat_cases hcj with ⟨hj, hcj'⟩ | ⟨hj, hcj'⟩
  · have hjV : j < st.V.length := by have := hinv.len; omega
    rw [List.getElem?_append_left hjV] at hvj
    obtain ⟨h1, h2⟩ := hinv.rel j c' v hcj' hvj
    refine ⟨h1, ?_⟩
    rw [h2, lc_append_right]
    have := hinv.len; omega
  · subst hcj'
    have hjV : j = st.V.length - 1 := by have := hinv.len; omega
    have hjV' : j < st.V.length := by have := hinv.len; omega
    rw [List.getElem?_append_left hjV', hjV, ← List.getLast?_eq_getElem?, hl] at hvj
    have hv : vj = v := by simpa using hvj
    subst hv
    refine ⟨by rw [List.length_append, hc]; have := hinv.len; simp; omega, ?_⟩
    rw [lc_append _ _ _ _ hc, hw]
    simp only [lc_cons, lc_nil_left, add_zero, smul_smul]
    rw [mul_one_div_cancel hne, one_smul]

theorem genStep_true (f : E → E) (tol : K) (st : KS K E) (vj : E) (c : List K) (w' : E)
    (hinv : KInv f st) (hl : st.V.getLast? = some vj) (hc : c.length = st.V.length)
    (hw : f vj = lc c st.V + w') (hlt : lt (sq (ip w' w')) tol = true) :
    (genStep (fieldArith ip sq ab rp lt) tol st c w').2 = true ∧
    HappyInv f (genStep (fieldArith ip sq ab rp lt) tol st c w').1 w' ∧
    (genStep (fieldArith ip sq ab rp lt) tol st c w').1.V = st.V := by
  have hg : genStep (fieldArith ip sq ab rp lt) tol st c w' = ({ st with cols := st.cols ++ [c] }, true) := by
    unfold genStep
    rw [if_pos (by rw [norm_eq]; exact hlt)]
  rw [hg]
  have hlen := hinv.len
  refine ⟨rfl, ⟨by simp [hinv.len], by dsimp only; omega, ?_, ?_⟩, rfl⟩
  · intro j c' v hcj hvj hjl
    dsimp only at hcj hvj hjl ⊢
    rcases getElem?_concat_cases hcj with ⟨hj, hcj'⟩ | ⟨hj, hcj'⟩
    · exact hinv.rel j c' v hcj' hvj
    · omega
  · intro c' v hcj hvj
    dsimp only at hcj hvj ⊢
    rcases getElem?_concat_cases hcj with ⟨hj, hcj'⟩ | ⟨hj, hcj'⟩
    · omega
    · subst hcj'
      rw [← List.getLast?_eq_getElem?, hl] at hvj
      have hv : vj = v := by simpa using hvj
      subst hv
      exact ⟨hc, hw⟩

end genstep

section loop
variable [DecidableEq K] (ip : E → E → K) (sq ab rp : K → K) (lt : K → K → Bool)

omit [Field K] [AddCommGroup E] [Module K E] in
theorem getLast?_of_length_pos {α : Type} {xs : List α} (h : 0 < xs.length) : ∃ a, xs.getLast? = some a := by
  cases hx : xs.getLast? with
  | none => rw [List.getLast?_eq_none_iff] at hx; subst hx; simp at h
  | some a => exact ⟨a, rfl⟩

/-- loop invariant of `expand_krylov_space`: not happy ⇒ `KInv`; happy ⇒ `HappyInv` with a remainder below `tol` -/
theorem expandLoop_relation (f : E → E) (tol : K) (herm : Bool) (hlt : ∀ x, lt x tol = false → x ≠ 0)
    (fuel : Nat) (st : KS K E) (hinv : KInv f st) :
    ((expandLoop (fieldArith ip sq ab rp lt) f tol herm fuel st).2 = false →
        KInv f (expandLoop (fieldArith ip sq ab rp lt) f tol herm fuel st).1) ∧
    ((expandLoop (fieldArith ip sq ab rp lt) f tol herm fuel st).2 = true →
        ∃ w', lt (sq (ip w' w')) tol = true ∧
          HappyInv f (expandLoop (fieldArith ip sq ab rp lt) f tol herm fuel st).1 w') := by
  induction fuel generalizing st with
  | zero => exact ⟨fun _ => hinv, fun h => by simp [expandLoop] at h⟩
  | succ fuel ih =>
    obtain ⟨vj, hl⟩ := getLast?_of_length_pos (xs := st.V) (by have := hinv.len; omega)
    obtain ⟨c, w', hc, hw, hs, _⟩ := step_eq_genStep ip sq ab rp lt f tol herm st vj hl
    rw [expandLoop, hs]
    cases hb : lt (sq (ip w' w')) tol with
    | true =>
      obtain ⟨h2, hI, _⟩ := genStep_true ip sq ab rp lt f tol st vj c w' hinv hl hc hw hb
      have hg : genStep (fieldArith ip sq ab rp lt) tol st c w' =
          ((genStep (fieldArith ip sq ab rp lt) tol st c w').1, true) := by rw [← h2]
      rw [hg]
      exact ⟨fun h => by simp at h, fun _ => ⟨w', hb, hI⟩⟩
    | false =>
      obtain ⟨h2, hI, _⟩ := genStep_false ip sq ab rp lt f tol st vj c w' hinv hl hc hw hb (hlt _ hb)
      have hg : genStep (fieldArith ip sq ab rp lt) tol st c w' =
          ((genStep (fieldArith ip sq ab rp lt) tol st c w').1, false) := by rw [← h2]
      rw [hg]
      exact ih _ hI

omit [Field K] [AddCommGroup E] [Module K E] [DecidableEq K] in
theorem genStep_V (A : Arith K E) (tol : K) (st : KS K E) (c : List K) (w' : E) :
    (genStep A tol st c w').1.V = st.V ∨
      (genStep A tol st c w').1.V = st.V ++ [A.smul (A.div A.one (norm A w')) w'] := by
  unfold genStep
  split
  · left; rfl
  · right; rfl

/-- every basis vector stays in any `f`-invariant submodule containing the start vectors (no assumption on
`ip`, `sq`, `lt`, `tol`; `f` need only map `S` into `S`) -/
theorem expandLoop_mem (f : E → E) (tol : K) (herm : Bool) (S : Submodule K E) (hf : ∀ x ∈ S, f x ∈ S)
    (fuel : Nat) (st : KS K E) (h : ∀ v ∈ st.V, v ∈ S) :
    ∀ v ∈ (expandLoop (fieldArith ip sq ab rp lt) f tol herm fuel st).1.V, v ∈ S := by
  induction fuel generalizing st with
  | zero => exact h
  | succ fuel ih =>
    rw [expandLoop]
    have key : ∀ v ∈ (step (fieldArith ip sq ab rp lt) f tol herm st).1.V, v ∈ S := by
      cases hx : st.V.getLast? with
      | none =>
        rw [List.getLast?_eq_none_iff] at hx
        have : (step (fieldArith ip sq ab rp lt) f tol herm st).1 = st := by
          unfold step arnoldiStep lanczosStep
          rw [hx]; simp
        rw [this]; exact h
      | some vj =>
        obtain ⟨c, w', _, hw, hs, _⟩ := step_eq_genStep ip sq ab rp lt f tol herm st vj hx
        have hvj : vj ∈ S := h _ (List.mem_of_getLast? hx)
        have hw' : w' ∈ S := by
          have : w' = f vj - lc c st.V := by rw [hw]; abel
          rw [this]
          exact Submodule.sub_mem _ (hf _ hvj) (lc_mem S _ _ h)
        rw [hs]
        rcases genStep_V (fieldArith ip sq ab rp lt) tol st c w' with h1 | h1
        · rw [h1]; exact h
        · rw [h1]
          intro v hv
          rcases List.mem_append.mp hv with hv | hv
          · exact h v hv
          · rw [List.mem_singleton] at hv
            rw [hv]
            exact Submodule.smul_mem _ _ hw'
    generalize step (fieldArith ip sq ab rp lt) f tol herm st = r at key ⊢
    obtain ⟨st', b⟩ := r
    cases b with
    | true => exact key
    | false => exact ih st' key

end loop

/-! ### `getD` / finite-sum forms of the invariants -/

theorem lc_eq_sum_of_length_le (cs : List K) (vs : List E) (n : Nat) (h : cs.length ≤ n) :
    lc cs vs = ∑ i ∈ Finset.range n, cs.getD i 0 • vs.getD i 0 := by
  induction cs generalizing vs n with
  | nil => simp
  | cons c cs ih =>
    cases n with
    | zero => simp at h
    | succ n =>
      cases vs with
      | nil => simp
      | cons v vs =>
        rw [lc_cons, Finset.sum_range_succ', ih vs n (by simpa using h), add_comm]
        simp

section forms
variable [DecidableEq K] (ip : E → E → K) (sq ab rp : K → K) (lt : K → K → Bool)

omit [DecidableEq K] in
theorem KInv.getD_rel {f : E → E} {st : KS K E} (h : KInv f st) {j : Nat} (hj : j < st.cols.length) :
    (st.cols.getD j []).length = j + 2 ∧ f (st.V.getD j 0) = lc (st.cols.getD j []) st.V := by
  have hjV : j < st.V.length := by have := h.len; omega
  have := h.rel j st.cols[j] st.V[j] (List.getElem?_eq_getElem hj) (List.getElem?_eq_getElem hjV)
  simpa [List.getD, List.getElem?_eq_getElem hj, List.getElem?_eq_getElem hjV] using this

/-- Arnoldi relation, column `j`: `f V[j] = Σ_{i ≤ j+1} H[(i,j)] V[i]` -/
theorem KInv.sum_rel {f : E → E} {st : KS K E} (h : KInv f st) {j : Nat} (hj : j < st.cols.length) :
    f (st.V.getD j 0) =
      ∑ i ∈ Finset.range (j + 2), hEntry (fieldArith ip sq ab rp lt : Arith K E) st.cols i j • st.V.getD i 0 := by
  obtain ⟨h1, h2⟩ := h.getD_rel hj
  rw [h2, lc_eq_sum_of_length_le _ _ (j + 2) h1.le]
  rfl

omit [DecidableEq K] in
theorem HappyInv.getD_rel {f : E → E} {st : KS K E} {w' : E} (h : HappyInv f st w') {j : Nat}
    (hj : j + 1 < st.V.length) :
    (st.cols.getD j []).length = j + 2 ∧ f (st.V.getD j 0) = lc (st.cols.getD j []) st.V := by
  have hjV : j < st.V.length := by omega
  have hjc : j < st.cols.length := by have := h.len; omega
  have := h.rel j st.cols[j] st.V[j] (List.getElem?_eq_getElem hjc) (List.getElem?_eq_getElem hjV) hj
  simpa [List.getD, List.getElem?_eq_getElem hjc, List.getElem?_eq_getElem hjV] using this

omit [DecidableEq K] in
theorem HappyInv.getD_last {f : E → E} {st : KS K E} {w' : E} (h : HappyInv f st w') :
    (st.cols.getD (st.V.length - 1) []).length = st.V.length ∧
      f (st.V.getD (st.V.length - 1) 0) = lc (st.cols.getD (st.V.length - 1) []) st.V + w' := by
  have hp := h.pos
  have hjV : st.V.length - 1 < st.V.length := by omega
  have hjc : st.V.length - 1 < st.cols.length := by have := h.len; omega
  have := h.last st.cols[st.V.length - 1] st.V[st.V.length - 1] (List.getElem?_eq_getElem hjc)
    (List.getElem?_eq_getElem hjV)
  simpa [List.getD, List.getElem?_eq_getElem hjc, List.getElem?_eq_getElem hjV] using this

/-- with a vanishing remainder: `f V[j] = Σ_{i<m} H[(i,j)] V[i]` for ALL `j < m = len(V)` -/
theorem HappyInv.sum_rel {f : E → E} {st : KS K E} (h : HappyInv f st 0) {j : Nat} (hj : j < st.V.length) :
    (st.cols.getD j []).length ≤ st.V.length ∧
    f (st.V.getD j 0) = lc (st.cols.getD j []) st.V ∧
    f (st.V.getD j 0) =
      ∑ i ∈ Finset.range st.V.length,
        hEntry (fieldArith ip sq ab rp lt : Arith K E) st.cols i j • st.V.getD i 0 := by
  by_cases hj' : j + 1 < st.V.length
  · obtain ⟨h1, h2⟩ := h.getD_rel hj'
    refine ⟨by omega, h2, ?_⟩
    rw [h2, lc_eq_sum_of_length_le _ _ st.V.length (by omega)]
    rfl
  · have hjl : j = st.V.length - 1 := by omega
    obtain ⟨h1, h2⟩ := h.getD_last
    rw [← hjl, add_zero] at h2
    rw [← hjl] at h1
    refine ⟨h1.le, h2, ?_⟩
    rw [h2, lc_eq_sum_of_length_le _ _ st.V.length h1.le]
    rfl

/-- entries of `square_matrix_from_dict(H, m)` -/
theorem mEntry_squareMatrix (cols : List (List K)) (m i j : Nat) (hi : i < m) (hj : j < m) :
    mEntry (fieldArith ip sq ab rp lt : Arith K E) (squareMatrix (fieldArith ip sq ab rp lt : Arith K E) cols m) i j
      = hEntry (fieldArith ip sq ab rp lt : Arith K E) cols i j := by
  simp [mEntry, squareMatrix, List.getD, hi, hj]

theorem linComb_mem (S : Submodule K E) (d : E) (cs : List K) (vs : List E) (hd : d ∈ S) (h : ∀ v ∈ vs, v ∈ S) :
    linComb (fieldArith ip sq ab rp lt) d cs vs ∈ S := by
  cases cs with
  | nil => exact hd
  | cons c cs =>
    cases vs with
    | nil => exact hd
    | cons v vs => rw [linComb_eq _ _ _ _ _ _ _ _ ⟨by simp, by simp⟩]; exact lc_mem S _ _ h

end forms

section eigs
variable [DecidableEq K] (ip : E → E → K) (sq ab rp : K → K) (lt : K → K → Bool)

/-- `T[i][j] = H[(i,j)]`, `i, j < m`, as a `Matrix` -/
def ritzMatrix (cols : List (List K)) (m : Nat) : Matrix (Fin m) (Fin m) K :=
  Matrix.of fun i j => hEntry (fieldArith ip sq ab rp lt : Arith K E) cols i j

/-- `Fin` form of `HappyInv.sum_rel` -/
theorem HappyInv.fin_rel {f : E → E} {st : KS K E} (h : HappyInv f st 0) (j : Fin st.V.length) :
    f st.V[j] = ∑ i : Fin st.V.length, ritzMatrix (E := E) ip sq ab rp lt st.cols st.V.length i j • st.V[i] := by
  have := (h.sum_rel ip sq ab rp lt j.2).2.2
  rw [Finset.sum_range] at this
  simp only [List.getD, List.getElem?_eq_getElem j.2, Option.getD_some] at this
  rw [Fin.getElem_fin, this]
  refine Finset.sum_congr rfl (fun i _ => ?_)
  simp [ritzMatrix]

omit [Field K] [AddCommGroup E] [Module K E] [DecidableEq K] in
theorem ite_error_eq_ok {ε α : Type} {c : Prop} [Decidable c] {e : ε} {X : Except ε α} {res : α}
    (h : (if c then Except.error e else X) = Except.ok res) : ¬ c ∧ X = Except.ok res := by
  split at h
  · exact absurd h (by simp)
  · exact ⟨‹_›, h⟩

/-- what a successful `eigs` returns -/
theorem eigs_ok (f : E → E) (eig : List (List K) → List (K × List K)) (tolE : K) (v0 : E) (k : Nat)
    (which : String) (ncv : Nat) (herm : Bool) (res : List (K × E))
    (h : eigs (fieldArith ip sq ab rp lt) f eig tolE v0 k which ncv herm = .ok res) :
    sq (ip v0 v0) ≠ 0 ∧
    ∀ r, r = expand (fieldArith ip sq ab rp lt) f tolE ncv herm
        { V := [((1 : K) / sq (ip v0 v0)) • v0], cols := [] } →
      ∀ m, m = (if r.2 then r.1.V.length else r.1.V.length - 1) →
        res = ((orderPairs (fieldArith ip sq ab rp lt : Arith K E) which
            (eig (squareMatrix (fieldArith ip sq ab rp lt : Arith K E) r.1.cols m))).take k).map
          (fun p => (p.1, linComb (fieldArith ip sq ab rp lt) (((1 : K) / sq (ip v0 v0)) • v0) p.2 (r.1.V.take m))) := by
  unfold eigs at h
  dsimp only at h
  obtain ⟨hz, h⟩ := ite_error_eq_ok h
  obtain ⟨_, h⟩ := ite_error_eq_ok h
  refine ⟨fun h0 => hz (by show decide (sq (ip v0 v0) = 0) = true; simpa using h0), ?_⟩
  intro r hr m hm
  subst hr hm
  simp only [Except.ok.injEq] at h
  rw [← h]
  rfl

end eigs

/-! ### structure of the Lanczos columns -/

section tri
variable [DecidableEq K] (ip : E → E → K) (sq ab rp : K → K) (lt : K → K → Bool)

/-- every column `j` is zero above the super-diagonal and its super-diagonal entry `H[(j-1,j)]` equals the
sub-diagonal entry `H[(j,j-1)]` of the previous column (a copy, NOT a conjugate) -/
def Tri (cols : List (List K)) : Prop :=
  ∀ j, j < cols.length →
    (∀ i, i + 1 < j → hEntry (fieldArith ip sq ab rp lt : Arith K E) cols i j = 0) ∧
    (1 ≤ j → hEntry (fieldArith ip sq ab rp lt : Arith K E) cols (j - 1) j
      = hEntry (fieldArith ip sq ab rp lt : Arith K E) cols j (j - 1))

theorem hEntry_append_left (cols : List (List K)) (c : List K) (i j : Nat) (hj : j < cols.length) :
    hEntry (fieldArith ip sq ab rp lt : Arith K E) (cols ++ [c]) i j
      = hEntry (fieldArith ip sq ab rp lt : Arith K E) cols i j := by
  simp only [hEntry_eq, List.getD_eq_getElem?_getD, List.getElem?_append_left hj]

theorem hEntry_append_last (cols : List (List K)) (c : List K) (i : Nat) :
    hEntry (fieldArith ip sq ab rp lt : Arith K E) (cols ++ [c]) i cols.length = c.getD i 0 := by
  simp [hEntry_eq, List.getD_eq_getElem?_getD]

theorem tri_append (cols : List (List K)) (c : List K) (h : Tri (E := E) ip sq ab rp lt cols)
    (h0 : ∀ i, i + 1 < cols.length → c.getD i 0 = 0)
    (h1 : 1 ≤ cols.length → c.getD (cols.length - 1) 0
      = hEntry (fieldArith ip sq ab rp lt : Arith K E) cols cols.length (cols.length - 1)) :
    Tri (E := E) ip sq ab rp lt (cols ++ [c]) := by
  intro j hj
  rw [List.length_append, List.length_singleton] at hj
  by_cases hjl : j < cols.length
  · obtain ⟨a, b⟩ := h j hjl
    refine ⟨fun i hi => ?_, fun hj1 => ?_⟩
    · rw [hEntry_append_left _ _ _ _ _ _ _ _ _ hjl]; exact a i hi
    · rw [hEntry_append_left _ _ _ _ _ _ _ _ _ hjl, hEntry_append_left _ _ _ _ _ _ _ _ _ (by omega)]
      exact b hj1
  · obtain rfl : j = cols.length := by omega
    refine ⟨fun i hi => ?_, fun hj1 => ?_⟩
    · rw [hEntry_append_last]; exact h0 i hi
    · rw [hEntry_append_last, hEntry_append_left _ _ _ _ _ _ _ _ _ (by omega)]
      exact h1 hj1

omit [Field K] [AddCommGroup E] [Module K E] [DecidableEq K] in
theorem genStep_shape (A : Arith K E) (tol : K) (st : KS K E) (c : List K) (w' : E) :
    ∃ t : List K, (genStep A tol st c w').1.cols = st.cols ++ [c ++ t] ∧
      ((genStep A tol st c w').2 = false → (genStep A tol st c w').1.V.length = st.V.length + 1) := by
  unfold genStep
  split
  · exact ⟨[], by simp, by simp⟩
  · exact ⟨[norm A w'], rfl, by simp⟩

/-- the Lanczos loop keeps `Tri` (ANY `f`, `ip`, `sq`, `lt`, `tol`) -/
theorem expandLoop_tri (f : E → E) (tol : K) (fuel : Nat) (st : KS K E)
    (hlen : st.cols.length + 1 = st.V.length) (h : Tri (E := E) ip sq ab rp lt st.cols) :
    Tri (E := E) ip sq ab rp lt (expandLoop (fieldArith ip sq ab rp lt) f tol true fuel st).1.cols := by
  induction fuel generalizing st with
  | zero => exact h
  | succ fuel ih =>
    obtain ⟨vj, hl⟩ := getLast?_of_length_pos (xs := st.V) (by omega)
    obtain ⟨c, w', hc, _, hs, htri⟩ := step_eq_genStep ip sq ab rp lt f tol true st vj hl
    obtain ⟨h0, h1⟩ := htri rfl
    obtain ⟨t, ht, hV⟩ := genStep_shape (fieldArith ip sq ab rp lt) tol st c w'
    have hJ : st.V.length - 1 = st.cols.length := by omega
    rw [hJ] at h0 h1
    have hnew : Tri (E := E) ip sq ab rp lt (genStep (fieldArith ip sq ab rp lt) tol st c w').1.cols := by
      rw [ht]
      refine tri_append ip sq ab rp lt _ _ h (fun i hi => ?_) (fun hj => ?_)
      · rw [List.getD_eq_getElem?_getD, List.getElem?_append_left (by omega)]
        rw [← List.getD_eq_getElem?_getD]; exact h0 i hi
      · rw [List.getD_eq_getElem?_getD, List.getElem?_append_left (by omega)]
        rw [← List.getD_eq_getElem?_getD]; exact h1 hj
    rw [expandLoop, hs]
    generalize genStep (fieldArith ip sq ab rp lt) tol st c w' = r at ht hV hnew ⊢
    obtain ⟨st', b⟩ := r
    cases b with
    | true => exact hnew
    | false =>
      refine ih st' ?_ hnew
      have := hV rfl
      dsimp only at ht this ⊢
      rw [ht, this]; simp; omega

end tri

/-! ### `expmv`: the state vector stays in an invariant submodule -/

section expmvmem
variable {σ : Type} [DecidableEq K] (ip : E → E → K) (sq ab rp : K → K) (lt : K → K → Bool)

/-- the vector and the kept Krylov state after one pass of the `while` loop -/
theorem expmvIter_state (f : E → E) (expm : List (List K) → List (List K))
    (ctrl : σ → CtrlIn K → CtrlOut K × σ) (tol : K) (herm : Bool) (ncvMax : Nat) (sgn tOut : K) (st : ES K E σ) :
    ((expmvIter (fieldArith ip sq ab rp lt) f expm ctrl tol herm ncvMax sgn tOut st).v = st.v ∨
      ∃ amps : List K, (expmvIter (fieldArith ip sq ab rp lt) f expm ctrl tol herm ncvMax sgn tOut st).v
        = linComb (fieldArith ip sq ab rp lt) st.v amps
            (expand (fieldArith ip sq ab rp lt) f tol st.ncv herm (st.ks.getD { V := [st.v], cols := [] })).1.V) ∧
    ((expmvIter (fieldArith ip sq ab rp lt) f expm ctrl tol herm ncvMax sgn tOut st).ks = none ∨
      (expmvIter (fieldArith ip sq ab rp lt) f expm ctrl tol herm ncvMax sgn tOut st).ks
        = some (expand (fieldArith ip sq ab rp lt) f tol st.ncv herm (st.ks.getD { V := [st.v], cols := [] })).1) := by
  unfold expmvIter
  dsimp only
  generalize expand (fieldArith ip sq ab rp lt) f tol st.ncv herm (st.ks.getD { V := [st.v], cols := [] }) = r
  generalize ctrl st.mem _ = d
  refine ⟨?_, ?_⟩
  · cases r.2 <;> cases d.1.accept
    · exact Or.inl rfl
    · exact Or.inr ⟨_, rfl⟩
    · exact Or.inr ⟨_, rfl⟩
    · exact Or.inr ⟨_, rfl⟩
  · cases r.2 <;> cases d.1.accept
    · exact Or.inr rfl
    · exact Or.inl rfl
    · exact Or.inl rfl
    · exact Or.inl rfl

/-- membership invariant of the `expmv` loop state -/
def ESMem (S : Submodule K E) (st : ES K E σ) : Prop :=
  st.v ∈ S ∧ ∀ ks, st.ks = some ks → ∀ v ∈ ks.V, v ∈ S

theorem expmvIter_mem (f : E → E) (expm : List (List K) → List (List K))
    (ctrl : σ → CtrlIn K → CtrlOut K × σ) (tol : K) (herm : Bool) (ncvMax : Nat) (sgn tOut : K) (st : ES K E σ)
    (S : Submodule K E) (hf : ∀ x ∈ S, f x ∈ S) (h : ESMem S st) :
    ESMem S (expmvIter (fieldArith ip sq ab rp lt) f expm ctrl tol herm ncvMax sgn tOut st) := by
  obtain ⟨h1, h2⟩ := expmvIter_state ip sq ab rp lt f expm ctrl tol herm ncvMax sgn tOut st
  have hks0 : ∀ v ∈ (st.ks.getD { V := [st.v], cols := [] }).V, v ∈ S := by
    cases hk : st.ks with
    | none => intro v hv; simp at hv; rw [hv]; exact h.1
    | some ks => exact h.2 ks hk
  have hV := expandLoop_mem ip sq ab rp lt f tol herm S hf
    (st.ncv - ((st.ks.getD { V := [st.v], cols := [] }).V.length - 1)) _ hks0
  refine ⟨?_, ?_⟩
  · rcases h1 with h1 | ⟨amps, h1⟩
    · rw [h1]; exact h.1
    · rw [h1]; exact linComb_mem ip sq ab rp lt S _ _ _ h.1 hV
  · rcases h2 with h2 | h2
    · intro ks hks; rw [h2] at hks; simp at hks
    · intro ks hks
      rw [h2] at hks
      simp only [Option.some.injEq] at hks
      rw [← hks]; exact hV

theorem expmvLoop_mem (f : E → E) (expm : List (List K) → List (List K))
    (ctrl : σ → CtrlIn K → CtrlOut K × σ) (tol : K) (herm : Bool) (ncvMax : Nat) (sgn tOut : K)
    (S : Submodule K E) (hf : ∀ x ∈ S, f x ∈ S) (fuel : Nat) (st st' : ES K E σ) (h : ESMem S st)
    (hr : expmvLoop (fieldArith ip sq ab rp lt) f expm ctrl tol herm ncvMax sgn tOut fuel st = some st') :
    ESMem S st' := by
  induction fuel generalizing st with
  | zero =>
    rw [expmvLoop] at hr
    split at hr
    · exact absurd hr (by simp)
    · obtain rfl : st = st' := by simpa using hr
      exact h
  | succ fuel ih =>
    rw [expmvLoop] at hr
    split at hr
    · exact ih _ (expmvIter_mem ip sq ab rp lt f expm ctrl tol herm ncvMax sgn tOut st S hf h) hr
    · obtain rfl : st = st' := by simpa using hr
      exact h

end expmvmem

end YModel.Krylov
