import YProofs.Lemmas.Asm
import YModel.Fusion
/-!
Splitting a sum over the dense multi-indices of several leg spaces into a sum over the combinations of
their sectors (`sectorProduct`) of sums over the positions inside the sector combination — the multi-leg
form of `sum_split`.
-/
namespace YModel
variable {R : Type} [CommRing R]

/-- locate every position of a multi-index: the sector tuple and the positions inside the sectors -/
def locAll : List LegSpace → List Nat → Option (Key × List Nat)
  | [], [] => some ([], [])
  | M :: Ms, m :: μ =>
    match locate M m, locAll Ms μ with
    | some tq, some r => some (tq.1 :: r.1, tq.2 :: r.2)
    | _, _ => none
  | _, _ => none

def liftAll (W : Key → List Nat → R) : Option (Key × List Nat) → R
  | some r => W r.1 r.2
  | none => 0

theorem sumIdx_eq_sum (shape : List Nat) (f : List Nat → R) : sumIdx shape f = ((allIdx shape).map f).sum := by
  unfold sumIdx; rw [foldl_add_eq_sum, zero_add]

theorem sum_sum_comm {α β : Type} (l1 : List α) (l2 : List β) (f : α → β → R) :
    (l1.map (fun x => (l2.map (fun y => f x y)).sum)).sum = (l2.map (fun y => (l1.map (fun x => f x y)).sum)).sum := by
  induction l1 with
  | nil => simp
  | cons x xs ih =>
    simp only [List.map_cons, List.sum_cons, ih]
    rw [← List.sum_map_add]

theorem mem_allIdx_length {shape μ : List Nat} (h : μ ∈ allIdx shape) : μ.length = shape.length := by
  induction shape generalizing μ with
  | nil => simp [allIdx] at h; subst h; rfl
  | cons d ds ih =>
    simp only [allIdx, List.mem_flatMap, List.mem_map] at h
    obtain ⟨_, _, r, hr, rfl⟩ := h
    simp [ih hr]

/-- **multi-leg sum split** -/
theorem multi_split (Ms : List LegSpace) (W : Key → List Nat → R) :
    ((allIdx (Ms.map LegSpace.dim)).map (fun μ => liftAll W (locAll Ms μ))).sum =
      ((sectorProduct Ms).map (fun d => ((allIdx d.2).map (fun q => W d.1 q)).sum)).sum := by
  induction Ms generalizing W with
  | nil => simp [allIdx, locAll, liftAll, sectorProduct]
  | cons M rest ih =>
    simp only [List.map_cons, allIdx, sectorProduct]
    rw [sum_flatMap_map, sum_flatMap_map]
    -- left: for every first position, pull the located sector out
    have hL : ∀ m0, (((allIdx (rest.map LegSpace.dim)).map (fun r => m0 :: r)).map
          (fun μ => liftAll W (locAll (M :: rest) μ))).sum =
        liftLoc (fun γ q0 => ((allIdx (rest.map LegSpace.dim)).map
          (fun μ' => liftAll (fun γs qs => W (γ :: γs) (q0 :: qs)) (locAll rest μ'))).sum) (locate M m0) := by
      intro m0
      rw [List.map_map]
      cases hloc : locate M m0 with
      | none =>
        simp only [liftLoc]
        apply List.sum_eq_zero
        intro y hy
        obtain ⟨μ', _, rfl⟩ := List.mem_map.mp hy
        simp [Function.comp, locAll, hloc, liftAll]
      | some tq =>
        obtain ⟨γ, q0⟩ := tq
        simp only [liftLoc]
        apply congrArg
        apply List.map_congr_left
        intro μ' _
        simp only [Function.comp, locAll, hloc]
        cases locAll rest μ' <;> rfl
    rw [List.map_congr_left (fun m0 _ => hL m0), sum_split]
    apply congrArg
    apply List.map_congr_left
    intro td _
    -- inner: induction hypothesis for every position of the first sector, then swap the sums
    have hI : ∀ q0, ((allIdx (rest.map LegSpace.dim)).map
          (fun μ' => liftAll (fun γs qs => W (td.1 :: γs) (q0 :: qs)) (locAll rest μ'))).sum =
        ((sectorProduct rest).map (fun d => ((allIdx d.2).map (fun qs => W (td.1 :: d.1) (q0 :: qs))).sum)).sum :=
      fun q0 => ih _
    rw [List.map_congr_left (fun q0 _ => hI q0), sum_sum_comm, List.map_map]
    apply congrArg
    apply List.map_congr_left
    intro d _
    simp only [Function.comp, allIdx]
    rw [sum_flatMap_map]
    apply congrArg
    apply List.map_congr_left
    intro q0 _
    rw [List.map_map]
    rfl

/-! ### `locAll` in terms of `locAt` / `keyAt` / `posAt` -/

theorem locAt_cons_zero (M : LegSpace) (Ms : List LegSpace) (m : Nat) (μ : List Nat) :
    locAt (M :: Ms) (m :: μ) 0 = locate M m := rfl

theorem locAt_cons_succ (M : LegSpace) (Ms : List LegSpace) (m : Nat) (μ : List Nat) (k : Nat) :
    locAt (M :: Ms) (m :: μ) (k + 1) = locAt Ms μ k := by
  simp [locAt]

theorem keyAt_cons (M : LegSpace) (Ms : List LegSpace) (m : Nat) (μ : List Nat) (n : Nat) :
    keyAt (M :: Ms) (m :: μ) (n + 1) = ((locate M m).getD ([], 0)).1 :: keyAt Ms μ n := by
  unfold keyAt
  rw [List.range_succ_eq_map]
  simp only [List.map_cons, List.map_map, locAt_cons_zero]
  congr 1

theorem posAt_cons (M : LegSpace) (Ms : List LegSpace) (m : Nat) (μ : List Nat) (n : Nat) :
    posAt (M :: Ms) (m :: μ) (n + 1) = ((locate M m).getD ([], 0)).2 :: posAt Ms μ n := by
  unfold posAt
  rw [List.range_succ_eq_map]
  simp only [List.map_cons, List.map_map, locAt_cons_zero]
  congr 1

theorem allLoc_cons (M : LegSpace) (Ms : List LegSpace) (m : Nat) (μ : List Nat) (n : Nat) :
    (List.range (n + 1)).all (fun k => (locAt (M :: Ms) (m :: μ) k).isSome) =
      ((locate M m).isSome && (List.range n).all (fun k => (locAt Ms μ k).isSome)) := by
  rw [List.range_succ_eq_map, List.all_cons, List.all_map]
  have : ((fun k => (locAt (M :: Ms) (m :: μ) k).isSome) ∘ Nat.succ) = fun k => (locAt Ms μ k).isSome := by
    funext k
    show (locAt (M :: Ms) (m :: μ) (k + 1)).isSome = _
    rw [locAt_cons_succ]
  rw [this, locAt_cons_zero]

theorem locAll_eq (Ms : List LegSpace) (μ : List Nat) (hμ : μ.length = Ms.length) :
    locAll Ms μ =
      if (List.range Ms.length).all (fun k => (locAt Ms μ k).isSome) then
        some (keyAt Ms μ Ms.length, posAt Ms μ Ms.length) else none := by
  induction Ms generalizing μ with
  | nil =>
    cases μ with
    | nil => simp [locAll, keyAt, posAt]
    | cons _ _ => simp at hμ
  | cons M rest ih =>
    cases μ with
    | nil => simp at hμ
    | cons m μ' =>
      have hμ' : μ'.length = rest.length := by simpa using hμ
      simp only [locAll, List.length_cons]
      rw [ih μ' hμ', allLoc_cons, keyAt_cons, posAt_cons]
      cases locate M m with
      | none => simp
      | some tq =>
        by_cases hall : (List.range rest.length).all (fun k => (locAt rest μ' k).isSome) = true
        · simp [hall]
        · have hall' : (List.range rest.length).all (fun k => (locAt rest μ' k).isSome) = false := by simpa using hall
          simp [hall']

end YModel
