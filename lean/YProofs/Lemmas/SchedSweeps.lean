import YProofs.Lemmas.SchedFresh
/-! Sweep-level Hoare triples for the DMRG / TDVP schedules (C09 `dmrg_reads_fresh`, C10 `tdvp_reads_fresh`). -/
set_option linter.unusedSimpArgs false
set_option linter.unusedVariables false

namespace YModel.Sched

theorem absSite_bounds (N : Nat) (to : Dir) (m : Nat) : m - 1 ≤ absSite N to m ∧ absSite N to m ≤ m := by
  unfold absSite; split <;> omega

theorem absSite_last_lt (N m : Nat) (h : m < N) : absSite N .last m = m := by
  unfold absSite; simp; omega

theorem absSite_last_ge (N m : Nat) (h : N ≤ m) : absSite N .last m = m - 1 := by
  unfold absSite; simp [h]

theorem absSite_first_pos (N m : Nat) (h : 1 ≤ m) : absSite N .first m = m - 1 := by
  unfold absSite; simp [h]

section
variable {N : Nat} {pre : Bool} {a b ad bd : Nat}

theorem T_clr1 (c : Option Nat) (n : Nat) {ad' bd' : Nat} (h1 : a ≤ n + 1) (h2 : n < b) (h3 : n < N)
    (hl : ad' ≤ ad ∨ (n + 1 ≤ ad ∧ ad' ≤ n + 2)) (hr : bd ≤ bd' ∨ (bd ≤ n + 1 ∧ n ≤ bd')) :
    Ev1 N pre (S N pre a b ad bd c) (.clr [n]) (S N pre a b ad' bd' c) := by
  apply T_clr
  · intro x hx; simp at hx; subst hx; omega
  · intro m h4 h5; exact ⟨n, by simp, by omega⟩
  · intro m h4 h5; simp; omega

theorem T_clr2 (c : Option Nat) (n : Nat) {ad' bd' : Nat} (h1 : a ≤ n + 1) (h2 : n + 1 < b) (h3 : n + 1 < N)
    (hl : ad' ≤ ad ∨ (n + 1 ≤ ad ∧ ad' ≤ n + 3)) (hr : bd ≤ bd' ∨ (bd ≤ n + 2 ∧ n ≤ bd')) :
    Ev1 N pre (S N pre a b ad bd c) (.clr [n, n + 1]) (S N pre a b ad' bd' c) := by
  apply T_clr
  · intro x hx; simp at hx; rcases hx with rfl | rfl <;> omega
  · intro m h4 h5
    by_cases e : m = n + 1
    · exact ⟨n, by simp, e⟩
    · exact ⟨n + 1, by simp, by omega⟩
  · intro m h4 h5; simp; omega

end

/-- the invariant between sweep steps: everything strictly left of `p` / from `p` on is fresh, no central block -/
abbrev I (N : Nat) (pre : Bool) (p : Nat) : St → Prop := S N pre p p p p none

theorem dmrg1_last (N : Nat) (pre : Bool) (n : Nat) (hn : n < N) :
    Tr N pre (I N pre (n + 1)) (dmrg1Step .last n) (I N pre (n + 2)) := by
  have hs := absSite_bounds N .last (n + 1)
  unfold dmrg1Step
  refine Tr.cons (T_h1 none n (by omega) (by omega) (by omega) (by omega)) ?_
  refine Tr.cons (T_w1 n (a' := n + 1) (b' := n + 1) (ad' := n + 1) (bd' := n + 1) (by omega) (by omega) (by omega) (by omega)) ?_
  refine Tr.cons (T_orth n .last (a' := n + 1) (b' := n + 1) (ad' := n + 1) (bd' := n + 1) (by omega) (by omega) (by omega) (by omega)) ?_
  refine Tr.cons (T_abs .last (n + 1) (a' := n + 1) (b' := n + 2) (ad' := n + 1) (bd' := n + 2)
    (by omega) (by omega) (by omega) (by omega)) ?_
  refine Tr.cons (T_clr1 none n (ad' := n + 2) (bd' := n + 2) (by omega) (by omega) hn (by omega) (by omega)) ?_
  refine Tr.cons (T_updLast none n (a' := n + 2) (by omega) (by omega) (by omega)) ?_
  exact Tr.nil (fun st h => h)

theorem dmrg1_first (N : Nat) (pre : Bool) (j : Nat) (hj : j < N) :
    Tr N pre (I N pre (j + 1)) (dmrg1Step .first j) (I N pre j) := by
  have hs := absSite_bounds N .first j
  unfold dmrg1Step
  refine Tr.cons (T_h1 none j (by omega) (by omega) (by omega) (by omega)) ?_
  refine Tr.cons (T_w1 j (a' := j + 1) (b' := j + 1) (ad' := j + 1) (bd' := j + 1) (by omega) (by omega) (by omega) (by omega)) ?_
  refine Tr.cons (T_orth j .first (a' := j + 1) (b' := j + 1) (ad' := j + 1) (bd' := j + 1) (by omega) (by omega) (by omega) (by omega)) ?_
  refine Tr.cons (T_abs .first j (a' := j) (b' := j + 1) (ad' := j) (bd' := j + 1)
    (by omega) (by omega) (by omega) (by omega)) ?_
  refine Tr.cons (T_clr1 none j (ad' := j) (bd' := j) (by omega) (by omega) hj (by omega) (by omega)) ?_
  refine Tr.cons (T_updFirst none j (b' := j) (by omega) (by omega) hj (by omega)) ?_
  exact Tr.nil (fun st h => h)

theorem dmrg2_last (N : Nat) (pre : Bool) (n : Nat) (hn : n + 1 < N) :
    Tr N pre (I N pre (n + 1)) (dmrg2Step .last 0 n) (I N pre (n + 2)) := by
  have hs := absSite_bounds N .last (n + 1)
  simp only [dmrg2Step, Nat.add_zero]
  refine Tr.cons (T_h2 none n (by omega) (by omega) (by omega) (by omega) (by omega)) ?_
  refine Tr.cons (T_w2 n (a' := n + 1) (b' := n + 2) (ad' := n + 1) (bd' := n + 2) (by omega) (by omega) (by omega) (by omega)) ?_
  refine Tr.cons (T_abs .last (n + 1) (a' := n + 1) (b' := n + 2) (ad' := n + 1) (bd' := n + 2)
    (by omega) (by omega) (by omega) (by omega)) ?_
  refine Tr.cons (T_clr2 none n (ad' := n + 2) (bd' := n + 2) (by omega) (by omega) hn (by omega) (by omega)) ?_
  refine Tr.cons (T_updLast none n (a' := n + 2) (by omega) (by omega) (by omega)) ?_
  exact Tr.nil (fun st h => h)

theorem dmrg2_first (N : Nat) (pre : Bool) (n : Nat) (hn : n + 1 < N) :
    Tr N pre (I N pre (n + 2)) (dmrg2Step .first 1 n) (I N pre (n + 1)) := by
  have hs := absSite_bounds N .first (n + 1)
  simp only [dmrg2Step]
  refine Tr.cons (T_h2 none n (by omega) (by omega) (by omega) (by omega) (by omega)) ?_
  refine Tr.cons (T_w2 n (a' := n + 1) (b' := n + 2) (ad' := n + 1) (bd' := n + 2) (by omega) (by omega) (by omega) (by omega)) ?_
  refine Tr.cons (T_abs .first (n + 1) (a' := n + 1) (b' := n + 2) (ad' := n + 1) (bd' := n + 2)
    (by omega) (by omega) (by omega) (by omega)) ?_
  refine Tr.cons (T_clr2 none n (ad' := n + 1) (bd' := n + 1) (by omega) (by omega) hn (by omega) (by omega)) ?_
  refine Tr.cons (T_updFirst none (n + 1) (b' := n + 1) (by omega) (by omega) hn (by omega)) ?_
  exact Tr.nil (fun st h => h)

/-- the state between sweeps: all right environments and the left edge fresh (`measure` at bond (-1,0) is legal) -/
abbrev B (N : Nat) (pre : Bool) : St → Prop := S N pre 1 0 1 1 none

theorem S_edgeL {N pre b ad bd c st} (h : S N pre 0 b ad bd c st) : S N pre 1 b (max ad 1) bd c st := by
  obtain ⟨hg, hc⟩ := h
  refine ⟨⟨?_, hg.r, ?_, hg.dr, hg.l0, hg.rN, hg.dl0, hg.drN, hg.nod⟩, hc⟩
  · intro m hm; have : m = 0 := by omega
    subst this; exact hg.l0
  · intro m hm hp
    by_cases e : m < ad
    · exact hg.dl m e hp
    · have : m = 0 := by omega
      subst this; exact hg.dl0 hp

theorem S_edgeR {N pre a ad bd c st} (h : S N pre a (N + 1) ad bd c st) : S N pre a N ad (min bd N) c st := by
  obtain ⟨hg, hc⟩ := h
  refine ⟨⟨hg.l, ?_, hg.dl, ?_, hg.l0, hg.rN, hg.dl0, hg.drN, hg.nod⟩, hc⟩
  · intro m hm hN; have : m = N := by omega
    subst this; exact hg.rN
  · intro m hm hN hp
    by_cases e : bd ≤ m
    · exact hg.dr m e hN hp
    · have : m = N := by omega
      subst this; exact hg.drN hp

theorem S_mono {N pre a b ad bd a' b' ad' bd' c st} (h : S N pre a b ad bd c st) (ha : a' ≤ a) (hb : b ≤ b')
    (had : ad' ≤ ad) (hbd : bd ≤ bd') : S N pre a' b' ad' bd' c st := ⟨h.1.mono ha hb had hbd, h.2⟩

theorem I_to_B {N pre st} (h : I N pre 0 st) : B N pre st :=
  S_mono (S_edgeL h) (by omega) (by omega) (by omega) (by omega)

theorem B_to_I1 {N pre st} (h : B N pre st) : I N pre 1 st := S_mono h (by omega) (by omega) (by omega) (by omega)

theorem I_top {N pre st} (h : I N pre (N + 1) st) : I N pre N st := by
  have h1 : S N pre N (N + 1) N (N + 1) none st := S_mono h (by omega) (by omega) (by omega) (by omega)
  exact S_mono (S_edgeR h1) (by omega) (by omega) (by omega) (by omega)

theorem dmrg1Sweep_ok (N : Nat) (pre : Bool) : Tr N pre (B N pre) (dmrg1Sweep N) (B N pre) := by
  unfold dmrg1Sweep
  have up : Tr N pre (I N pre 1) ((List.range N).flatMap (dmrg1Step .last)) (I N pre (N + 1)) := by
    have := Tr.loopUp (N := N) (pre := pre) (fun i => I N pre (i + 1)) (dmrg1Step .last) N 0
      (fun i _ hi => dmrg1_last N pre i (by omega))
    rw [← List.range_eq_range'] at this
    simpa using this
  have down : Tr N pre (I N pre N) ((List.range N).reverse.flatMap (dmrg1Step .first)) (I N pre 0) :=
    Tr.loopDown (N := N) (pre := pre) (fun i => I N pre i) (dmrg1Step .first) N (fun i hi => dmrg1_first N pre i hi)
  exact Tr.append (up.weaken (fun st h => B_to_I1 h) (fun st h => I_top h)) (down.weaken (fun st h => h) (fun st h => I_to_B h))

theorem dmrg2Sweep_ok (N : Nat) (pre : Bool) (hN : 1 ≤ N) : Tr N pre (B N pre) (dmrg2Sweep N) (B N pre) := by
  unfold dmrg2Sweep
  have up : Tr N pre (I N pre 1) ((List.range (N - 1)).flatMap (dmrg2Step .last 0)) (I N pre N) := by
    have := Tr.loopUp (N := N) (pre := pre) (fun i => I N pre (i + 1)) (dmrg2Step .last 0) (N - 1) 0
      (fun i _ hi => dmrg2_last N pre i (by omega))
    rw [← List.range_eq_range'] at this
    have e : 0 + (N - 1) + 1 = N := by omega
    simp only [e] at this
    simpa using this
  have down : Tr N pre (I N pre N) ((List.range (N - 1)).reverse.flatMap (dmrg2Step .first 1)) (I N pre 1) := by
    have := Tr.loopDown (N := N) (pre := pre) (fun i => I N pre (i + 1)) (dmrg2Step .first 1) (N - 1)
      (fun i hi => dmrg2_first N pre i (by omega))
    have e : N - 1 + 1 = N := by omega
    simp only [e] at this
    simpa using this
  have last : Tr N pre (I N pre 1) [.upd 0 .first] (B N pre) :=
    Tr.cons (T_updFirst none 0 (b' := 0) (by omega) (by omega) (by omega) (by omega)) (Tr.nil (fun st h => h))
  exact Tr.append (Tr.append (up.weaken (fun st h => B_to_I1 h) (fun st h => h)) down) last

theorem meas_ok (N : Nat) (pre : Bool) : Tr N pre (B N pre) [.meas 0] (B N pre) :=
  Tr.cons (T_meas none 0 (by omega) (by omega) (by omega)) (Tr.nil (fun st h => h))

theorem init_S (N : Nat) (pre canon : Bool) : S N pre 1 N 1 0 none (init N canon) := by
  refine ⟨⟨?_, ?_, ?_, ?_, ?_, ?_, ?_, ?_, ?_⟩, rfl⟩
  · intro m hm; have : m = 0 := by omega
    subst this; simp [FreshK, init, expect_L_zero]
  · intro m hm hN; have : m = N := by omega
    subst this; simp [FreshK, init, expect_R_N]
  · intro m _ hp; simp [init] at hp
  · intro m _ _ hp; simp [init] at hp
  · simp [FreshK, init, expect_L_zero]
  · simp [FreshK, init, expect_R_N]
  · intro hp; simp [init] at hp
  · intro hp; simp [init] at hp
  · intro _ m; simp [init]

theorem setup_ok (N : Nat) (pre : Bool) : Tr N pre (S N pre 1 N 1 0 none) (setupFirst N) (B N pre) := by
  unfold setupFirst
  have e : (List.range N).reverse.map (fun n => Ev.upd n .first) = (List.range N).reverse.flatMap (fun n => [Ev.upd n .first]) := by
    induction (List.range N).reverse with
    | nil => rfl
    | cons x xs ih => simp [ih]
  rw [e]
  have := Tr.loopDown (N := N) (pre := pre) (fun i => S N pre 1 i 1 0 none) (fun n => [Ev.upd n .first]) N
    (fun i hi => Tr.cons (T_updFirst none i (b' := i) (by omega) (by omega) hi (by omega)) (Tr.nil (fun st h => h)))
  exact this.weaken (fun st h => h) (fun st h => S_mono h (by omega) (by omega) (by omega) (by omega))

theorem dmrgSweep_ok (N : Nat) (pre : Bool) (hN : 1 ≤ N) (m : Method) : Tr N pre (B N pre) (dmrgSweep m N) (B N pre) := by
  cases m with
  | one => exact dmrg1Sweep_ok N pre
  | two => exact dmrg2Sweep_ok N pre hN
  | onetwo => exact dmrg2Sweep_ok N pre hN

theorem dmrgSweeps_ok (N : Nat) (pre : Bool) (hN : 1 ≤ N) (ms : List Method) :
    Tr N pre (B N pre) (ms.flatMap (fun m => dmrgSweep m N ++ [.meas 0])) (B N pre) := by
  induction ms with
  | nil => exact Tr.nil (fun st h => h)
  | cons m ms ih =>
    rw [List.flatMap_cons]
    exact Tr.append (Tr.append (dmrgSweep_ok N pre hN m) (meas_ok N pre)) ih

theorem dmrgTrace_ok (N : Nat) (pre : Bool) (hN : 1 ≤ N) (ms : List Method) :
    Tr N pre (S N pre 1 N 1 0 none) (dmrgTrace N ms) (B N pre) := by
  unfold dmrgTrace
  exact Tr.append (Tr.append (setup_ok N pre) (meas_ok N pre)) (dmrgSweeps_ok N pre hN ms)

/-! ### TDVP -/

theorem updA_ok (N : Nat) (pre : Bool) (n p : Nat) (s : Sgn) (h1 : n < p) (h2 : p ≤ n + 1) (hN : n + 1 ≤ N) :
    Tr N pre (I N pre p) (updA n s) (I N pre p) := by
  unfold updA
  refine Tr.cons (T_mA n s) ?_
  refine Tr.cons (T_h1 none n (by omega) (by omega) (by omega) hN) ?_
  refine Tr.cons (T_w1 n (a' := p) (b' := p) (ad' := p) (bd' := p) (by omega) (by omega) (by omega) (by omega)) ?_
  exact Tr.nil (fun st h => h)

theorem updC_ok (N : Nat) (pre : Bool) {a b ad bd : Nat} (m : Nat) (ha : m < a) (hb : b ≤ m) (hN : m ≤ N) :
    Tr N pre (S N pre a b ad bd (some m)) (updC N m) (S N pre a b ad bd (some m)) := by
  unfold updC
  split
  · exact Tr.cons (T_mC m .plus) (Tr.nil (fun st h => h))
  · exact Tr.cons (T_mC m .plus) (Tr.cons (T_h0 (some m) m ha hb hN) (Tr.cons (T_wC m) (Tr.nil (fun st h => h))))

theorem tdvp1_last (N : Nat) (pre : Bool) (n : Nat) (hn : n < N) :
    Tr N pre (I N pre (n + 1)) (tdvp1Step N .last n) (I N pre (min (n + 2) N)) := by
  have hs := absSite_bounds N .last (n + 1)
  have hs2 : min (n + 2) N ≤ absSite N .last (n + 1) + 1 := by
    rcases Nat.lt_or_ge (n + 1) N with e | e
    · rw [absSite_last_lt N (n + 1) e]; omega
    · omega
  have hs3 : absSite N .last (n + 1) + 1 ≤ min (n + 2) N := by
    rcases Nat.lt_or_ge (n + 1) N with e | e
    · rw [absSite_last_lt N (n + 1) e]; omega
    · rw [absSite_last_ge N (n + 1) e]; omega
  simp only [tdvp1Step, bondAfter]
  have t1 := updA_ok N pre n (n + 1) .minus (by omega) (by omega) (by omega)
  have t2 : Tr N pre (I N pre (n + 1)) [.orth n .last, .clr [n], .upd n .last]
      (S N pre (n + 2) (n + 1) (n + 2) (n + 1) (some (n + 1))) := by
    refine Tr.cons (T_orth n .last (a' := n + 1) (b' := n + 1) (ad' := n + 1) (bd' := n + 1) (by omega) (by omega) (by omega) (by omega)) ?_
    refine Tr.cons (T_clr1 (some (bondAfter .last n)) n (ad' := n + 2) (bd' := n + 1) (by omega) (by omega) hn (by omega) (by omega)) ?_
    refine Tr.cons (T_updLast (some (bondAfter .last n)) n (a' := n + 2) (by omega) (by omega) (by omega)) ?_
    exact Tr.nil (fun st h => h)
  have t3 : Tr N pre (S N pre (n + 2) (n + 1) (n + 2) (n + 1) (some (n + 1))) (updC N (n + 1)) _ :=
    updC_ok N pre (n + 1) (by omega) (by omega) (by omega)
  have t4 : Tr N pre (S N pre (n + 2) (n + 1) (n + 2) (n + 1) (some (n + 1))) [.abs .last] (I N pre (min (n + 2) N)) :=
    Tr.cons (T_abs .last (n + 1) (by omega) (by omega) (by omega) (by omega)) (Tr.nil (fun st h => h))
  exact Tr.append (Tr.append (Tr.append t1 t2) t3) t4

theorem tdvp1_first (N : Nat) (pre : Bool) (j : Nat) (hj : j < N) :
    Tr N pre (I N pre (j + 1)) (tdvp1Step N .first j) (I N pre (max j 1)) := by
  have hs := absSite_bounds N .first j
  have hs2 : 1 ≤ j → absSite N .first j = j - 1 := absSite_first_pos N j
  have hs3 : absSite N .first j + 1 ≤ max j 1 := by
    rcases Nat.lt_or_ge 0 j with e | e
    · rw [hs2 e]; omega
    · have : j = 0 := by omega
      subst this; simp [absSite]
  simp only [tdvp1Step, bondAfter]
  have t1 := updA_ok N pre j (j + 1) .minus (by omega) (by omega) (by omega)
  have t2 : Tr N pre (I N pre (j + 1)) [.orth j .first, .clr [j], .upd j .first]
      (S N pre (j + 1) j (j + 1) j (some j)) := by
    refine Tr.cons (T_orth j .first (a' := j + 1) (b' := j + 1) (ad' := j + 1) (bd' := j + 1) (by omega) (by omega) (by omega) (by omega)) ?_
    refine Tr.cons (T_clr1 (some (bondAfter .first j)) j (ad' := j + 1) (bd' := j) (by omega) (by omega) hj (by omega) (by omega)) ?_
    refine Tr.cons (T_updFirst (some (bondAfter .first j)) j (b' := j) (by omega) (by omega) hj (by omega)) ?_
    exact Tr.nil (fun st h => h)
  have t3 : Tr N pre (S N pre (j + 1) j (j + 1) j (some j)) (updC N j) _ :=
    updC_ok N pre j (by omega) (by omega) (by omega)
  have t4 : Tr N pre (S N pre (j + 1) j (j + 1) j (some j)) [.abs .first] (I N pre (max j 1)) :=
    Tr.cons (T_abs .first j (by omega) (by omega) (by omega) (by omega)) (Tr.nil (fun st h => h))
  exact Tr.append (Tr.append (Tr.append t1 t2) t3) t4

theorem tdvp1Sweep_ok (N : Nat) (pre : Bool) (hN : 1 ≤ N) : Tr N pre (B N pre) (tdvp1Sweep N) (B N pre) := by
  unfold tdvp1Sweep
  have up : Tr N pre (I N pre 1) ((List.range N).flatMap (tdvp1Step N .last)) (I N pre N) := by
    have := Tr.loopUp (N := N) (pre := pre) (fun i => I N pre (min (i + 1) N)) (tdvp1Step N .last) N 0
      (fun i _ hi => by
        have h := tdvp1_last N pre i (by omega)
        have e : min (i + 1) N = i + 1 := by omega
        have e' : i + 1 + 1 = i + 2 := by omega
        simp only [e, e']; exact h)
    rw [← List.range_eq_range'] at this
    have e1 : min (0 + 1) N = 1 := by omega
    have e2 : min (0 + N + 1) N = N := by omega
    simp only [e1, e2] at this
    exact this
  have down : Tr N pre (I N pre N) ((List.range N).reverse.flatMap (tdvp1Step N .first)) (I N pre 1) := by
    have := Tr.loopDown (N := N) (pre := pre) (fun i => I N pre (max i 1)) (tdvp1Step N .first) N
      (fun i hi => by
        have h := tdvp1_first N pre i hi
        have e : max (i + 1) 1 = i + 1 := by omega
        simp only [e]; exact h)
    have e1 : max N 1 = N := by omega
    have e2 : max 0 1 = 1 := by omega
    simp only [e1, e2] at this
    exact this
  have last : Tr N pre (I N pre 1) [.upd 0 .first] (B N pre) :=
    Tr.cons (T_updFirst none 0 (b' := 0) (by omega) (by omega) (by omega) (by omega)) (Tr.nil (fun st h => h))
  exact Tr.append (Tr.append (up.weaken (fun st h => B_to_I1 h) (fun st h => h)) down) last

/-- forward two-site update on `(n, n+1)` followed by the environment refresh (shared by '2site' and '12site');
the dropped derived key `DL (n+2)` is recorded as absent (`ad = n + 3`) -/
theorem aaLast_ok (N : Nat) (pre : Bool) (n : Nat) (hn : n + 1 < N) :
    Tr N pre (I N pre (n + 1)) (updAA n .minus ++ [.abs .last, .clr [n, n + 1], .upd n .last])
      (S N pre (n + 2) (n + 2) (n + 3) (n + 2) none) := by
  have hs := absSite_bounds N .last (n + 1)
  simp only [updAA, List.cons_append, List.nil_append]
  refine Tr.cons (T_mAA n .minus) ?_
  refine Tr.cons (T_h2 none n (by omega) (by omega) (by omega) (by omega) (by omega)) ?_
  refine Tr.cons (T_w2 n (a' := n + 1) (b' := n + 2) (ad' := n + 1) (bd' := n + 2) (by omega) (by omega) (by omega) (by omega)) ?_
  refine Tr.cons (T_abs .last (n + 1) (a' := n + 1) (b' := n + 2) (ad' := n + 1) (bd' := n + 2)
    (by omega) (by omega) (by omega) (by omega)) ?_
  refine Tr.cons (T_clr2 none n (ad' := n + 3) (bd' := n + 2) (by omega) (by omega) hn (by omega) (by omega)) ?_
  refine Tr.cons (T_updLast none n (a' := n + 2) (by omega) (by omega) (by omega)) ?_
  exact Tr.nil (fun st h => h)

theorem aaFirst_ok (N : Nat) (pre : Bool) (n : Nat) (hn : n + 1 < N) :
    Tr N pre (I N pre (n + 2)) (updAA n .minus ++ [.abs .first, .clr [n, n + 1], .upd (n + 1) .first])
      (S N pre (n + 1) (n + 1) (n + 1) n none) := by
  have hs := absSite_bounds N .first (n + 1)
  simp only [updAA, List.cons_append, List.nil_append]
  refine Tr.cons (T_mAA n .minus) ?_
  refine Tr.cons (T_h2 none n (by omega) (by omega) (by omega) (by omega) (by omega)) ?_
  refine Tr.cons (T_w2 n (a' := n + 1) (b' := n + 2) (ad' := n + 1) (bd' := n + 2) (by omega) (by omega) (by omega) (by omega)) ?_
  refine Tr.cons (T_abs .first (n + 1) (a' := n + 1) (b' := n + 2) (ad' := n + 1) (bd' := n + 2)
    (by omega) (by omega) (by omega) (by omega)) ?_
  refine Tr.cons (T_clr2 none n (ad' := n + 1) (bd' := n) (by omega) (by omega) hn (by omega) (by omega)) ?_
  refine Tr.cons (T_updFirst none (n + 1) (b' := n + 1) (by omega) (by omega) hn (by omega)) ?_
  exact Tr.nil (fun st h => h)

theorem tdvp2_last (N : Nat) (pre : Bool) (n : Nat) (hn : n + 1 < N) :
    Tr N pre (I N pre (n + 1)) (tdvp2Step N .last n) (I N pre (n + 2)) := by
  simp only [tdvp2Step, Nat.add_sub_cancel]
  have t1 := (aaLast_ok N pre n hn).weaken (fun st h => h)
    (fun st h => (S_mono h (by omega) (by omega) (by omega) (by omega) : I N pre (n + 2) st))
  split
  · exact Tr.append t1 (updA_ok N pre (n + 1) (n + 2) .plus (by omega) (by omega) (by omega))
  · simpa using t1

theorem tdvp2_first (N : Nat) (pre : Bool) (n : Nat) (hn : n + 1 < N) :
    Tr N pre (I N pre (n + 2)) (tdvp2Step N .first n) (I N pre (n + 1)) := by
  simp only [tdvp2Step, Nat.add_zero, Nat.sub_zero]
  have t1 := (aaFirst_ok N pre n hn).weaken (fun st h => h)
    (fun st h => (S_mono h (by omega) (by omega) (by omega) (by omega) : I N pre (n + 1) st))
  split
  · exact Tr.append t1 (updA_ok N pre n (n + 1) .plus (by omega) (by omega) (by omega))
  · simpa using t1

theorem closeSweep_ok (N : Nat) (pre : Bool) (hN : 1 ≤ N) : Tr N pre (I N pre 1) [.clr [0], .upd 0 .first] (B N pre) := by
  refine Tr.cons (T_clr1 none 0 (ad' := 1) (bd' := 1) (by omega) (by omega) (by omega) (by omega) (by omega)) ?_
  refine Tr.cons (T_updFirst none 0 (b' := 0) (by omega) (by omega) (by omega) (by omega)) ?_
  exact Tr.nil (fun st h => h)

theorem tdvp2Sweep_ok (N : Nat) (pre : Bool) (hN : 1 ≤ N) : Tr N pre (B N pre) (tdvp2Sweep N) (B N pre) := by
  unfold tdvp2Sweep
  have up : Tr N pre (I N pre 1) ((List.range (N - 1)).flatMap (tdvp2Step N .last)) (I N pre N) := by
    have := Tr.loopUp (N := N) (pre := pre) (fun i => I N pre (i + 1)) (tdvp2Step N .last) (N - 1) 0
      (fun i _ hi => tdvp2_last N pre i (by omega))
    rw [← List.range_eq_range'] at this
    have e : 0 + (N - 1) + 1 = N := by omega
    simp only [e] at this
    simpa using this
  have down : Tr N pre (I N pre N) ((List.range (N - 1)).reverse.flatMap (tdvp2Step N .first)) (I N pre 1) := by
    have := Tr.loopDown (N := N) (pre := pre) (fun i => I N pre (i + 1)) (tdvp2Step N .first) (N - 1)
      (fun i hi => tdvp2_first N pre i (by omega))
    have e : N - 1 + 1 = N := by omega
    simp only [e] at this
    simpa using this
  exact Tr.append (Tr.append (up.weaken (fun st h => B_to_I1 h) (fun st h => h)) down) (closeSweep_ok N pre hN)

/-! ### '12site': a dropped derived key stays absent while only sites are rewritten -/

/-- `P` together with the absence of one key -/
def WithAbs (P : St → Prop) (k : Key) : St → Prop := fun st => P st ∧ st.F k = none

theorem Ev1.frame {N pre} {P Q : St → Prop} {e : Ev} (h : Ev1 N pre P e Q) (k : Key)
    (hk : ∀ st, P st → st.F k = none → (next N pre st e).F k = none) :
    Ev1 N pre (WithAbs P k) e (WithAbs Q k) :=
  fun st ⟨hp, ha⟩ => ⟨(h st hp).1, (h st hp).2, hk st hp ha⟩

theorem Tr.ofEv {N pre} {P Q : St → Prop} {e : Ev} (h : Ev1 N pre P e Q) : Tr N pre P [e] Q :=
  Tr.cons h (Tr.nil (fun st hq => hq))

section
variable {N : Nat} {pre : Bool} {a b ad bd : Nat}

theorem T_clr2_absL (c : Option Nat) (n : Nat) {ad' bd' : Nat} (h1 : a ≤ n + 1) (h2 : n + 1 < b) (h3 : n + 1 < N)
    (hl : ad' ≤ ad ∨ (n + 1 ≤ ad ∧ ad' ≤ n + 3)) (hr : bd ≤ bd' ∨ (bd ≤ n + 2 ∧ n ≤ bd')) :
    Ev1 N pre (S N pre a b ad bd c) (.clr [n, n + 1]) (WithAbs (S N pre a b ad' bd' c) (.DL (n + 2))) := by
  intro st hS
  obtain ⟨ok, hq⟩ := T_clr2 c n h1 h2 h3 hl hr st hS
  refine ⟨ok, hq, ?_⟩
  obtain ⟨_, _, _, hF⟩ := E_clr N pre st [n, n + 1]
  rw [hF]
  cases pre with
  | true => simp [clrKeys]
  | false =>
    split
    · rfl
    · exact (hS.1.nod rfl (n + 2)).1

theorem T_clr2_absR (c : Option Nat) (n : Nat) {ad' bd' : Nat} (h1 : a ≤ n + 1) (h2 : n + 1 < b) (h3 : n + 1 < N)
    (hl : ad' ≤ ad ∨ (n + 1 ≤ ad ∧ ad' ≤ n + 3)) (hr : bd ≤ bd' ∨ (bd ≤ n + 2 ∧ n ≤ bd')) :
    Ev1 N pre (S N pre a b ad bd c) (.clr [n, n + 1]) (WithAbs (S N pre a b ad' bd' c) (.DR n)) := by
  intro st hS
  obtain ⟨ok, hq⟩ := T_clr2 c n h1 h2 h3 hl hr st hS
  refine ⟨ok, hq, ?_⟩
  obtain ⟨_, _, _, hF⟩ := E_clr N pre st [n, n + 1]
  rw [hF]
  cases pre with
  | true => simp [clrKeys]
  | false =>
    split
    · rfl
    · exact (hS.1.nod rfl n).2

theorem T_updLast_abs (c : Option Nat) (n : Nat) {a' : Nat} (k : Key) (hk : k ≠ .L (n + 1)) (hn : n < a) (hnd : n < ad)
    (ha' : a' ≤ max a (n + 2)) :
    Ev1 N pre (WithAbs (S N pre a b ad bd c) k) (.upd n .last) (WithAbs (S N pre a' b ad bd c) k) := by
  apply (T_updLast c n hn hnd ha').frame k
  intro st hS ha
  obtain ⟨_, _, _, hF⟩ := E_updLast hS.1 n hn hnd
  rw [hF, setF_other _ _ _ _ hk]; exact ha

theorem T_updFirst_abs (c : Option Nat) (n : Nat) {b' : Nat} (k : Key) (hk : k ≠ .R n) (hn : b ≤ n + 1) (hnd : bd ≤ n + 1)
    (hN : n < N) (hb' : min b n ≤ b') :
    Ev1 N pre (WithAbs (S N pre a b ad bd c) k) (.upd n .first) (WithAbs (S N pre a b' ad bd c) k) := by
  apply (T_updFirst c n hn hnd hN hb').frame k
  intro st hS ha
  obtain ⟨_, _, _, hF⟩ := E_updFirst hS.1 n hn hnd hN
  rw [hF, setF_other _ _ _ _ hk]; exact ha

theorem T_enl_abs (c : Option Nat) (m : Nat) (r : Bool) (k : Key) :
    Ev1 N pre (WithAbs (S N pre a b ad bd c) k) (.enl m r) (WithAbs (S N pre a b ad bd c) k) := by
  apply (T_enl c m r).frame k
  intro st _ ha
  have : next N pre st (.enl m r) = st := rfl
  rw [this]; exact ha

theorem T_orth_abs (n : Nat) (to : Dir) (k : Key) {a' b' ad' bd' : Nat} (h1 : a' ≤ min a (n + 1)) (h2 : max b (n + 1) ≤ b')
    (h3 : ad' ≤ min ad (n + 1)) (h4 : max bd (n + 1) ≤ bd') :
    Ev1 N pre (WithAbs (S N pre a b ad bd none) k) (.orth n to)
      (WithAbs (S N pre a' b' ad' bd' (some (bondAfter to n))) k) := by
  apply (T_orth n to h1 h2 h3 h4).frame k
  intro st _ ha
  rw [(E_orth N pre st n to).2.2.1]; exact ha

theorem absL_extend {c : Option Nat} {st : St} (h : WithAbs (S N pre a b ad bd c) (.DL ad) st) :
    S N pre a b (ad + 1) bd c st := by
  obtain ⟨⟨hg, hc⟩, ha⟩ := h
  refine ⟨hg.extend (bd' := bd) ?_ ?_, hc⟩
  · intro m h1 h2; have : m = ad := by omega
    subst this; exact ha
  · intro m h1 h2; omega

theorem absR_extend {c : Option Nat} {st : St} {m : Nat} (h : WithAbs (S N pre a b ad bd c) (.DR m) st) (hm : m + 1 = bd) :
    S N pre a b ad m c st := by
  obtain ⟨⟨hg, hc⟩, ha⟩ := h
  refine ⟨hg.extend (ad' := ad) ?_ ?_, hc⟩
  · intro k h1 h2; omega
  · intro k h1 h2; have : k = m := by omega
    subst this; exact ha

end

theorem aaLastZ_ok (N : Nat) (pre : Bool) (n m : Nat) (e : Bool) (hn : n + 1 < N) :
    Tr N pre (I N pre (n + 1)) (updAA n .minus ++ [.abs .last, .clr [n, n + 1], .upd n .last, .enl m e])
      (WithAbs (I N pre (n + 2)) (.DL (n + 2))) := by
  have hs := absSite_bounds N .last (n + 1)
  simp only [updAA, List.cons_append, List.nil_append]
  refine Tr.cons (T_mAA n .minus) ?_
  refine Tr.cons (T_h2 none n (by omega) (by omega) (by omega) (by omega) (by omega)) ?_
  refine Tr.cons (T_w2 n (a' := n + 1) (b' := n + 2) (ad' := n + 1) (bd' := n + 2) (by omega) (by omega) (by omega) (by omega)) ?_
  refine Tr.cons (T_abs .last (n + 1) (a' := n + 1) (b' := n + 2) (ad' := n + 1) (bd' := n + 2)
    (by omega) (by omega) (by omega) (by omega)) ?_
  refine Tr.cons (T_clr2_absL none n (ad' := n + 2) (bd' := n + 2) (by omega) (by omega) hn (by omega) (by omega)) ?_
  refine Tr.cons (T_updLast_abs none n (a' := n + 2) (.DL (n + 2)) (by simp) (by omega) (by omega) (by omega)) ?_
  refine Tr.cons (T_enl_abs none m e (.DL (n + 2))) ?_
  exact Tr.nil (fun st h => h)

theorem aaFirstZ_ok (N : Nat) (pre : Bool) (n m : Nat) (e : Bool) (hn : n + 1 < N) :
    Tr N pre (I N pre (n + 2)) (updAA n .minus ++ [.abs .first, .clr [n, n + 1], .upd (n + 1) .first, .enl m e])
      (WithAbs (I N pre (n + 1)) (.DR n)) := by
  have hs := absSite_bounds N .first (n + 1)
  simp only [updAA, List.cons_append, List.nil_append]
  refine Tr.cons (T_mAA n .minus) ?_
  refine Tr.cons (T_h2 none n (by omega) (by omega) (by omega) (by omega) (by omega)) ?_
  refine Tr.cons (T_w2 n (a' := n + 1) (b' := n + 2) (ad' := n + 1) (bd' := n + 2) (by omega) (by omega) (by omega) (by omega)) ?_
  refine Tr.cons (T_abs .first (n + 1) (a' := n + 1) (b' := n + 2) (ad' := n + 1) (bd' := n + 2)
    (by omega) (by omega) (by omega) (by omega)) ?_
  refine Tr.cons (T_clr2_absR none n (ad' := n + 1) (bd' := n + 1) (by omega) (by omega) hn (by omega) (by omega)) ?_
  refine Tr.cons (T_updFirst_abs none (n + 1) (b' := n + 1) (.DR n) (by simp) (by omega) (by omega) hn (by omega)) ?_
  refine Tr.cons (T_enl_abs none m e (.DR n)) ?_
  exact Tr.nil (fun st h => h)

/-- '12site', forward, after a two-site update, `enlarge_bond` false: the site is finished like in '1site' -/
theorem fwdTwoFalse_ok (N : Nat) (pre : Bool) (n : Nat) (hn : n < N) :
    Tr N pre (WithAbs (I N pre (n + 1)) (.DL (n + 1))) ([.orth n .last, .upd n .last] ++ updC N (n + 1) ++ [.abs .last])
      (I N pre (min (n + 2) N)) := by
  have hs := absSite_bounds N .last (n + 1)
  have hs2 : min (n + 2) N ≤ absSite N .last (n + 1) + 1 := by
    rcases Nat.lt_or_ge (n + 1) N with e | e
    · rw [absSite_last_lt N (n + 1) e]; omega
    · omega
  have hs3 : absSite N .last (n + 1) + 1 ≤ min (n + 2) N := by
    rcases Nat.lt_or_ge (n + 1) N with e | e
    · rw [absSite_last_lt N (n + 1) e]; omega
    · rw [absSite_last_ge N (n + 1) e]; omega
  have t1 : Tr N pre (WithAbs (I N pre (n + 1)) (.DL (n + 1))) [.orth n .last]
      (S N pre (n + 1) (n + 1) (n + 2) (n + 1) (some (n + 1))) :=
    (Tr.ofEv (T_orth_abs n .last (.DL (n + 1)) (a' := n + 1) (b' := n + 1) (ad' := n + 1) (bd' := n + 1)
      (by omega) (by omega) (by omega) (by omega))).weaken (fun st h => h) (fun st h => absL_extend h)
  have t2 : Tr N pre (S N pre (n + 1) (n + 1) (n + 2) (n + 1) (some (n + 1))) [.upd n .last]
      (S N pre (n + 2) (n + 1) (n + 2) (n + 1) (some (n + 1))) :=
    Tr.ofEv (T_updLast (some (n + 1)) n (a' := n + 2) (by omega) (by omega) (by omega))
  have t3 : Tr N pre (S N pre (n + 2) (n + 1) (n + 2) (n + 1) (some (n + 1))) (updC N (n + 1)) _ :=
    updC_ok N pre (n + 1) (by omega) (by omega) (by omega)
  have t4 : Tr N pre (S N pre (n + 2) (n + 1) (n + 2) (n + 1) (some (n + 1))) [.abs .last] (I N pre (min (n + 2) N)) :=
    Tr.ofEv (T_abs .last (n + 1) (by omega) (by omega) (by omega) (by omega))
  exact Tr.append (Tr.append (Tr.append t1 t2) t3) t4

theorem bwdTwoFalse_ok (N : Nat) (pre : Bool) (n : Nat) (hn : n < N) :
    Tr N pre (WithAbs (I N pre (n + 1)) (.DR n)) ([.orth n .first, .upd n .first] ++ updC N n ++ [.abs .first])
      (I N pre (max n 1)) := by
  have hs := absSite_bounds N .first n
  have hs3 : absSite N .first n + 1 ≤ max n 1 := by
    rcases Nat.lt_or_ge 0 n with e | e
    · rw [absSite_first_pos N n e]; omega
    · have : n = 0 := by omega
      subst this; simp [absSite]
  have t1 : Tr N pre (WithAbs (I N pre (n + 1)) (.DR n)) [.orth n .first]
      (S N pre (n + 1) (n + 1) (n + 1) n (some n)) :=
    (Tr.ofEv (T_orth_abs n .first (.DR n) (a' := n + 1) (b' := n + 1) (ad' := n + 1) (bd' := n + 1)
      (by omega) (by omega) (by omega) (by omega))).weaken (fun st h => h) (fun st h => absR_extend h rfl)
  have t2 : Tr N pre (S N pre (n + 1) (n + 1) (n + 1) n (some n)) [.upd n .first]
      (S N pre (n + 1) n (n + 1) n (some n)) :=
    Tr.ofEv (T_updFirst (some n) n (b' := n) (by omega) (by omega) hn (by omega))
  have t3 : Tr N pre (S N pre (n + 1) n (n + 1) n (some n)) (updC N n) _ :=
    updC_ok N pre n (by omega) (by omega) (by omega)
  have t4 : Tr N pre (S N pre (n + 1) n (n + 1) n (some n)) [.abs .first] (I N pre (max n 1)) :=
    Tr.ofEv (T_abs .first n (by omega) (by omega) (by omega) (by omega))
  exact Tr.append (Tr.append (Tr.append t1 t2) t3) t4

theorem enlOut_true' {N m : Nat} {o : List Bool} (h : (enlOut N m o).1 = true) : m ≠ 0 ∧ m < N := by
  cases o with
  | nil => simp [enlOut] at h
  | cons b o' =>
    simp only [enlOut] at h
    split at h
    · simp at h
    · omega

theorem fwd12_ok (N : Nat) (pre : Bool) : ∀ (k n : Nat) (two : Bool) (o : List Bool), n + k = N → (two = true → 1 ≤ n) →
    Tr N pre (if two then I N pre n else I N pre (min (n + 1) N)) (tdvp12Fwd N k two o).1 (I N pre N) := by
  intro k
  induction k with
  | zero =>
    intro n two o hn _
    have : n = N := by omega
    subst this
    cases two
    · simp only [tdvp12Fwd, Bool.false_eq_true, ↓reduceIte]
      have e : min (n + 1) n = n := by omega
      rw [e]; exact Tr.nil (fun st h => h)
    · simp only [tdvp12Fwd, ↓reduceIte]; exact Tr.nil (fun st h => h)
  | succ k ih =>
    intro n two o hn htwo
    have hN : N - (k + 1) = n := by omega
    rcases hE : enlOut N (n + 1) o with ⟨e, o1⟩
    have he : e = true → n + 1 < N := by
      intro h; have := enlOut_true' (N := N) (m := n + 1) (o := o) (by rw [hE]; exact h); exact this.2
    have emin : min (n + 1) N = n + 1 := by omega
    cases two with
    | false =>
      simp only [Bool.false_eq_true, ↓reduceIte, emin]
      cases e with
      | true =>
        rcases hR : tdvp12Fwd N k true o1 with ⟨rest, o2⟩
        have r := ih (n + 1) true o1 (by omega) (by intro _; omega)
        rw [hR] at r
        simp only [↓reduceIte] at r
        simp only [tdvp12Fwd, hN, hE, Bool.not_false, ↓reduceIte, hR]
        exact Tr.cons (T_enl none (n + 1) true) r
      | false =>
        rcases hR : tdvp12Fwd N k false o1 with ⟨rest, o2⟩
        have r := ih (n + 1) false o1 (by omega) (by intro h; cases h)
        rw [hR] at r
        simp only [Bool.false_eq_true, ↓reduceIte] at r
        simp only [tdvp12Fwd, hN, hE, Bool.not_false, ↓reduceIte, hR, Bool.false_eq_true]
        exact Tr.cons (T_enl none (n + 1) false) (Tr.append (tdvp1_last N pre n (by omega)) r)
    | true =>
      obtain ⟨n', rfl⟩ : ∃ n', n = n' + 1 := ⟨n - 1, by have := htwo rfl; omega⟩
      simp only [↓reduceIte]
      have head := aaLastZ_ok N pre n' (n' + 1 + 1) e (by omega)
      cases e with
      | true =>
        rcases hR : tdvp12Fwd N k true o1 with ⟨rest, o2⟩
        have r := ih (n' + 1 + 1) true o1 (by omega) (by intro _; omega)
        rw [hR] at r
        simp only [↓reduceIte] at r
        simp only [tdvp12Fwd, hN, hE, Bool.not_true, Bool.false_eq_true, ↓reduceIte, hR, Nat.add_sub_cancel]
        have mid := updA_ok N pre (n' + 1) (n' + 2) .plus (by omega) (by omega) (by have := he rfl; omega)
        exact Tr.append (Tr.append (head.weaken (fun st h => h) (fun st h => h.1)) mid) r
      | false =>
        rcases hR : tdvp12Fwd N k false o1 with ⟨rest, o2⟩
        have r := ih (n' + 1 + 1) false o1 (by omega) (by intro h; cases h)
        rw [hR] at r
        simp only [Bool.false_eq_true, ↓reduceIte] at r
        simp only [tdvp12Fwd, hN, hE, Bool.not_true, Bool.false_eq_true, ↓reduceIte, hR, Nat.add_sub_cancel]
        have mid := fwdTwoFalse_ok N pre (n' + 1) (by omega)
        have := Tr.append (Tr.append head mid) r
        simpa [List.append_assoc] using this

theorem bwd12_ok (N : Nat) (pre : Bool) : ∀ (k : Nat) (two : Bool) (o : List Bool), k ≤ N → (two = true → k + 1 ≤ N) →
    Tr N pre (if two then I N pre (k + 1) else I N pre (max k 1)) (tdvp12Bwd N k two o).1 (I N pre 1) := by
  intro k
  induction k with
  | zero =>
    intro two o _ _
    cases two
    · simp only [tdvp12Bwd, Bool.false_eq_true, ↓reduceIte]; exact Tr.nil (fun st h => h)
    · simp only [tdvp12Bwd, ↓reduceIte]; exact Tr.nil (fun st h => h)
  | succ k ih =>
    intro two o hk htwo
    rcases hE : enlOut N k o with ⟨e, o1⟩
    have he : e = true → k ≠ 0 := by
      intro h; have := enlOut_true' (N := N) (m := k) (o := o) (by rw [hE]; exact h); exact this.1
    have emax : max (k + 1) 1 = k + 1 := by omega
    cases two with
    | false =>
      simp only [Bool.false_eq_true, ↓reduceIte, emax]
      cases e with
      | true =>
        rcases hR : tdvp12Bwd N k true o1 with ⟨rest, o2⟩
        have r := ih true o1 (by omega) (by intro _; omega)
        rw [hR] at r
        simp only [↓reduceIte] at r
        simp only [tdvp12Bwd, hE, Bool.not_false, ↓reduceIte, hR]
        exact Tr.cons (T_enl none k true) r
      | false =>
        rcases hR : tdvp12Bwd N k false o1 with ⟨rest, o2⟩
        have r := ih false o1 (by omega) (by intro h; cases h)
        rw [hR] at r
        simp only [Bool.false_eq_true, ↓reduceIte] at r
        simp only [tdvp12Bwd, hE, Bool.not_false, ↓reduceIte, hR, Bool.false_eq_true]
        exact Tr.cons (T_enl none k false) (Tr.append (tdvp1_first N pre k (by omega)) r)
    | true =>
      simp only [↓reduceIte]
      have hk2 : k + 1 < N := by have := htwo rfl; omega
      have head := aaFirstZ_ok N pre k k e hk2
      cases e with
      | true =>
        rcases hR : tdvp12Bwd N k true o1 with ⟨rest, o2⟩
        have r := ih true o1 (by omega) (by intro _; omega)
        rw [hR] at r
        simp only [↓reduceIte] at r
        simp only [tdvp12Bwd, hE, Bool.not_true, Bool.false_eq_true, ↓reduceIte, hR]
        have mid := updA_ok N pre k (k + 1) .plus (by omega) (by omega) (by omega)
        exact Tr.append (Tr.append (head.weaken (fun st h => h) (fun st h => h.1)) mid) r
      | false =>
        rcases hR : tdvp12Bwd N k false o1 with ⟨rest, o2⟩
        have r := ih false o1 (by omega) (by intro h; cases h)
        rw [hR] at r
        simp only [Bool.false_eq_true, ↓reduceIte] at r
        simp only [tdvp12Bwd, hE, Bool.not_true, Bool.false_eq_true, ↓reduceIte, hR]
        have mid := bwdTwoFalse_ok N pre k (by omega)
        have := Tr.append (Tr.append head mid) r
        simpa [List.append_assoc] using this

theorem tdvp12Sweep_ok (N : Nat) (pre : Bool) (hN : 1 ≤ N) (o : List Bool) :
    Tr N pre (B N pre) (tdvp12Sweep N o).1 (B N pre) := by
  rcases hA : tdvp12Fwd N N false o with ⟨a, o1⟩
  rcases hB : tdvp12Bwd N N false o1 with ⟨b, o2⟩
  have up := fwd12_ok N pre N 0 false o (by omega) (by intro h; cases h)
  have down := bwd12_ok N pre N false o1 (by omega) (by intro h; cases h)
  rw [hA] at up
  rw [hB] at down
  have e1 : min (0 + 1) N = 1 := by omega
  have e2 : max N 1 = N := by omega
  simp only [Bool.false_eq_true, ↓reduceIte, e1, e2] at up down
  simp only [tdvp12Sweep, hA, hB]
  exact Tr.append (Tr.append (up.weaken (fun st h => B_to_I1 h) (fun st h => h)) down) (closeSweep_ok N pre hN)

theorem tdvpSweep_ok (N : Nat) (pre : Bool) (hN : 1 ≤ N) (m : Method) (o : List Bool) :
    Tr N pre (B N pre) (tdvpSweep m N o).1 (B N pre) := by
  cases m with
  | one => exact tdvp1Sweep_ok N pre hN
  | two => exact tdvp2Sweep_ok N pre hN
  | onetwo => exact tdvp12Sweep_ok N pre hN o

theorem tdvpSweeps_ok (N : Nat) (pre : Bool) (hN : 1 ≤ N) (m : Method) : ∀ (k : Nat) (o : List Bool),
    Tr N pre (B N pre) (tdvpSweeps m N k o) (B N pre) := by
  intro k
  induction k with
  | zero => intro o; exact Tr.nil (fun st h => h)
  | succ k ih =>
    intro o
    rcases hA : tdvpSweep m N o with ⟨a, o1⟩
    have h1 := tdvpSweep_ok N pre hN m o
    rw [hA] at h1
    simp only [tdvpSweeps, hA]
    exact Tr.append h1 (ih o1)

theorem tdvpTrace_ok (N : Nat) (pre : Bool) (hN : 1 ≤ N) (m : Method) (k : Nat) (o : List Bool) :
    Tr N pre (S N pre 1 N 1 0 none) (tdvpTrace m N k o) (B N pre) := by
  unfold tdvpTrace
  exact Tr.append (setup_ok N pre) (tdvpSweeps_ok N pre hN m k o)

/-! ### the canonisation prefix of `dmrg_` (executed before the environment is used) -/

def F0 (N : Nat) : Key → Option Stamp := fun k => if k = .L 0 ∨ k = .R N then some [] else none

/-- only the two edge environments exist, no central block -/
def J (N : Nat) (st : St) : Prop := st.F = F0 N ∧ st.pC = none

theorem J_init (N : Nat) (canon : Bool) : J N (init N canon) := ⟨rfl, rfl⟩

theorem J_S {N pre st} (h : J N st) : S N pre 1 N 1 0 none st := by
  obtain ⟨hF, hp⟩ := h
  refine ⟨⟨?_, ?_, ?_, ?_, ?_, ?_, ?_, ?_, ?_⟩, hp⟩
  · intro m hm; have : m = 0 := by omega
    subst this; simp [FreshK, hF, F0, expect_L_zero]
  · intro m hm hN; have : m = N := by omega
    subst this; simp [FreshK, hF, F0, expect_R_N]
  · intro m _ hp; simp [hF, F0] at hp
  · intro m _ _ hp; simp [hF, F0] at hp
  · simp [FreshK, hF, F0, expect_L_zero]
  · simp [FreshK, hF, F0, expect_R_N]
  · intro hp; simp [hF, F0] at hp
  · intro hp; simp [hF, F0] at hp
  · intro _ m; simp [hF, F0]

theorem canonize_ok (N : Nat) (pre : Bool) : Tr N pre (J N) (canonizeFirst N) (J N) := by
  unfold canonizeFirst
  have first : Ev1 N pre (J N) (.abs .first) (J N) := by
    intro st ⟨hF, hp⟩
    have : next N pre st (.abs .first) = st := by simp [next, applyRaw, effOf, hp]
    rw [this]
    exact ⟨by simp [okEv, applyRaw, effOf, hp], hF, hp⟩
  have step : ∀ n, Tr N pre (J N) [.orth n .first, .abs .first] (J N) := by
    intro n
    refine Tr.cons (R := fun st => st.F = F0 N ∧ st.pC = some n) ?_ (Tr.cons ?_ (Tr.nil (fun st h => h)))
    · intro st ⟨hF, hp⟩
      obtain ⟨ok, _, hF', hp'⟩ := E_orth N pre st n .first
      exact ⟨by rw [ok, hp]; rfl, by rw [hF', hF], hp'⟩
    · intro st ⟨hF, hp⟩
      obtain ⟨ok, _, hF', hp'⟩ := E_abs N pre st .first n hp
      exact ⟨ok, by rw [hF', hF], hp'⟩
  exact Tr.cons first (Tr.loopDown (N := N) (pre := pre) (fun _ => J N) (fun n => [.orth n .first, .abs .first]) N
    (fun i _ => step i))

/-- the whole event trace of `_dmrg_`: canonisation (if `psi.is_canonical(to='first')` is false), `setup_`, the initial
`measure`, then for every sweep its method's sweep and the `measure` that produces the reported energy -/
def dmrgRun (N : Nat) (canon : Bool) (methods : List Method) : List Ev :=
  (if canon then [] else canonizeFirst N) ++ dmrgTrace N methods

theorem dmrgRun_ok (N : Nat) (hN : 1 ≤ N) (pre canon : Bool) (methods : List Method) :
    Tr N pre (J N) (dmrgRun N canon methods) (B N pre) := by
  unfold dmrgRun
  cases canon with
  | true => exact (dmrgTrace_ok N pre hN methods).weaken (fun st h => J_S h) (fun st h => h)
  | false =>
    exact Tr.append (canonize_ok N pre) ((dmrgTrace_ok N pre hN methods).weaken (fun st h => J_S h) (fun st h => h))

theorem fresh_of_FreshK {N : Nat} {st : St} {k : Key} (h : FreshK N st.ver st.F k) : st.fresh N k = true := by
  unfold FreshK at h
  simp [St.fresh, h]

end YModel.Sched
